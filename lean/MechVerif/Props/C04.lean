/-
C04 — Indexed assignment changes exactly the addressed elements.
Model: `Model/Assign.lean` (the in-place write loops, aborting at the first failing
element), spec: `Spec/Assign.lean` (`update1`, `update2`: all writes or none).
-/
import MechVerif.Lemmas.Assign
import MechVerif.Gen.AssignKernels
namespace MechVerif.Assign
open MechVerif.Num MechVerif.Mat MechVerif.Index

variable {α : Type}

theorem nodup_map_pred (ix : List Nat) (h : ∀ i ∈ ix, 1 ≤ i) (hnd : ix.Nodup) :
    (ix.map (· - 1)).Nodup := by
  induction ix with
  | nil => simp
  | cons a as ih =>
    obtain ⟨ha, has⟩ := List.nodup_cons.mp hnd
    simp only [List.map_cons, List.nodup_cons]
    refine ⟨?_, ih (fun i hi => h i (List.mem_cons_of_mem _ hi)) has⟩
    intro hm
    obtain ⟨b, hb, hbe⟩ := List.mem_map.mp hm
    have h1 := h a List.mem_cons_self
    have h2 := h b (List.mem_cons_of_mem _ hb)
    have : b = a := by omega
    rw [this] at hb; exact ha hb

theorem linTarget_ok (m : Mat α) (i p : Nat) :
    linTarget m i = .ok p ↔ (1 ≤ i ∧ i ≤ m.rows * m.cols ∧ p = i - 1) := by
  unfold linTarget
  constructor
  · intro h
    obtain ⟨k, hk, h⟩ := bindE_ok.mp h
    obtain ⟨h1, h2⟩ := pred1_ok.mp hk
    by_cases hlt : k < m.rows * m.cols
    · rw [if_pos hlt] at h; cases h; exact ⟨h1, by omega, h2⟩
    · rw [if_neg hlt] at h; cases h
  · intro ⟨h1, h2, h3⟩
    have e1 : pred1 i = .ok (i - 1) := pred1_ok.mpr ⟨h1, rfl⟩
    rw [e1]; simp only [bindE]
    rw [if_pos (by omega), h3]

/-- Frame condition, on success and on failure alike: the shape is unchanged, the
    number of elements is unchanged, and every position that no selector index
    addresses keeps its value. -/
theorem C04_assign_frame (f : α → α → Except Err α) (m : Mat α) (s : Sel) (src : Operand α)
    (ix : List Nat) (hix : selIxs s (m.rows * m.cols) = .ok ix) (q : Nat)
    (hq : ∀ i ∈ ix, i - 1 ≠ q) :
    (assign1 f m s src).1.rows = m.rows ∧ (assign1 f m s src).1.cols = m.cols ∧
    (assign1 f m s src).1.data.length = m.data.length ∧
    (assign1 f m s src).1.data[q]? = m.data[q]? := by
  have e : assign1 f m s src =
      ({ m with data := (scatter f (srcAt src) (ix.map (linTarget m)) 0 m.data).1 },
       (scatter f (srcAt src) (ix.map (linTarget m)) 0 m.data).2) := by
    simp only [assign1, hix]
  rw [e]
  refine ⟨rfl, rfl, scatter_length _ _ _ _ _, ?_⟩
  apply scatter_frame
  intro p hp
  obtain ⟨i, hi, hpi⟩ := List.mem_map.mp hp
  obtain ⟨_, _, h3⟩ := (linTarget_ok m i p).mp hpi
  rw [h3]; exact hq i hi

/-- A successful assignment through distinct in-range linear indices (an index vector,
    a range, `:` or a mask) sets the j-th addressed element to `f old (j-th source
    element)` — `f` being plain replacement for `=` and the operator for `op=`. -/
theorem C04_assign_writes_addressed (f : α → α → Except Err α) (m : Mat α) (s : Sel) (src : Operand α)
    (ix : List Nat) (hix : selIxs s (m.rows * m.cols) = .ok ix) (hnd : ix.Nodup)
    (hr : inRange ix (m.rows * m.cols)) (m' : Mat α) (h : assign1 f m s src = (m', .ok ())) :
    ∀ j i, ix[j]? = some i → ∃ old v new, m.data[i - 1]? = some old ∧ srcAt src j = .ok v ∧
      f old v = .ok new ∧ m'.data[i - 1]? = some new := by
  have e : assign1 f m s src =
      ({ m with data := (scatter f (srcAt src) (ix.map (linTarget m)) 0 m.data).1 },
       (scatter f (srcAt src) (ix.map (linTarget m)) 0 m.data).2) := by
    simp only [assign1, hix]
  rw [e] at h
  have hmap : ix.map (linTarget m) = (ix.map (· - 1)).map Except.ok := by
    rw [List.map_map]
    apply List.map_congr_left
    intro i hi
    have := hr i hi
    exact (linTarget_ok m i (i - 1)).mpr ⟨this.1, this.2, rfl⟩
  rw [hmap] at h
  have hnd' : (ix.map (· - 1)).Nodup := nodup_map_pred ix (fun i hi => (hr i hi).1) hnd
  have h1 := congrArg (fun (x : Mat α × Except Err Unit) => x.1.data) h
  have h2 := congrArg (fun (x : Mat α × Except Err Unit) => x.2) h
  simp only at h1 h2
  have hd : scatter f (srcAt src) ((ix.map (· - 1)).map Except.ok) 0 m.data = (m'.data, .ok ()) :=
    Prod.ext h1 h2
  intro j i hj
  have hj' : (ix.map (· - 1))[j]? = some (i - 1) := by simp [hj]
  obtain ⟨old, v, new, g1, g2, g3, g4⟩ := scatter_writes f (srcAt src) _ 0 m.data m'.data hnd' hd j (i - 1) hj'
  exact ⟨old, v, new, g1, by simpa using g2, g3, g4⟩

/-- Reading back what was written: after a successful plain assignment of a scalar,
    every addressed element holds that scalar. -/
theorem C04_assign_then_read (m : Mat α) (s : Sel) (v : α)
    (ix : List Nat) (hix : selIxs s (m.rows * m.cols) = .ok ix) (hnd : ix.Nodup)
    (hr : inRange ix (m.rows * m.cols)) (m' : Mat α)
    (h : assign1 (fun _ x => .ok x) m s (.scalar v) = (m', .ok ())) :
    ∀ i ∈ ix, atLin1 m' i = some v := by
  intro i hi
  obtain ⟨j, hj, hji⟩ := List.getElem_of_mem hi
  have hj' : ix[j]? = some i := by rw [List.getElem?_eq_getElem hj, hji]
  obtain ⟨old, v', new, _, h2, h3, h4⟩ :=
    C04_assign_writes_addressed (fun _ x => .ok x) m s (.scalar v) ix hix hnd hr m' h j i hj'
  simp only [srcAt, Except.ok.injEq] at h2 h3
  subst h2; subst h3
  have e : assign1 (fun _ x => Except.ok x) m s (.scalar v) =
      ({ m with data := (scatter (fun _ x => Except.ok x) (srcAt (.scalar v)) (ix.map (linTarget m)) 0 m.data).1 },
       (scatter (fun _ x => Except.ok x) (srcAt (.scalar v)) (ix.map (linTarget m)) 0 m.data).2) := by
    simp only [assign1, hix]
  rw [e] at h
  have hrows : m'.rows = m.rows := (congrArg (fun (x : Mat α × Except Err Unit) => x.1.rows) h).symm
  have hcols : m'.cols = m.cols := (congrArg (fun (x : Mat α × Except Err Unit) => x.1.cols) h).symm
  unfold atLin1
  have := hr i hi
  rw [hrows, hcols, if_pos this]; exact h4

/-- Failure atomicity, the part that holds: when the selector itself is rejected, or
    the very first addressed element fails, nothing has been written. -/
theorem C04_failure_atomic_partial (f : α → α → Except Err α) (m : Mat α) (s : Sel) (src : Operand α) :
    (∀ e, selIxs s (m.rows * m.cols) = .error e → (assign1 f m s src).1 = m) ∧
    (∀ i rest e, selIxs s (m.rows * m.cols) = .ok (i :: rest) → linTarget m i = .error e →
      (assign1 f m s src).1 = m) := by
  constructor
  · intro e he; simp [assign1, he]
  · intro i rest e hix hi
    simp only [assign1, hix, List.map_cons, hi, scatter]

/-- Full failure atomicity ("an error leaves x unchanged"), kept visible. -/
def C04_failure_atomic_statement : Prop :=
  ∀ (m : Mat Nat) (s : Sel) (src : Operand Nat) (e : Err),
    (assign1 (fun _ x => .ok x) m s src).2 = .error e → (assign1 (fun _ x => .ok x) m s src).1 = m

/-- D4: `~x := [1 2 3]; x[[1 5]] = 7` is an error and leaves `x = [7 2 3]`: the kernel
    writes, then panics. -/
theorem C04_counterexample_D4 :
    assign1 (fun _ x => .ok x) (⟨1, 3, [1, 2, 3]⟩ : Mat Nat) (.vec [1, 5]) (.scalar 7)
      = (⟨1, 3, [7, 2, 3]⟩, .error .index) := by decide

theorem C04_failure_atomic_statement_false : ¬ C04_failure_atomic_statement := by
  intro h
  have := h ⟨1, 3, [1, 2, 3]⟩ (.vec [1, 5]) (.scalar 7) .index (by rw [C04_counterexample_D4])
  rw [C04_counterexample_D4] at this
  exact absurd this (by decide)

/-- Two-position forms: shape and element count never change. -/
theorem C04_assign2_shape (f : α → α → Except Err α) (m : Mat α) (s1 s2 : Sel) (src : Operand α) :
    (assign2 f m s1 s2 src).1.rows = m.rows ∧ (assign2 f m s1 s2 src).1.cols = m.cols ∧
    (assign2 f m s1 s2 src).1.data.length = m.data.length := by
  unfold assign2
  split
  · exact ⟨rfl, rfl, scatter_length _ _ _ _ _⟩
  · exact ⟨rfl, rfl, rfl⟩
  · exact ⟨rfl, rfl, rfl⟩

/-! ### non-vacuity -/
example : assign1 (fun _ x => .ok x) (⟨2, 2, [1, 2, 3, 4]⟩ : Mat Nat) (.mask [true, false, false, true]) (.mat ⟨1, 2, [8, 9]⟩)
    = (⟨2, 2, [8, 2, 3, 9]⟩, .ok ()) := by decide
example : update1 (fun _ x => .ok x) (⟨2, 2, [1, 2, 3, 4]⟩ : Mat Nat) (.mask [true, false, false, true]) (.mat ⟨1, 2, [8, 9]⟩)
    = some ⟨2, 2, [8, 2, 3, 9]⟩ := by decide
example : assign2 (fun (o x : Nat) => .ok (o + x)) (⟨2, 2, [1, 2, 3, 4]⟩ : Mat Nat) (.scalar 2) .all (.scalar 10)
    = (⟨2, 2, [1, 12, 3, 14]⟩, .ok ()) := by decide

/-- Two-index forms, frame: every cell that is not addressed keeps its value — whatever the
    source (scalar, vector or matrix), whether the statement succeeds or fails half-way. -/
theorem C04_assign2_frame (f : α → α → Except Err α) (m : Mat α) (s1 s2 : Sel) (src : Operand α)
    (R C : List Nat) (h1 : selIxs s1 m.rows = .ok R) (h2 : selIxs s2 m.cols = .ok C) (q : Nat)
    (hq : ∀ p ∈ pairs R C, cellPos m p ≠ q) :
    (assign2 f m s1 s2 src).1.data[q]? = m.data[q]? := by
  have e : assign2 f m s1 s2 src =
      ({ m with data := (scatter f (srcAt src) ((pairs R C).map (fun p => rcTarget m p.1 p.2)) 0 m.data).1 },
       (scatter f (srcAt src) ((pairs R C).map (fun p => rcTarget m p.1 p.2)) 0 m.data).2) := by
    simp only [assign2, h1, h2]
  rw [e]
  apply scatter_frame
  intro p hp
  obtain ⟨pr, hpr, hpi⟩ := List.mem_map.mp hp
  obtain ⟨_, _, _, _, h5⟩ := (rcTarget_ok m pr.1 pr.2 p).mp hpi
  rw [h5]; exact hq pr hpr

/-- Two-index forms, the addressed cells: a successful assignment through distinct in-range row and
    column indices sets the j-th addressed cell — the cells taken column by column, (r₁,c₁), (r₂,c₁), …,
    (r₁,c₂), … — to `f old (j-th source element)`: the scalar itself for a scalar source, the j-th
    element in column-major order for a vector or matrix source (so a source of the addressed shape
    lands cell for cell), `f` being replacement for `=` and the operator for `op=`. -/
theorem C04_assign2_writes_addressed (f : α → α → Except Err α) (m : Mat α) (s1 s2 : Sel) (src : Operand α)
    (R C : List Nat) (h1 : selIxs s1 m.rows = .ok R) (h2 : selIxs s2 m.cols = .ok C)
    (hnd : (pairs R C).Nodup) (hr : inRange R m.rows) (hc : inRange C m.cols)
    (m' : Mat α) (h : assign2 f m s1 s2 src = (m', .ok ())) :
    ∀ j p, (pairs R C)[j]? = some p → ∃ old v new, m.data[cellPos m p]? = some old ∧ srcAt src j = .ok v ∧
      f old v = .ok new ∧ m'.data[cellPos m p]? = some new := by
  have e : assign2 f m s1 s2 src =
      ({ m with data := (scatter f (srcAt src) ((pairs R C).map (fun p => rcTarget m p.1 p.2)) 0 m.data).1 },
       (scatter f (srcAt src) ((pairs R C).map (fun p => rcTarget m p.1 p.2)) 0 m.data).2) := by
    simp only [assign2, h1, h2]
  rw [e] at h
  have hin : ∀ p ∈ pairs R C, 1 ≤ p.1 ∧ p.1 ≤ m.rows ∧ 1 ≤ p.2 ∧ p.2 ≤ m.cols := by
    intro p hp
    obtain ⟨a, b⟩ := (mem_pairs R C p).mp hp
    exact ⟨(hr _ a).1, (hr _ a).2, (hc _ b).1, (hc _ b).2⟩
  have hmap : (pairs R C).map (fun p => rcTarget m p.1 p.2) = ((pairs R C).map (cellPos m)).map Except.ok := by
    rw [List.map_map]
    apply List.map_congr_left
    intro p hp
    obtain ⟨a, b, c, d⟩ := hin p hp
    exact (rcTarget_ok m p.1 p.2 (cellPos m p)).mpr ⟨a, b, c, d, rfl⟩
  rw [hmap] at h
  have hnd' : ((pairs R C).map (cellPos m)).Nodup := by
    apply nodup_map_of_inj_on (cellPos m) _ hnd
    intro p hp p' hp' heq
    obtain ⟨a, b, c, _⟩ := hin p hp
    obtain ⟨a', b', c', _⟩ := hin p' hp'
    exact cellPos_inj m p p' ⟨a, b, c⟩ ⟨a', b', c'⟩ heq
  have g1 := congrArg (fun (x : Mat α × Except Err Unit) => x.1.data) h
  have g2 := congrArg (fun (x : Mat α × Except Err Unit) => x.2) h
  simp only at g1 g2
  have hd : scatter f (srcAt src) (((pairs R C).map (cellPos m)).map Except.ok) 0 m.data = (m'.data, .ok ()) :=
    Prod.ext g1 g2
  intro j p hj
  have hj' : ((pairs R C).map (cellPos m))[j]? = some (cellPos m p) := by simp [hj]
  obtain ⟨old, v, new, k1, k2, k3, k4⟩ := scatter_writes f (srcAt src) _ 0 m.data m'.data hnd' hd j (cellPos m p) hj'
  exact ⟨old, v, new, k1, by simpa using k2, k3, k4⟩

example : (pairs [1, 3] [2, 1]).Nodup ∧ inRange [1, 3] 3 ∧ inRange [2, 1] 2 := by decide


end MechVerif.Assign

/-! ### the assignment kernels as they are written in the source

`Gen/AssignKernels.lean` is regenerated from src/interpreter/src/stdlib/assign/matrix.rs and
machines/math/src/op_assign/{add,sub,mul,div}_assign.rs on every run (`tools/extract_assign.py`); its own theorem
`C04_assign_kernels_as_written_ok` is a `decide` proof over the extracted table: every kernel is accepted for what
it is meant to do, or is listed in `AssignIR.knownDeviations` with exactly the extracted shape.  The theorems here
carry the accepted kernels over to `assign1` / `assign2`, the functions the theorems above are about. -/
namespace MechVerif.AssignIR
open MechVerif.Num MechVerif.Mat MechVerif.Index MechVerif.AccessIR MechVerif.Assign

variable {α : Type}

/-- every kernel macro of the signature table (53: 29 of assign/matrix.rs, 6 of each op_assign file) is extracted -/
theorem C04_every_assign_kernel_extracted :
    expected.all (fun e => Gen.AssignKernels.kernels.any (fun k => k.1 == e.1)) = true := by decide

/-- every listed deviation is a kernel of the signature table, and on the witness recorded with it the kernel as
    written and the model give different results: the list holds no kernel that merely was not understood -/
theorem C04_listed_deviations_deviate : deviationsDeviate = true := by decide

theorem written_ok (name : String) (ir : KIR) (sig : Sig) (h : (name, ir) ∈ Gen.AssignKernels.kernels)
    (hs : expected.lookup name = some sig) (hd : deviationOf name = none) : kOk sig ir = true := by
  have hall := Gen.AssignKernels.C04_assign_kernels_as_written_ok
  unfold tableOk at hall
  rw [Bool.and_eq_true, List.all_eq_true, List.all_eq_true] at hall
  have := hall.2 (name, ir) h
  simp only [hs, hd] at this
  exact this

/-- **Accepted, or a listed deviation with exactly this shape.**  A new deviation (a kernel that is neither) and a
    repaired one (a listed kernel whose shape changed) both contradict the generated table theorem. -/
theorem C04_written_kernel_accepted_or_listed (name : String) (ir : KIR)
    (h : (name, ir) ∈ Gen.AssignKernels.kernels) :
    ∃ sig, expected.lookup name = some sig ∧
      ((deviationOf name = none ∧ kOk sig ir = true) ∨
       (∃ d, deviationOf name = some d ∧ d.shape = ir ∧ kOk sig ir = false)) := by
  have hall := Gen.AssignKernels.C04_assign_kernels_as_written_ok
  unfold tableOk at hall
  rw [Bool.and_eq_true, List.all_eq_true, List.all_eq_true] at hall
  have := hall.2 (name, ir) h
  cases hs : expected.lookup name with
  | none => simp [hs] at this
  | some sig =>
    refine ⟨sig, rfl, ?_⟩
    cases hd : deviationOf name with
    | none => simp only [hs, hd] at this; exact Or.inl ⟨rfl, this⟩
    | some d =>
      simp only [hs, hd, Bool.and_eq_true, decide_eq_true_eq, Bool.not_eq_true'] at this
      exact Or.inr ⟨d, rfl, this.1, this.2⟩

/-- **The one-index kernels as written write the addressed elements.**  Every extracted kernel that writes
    `sink[k]` and is not a listed deviation performs — for every matrix, every index argument, every source, every
    size and every arithmetic of the element kind — exactly the writes of `assign1` for the selector its argument
    holds, with the operator of its signature: the targets are the linear indices `selIxs` gives, in that order,
    each written once per occurrence; the j-th of them receives `f old (srcAt src j)`; an index of 0 or past the
    last element aborts the kernel at that step with the earlier writes in place (finding C04-D4), exactly as in
    the model.  `C04_assign_frame`, `C04_assign_writes_addressed`, `C04_assign_then_read` above are stated for
    `assign1`. -/
theorem C04_written_one_index_kernels_write_addressed (arith : OpTok → α → α → Except Err α) (name : String)
    (ir : KIR) (sig : Sig) (h : (name, ir) ∈ Gen.AssignKernels.kernels) (hsig : expected.lookup name = some sig)
    (hd : deviationOf name = none) (hrow : ir.row = none) (m : Mat α) (args : List Arg) (src : Operand α)
    (hfit : srcFits ir.src src = true) (s : Sel) (hs : tSelOf args ir.col = some s) :
    run arith ir m args src = assign1 (fOf arith sig.op) m s src :=
  run_linear arith sig ir (written_ok name ir sig h hsig hd) hrow m args src hfit s hs

/-- **The two-index kernels as written write the addressed cells, column by column.**  Every extracted kernel that
    writes `sink[(r, c)]`, is not a listed deviation, visits the cells in the model's order (`kExact`: the column
    loop outside, or a single loop) and takes no view of the sink ahead of its loop performs exactly the writes of
    `assign2` for the two selectors its arguments hold: the cells are `pairs R C`, the j-th of them receives
    `f old (srcAt src j)`, a failing step aborts with the earlier writes in place. -/
theorem C04_written_two_index_kernels_write_addressed (arith : OpTok → α → α → Except Err α) (name : String)
    (ir : KIR) (sig : Sig) (h : (name, ir) ∈ Gen.AssignKernels.kernels) (hsig : expected.lookup name = some sig)
    (hd : deviationOf name = none) (hex : kExact ir = true) (rowAx : TAxis) (hrow : ir.row = some rowAx)
    (m : Mat α) (args : List Arg) (src : Operand α) (hfit : srcFits ir.src src = true)
    (s1 s2 : Sel) (hs1 : tSelOf args rowAx = some s1) (hs2 : tSelOf args ir.col = some s2) :
    run arith ir m args src = assign2 (fOf arith sig.op) m s1 s2 src :=
  run_two arith sig ir (written_ok name ir sig h hsig hd) hex rowAx hrow m args src hfit s1 s2 hs1 hs2

/-- **The two-index kernels as written give the model's result, in any loop order.**  Every extracted kernel that
    writes `sink[(r, c)]` and is not a listed deviation — also `assign_2d_range_range`, whose row loop is the outer
    one, and `assign_2d_range_scalar{,_v}`, which take the column view ahead of the loop — runs to its end exactly
    when `assign2` does for the two selectors its arguments hold, and then leaves the same matrix.  What a failing
    run leaves behind is compared by `C04_written_two_index_kernels_write_addressed` for the kernels in the model's
    order only: the others fail at another cell (or before the first one). -/
theorem C04_written_two_index_kernels_same_result (arith : OpTok → α → α → Except Err α) (name : String)
    (ir : KIR) (sig : Sig) (h : (name, ir) ∈ Gen.AssignKernels.kernels) (hsig : expected.lookup name = some sig)
    (hd : deviationOf name = none) (rowAx : TAxis) (hrow : ir.row = some rowAx)
    (m : Mat α) (args : List Arg) (src : Operand α) (hfit : srcFits ir.src src = true)
    (s1 s2 : Sel) (hs1 : tSelOf args rowAx = some s1) (hs2 : tSelOf args ir.col = some s2)
    (hne : ir.hoist = true → ∀ R C, selIxs s1 m.rows = .ok R → selIxs s2 m.cols = .ok C → R ≠ [] ∧ C ≠ []) :
    ((run arith ir m args src).2 = .ok () ↔ (assign2 (fOf arith sig.op) m s1 s2 src).2 = .ok ()) ∧
    ((run arith ir m args src).2 = .ok () → (run arith ir m args src).1 = (assign2 (fOf arith sig.op) m s1 s2 src).1) :=
  run_two_same arith sig ir (written_ok name ir sig h hsig hd) rowAx hrow m args src hfit s1 s2 hs1 hs2 hne

/-- of the accepted kernels exactly these three are not in the model's order (`kExact`) -/
theorem C04_kernels_not_in_model_order :
    (Gen.AssignKernels.kernels.filter (fun k => (deviationOf k.1).isNone && !kExact k.2)).map (·.1) =
      ["assign_2d_range_scalar", "assign_2d_range_scalar_v", "assign_2d_range_range"] := by decide

/-- the accepted kernels (25) and the listed deviations (28) -/
theorem C04_accepted_and_listed_counts :
    (Gen.AssignKernels.kernels.filter (fun k => (deviationOf k.1).isNone)).length = 25 ∧
    knownDeviations.length = 28 := by decide

/-- a corollary through `assign1`: an accepted one-index kernel, as written, leaves every element that is not
    addressed as it was — whether it runs to its end or fails half-way -/
theorem C04_written_one_index_kernels_frame (arith : OpTok → α → α → Except Err α) (name : String)
    (ir : KIR) (sig : Sig) (h : (name, ir) ∈ Gen.AssignKernels.kernels) (hsig : expected.lookup name = some sig)
    (hd : deviationOf name = none) (hrow : ir.row = none) (m : Mat α) (args : List Arg) (src : Operand α)
    (hfit : srcFits ir.src src = true) (s : Sel) (hs : tSelOf args ir.col = some s)
    (ix : List Nat) (hix : selIxs s (m.rows * m.cols) = .ok ix) (q : Nat) (hq : ∀ i ∈ ix, i - 1 ≠ q) :
    (run arith ir m args src).1.rows = m.rows ∧ (run arith ir m args src).1.cols = m.cols ∧
    (run arith ir m args src).1.data[q]? = m.data[q]? := by
  rw [C04_written_one_index_kernels_write_addressed arith name ir sig h hsig hd hrow m args src hfit s hs]
  have := C04_assign_frame (fOf arith sig.op) m s src ix hix q hq
  exact ⟨this.1, this.2.1, this.2.2.2⟩

/-- D1 through the tables: the `[1,1]` arm of `op_assign!` compiles `MatrixAssignScalar` (listed in
    `knownArmDeviations`), the struct of `x[i] = v`, whose kernel `assign_1d_scalar` is written with `=`: under
    `x[1] += 5` it stores 5 where the statement denotes 6. -/
theorem C04_counterexample_D1 :
    (⟨["Formula"], "1,1", "MatrixAssignScalar", false⟩ : OpArm) ∈ Gen.AssignKernels.opArms ∧
    ("assign_1d_scalar", (⟨none, .std (.scalar 0 true), true, false, .whole, .set⟩ : KIR)) ∈ Gen.AssignKernels.kernels ∧
    run natArith ⟨none, .std (.scalar 0 true), true, false, .whole, .set⟩ (⟨1, 3, [1, 2, 3]⟩ : Mat Nat) [.scalar 1] (.scalar 5)
      = (⟨1, 3, [5, 2, 3]⟩, .ok ()) ∧
    assign1 (natArith .add) (⟨1, 3, [1, 2, 3]⟩ : Mat Nat) (.scalar 1) (.scalar 5) = (⟨1, 3, [6, 2, 3]⟩, .ok ()) := by decide

/-! non-vacuity: `x[[3 1]] += [10 20]` through the extracted `add_assign_1d_range_vec`, `x[[2 1], :] = 9` through
    `assign_2d_range_all`, a failing run that has written (C04-D4); kernels with the loops of a listed deviation, with
    `-=` under `+=`, without the `- 1`, with `source[0]`, are refused -/
example : ("add_assign_1d_range_vec", (⟨none, .std (.vec 0 true (.argLen 0)), true, false, .at .colVar, .add⟩ : KIR))
    ∈ Gen.AssignKernels.kernels := by decide
example : run natArith ⟨none, .std (.vec 0 true (.argLen 0)), true, false, .at .colVar, .add⟩
    (⟨1, 3, [1, 2, 3]⟩ : Mat Nat) [.ixs [3, 1]] (.mat ⟨1, 2, [10, 20]⟩) = (⟨1, 3, [21, 2, 13]⟩, .ok ()) := by decide
example : run natArith ⟨some (.std (.vec 0 true (.argLen 0))), .std (.all (.dim .cols)), true, false, .whole, .set⟩
    (⟨3, 2, [1, 2, 3, 4, 5, 6]⟩ : Mat Nat) [.ixs [2, 1]] (.scalar 9) = (⟨3, 2, [9, 9, 3, 9, 9, 6]⟩, .ok ()) := by decide
example : run natArith ⟨none, .std (.vec 0 true (.argLen 0)), true, false, .whole, .set⟩
    (⟨1, 3, [1, 2, 3]⟩ : Mat Nat) [.ixs [1, 5]] (.scalar 7) = (⟨1, 3, [7, 2, 3]⟩, .error .index) := by decide
example : kOk ⟨none, .vec, true, .add⟩ ⟨none, .std (.vec 0 true (.argLen 0)), true, false, .at .colVar, .sub⟩ = false := by decide
example : kOk ⟨none, .vec, true, .add⟩ ⟨none, .std (.vec 0 false (.argLen 0)), true, false, .at .colVar, .add⟩ = false := by decide
example : kOk ⟨none, .vec, true, .add⟩ ⟨none, .std (.vec 0 true (.argLen 0)), true, false, .at (.lit 0), .add⟩ = false := by decide
example : kOk ⟨some .all, .scalar, false, .set⟩
    ⟨some (.std (.all (.dim .cols))), .std (.scalar 0 true), true, false, .whole, .set⟩ = false := by decide

end MechVerif.AssignIR
