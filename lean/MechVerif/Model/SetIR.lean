/-
C14, second tie to the source: the set kernels as they are *written*.

Every binary set operator of machines/set/src/{operations,relations,membership} is a struct whose `new`
binds its two arguments to two fields and whose `solve` evaluates one expression over them with the
`IndexSet` methods.  `tools/extract_setops.py` reads both and writes the expression as a value of
`SExpr`, with the fields replaced by the argument they were bound to (`a1`, `a2`).  `evalSet` / `evalRel`
give an `SExpr` its meaning in terms of the model's functions (`Model/Set.lean`), and the generated file
ends in a `decide` proof that every operator's expression is, up to writing `x.len() > y.len()` for
`y.len() < x.len()`, the one the model's function of that operator is defined by.
-/
import MechVerif.Model.Set
namespace MechVerif.SetIR
open MechVerif.SetM

inductive Arg where
  | a1 | a2
deriving DecidableEq, Repr

/-- the `IndexSet` methods the kernels call -/
inductive Meth where
  | union | intersection | difference | symmetricDifference
  | isSubset | isSuperset | isDisjoint | contains
deriving DecidableEq, Repr

inductive SExpr where
  | call (m : Meth) (recv arg : Arg)        -- `recv.set.m(&arg.set)`
  | lenLt (x y : Arg)                       -- `x.set.len() < y.set.len()`
  | lenGt (x y : Arg)
  | eq (x y : Arg)                          -- `x.set == y.set`
  | ne (x y : Arg)
  | and (p q : SExpr)
  | not (p : SExpr)
  /-- `if set.kind == elem.kind() { p } else { otherwise }` (membership) -/
  | kindGuard (set elem : Arg) (p : SExpr) (otherwise : Bool)
deriving DecidableEq, Repr

/-- `x > y` is `y < x` -/
def norm : SExpr → SExpr
  | .lenGt x y => .lenLt y x
  | .and p q => .and (norm p) (norm q)
  | .not p => .not (norm p)
  | .kindGuard s e p o => .kindGuard s e (norm p) o
  | e => e

section sem
variable {α κ : Type} [DecidableEq κ] (eq : α → α → Bool) (key : α → κ)

def pick (A B : List α) : Arg → List α
  | .a1 => A
  | .a2 => B

/-- a set-valued kernel expression -/
def evalSet (A B : List α) : SExpr → Option (List α)
  | .call .union r a => some (union eq key (pick A B r) (pick A B a))
  | .call .intersection r a => some (inter eq key (pick A B r) (pick A B a))
  | .call .difference r a => some (diff eq key (pick A B r) (pick A B a))
  | .call .symmetricDifference r a => some (symdiff eq key (pick A B r) (pick A B a))
  | _ => none

/-- a truth-valued kernel expression over two sets -/
def evalRel (A B : List α) : SExpr → Option Bool
  | .call .isSubset r a => some (isSubset eq key (pick A B r) (pick A B a))
  | .call .isSuperset r a => some (isSuperset eq key (pick A B r) (pick A B a))
  | .lenLt x y => some (decide ((pick A B x).length < (pick A B y).length))
  | .lenGt x y => some (decide ((pick A B x).length > (pick A B y).length))
  | .eq x y => some (setEq eq key (pick A B x) (pick A B y))
  | .ne x y => some (!setEq eq key (pick A B x) (pick A B y))
  | .and p q => (match evalRel A B p, evalRel A B q with | some u, some v => some (u && v) | _, _ => none)
  | .not p => (evalRel A B p).map (!·)
  | _ => none
end sem

/-- the expression the model's function of each operator is defined by -/
def expected : String → Option SExpr
  | "union" => some (.call .union .a1 .a2)
  | "intersection" => some (.call .intersection .a1 .a2)
  | "difference" => some (.call .difference .a1 .a2)
  | "symmetric_difference" => some (.call .symmetricDifference .a1 .a2)
  | "subset" => some (.call .isSubset .a1 .a2)
  | "superset" => some (.call .isSuperset .a1 .a2)
  | "proper_subset" => some (.and (.call .isSubset .a1 .a2) (.lenLt .a1 .a2))
  | "proper_superset" => some (.and (.call .isSuperset .a1 .a2) (.lenLt .a2 .a1))
  | "equals" => some (.eq .a1 .a2)
  | "not_equals" => some (.ne .a1 .a2)
  | "element_of" => some (.kindGuard .a2 .a1 (.call .contains .a2 .a1) false)
  | "not_element_of" => some (.kindGuard .a2 .a1 (.not (.call .contains .a2 .a1)) true)
  | _ => none

def kernelOk (e : String × SExpr) : Bool := expected e.1 == some (norm e.2)

end MechVerif.SetIR
