/-
C19 — Re-evaluation is deterministic, and a no-op for programs without assignments.
Model: `Model/Plan.lean` (cells, plan steps, `step` as repeated passes over the plan,
and how evaluating a program builds the plan).
-/
import MechVerif.Gen.StepSkel
import MechVerif.Model.Plan
namespace MechVerif.Plan

/-- n single steps equal one request for n steps (and any split m + n). -/
theorem C19_step_add (plan : List PStep) (m n : Nat) (c : Cells) :
    stepN plan (m + n) c = stepN plan n (stepN plan m c) := by
  induction m generalizing c with
  | zero => simp [stepN]
  | succ m ih =>
    rw [Nat.add_right_comm]
    simp only [stepN]
    exact ih (runPlan c plan)

/-- every plan function recomputes what its output cell already holds -/
def Settled (c : Cells) (plan : List PStep) : Prop := ∀ st ∈ plan, st.run c = c

/-- A settled plan is fixed by re-evaluation, any number of times. -/
theorem C19_settled_fixed (plan : List PStep) (c : Cells) (h : Settled c plan) :
    ∀ n, stepN plan n c = c := by
  have hpass : ∀ (p : List PStep), (∀ st ∈ p, st.run c = c) → runPlan c p = c := by
    intro p
    induction p with
    | nil => intro _; rfl
    | cons st rest ih =>
      intro hp
      simp only [runPlan, List.foldl_cons]
      rw [hp st List.mem_cons_self]
      exact ih (fun x hx => hp x (List.mem_cons_of_mem _ hx))
  intro n
  induction n with
  | zero => rfl
  | succ n ih => simp only [stepN]; rw [hpass plan h]; exact ih

/-- plans produced by first evaluation of assignment-free code: every function writes a
    fresh cell and reads earlier ones (single assignment) -/
inductive Built : Cells → List PStep → Prop
  | init : Built [] []
  | const (c : Cells) (p : List PStep) (v : Int) : Built c p → Built (c ++ [v]) p
  | bin (c : Cells) (p : List PStep) (op : Op) (a b : Nat) : Built c p → a < c.length → b < c.length →
      Built (c ++ [op.eval (rd c a) (rd c b)]) (p ++ [.bin op a b c.length])
  | nop (c : Cells) (p : List PStep) : Built c p → Built c (p ++ [.nop])

def InRange (n : Nat) : PStep → Prop
  | .bin _ a b out => a < n ∧ b < n ∧ out < n
  | .assign t s => t < n ∧ s < n
  | .addAssign t s => t < n ∧ s < n
  | .nop => True

theorem rd_append (c : Cells) (v : Int) (i : Nat) (h : i < c.length) : rd (c ++ [v]) i = rd c i := by
  simp [rd, List.getD_eq_getElem?_getD, List.getElem?_append_left h]

theorem set_append (c : Cells) (v x : Int) (i : Nat) (h : i < c.length) : (c ++ [v]).set i x = c.set i x ++ [v] := by
  rw [List.set_append]; simp [h]

theorem run_extend (c : Cells) (v : Int) (st : PStep) (hr : InRange c.length st) (hs : st.run c = c) :
    st.run (c ++ [v]) = c ++ [v] := by
  cases st with
  | bin op a b out =>
    obtain ⟨ha, hb, ho⟩ := hr
    simp only [PStep.run] at hs ⊢
    rw [rd_append c v a ha, rd_append c v b hb, set_append c v _ out ho, hs]
  | assign t s =>
    obtain ⟨ht, hs'⟩ := hr
    simp only [PStep.run] at hs ⊢
    rw [rd_append c v s hs', set_append c v _ t ht, hs]
  | addAssign t s =>
    obtain ⟨ht, hs'⟩ := hr
    simp only [PStep.run] at hs ⊢
    rw [rd_append c v s hs', rd_append c v t ht, set_append c v _ t ht, hs]
  | nop => rfl

/-- Single-assignment plans are settled by their own first evaluation. -/
theorem C19_ssa_settled (c : Cells) (p : List PStep) (h : Built c p) :
    Settled c p ∧ ∀ st ∈ p, InRange c.length st := by
  induction h with
  | init => refine ⟨?_, ?_⟩ <;> intro st hst <;> cases hst
  | const c p v _ ih =>
    obtain ⟨hs, hr⟩ := ih
    refine ⟨fun st hst => run_extend c v st (hr st hst) (hs st hst), ?_⟩
    intro st hst
    have := hr st hst
    cases st <;> simp only [InRange, List.length_append, List.length_cons, List.length_nil] at * <;> omega
  | bin c p op a b _ ha hb ih =>
    obtain ⟨hs, hr⟩ := ih
    constructor
    · intro st hst
      cases List.mem_append.mp hst with
      | inl hold => exact run_extend c _ st (hr st hold) (hs st hold)
      | inr hnew =>
        simp only [List.mem_singleton] at hnew
        subst hnew
        simp only [PStep.run]
        rw [rd_append c _ a ha, rd_append c _ b hb]
        have : (c ++ [op.eval (rd c a) (rd c b)]).set c.length (op.eval (rd c a) (rd c b)) = c ++ [op.eval (rd c a) (rd c b)] := by
          rw [List.set_append]; simp
        exact this
    · intro st hst
      cases List.mem_append.mp hst with
      | inl hold =>
        have := hr st hold
        cases st <;> simp only [InRange, List.length_append, List.length_cons, List.length_nil] at * <;> omega
      | inr hnew =>
        simp only [List.mem_singleton] at hnew
        subst hnew
        simp only [InRange, List.length_append, List.length_cons, List.length_nil]
        omega
  | nop c p _ ih =>
    obtain ⟨hs, hr⟩ := ih
    constructor
    · intro st hst
      cases List.mem_append.mp hst with
      | inl hold => exact hs st hold
      | inr hnew => simp only [List.mem_singleton] at hnew; subst hnew; rfl
    · intro st hst
      cases List.mem_append.mp hst with
      | inl hold => exact hr st hold
      | inr hnew => simp only [List.mem_singleton] at hnew; subst hnew; trivial

/-- the evaluator's state invariant: the plan is single-assignment and every symbol
    points into the cell array -/
def Good (s : St) : Prop := Built s.cells s.plan ∧ ∀ e ∈ s.syms, e.2 < s.cells.length

theorem lookup_lt (s : St) (hg : Good s) (x : String) (c : Nat) (h : s.lookup x = some c) : c < s.cells.length := by
  unfold St.lookup at h
  cases hf : s.syms.find? (fun e => e.1 == x) with
  | none => simp [hf] at h
  | some e =>
    simp only [hf, Option.map_some, Option.some.injEq] at h
    subst h
    exact hg.2 e (List.mem_of_find?_eq_some hf)

theorem evalAtom_good (s : St) (hg : Good s) (a : Atom) (s1 : St) (c : Nat) (h : evalAtom s a = some (s1, c)) :
    Good s1 ∧ c < s1.cells.length ∧ s.cells.length ≤ s1.cells.length ∧ s1.syms = s.syms := by
  cases a with
  | lit v =>
    simp only [evalAtom, Option.some.injEq, Prod.mk.injEq] at h
    obtain ⟨h1, h2⟩ := h
    subst h1; subst h2
    refine ⟨⟨Built.const _ _ v hg.1, ?_⟩, by simp, by simp, rfl⟩
    intro e he
    have := hg.2 e he
    simp only [List.length_append, List.length_cons, List.length_nil]; omega
  | var x =>
    simp only [evalAtom] at h
    cases hl : s.lookup x with
    | none => simp [hl] at h
    | some c' =>
      simp only [hl, Option.map_some, Option.some.injEq, Prod.mk.injEq] at h
      obtain ⟨h1, h2⟩ := h
      subst h1; subst h2
      exact ⟨hg, lookup_lt s hg x c' hl, Nat.le_refl _, rfl⟩

theorem evalExpr_good (s : St) (hg : Good s) (e : Expr) (s1 : St) (c : Nat) (h : evalExpr s e = some (s1, c)) :
    Good s1 ∧ c < s1.cells.length ∧ s1.syms = s.syms := by
  cases e with
  | atom a =>
    obtain ⟨h1, h2, _, h4⟩ := evalAtom_good s hg a s1 c h
    exact ⟨h1, h2, h4⟩
  | bin op a b =>
    simp only [evalExpr] at h
    cases ha : evalAtom s a with
    | none => simp [ha] at h
    | some pa =>
      obtain ⟨sa, ca⟩ := pa
      simp only [ha] at h
      cases hb : evalAtom sa b with
      | none => simp [hb] at h
      | some pb =>
        obtain ⟨sb, cb⟩ := pb
        simp only [hb, Option.some.injEq, Prod.mk.injEq] at h
        obtain ⟨h1, h2⟩ := h
        obtain ⟨ga, la, _, sya⟩ := evalAtom_good s hg a sa ca ha
        obtain ⟨gb, lb, leb, syb⟩ := evalAtom_good sa ga b sb cb hb
        have lca : ca < sb.cells.length := by omega
        subst h1; subst h2
        have hcells : PStep.run (sb.cells ++ [0]) (PStep.bin op ca cb sb.cells.length)
            = sb.cells ++ [op.eval (rd sb.cells ca) (rd sb.cells cb)] := by
          simp only [PStep.run]
          rw [rd_append _ _ ca lca, rd_append _ _ cb lb, List.set_append]
          simp
        refine ⟨⟨?_, ?_⟩, ?_, ?_⟩
        · simp only [hcells]
          exact Built.bin sb.cells sb.plan op ca cb gb.1 lca lb
        · intro e he
          simp only [hcells, List.length_append, List.length_cons, List.length_nil]
          have := gb.2 e he
          omega
        · simp only [hcells, List.length_append, List.length_cons, List.length_nil]; omega
        · simp only; rw [syb, sya]

def Stmt.isDefine : Stmt → Bool
  | .define _ _ _ => true
  | _ => false

theorem execAll_good : ∀ (prog : List Stmt) (s s' : St), Good s → (∀ st ∈ prog, st.isDefine = true) →
    execAll s prog = some s' → Good s' := by
  intro prog
  induction prog with
  | nil => intro s s' hg _ h; simp only [execAll, Option.some.injEq] at h; subst h; exact hg
  | cons st rest ih =>
    intro s s' hg hd h
    simp only [execAll] at h
    cases h1 : execStmt s st with
    | none => simp [h1] at h
    | some s1 =>
      simp only [h1] at h
      apply ih s1 s' _ (fun x hx => hd x (List.mem_cons_of_mem _ hx)) h
      cases st with
      | define m n e =>
        simp only [execStmt] at h1
        split at h1
        · cases h1
        · cases he : evalExpr s e with
          | none => simp [he] at h1
          | some p =>
            obtain ⟨se, c⟩ := p
            simp only [he, Option.some.injEq] at h1
            subst h1
            obtain ⟨ge, lc, _⟩ := evalExpr_good s hg e se c he
            refine ⟨Built.nop _ _ ge.1, ?_⟩
            intro e' he'
            cases List.mem_append.mp he' with
            | inl hold => exact ge.2 e' hold
            | inr hnew => simp only [List.mem_singleton] at hnew; subst hnew; exact lc
      | assign n e => have := hd _ List.mem_cons_self; simp [Stmt.isDefine] at this
      | addAssign n e => have := hd _ List.mem_cons_self; simp [Stmt.isDefine] at this

/-- For a program that contains no assignment or op-assignment statement, re-evaluation
    leaves every cell — hence every variable — exactly as the first evaluation left it,
    for any number of steps. -/
theorem C19_noassign_step_id (prog : List Stmt) (hd : ∀ st ∈ prog, st.isDefine = true) (s : St)
    (h : execAll St.empty prog = some s) : ∀ n, stepN s.plan n s.cells = s.cells := by
  have hg : Good s := execAll_good prog St.empty s ⟨Built.init, fun e he => by cases he⟩ hd h
  exact C19_settled_fixed s.plan s.cells (C19_ssa_settled s.cells s.plan hg.1).1

/-- With assignments re-evaluation does change values (allowed by the property): the
    model reproduces `~x := 1; x = x + 1` growing by one per step. -/
theorem C19_assignments_accumulate :
    (match execAll St.empty [.define true "x" (.atom (.lit 1)), .assign "x" (.bin .add (.var "x") (.lit 1))] with
     | some s => (rd s.cells 0, rd (stepN s.plan 1 s.cells) 0, rd (stepN s.plan 3 s.cells) 0)
     | none => (0, 0, 0)) = (2, 3, 5) := by decide

/-! ### non-vacuity -/
example : (match execAll St.empty [.define false "x" (.bin .add (.lit 1) (.lit 2)), .define false "y" (.bin .mul (.var "x") (.lit 3))] with
    | some s => (s.cells, stepN s.plan 2 s.cells == s.cells) | none => ([], false)) = ([1, 2, 3, 3, 9], true) := by decide

end MechVerif.Plan

/-! ### the loops of `Interpreter::step` as they are written

`Gen/StepSkel.lean` is regenerated from src/interpreter/src/interpreter.rs on every run (`tools/extract_step.py`); its
theorem `C19_step_loops_as_written_ok` is a `decide` proof over the two extracted nests (profiling and plain). -/
namespace MechVerif.StepSkel
open MechVerif.Plan

theorem visit_one (c : Cells) (s : PStep) : visit 1 c s = PStep.run c s := rfl

theorem passes_fold (plan : List PStep) : ∀ (n : Nat) (c : Cells),
    (List.range n).foldl (fun c _ => plan.foldl (visit 1) c) c = stepN plan n c := by
  intro n
  induction n with
  | zero => intro c; rfl
  | succ n ih =>
    intro c
    rw [List.range_succ_eq_map, List.foldl_cons, List.foldl_map]
    have : plan.foldl (visit 1) c = runPlan c plan := by
      unfold runPlan; congr 1
    rw [this]
    exact ih (runPlan c plan)

/-- **An accepted loop nest is `stepN`**: a request for n steps runs n passes over the plan, each solving every
    function once, in plan order — for every plan, every n (0 included: nothing runs) and every state. -/
theorem C19_accepted_nest_is_stepN (sk : Skel) (h : skelOk sk = true) (plan : List PStep) (n : Nat) (c : Cells) :
    runSkel sk plan n c = some (stepN plan n c) := by
  simp only [skelOk, Bool.and_eq_true, decide_eq_true_eq, Bool.not_eq_true'] at h
  obtain ⟨⟨⟨⟨⟨h1, h2⟩, h3⟩, h4⟩, h5⟩, _⟩ := h
  unfold runSkel
  simp only [h5, h1, Bool.or_false, Bool.not_true, Bool.false_eq_true, if_false, h2, h3, h4, passes, order]
  rw [passes_fold]

/-- the two nests written in the source are accepted, hence are `stepN` -/
theorem C19_step_as_written_is_stepN (name : String) (sk : Skel) (hm : (name, sk) ∈ Gen.StepSkel.nests)
    (plan : List PStep) (n : Nat) (c : Cells) : runSkel sk plan n c = some (stepN plan n c) := by
  have h := Gen.StepSkel.C19_step_loops_as_written_ok.1
  rw [List.all_eq_true] at h
  exact C19_accepted_nest_is_stepN sk (h (name, sk) hm) plan n c

/-! non-vacuity: an inclusive bound, a reversed walk, a second solve or an early exit are refused -/
example : skelOk ⟨true, .inclusive, .forward, 1, false, true⟩ = false := by decide
example : skelOk ⟨true, .exclusive, .reverse, 1, false, true⟩ = false := by decide
example : skelOk ⟨true, .exclusive, .forward, 2, false, true⟩ = false := by decide
example : skelOk ⟨true, .exclusive, .forward, 1, true, true⟩ = false := by decide
example : runSkel ⟨true, .exclusive, .forward, 1, false, true⟩ [.addAssign 0 1] 3 [0, 5] = some [15, 5] := by decide

end MechVerif.StepSkel
