import MechVerif.Model.SetElem
import MechVerif.Lemmas.Set
namespace MechVerif.SetM

theorem f64eq_symm (a b : UInt64) (h : f64eq a b = true) : f64eq b a = true := by
  simp only [f64eq, Bool.and_eq_true, Bool.not_eq_true', Bool.or_eq_true, beq_iff_eq] at h ⊢
  obtain ⟨⟨ha, hb⟩, h3⟩ := h
  refine ⟨⟨hb, ha⟩, ?_⟩
  rcases h3 with h3 | ⟨h3, h4⟩
  · exact Or.inl h3.symm
  · exact Or.inr ⟨h4, h3⟩

theorem f64eq_trans (a b c : UInt64) (h1 : f64eq a b = true) (h2 : f64eq b c = true) : f64eq a c = true := by
  simp only [f64eq, Bool.and_eq_true, Bool.not_eq_true', Bool.or_eq_true, beq_iff_eq] at h1 h2 ⊢
  obtain ⟨⟨ha, hb⟩, h3⟩ := h1
  obtain ⟨⟨_, hc⟩, h4⟩ := h2
  refine ⟨⟨ha, hc⟩, ?_⟩
  rcases h3 with h3 | ⟨h3, h3'⟩
  · subst h3; exact h4
  · rcases h4 with h4 | ⟨_, h4'⟩
    · subst h4; exact Or.inr ⟨h3, h3'⟩
    · exact Or.inr ⟨h3, h4'⟩

theorem f64eq_key (a b : UInt64) (h : f64eq a b = true) :
    (if isZero64 a then (0 : UInt64) else a) = (if isZero64 b then 0 else b) := by
  simp only [f64eq, Bool.and_eq_true, Bool.not_eq_true', Bool.or_eq_true, beq_iff_eq] at h
  rcases h.2 with h3 | ⟨h3, h4⟩
  · subst h3; rfl
  · simp [h3, h4]

/-- scalars: `==` and `Hash` of `Value` agree -/
theorem atom_lawful : Lawful Atom.eq Atom.key where
  symm := by
    intro x y h
    cases x <;> cases y <;> simp_all [Atom.eq] <;> first | exact f64eq_symm _ _ h | skip
  trans := by
    intro x y z h1 h2
    cases x <;> cases y <;> cases z <;> simp_all [Atom.eq] <;> first | exact f64eq_trans _ _ _ h1 h2 | skip
  cons := by
    intro x y h
    cases x <;> cases y <;> simp_all [Atom.eq, Atom.key] <;> first | exact f64eq_key _ _ h | skip

theorem tupEq_symm : ∀ s t : List Atom, tupEq s t = true → tupEq t s = true
  | [], [], _ => rfl
  | a :: s, b :: t, h => by
    simp only [tupEq, Bool.and_eq_true] at h ⊢
    exact ⟨atom_lawful.symm _ _ h.1, tupEq_symm s t h.2⟩
  | [], _ :: _, h => by simp [tupEq] at h
  | _ :: _, [], h => by simp [tupEq] at h

theorem tupEq_trans : ∀ s t u : List Atom, tupEq s t = true → tupEq t u = true → tupEq s u = true
  | [], [], [], _, _ => rfl
  | a :: s, b :: t, c :: u, h1, h2 => by
    simp only [tupEq, Bool.and_eq_true] at h1 h2 ⊢
    exact ⟨atom_lawful.trans _ _ _ h1.1 h2.1, tupEq_trans s t u h1.2 h2.2⟩
  | [], _ :: _, _, h, _ => by simp [tupEq] at h
  | _ :: _, [], _, h, _ => by simp [tupEq] at h
  | [], [], _ :: _, _, h => by simp [tupEq] at h
  | _ :: _, _ :: _, [], _, h => by simp [tupEq] at h

theorem tupEq_key : ∀ s t : List Atom, tupEq s t = true → tupKey s = tupKey t
  | [], [], _ => rfl
  | a :: s, b :: t, h => by
    simp only [tupEq, Bool.and_eq_true] at h
    simp only [tupKey, List.map_cons, List.cons.injEq]
    exact ⟨atom_lawful.cons _ _ h.1, tupEq_key s t h.2⟩
  | [], _ :: _, h => by simp [tupEq] at h
  | _ :: _, [], h => by simp [tupEq] at h

theorem innerEq_iff (A B : List Atom) :
    innerEq A B = true ↔ A.length = B.length ∧ ∀ a ∈ A, memE Atom.eq B a := by
  simp only [innerEq, setEq, Bool.and_eq_true, decide_eq_true_eq, List.all_eq_true]
  constructor
  · rintro ⟨hl, hall⟩; exact ⟨hl, fun a ha => (lookup_iff atom_lawful B a).1 (hall a ha)⟩
  · rintro ⟨hl, hall⟩; exact ⟨hl, fun a ha => (lookup_iff atom_lawful B a).2 (hall a ha)⟩

/-- equality of duplicate-free sets is symmetric: a set of the same size that contains A is
    contained in A -/
theorem innerEq_symm (A B : List Atom) (hA : NoDup Atom.eq A) (hB : NoDup Atom.eq B)
    (h : innerEq A B = true) : innerEq B A = true := by
  rw [innerEq_iff] at h ⊢
  obtain ⟨hl, hsub⟩ := h
  refine ⟨hl.symm, ?_⟩
  intro b hb
  apply Classical.byContradiction
  intro hnot
  have hnb : ∀ x ∈ A, Atom.eq x b = false := by
    intro x hx
    cases hxb : Atom.eq x b with
    | false => rfl
    | true => exact absurd ⟨x, hx, atom_lawful.symm _ _ hxb⟩ hnot
  have := length_lt_of_ssubset atom_lawful A B hA hsub b hb hnb
  omega

theorem innerEq_trans (A B C : List Atom) (h1 : innerEq A B = true) (h2 : innerEq B C = true) :
    innerEq A C = true := by
  rw [innerEq_iff] at h1 h2 ⊢
  refine ⟨h1.1.trans h2.1, ?_⟩
  intro a ha
  obtain ⟨b, hb, hab⟩ := h1.2 a ha
  exact memE_congr atom_lawful hab (h2.2 b hb)

theorem innerEq_key (g : Atom → Nat) (A B : List Atom) (hA : NoDup Atom.eq A)
    (h : innerEq A B = true) : innerKey g A = innerKey g B := by
  rw [innerEq_iff] at h
  simp only [innerKey, Prod.mk.injEq]
  refine ⟨h.1, ?_⟩
  exact sum_eq_of_subset atom_lawful (fun a => g a.key)
    (fun x y hxy => by rw [atom_lawful.cons x y hxy]) A B hA h.1 h.2

/-- the hand-written `Hash` agrees with the derived `==` on every element value (scalars,
    tuples, sets) once the hash of a set does not depend on insertion order -/
theorem velem_lawful (g : Atom → Nat) : Lawful VElem.eq (VElem.key g) where
  symm := by
    rintro ⟨x, hx⟩ ⟨y, hy⟩ h
    cases x <;> cases y <;> simp only [VElem.eq, Elem.eq] at h ⊢ <;> try cases h
    · exact atom_lawful.symm _ _ h
    · exact tupEq_symm _ _ h
    · exact innerEq_symm _ _ hx hy h
  trans := by
    rintro ⟨x, hx⟩ ⟨y, hy⟩ ⟨z, hz⟩ h1 h2
    cases x <;> cases y <;> simp only [VElem.eq, Elem.eq] at h1 <;> try cases h1
    all_goals (cases z <;> simp only [VElem.eq, Elem.eq] at h2 ⊢ <;> try cases h2)
    · exact atom_lawful.trans _ _ _ h1 h2
    · exact tupEq_trans _ _ _ h1 h2
    · exact innerEq_trans _ _ _ h1 h2
  cons := by
    rintro ⟨x, hx⟩ ⟨y, hy⟩ h
    cases x <;> cases y <;> simp only [VElem.eq, Elem.eq] at h <;> try cases h
    · simp only [VElem.key, Elem.key]; rw [atom_lawful.cons _ _ h]
    · simp only [VElem.key, Elem.key]; rw [tupEq_key _ _ h]
    · simp only [VElem.key, Elem.key]; rw [innerEq_key g _ _ hx h]

/-- building an inner set -/
def mkInner (l : List Atom) : VElem := ⟨.set (fromList Atom.eq Atom.key l), nodup_fromList atom_lawful l⟩
def mkAtom (a : Atom) : VElem := ⟨.atom a, trivial⟩
def mkTup (t : List Atom) : VElem := ⟨.tup t, trivial⟩

end MechVerif.SetM
