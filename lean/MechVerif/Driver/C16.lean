import MechVerif.Driver.Value
import MechVerif.Model.Arms
import MechVerif.Model.Float
namespace MechVerif.Driver.S16
open MechVerif.Arms MechVerif.FloatX

abbrev PR (α : Type) := Option (α × List String)

def pS (tok : String) : Option S :=
  match tok.splitOn ":" with
  | ["n", "f64", v] => v.toInt?.map (S.num .f64)
  | ["n", "u64", v] => v.toInt?.map (S.num .u64)
  | ["b", "true"] => some (.bool true)
  | ["b", "false"] => some (.bool false)
  | ["s", h] => (unhexText h).map (fun cs => .str (String.ofList cs))
  | _ => none

/-- variable names are numbered by their characters -/
def nameCode (s : String) : Nat := s.toList.foldl (fun acc c => acc * 1114112 + c.toNat + 1) 0

def pSP (tok : String) : Option SP :=
  if tok == "_" then some .wild
  else if tok.startsWith "$" then some (.bind (nameCode (tok.drop 1).toString))
  else (pS tok).map .lit

def takeN {α : Type} (f : String → Option α) : Nat → List String → PR (List α)
  | 0, ts => some ([], ts)
  | n + 1, t :: ts => (match f t, takeN f n ts with | some x, some (xs, r) => some (x :: xs, r) | _, _ => none)
  | _, [] => none

def pV : List String → PR V
  | "sc" :: t :: r => (pS t).map (fun s => (.sc s, r))
  | "tup" :: k :: r => (match k.toNat? with | some k => (takeN pS k r).map (fun p => (.tup p.1, p.2)) | none => none)
  | "arr" :: k :: r => (match k.toNat? with | some k => (takeN pS k r).map (fun p => (.arr p.1, p.2)) | none => none)
  | "enm" :: tag :: "-" :: r => some (.enm tag none, r)
  | "enm" :: tag :: t :: r => (pS t).map (fun s => (.enm tag (some s), r))
  | _ => none

def pP : List String → PR P
  | "sp" :: t :: r => (pSP t).map (fun s => (.sp s, r))
  | "tup" :: k :: r => (match k.toNat? with | some k => (takeN pSP k r).map (fun p => (.tup p.1, p.2)) | none => none)
  | "arr" :: np :: r =>
    (match np.toNat? with
     | some np =>
       (match takeN pSP np r with
        | some (pre, spread :: ns :: r2) =>
          (match ns.toNat? with
           | some ns => (takeN pSP ns r2).map (fun p => (.arr pre (spread == "1") p.1, p.2))
           | none => none)
        | _ => none)
     | none => none)
  | "enm" :: tag :: "-" :: r => some (.enm tag none, r)
  | "enm" :: tag :: t :: r => (pSP t).map (fun s => (.enm tag (some s), r))
  | _ => none

def pOp (s : String) : Option Op :=
  match s with
  | "add" => some .add | "sub" => some .sub | "mul" => some .mul | "mod" => some .mod | "gt" => some .gt | "lt" => some .lt
  | "ge" => some .ge | "le" => some .le | "eq" => some .eq | "ne" => some .ne | "and" => some .and | "or" => some .or
  | _ => none

partial def pE : List String → PR E
  | "lit" :: t :: r => (pS t).map (fun s => (.lit s, r))
  | "var" :: x :: r => some (.var (nameCode x), r)
  | "bin" :: o :: r =>
    (match pOp o, pE r with
     | some o, some (a, r1) => (match pE r1 with | some (b, r2) => some (.bin o a b, r2) | none => none)
     | _, _ => none)
  | "call1" :: r => (pE r).map (fun p => (.call1 p.1, p.2))
  | "call2" :: r => (match pE r with | some (a, r1) => (match pE r1 with | some (b, r2) => some (.call2 a b, r2) | none => none) | none => none)
  | _ => none

def toks (s : String) : List String := (s.splitOn " ").filter (· != "")

def pArm (s : String) : Option Arm :=
  match pP (toks s) with
  | some (p, "-" :: r) => (match pE r with | some (b, []) => some ⟨p, none, b⟩ | _ => none)
  | some (p, "g" :: r) => (match pE r with | some (g, r1) => (match pE r1 with | some (b, []) => some ⟨p, some g, b⟩ | _ => none) | none => none)
  | _ => none

def pFArm (s : String) : Option (P × E) :=
  match pP (toks s) with
  | some (p, r) => (match pE r with | some (b, []) => some (p, b) | _ => none)
  | none => none

def sText : S → String
  | .num .f64 n => "f64:" ++ hexFixed (intToF64 n).toNat 16
  | .num .u64 n => s!"u64:{n}"
  | .bool b => "bool:" ++ (if b then "true" else "false")
  | .str s => "string:" ++ hexOfText s.toList

def vText : V → String
  | .sc s => sText s
  | .tup l => "tup:(" ++ ";".intercalate (l.map sText) ++ ")"
  | .arr [] => "mat:value:0x0:[]"
  | .arr l => s!"mat:f64:1x{l.length}:[" ++ " ".intercalate (l.map (fun s => match s with | .num _ n => hexFixed (intToF64 n).toNat 16 | _ => "?")) ++ "]"
  | .enm tag (some s) => "enum:" ++ tag ++ "(" ++ sText s ++ ")"
  | .enm tag none => "atom:" ++ tag

/-! the reference evaluator: first arm in source order whose pattern matches (literals
    compare by value) and whose guard is true -/
def specArm (arm : Arm) (src : V) : Except Err (Option Env) :=
  match matchP false arm.pat src [] with
  | none => .ok none
  | some env => (match guardTrue env arm.guard with | .ok true => .ok (some env) | .ok false => .ok none | .error e => .error e)

def specMatch (variants : List String) (arms : List Arm) (src : V) : Except Err V :=
  let tags := arms.filterMap (fun a => match a.pat with | .enm t _ => some t | _ => none)
  let exhaustive := arms.any (fun a => a.pat == .sp .wild) ||
    (match src with | .enm _ _ => !tags.isEmpty && variants.all tags.contains | _ => false)
  if !exhaustive then .error .nonExhaustive else
  let rec go : List Arm → Except Err V
    | [] => .error .noArm
    | a :: rest => (match specArm a src with
      | .error e => .error e
      | .ok (some env) => evalE noSelf env a.body
      | .ok none => go rest)
  go arms

def resText (r : Except Err V) : String := match r with | .ok v => vText v | .error _ => "err"

def hasBoolLit (arms : List Arm) : Bool :=
  arms.any (fun a => match a.pat with
    | .sp (.lit (.bool _)) => true
    | .tup ps => ps.any (fun p => match p with | .lit (.bool _) => true | _ => false)
    | _ => false)

def IT : Nat := 2000000
def DEPTH : Nat := 100000

def runC16 (fields : List String) (obs : String) : String × String × String :=
  let bad := ("bad-case", "bad-case", "-")
  -- a trailing `form=…` field says how the matched value or the arguments are written (in place or through
  -- variables): the result does not depend on it
  match fields.filter (fun f => !f.startsWith "form=") with
  | ["match", variants, v, arms] =>
    (match pV (toks v), (arms.splitOn ";;").mapM pArm with
     | some (src, []), some arms =>
       let vs := if variants == "-" then [] else variants.splitOn ","
       let m := matchExpr vs arms src
       let model := resText m
       let exp := resText (specMatch vs arms src)
       -- the arm-kind validation of match_expression rejects a match whose applicable arms
       -- disagree on the kind of their results: an error is then the documented outcome
       let validationErr := (match m with | .error .armKind => true | _ => false)
       let ok := obs == exp || (validationErr && obs == "err")
       -- C16-D3: another applicable arm is evaluated for the validation and its failure fails the match
       let laterArmFailed := exp != "err" && model == "err" && !validationErr
       let region := if ok then "-" else if hasBoolLit arms then "C16-D2" else if laterArmFailed then "C16-D3" else "-"
       (model, (if ok then "ok" else "bad:expected " ++ exp), region)
     | _, _ => bad)
  -- a function whose one parameter is a tuple: the arms are tried in source order against the argument, literals
  -- (numbers, strings and booleans alike) compare by value, the first arm that matches gives the result
  | ["fne", v, arms] =>
    -- a function of one parameter of the enum red(f64) | green(f64) | blue: the first arm that matches runs; the
    -- function is refused when it has no wildcard arm and leaves a variant without an arm
    (match pV (toks v), (arms.splitOn ";;").mapM pFArm with
     | some (src, []), some arms =>
       let rec goE : List (P × E) → Except Err V
         | [] => .error .noArm
         | a :: rest => (match matchP false a.1 src [] with
           | some env => evalE noSelf (env ++ [(nameCode "a", src)]) a.2
           | none => goE rest)
       let hasWild := arms.any (fun a => a.1 == P.sp SP.wild)
       let covers := ["red", "green", "blue"].all (fun t => arms.any (fun a => match a.1 with | .enm t' _ => t' == t | _ => false))
       let exp := if !hasWild && !covers then "err" else resText (goE arms)
       (exp, (if obs == exp then "ok" else "bad:expected " ++ exp), "-")
     | _, _ => bad)
  | ["fnt", _, v, arms] =>
    (match pV (toks v), (arms.splitOn ";;").mapM pFArm with
     | some (src, []), some arms =>
       let rec go : List (P × E) → Except Err V
         | [] => .error .noArm
         | a :: rest => (match matchP false a.1 src [] with
           | some env => evalE noSelf (env ++ [(nameCode "a", src)]) a.2
           | none => go rest)
       let exp := resText (go arms)
       (exp, (if obs == exp then "ok" else "bad:expected " ++ exp), "-")
     | _, _ => bad)
  | ["fn", arity, kind, arms, how, args] =>
    (match arity.toNat?, (arms.splitOn ";;").mapM pFArm, (if args.isEmpty then some [] else (args.splitOn ",").mapM pS) with
     | some ar, some arms, some args =>
       -- the declared inputs are called a, b (harness/src/c16.rs)
       let f : FDef := ⟨ar, arms, (["a", "b"].take ar).map nameCode⟩
       if how == "call" then
         let model := match callImpl f IT DEPTH args with | .ok s => sText s | .error _ => "err"
         let exp := match callRec f (3 * DEPTH) args with | .ok s => sText s | .error _ => "err"
         (model, (if obs == exp then "ok" else "bad:expected " ++ exp), "-")
       else
         -- broadcast over a matrix given in column-major order
         match (how.drop 6).toString.splitOn "x" with
         | [r, c] =>
           let render (res : Except Err (List S)) : String :=
             match res with
             | .error _ => "err"
             | .ok ys =>
               if kind == "f64" then s!"mat:f64:{r}x{c}:[" ++ " ".intercalate (ys.map (fun s => match s with | .num _ n => hexFixed (intToF64 n).toNat 16 | _ => "?")) ++ "]"
               else s!"mat:value:{r}x{c}:[" ++ " ".intercalate (ys.map sText) ++ "]"
           let model := render (if ar = 1 then broadcast (callImpl f IT DEPTH) args else .error .arity)
           let exp := render (if ar = 1 then broadcast (callRec f DEPTH) args else .error .arity)
           (model, (if obs == exp then "ok" else "bad:expected " ++ exp), "-")
         | _ => bad
     | _, _, _ => bad)
  | _ => bad

end MechVerif.Driver.S16
