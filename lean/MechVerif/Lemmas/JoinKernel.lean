/-
The join kernel as written (Gen/JoinKernel.lean, regenerated from table_ops.rs by tools/extract_join.py) computes the
join of Model/Table.lean.  The kernel works on `MechTable`s: columns keyed by id in an `IndexMap`, names in a `HashMap`
iterated in arbitrary order, result rows as `HashMap<id, Value>` transposed back into columns at the end.  The model
works on positions.  `toTable` reads a `MechTable` as a model table.
-/
import MechVerif.Gen.JoinKernel
import MechVerif.Lemmas.Table
namespace MechVerif.JoinIR
open MechVerif.Tbl MechVerif.SetM MechVerif.Gen.JoinKernel

/-! ### generic facts about folds and association lists -/

theorem list_fmap {α β : Type} (f : α → β) (l : List α) : f <$> l = l.map f := rfl

theorem foldl_append_only {α β : Type} (f : List β → α → List β) (h : ∀ acc x, f acc x = acc ++ f [] x) :
    ∀ (l : List α) (init : List β), l.foldl f init = init ++ l.flatMap (f []) := by
  intro l
  induction l with
  | nil => intro init; simp
  | cons x l ih => intro init; rw [List.foldl_cons, ih, h]; simp [List.append_assoc]

theorem foldl_skip {σ α : Type} (c : α → Bool) (g f : σ → α → σ)
    (h : ∀ s x, f s x = if c x then s else g s x) :
    ∀ (l : List α) (s : σ), l.foldl f s = (l.filter (fun x => !c x)).foldl g s := by
  intro l
  induction l with
  | nil => intro s; rfl
  | cons x l ih =>
    intro s
    rw [List.foldl_cons, h, List.filter_cons]
    cases hc : c x <;> simp [ih]

theorem foldl_fst {σ τ α : Type} (f : σ × τ → α → σ × τ) (g : σ → α → σ)
    (h : ∀ s x, (f s x).1 = g s.1 x) : ∀ (l : List α) (s : σ × τ), (l.foldl f s).1 = l.foldl g s.1 := by
  intro l
  induction l with
  | nil => intro s; rfl
  | cons x l ih => intro s; rw [List.foldl_cons, ih, h]; rfl

theorem foldl_snd {σ τ α : Type} (f : σ × τ → α → σ × τ) (g : τ → α → τ)
    (h : ∀ s x, (f s x).2 = g s.2 x) : ∀ (l : List α) (s : σ × τ), (l.foldl f s).2 = l.foldl g s.2 := by
  intro l
  induction l with
  | nil => intro s; rfl
  | cons x l ih => intro s; rw [List.foldl_cons, ih, h]; rfl

theorem lookup_of_mem {κ ν : Type} [DecidableEq κ] : ∀ (m : List (κ × ν)) (k : κ) (v : ν),
    (m.map Prod.fst).Nodup → (k, v) ∈ m → List.lookup k m = some v := by
  intro m
  induction m with
  | nil => intro k v _ h; cases h
  | cons e m ih =>
    intro k v hnd hm
    obtain ⟨k', v'⟩ := e
    simp only [List.map_cons, List.nodup_cons] at hnd
    rw [List.lookup_cons]
    rcases List.mem_cons.1 hm with h | h
    · cases h; simp
    · have : k ≠ k' := by
        intro hk; subst hk
        exact hnd.1 (List.mem_map.2 ⟨(k, v), h, rfl⟩)
      have hb : (k == k') = false := by simpa using this
      rw [hb]; exact ih k v hnd.2 h

theorem mem_of_lookup {κ ν : Type} [DecidableEq κ] : ∀ (m : List (κ × ν)) (k : κ) (v : ν),
    List.lookup k m = some v → (k, v) ∈ m := by
  intro m k v h
  obtain ⟨l₁, l₂, rfl, _⟩ := List.lookup_eq_some_iff.1 h
  simp

theorem lookup_none_of_not_mem {κ ν : Type} [DecidableEq κ] (m : List (κ × ν)) (k : κ)
    (h : k ∉ m.map Prod.fst) : List.lookup k m = none := by
  rw [List.lookup_eq_none_iff]
  intro p hp
  simp only [bne_iff_ne, ne_eq]
  intro hk
  exact h (List.mem_map.2 ⟨p, hp, hk.symm⟩)

/-- a row built by inserting one binding per element -/
theorem get_foldl_insert_not_mem {α ν : Type} (key : α → Nat) (val : α → ν) (f : HashMap Nat ν → α → HashMap Nat ν)
    (hf : ∀ row x, f row x = HashMap.insert row (key x) (val x)) :
    ∀ (l : List α) (row0 : HashMap Nat ν) (k : Nat), k ∉ l.map key →
      AList.get (l.foldl f row0) k = AList.get row0 k := by
  intro l
  induction l with
  | nil => intro row0 k _; rfl
  | cons x l ih =>
    intro row0 k hk
    simp only [List.map_cons, List.mem_cons, not_or] at hk
    rw [List.foldl_cons, ih _ _ hk.2, hf]
    simp only [AList.get, HashMap.insert, List.lookup_cons]
    have : (k == key x) = false := by simpa using hk.1
    rw [this]

theorem get_foldl_insert_mem {α ν : Type} (key : α → Nat) (val : α → ν) (f : HashMap Nat ν → α → HashMap Nat ν)
    (hf : ∀ row x, f row x = HashMap.insert row (key x) (val x)) :
    ∀ (l : List α) (row0 : HashMap Nat ν) (x : α), (l.map key).Nodup → x ∈ l →
      AList.get (l.foldl f row0) (key x) = some (val x) := by
  intro l
  induction l with
  | nil => intro _ x _ h; cases h
  | cons y l ih =>
    intro row0 x hnd hx
    simp only [List.map_cons, List.nodup_cons] at hnd
    rw [List.foldl_cons]
    rcases List.mem_cons.1 hx with h | h
    · subst h
      rw [get_foldl_insert_not_mem key val f hf l _ _ hnd.1, hf]
      simp [AList.get, HashMap.insert]
    · exact ih _ x hnd.2 h

/-! ### a `MechTable` read as a model table -/

def nameOf (t : MechTable) (id : Nat) : String := (AList.get t.col_names id).getD (u64_to_string id)
def colsOf (t : MechTable) : List Col := t.data.map (fun e => ⟨nameOf t e.1, e.2.1.scalar, e.2.1.isOpt⟩)
/-- row `r` (1-based) -/
def rowAt (t : MechTable) (r : Nat) : Row := t.data.map (fun e => (index1d e.2.2 r).cell)
def rowsOf (t : MechTable) : List Row := (rangeIncl 1 t.rows).map (rowAt t)
def toTable (t : MechTable) : Table := ⟨colsOf t, rowsOf t⟩

def toMode : Gen.JoinKernel.JoinMode → Tbl.JoinMode
  | .Inner => .inner | .LeftOuter => .left | .RightOuter => .right | .FullOuter => .full
  | .LeftSemi => .semi | .LeftAnti => .anti

/-- The invariants of a `MechTable` the kernel relies on: the keys of the two maps are those of one set of columns
    (an `IndexMap` and a `HashMap` have no duplicate keys), and the column names are distinct. -/
structure WF (t : MechTable) : Prop where
  ids_nodup : (t.data.map Prod.fst).Nodup
  keys_nodup : (t.col_names.map Prod.fst).Nodup
  names_nodup : (t.col_names.map Prod.snd).Nodup
  same_ids : ∀ id, id ∈ t.col_names.map Prod.fst ↔ id ∈ t.data.map Prod.fst

/-- a column id stands for one name in both tables (the id is the hash of the name) -/
def Compat (lhs rhs : MechTable) : Prop :=
  ∀ l ∈ lhs.col_names, ∀ r ∈ rhs.col_names, l.1 = r.1 → l.2 = r.2


/-! ### ids and positions -/

theorem nodup_map_inj {α β : Type} (f : α → β) : ∀ (l : List α), (l.map f).Nodup →
    ∀ x ∈ l, ∀ y ∈ l, f x = f y → x = y := by
  intro l
  induction l with
  | nil => intro _ x hx; cases hx
  | cons a l ih =>
    intro hnd x hx y hy hxy
    simp only [List.map_cons, List.nodup_cons] at hnd
    rcases List.mem_cons.1 hx with rfl | hx' <;> rcases List.mem_cons.1 hy with rfl | hy'
    · rfl
    · exact absurd (List.mem_map.2 ⟨y, hy', hxy.symm⟩) hnd.1
    · exact absurd (List.mem_map.2 ⟨x, hx', hxy⟩) hnd.1
    · exact ih hnd.2 x hx' y hy' hxy

theorem WF.get_data {t : MechTable} (h : WF t) {e : Nat × ValueKind × Matrix Value} (he : e ∈ t.data) :
    AList.get t.data e.1 = some e.2 :=
  lookup_of_mem t.data e.1 e.2 h.ids_nodup he

theorem pos_of_id {t : MechTable} {id : Nat} (hid : id ∈ t.data.map Prod.fst) :
    ∃ (i : Nat) (e : Nat × ValueKind × Matrix Value), t.data[i]? = some e ∧ e.1 = id := by
  obtain ⟨e, he, rfl⟩ := List.mem_map.1 hid
  obtain ⟨i, hi⟩ := List.mem_iff_getElem?.1 he
  exact ⟨i, e, hi, rfl⟩

theorem WF.pos_inj {t : MechTable} (h : WF t) {i j : Nat} {e e' : Nat × ValueKind × Matrix Value}
    (hi : t.data[i]? = some e) (hj : t.data[j]? = some e') (hid : e.1 = e'.1) : i = j := by
  have hlt : i < (t.data.map Prod.fst).length := by
    rw [List.length_map]; exact (List.getElem?_eq_some_iff.1 hi).1
  apply (List.getElem?_inj hlt h.ids_nodup).1
  rw [List.getElem?_map, List.getElem?_map, hi, hj]; simp [hid]

theorem WF.name_of_mem {t : MechTable} (h : WF t) {id : Nat} {n : String} (hm : (id, n) ∈ t.col_names) :
    nameOf t id = n := by
  simp [nameOf, AList.get, lookup_of_mem t.col_names id n h.keys_nodup hm]

theorem WF.mem_names {t : MechTable} (h : WF t) {id : Nat} (hid : id ∈ t.data.map Prod.fst) :
    (id, nameOf t id) ∈ t.col_names := by
  obtain ⟨e, he, rfl⟩ := List.mem_map.1 ((h.same_ids id).2 hid)
  rw [h.name_of_mem (n := e.2) he]; exact he

theorem WF.id_of_name {t : MechTable} (h : WF t) {a b : Nat} {n : String}
    (ha : (a, n) ∈ t.col_names) (hb : (b, n) ∈ t.col_names) : a = b :=
  congrArg Prod.fst (nodup_map_inj Prod.snd t.col_names h.names_nodup _ ha _ hb rfl)

theorem WF.id_mem_data {t : MechTable} (h : WF t) {id : Nat} {n : String} (hm : (id, n) ∈ t.col_names) :
    id ∈ t.data.map Prod.fst := (h.same_ids id).1 (List.mem_map.2 ⟨_, hm, rfl⟩)

theorem colsOf_getElem? (t : MechTable) (i : Nat) :
    (colsOf t)[i]? = (t.data[i]?).map (fun e => ⟨nameOf t e.1, e.2.1.scalar, e.2.1.isOpt⟩) := by
  simp [colsOf]

theorem collect_eq_reverse {κ ν : Type} (l : List (κ × ν)) : HashMap.collect l = l.reverse := by
  have : ∀ (l : List (κ × ν)) (m : HashMap κ ν),
      l.foldl (fun m p => HashMap.insert m p.1 p.2) m = l.reverse ++ m := by
    intro l
    induction l with
    | nil => intro m; rfl
    | cons x l ih => intro m; rw [List.foldl_cons, ih]; simp [HashMap.insert]
  simpa [HashMap.collect] using this l []

/-- `rhs_name_to_id` -/
def nameToId (t : MechTable) : HashMap String Nat :=
  HashMap.collect ((fun (p : Nat × String) => (p.2, p.1)) <$> iter t.col_names)

theorem WF.nameToId_get {t : MechTable} (h : WF t) (n : String) (r : Nat) :
    AList.get (nameToId t) n = some r ↔ (r, n) ∈ t.col_names := by
  simp only [nameToId, iter, list_fmap, collect_eq_reverse, AList.get]
  constructor
  · intro hl
    have := mem_of_lookup _ _ _ hl
    simp only [List.mem_reverse, List.mem_map, Prod.mk.injEq] at this
    obtain ⟨⟨a, b⟩, hab, h1, h2⟩ := this
    simp only at h1 h2; subst h1; subst h2; exact hab
  · intro hm
    apply lookup_of_mem
    · rw [← List.map_reverse, List.map_map]
      have : (Prod.fst ∘ fun (p : Nat × String) => (p.2, p.1)) = Prod.snd := by funext p; rfl
      rw [this, List.map_reverse]
      exact h.names_nodup.perm (List.reverse_perm _).symm
    · simp only [List.mem_reverse, List.mem_map, Prod.mk.injEq]
      exact ⟨(r, n), hm, rfl, rfl⟩

/-- `common_cols`: the (left id, right id) pairs of the commonly named columns, in the iteration order of the left
    table's `col_names` -/
def ccIds (lhs rhs : MechTable) : List (Nat × Nat) :=
  lhs.col_names.filterMap (fun e => (AList.get (nameToId rhs) e.2).map (fun r => (e.1, r)))

theorem mem_ccIds {lhs rhs : MechTable} (hr : WF rhs) (l r : Nat) :
    (l, r) ∈ ccIds lhs rhs ↔ ∃ n, (l, n) ∈ lhs.col_names ∧ (r, n) ∈ rhs.col_names := by
  simp only [ccIds, List.mem_filterMap, Option.map_eq_some_iff, Prod.mk.injEq]
  constructor
  · rintro ⟨⟨a, n⟩, ha, r', hr', h1, h2⟩
    simp only at h1 h2 hr'; subst h1; subst h2
    exact ⟨n, ha, (hr.nameToId_get n r').1 hr'⟩
  · rintro ⟨n, hl, hrn⟩
    exact ⟨(l, n), hl, r, (hr.nameToId_get n r).2 hrn, rfl, rfl⟩

theorem mem_commonCols (L R : List Col) (i j : Nat) :
    (i, j) ∈ commonCols L R ↔ ∃ c, L[i]? = some c ∧ R.findIdx? (fun r => r.name == c.name) = some j := by
  simp only [commonCols, List.mem_filterMap, Option.map_eq_some_iff, Prod.mk.injEq]
  constructor
  · rintro ⟨⟨c, i'⟩, hm, j', hj, h1, h2⟩
    simp only at h1 h2 hj; subst h1; subst h2
    exact ⟨c, List.mem_zipIdx_iff_getElem?.1 hm, hj⟩
  · rintro ⟨c, hc, hj⟩
    exact ⟨(c, i), List.mem_zipIdx_iff_getElem?.2 hc, j, hj, rfl, rfl⟩

theorem commonCols_unique (L R : List Col) {i j j' : Nat} (h : (i, j) ∈ commonCols L R)
    (h' : (i, j') ∈ commonCols L R) : j = j' := by
  obtain ⟨c, hc, hj⟩ := (mem_commonCols L R i j).1 h
  obtain ⟨c', hc', hj'⟩ := (mem_commonCols L R i j').1 h'
  rw [hc] at hc'; cases hc'
  rw [hj] at hj'; exact Option.some.inj hj'

/-- the bridge: a pair of positions is common in the model iff the pair of ids at these positions is common in the
    kernel -/
theorem bridge {lhs rhs : MechTable} (hl : WF lhs) (hr : WF rhs) (i j : Nat) :
    (i, j) ∈ commonCols (colsOf lhs) (colsOf rhs) ↔
      ∃ el er, lhs.data[i]? = some el ∧ rhs.data[j]? = some er ∧ (el.1, er.1) ∈ ccIds lhs rhs := by
  rw [mem_commonCols]
  constructor
  · rintro ⟨c, hc, hj⟩
    rw [colsOf_getElem?] at hc
    obtain ⟨el, hel, rfl⟩ := Option.map_eq_some_iff.1 hc
    obtain ⟨hjlt, hname, _⟩ := List.findIdx?_eq_some_iff_getElem.1 hj
    have hjlt' : j < rhs.data.length := by simpa [colsOf] using hjlt
    refine ⟨el, rhs.data[j], hel, List.getElem?_eq_getElem hjlt', ?_⟩
    rw [mem_ccIds hr]
    simp only [colsOf, List.getElem_map, beq_iff_eq] at hname
    refine ⟨nameOf lhs el.1, hl.mem_names (List.mem_map.2 ⟨el, List.mem_of_getElem? hel, rfl⟩), ?_⟩
    rw [← hname]
    exact hr.mem_names (List.mem_map.2 ⟨_, List.getElem_mem hjlt', rfl⟩)
  · rintro ⟨el, er, hel, her, hcc⟩
    obtain ⟨n, hln, hrn⟩ := (mem_ccIds hr _ _).1 hcc
    refine ⟨_, by rw [colsOf_getElem?, hel]; rfl, ?_⟩
    have hjlt : j < rhs.data.length := (List.getElem?_eq_some_iff.1 her).1
    have hje : rhs.data[j] = er := (List.getElem?_eq_some_iff.1 her).2
    rw [List.findIdx?_eq_some_iff_getElem]
    refine ⟨by simpa [colsOf] using hjlt, ?_, ?_⟩
    · simp only [colsOf, List.getElem_map, beq_iff_eq, hje]
      rw [hl.name_of_mem hln, hr.name_of_mem hrn]
    · intro k hk hkn
      have hklt : k < rhs.data.length := by omega
      simp only [colsOf, List.getElem_map, beq_iff_eq] at hkn
      rw [hl.name_of_mem hln] at hkn
      have hkm := hr.mem_names (List.mem_map.2 ⟨_, List.getElem_mem hklt, rfl⟩)
      rw [hkn] at hkm
      have hid := hr.id_of_name hkm hrn
      have := hr.pos_inj (List.getElem?_eq_getElem hklt) her hid
      omega

/-! ### `rows_match` -/

theorem cellAt_rowAt (t : MechTable) (r i : Nat) (e : Nat × ValueKind × Matrix Value) (he : t.data[i]? = some e) :
    cellAt (rowAt t r) i = (index1d e.2.2 r).cell := by
  simp [cellAt, rowAt, he]

theorem value_beq (a b : Value) : (a == b) = cellEq a.cell b.cell := rfl
theorem some_value_beq (a b : Value) : (some a == some b) = cellEq a.cell b.cell := by
  rw [Option.some_beq_some]; rfl

theorem rows_match_eq {lhs rhs : MechTable} (hl : WF lhs) (hr : WF rhs) (i j : Nat) :
    rows_match lhs i rhs j (ccIds lhs rhs) =
      rowsMatch (commonCols (colsOf lhs) (colsOf rhs)) (rowAt lhs i) (rowAt rhs j) := by
  unfold rows_match rowsMatch
  rw [Bool.eq_iff_iff, List.all_eq_true, List.all_eq_true]
  constructor
  · rintro h ⟨i', j'⟩ hp
    obtain ⟨el, er, hel, her, hcc⟩ := (bridge hl hr i' j').1 hp
    have := h _ hcc
    simp only [Option.map_eq_map, hl.get_data (List.mem_of_getElem? hel), hr.get_data (List.mem_of_getElem? her),
      Option.map_some, some_value_beq] at this
    rw [cellAt_rowAt lhs i i' el hel, cellAt_rowAt rhs j j' er her]
    exact this
  · rintro h ⟨l, r⟩ hp
    obtain ⟨n, hln, hrn⟩ := (mem_ccIds hr l r).1 hp
    obtain ⟨i', el, hel, rfl⟩ := pos_of_id (hl.id_mem_data hln)
    obtain ⟨j', er, her, rfl⟩ := pos_of_id (hr.id_mem_data hrn)
    have := h (i', j') ((bridge hl hr i' j').2 ⟨el, er, hel, her, hp⟩)
    rw [cellAt_rowAt lhs i i' el hel, cellAt_rowAt rhs j j' er her] at this
    simp only [Option.map_eq_map, hl.get_data (List.mem_of_getElem? hel), hr.get_data (List.mem_of_getElem? her),
      Option.map_some, some_value_beq]
    exact this
/-! ### the join keys as sets of ids -/

theorem contains_eq_decide_mem (s : HashSet Nat) (k : Nat) : HashSet.contains s k = decide (k ∈ s) := by
  simp [HashSet.contains]

theorem contains_commonRhs {lhs rhs : MechTable} (hl : WF lhs) (hr : WF rhs) (j : Nat)
    (er : Nat × ValueKind × Matrix Value) (her : rhs.data[j]? = some er) :
    HashSet.contains ((ccIds lhs rhs).map Prod.snd) er.1 =
      (commonCols (colsOf lhs) (colsOf rhs)).any (fun p => p.2 == j) := by
  rw [contains_eq_decide_mem, Bool.eq_iff_iff, decide_eq_true_iff, List.any_eq_true]
  constructor
  · intro h
    obtain ⟨⟨l, r⟩, hp, hr'⟩ := List.mem_map.1 h
    simp only at hr'; subst hr'
    obtain ⟨n, hln, _⟩ := (mem_ccIds hr l er.1).1 hp
    obtain ⟨i, el, hel, rfl⟩ := pos_of_id (hl.id_mem_data hln)
    exact ⟨(i, j), (bridge hl hr i j).2 ⟨el, er, hel, her, hp⟩, by simp⟩
  · rintro ⟨⟨i', j'⟩, hp, hj⟩
    simp only [beq_iff_eq] at hj; subst hj
    obtain ⟨el, er', _, her', hcc⟩ := (bridge hl hr i' j').1 hp
    rw [her] at her'; cases her'
    exact List.mem_map.2 ⟨_, hcc, rfl⟩

theorem contains_commonLhs {lhs rhs : MechTable} (hl : WF lhs) (hr : WF rhs) (i : Nat)
    (el : Nat × ValueKind × Matrix Value) (hel : lhs.data[i]? = some el) :
    HashSet.contains ((ccIds lhs rhs).map Prod.fst) el.1 =
      (commonCols (colsOf lhs) (colsOf rhs)).any (fun p => p.1 == i) := by
  rw [contains_eq_decide_mem, Bool.eq_iff_iff, decide_eq_true_iff, List.any_eq_true]
  constructor
  · intro h
    obtain ⟨⟨l, r⟩, hp, hl'⟩ := List.mem_map.1 h
    simp only at hl'; subst hl'
    obtain ⟨n, _, hrn⟩ := (mem_ccIds hr el.1 r).1 hp
    obtain ⟨j, er, her, rfl⟩ := pos_of_id (hr.id_mem_data hrn)
    exact ⟨(i, j), (bridge hl hr i j).2 ⟨el, er, hel, her, hp⟩, by simp⟩
  · rintro ⟨⟨i', j'⟩, hp, hi⟩
    simp only [beq_iff_eq] at hi; subst hi
    obtain ⟨el', er, hel', _, hcc⟩ := (bridge hl hr i' j').1 hp
    rw [hel] at hel'; cases hel'
    exact List.mem_map.2 ⟨_, hcc, rfl⟩

theorem filter_eq_filterMap_range {α : Type} : ∀ (xs : List α) (p : α → Bool) (q : Nat → Bool),
    (∀ j e, xs[j]? = some e → p e = q j) →
    xs.filter p = ((List.range xs.length).filter q).filterMap (fun j => xs[j]?) := by
  intro xs
  induction xs with
  | nil => intro p q _; rfl
  | cons y ys ih =>
    intro p q h
    have h0 : p y = q 0 := h 0 y rfl
    have ih' := ih p (fun j => q (j + 1)) (fun j e he => h (j + 1) e (by simpa using he))
    rw [List.length_cons, List.range_succ_eq_map, List.filter_cons, List.filter_cons, List.filter_map, h0, ih']
    cases q 0 <;> simp [List.filterMap_map, Function.comp_def]

/-- the right table's columns that are not join keys: as the kernel selects them (by id) and as the model does (by
    position) -/
theorem rhs_only_data {lhs rhs : MechTable} (hl : WF lhs) (hr : WF rhs) :
    rhs.data.filter (fun e => !HashSet.contains ((ccIds lhs rhs).map Prod.snd) e.1) =
      (rhsOnly (colsOf lhs) (colsOf rhs)).filterMap (fun j => rhs.data[j]?) := by
  rw [filter_eq_filterMap_range rhs.data _ (fun j => !(commonCols (colsOf lhs) (colsOf rhs)).any (fun p => p.2 == j))]
  · simp [rhsOnly, colsOf]
  · intro j e he
    rw [contains_commonRhs hl hr j e he]

/-! ### `merge_rows` read back in the order of the output columns -/


/-- the cell of column `id` in row `r`, as the kernel reads it -/
def cellById (t : MechTable) (r : Nat) (id : Nat) : Value :=
  Option.getD ((fun (x : ValueKind × Matrix Value) => index1d x.2 r) <$> AList.get t.data id) Value.Empty

theorem cellById_of_mem {t : MechTable} (h : WF t) (r : Nat) {e : Nat × ValueKind × Matrix Value} (he : e ∈ t.data) :
    cellById t r e.1 = index1d e.2.2 r := by
  simp [cellById, h.get_data he]

theorem merge_rows_eq (lhs : MechTable) (i : Nat) (rhs : MechTable) (j : Nat) (crhs : HashSet Nat) (empty : Bool) :
    merge_rows lhs i rhs j crhs empty =
      (rhs.data.filter (fun e => !HashSet.contains crhs e.1)).foldl
        (fun row e => HashMap.insert row e.1 (if (empty || (j == 0)) then Value.Empty else cellById rhs j e.1))
        (lhs.data.foldl (fun row e => HashMap.insert row e.1 (cellById lhs i e.1)) HashMap.new) := by
  unfold merge_rows
  simp only []
  rw [foldl_skip (fun e => HashSet.contains crhs e.1)
    (fun row e => HashMap.insert row e.1 (if (empty || (j == 0)) then Value.Empty else cellById rhs j e.1))]
  · congr 1
  · rintro s ⟨a, b⟩; rfl


/-- reading a result row (a `HashMap<id, Value>`) back in the order of the output columns -/
def readRow (ids : List Nat) (row : HashMap Nat Value) : Row :=
  ids.map (fun id => ((AList.get row id).getD Value.Empty).cell)

/-- ids of the right table's columns that are not join keys -/
def roData (lhs rhs : MechTable) : List (Nat × ValueKind × Matrix Value) :=
  rhs.data.filter (fun e => !HashSet.contains ((ccIds lhs rhs).map Prod.snd) e.1)

theorem roData_nodup {lhs rhs : MechTable} (hr : WF rhs) : ((roData lhs rhs).map Prod.fst).Nodup :=
  List.Nodup.sublist (List.Sublist.map _ List.filter_sublist) hr.ids_nodup

theorem roData_disjoint {lhs rhs : MechTable} (hl : WF lhs) (hr : WF rhs) (hc : Compat lhs rhs)
    {e : Nat × ValueKind × Matrix Value} (he : e ∈ roData lhs rhs) : e.1 ∉ lhs.data.map Prod.fst := by
  intro hmem
  have hmemr : e ∈ rhs.data := (List.mem_filter.1 he).1
  have h1 := hl.mem_names hmem
  have h2 := hr.mem_names (List.mem_map.2 ⟨e, hmemr, rfl⟩)
  have hn := hc _ h1 _ h2 rfl
  simp only at hn
  have hcc : (e.1, e.1) ∈ ccIds lhs rhs := (mem_ccIds hr _ _).2 ⟨_, h1, by rw [hn]; exact h2⟩
  have := (List.mem_filter.1 he).2
  rw [contains_eq_decide_mem] at this
  have hm : e.1 ∈ (ccIds lhs rhs).map Prod.snd := List.mem_map.2 ⟨_, hcc, rfl⟩
  simp [hm] at this

theorem filterMap_getElem_map {α β : Type} (xs : List α) (g : α → β) (d : β) : ∀ (ro : List Nat),
    (∀ k ∈ ro, k < xs.length) →
    (ro.filterMap (fun k => xs[k]?)).map g = ro.map (fun k => ((xs.map g)[k]?).getD d) := by
  intro ro
  induction ro with
  | nil => intro _; rfl
  | cons k ro ih =>
    intro h
    have hk : k < xs.length := h k (List.mem_cons_self ..)
    rw [List.filterMap_cons, List.getElem?_eq_getElem hk]
    simp only [List.map_cons, List.getElem?_map, List.getElem?_eq_getElem hk, Option.map_some, Option.getD_some]
    rw [ih (fun k' hk' => h k' (List.mem_cons_of_mem _ hk'))]
    simp [List.getElem?_map]

theorem rhsOnly_lt (L R : List Col) : ∀ k ∈ rhsOnly L R, k < R.length := by
  intro k hk
  simp only [rhsOnly, List.mem_filter, List.mem_range] at hk
  exact hk.1

theorem merge_rows_read {lhs rhs : MechTable} (hl : WF lhs) (hr : WF rhs) (hc : Compat lhs rhs) (i j : Nat) (empty : Bool) :
    readRow (lhs.data.map Prod.fst ++ (roData lhs rhs).map Prod.fst)
        (merge_rows lhs i rhs j ((ccIds lhs rhs).map Prod.snd) empty) =
      if empty then padRight (rhsOnly (colsOf lhs) (colsOf rhs)) (rowAt lhs i)
      else mergeRow (rhsOnly (colsOf lhs) (colsOf rhs)) (rowAt lhs i) (rowAt rhs j) := by
  rw [merge_rows_eq, show rhs.data.filter (fun e => !HashSet.contains ((ccIds lhs rhs).map Prod.snd) e.1) = roData lhs rhs from rfl]
  simp only [readRow, List.map_append, List.map_map]
  have hL : List.map ((fun id => ((AList.get
        ((roData lhs rhs).foldl
          (fun row e => HashMap.insert row e.1 (if (empty || (j == 0)) then Value.Empty else cellById rhs j e.1))
          (lhs.data.foldl (fun row e => HashMap.insert row e.1 (cellById lhs i e.1)) HashMap.new)) id).getD Value.Empty).cell) ∘ Prod.fst)
      lhs.data = rowAt lhs i := by
    simp only [rowAt]
    apply List.map_congr_left
    intro e he
    simp only [Function.comp]
    rw [get_foldl_insert_not_mem Prod.fst _ _ (fun _ _ => rfl)]
    · rw [get_foldl_insert_mem Prod.fst (fun e => cellById lhs i e.1) _ (fun _ _ => rfl) _ _ e hl.ids_nodup he]
      simp [cellById_of_mem hl i he]
    · intro hmem
      obtain ⟨e', he', hid⟩ := List.mem_map.1 hmem
      exact roData_disjoint hl hr hc he' (by rw [hid]; exact List.mem_map.2 ⟨e, he, rfl⟩)
  have hR : List.map ((fun id => ((AList.get
        ((roData lhs rhs).foldl
          (fun row e => HashMap.insert row e.1 (if (empty || (j == 0)) then Value.Empty else cellById rhs j e.1))
          (lhs.data.foldl (fun row e => HashMap.insert row e.1 (cellById lhs i e.1)) HashMap.new)) id).getD Value.Empty).cell) ∘ Prod.fst)
      (roData lhs rhs) = (roData lhs rhs).map (fun e => if empty then none else (index1d e.2.2 j).cell) := by
    apply List.map_congr_left
    intro e he
    simp only [Function.comp]
    rw [get_foldl_insert_mem Prod.fst (fun e => if (empty || (j == 0)) then Value.Empty else cellById rhs j e.1) _
      (fun _ _ => rfl) _ _ e (roData_nodup hr) he]
    rw [cellById_of_mem hr j (List.mem_filter.1 he).1]
    cases empty
    · by_cases hj : j = 0
      · subst hj; simp [index1d, Value.Empty]
      · simp [hj]
    · simp [Value.Empty]
  rw [hL, hR, roData, rhs_only_data hl hr]
  cases empty
  · simp only [Bool.false_eq_true, if_false, mergeRow]
    congr 1
    rw [filterMap_getElem_map rhs.data (fun e => (index1d e.2.2 j).cell) none _
      (fun k hk => by simpa [colsOf] using rhsOnly_lt _ _ k hk)]
    rfl
  · simp only [if_true, padRight, List.map_const']
    congr 1
    have := congrArg List.length (filterMap_getElem_map rhs.data (fun _ => ()) () _
      (fun k hk => by simpa [colsOf] using rhsOnly_lt (colsOf lhs) (colsOf rhs) k hk))
    simp only [List.length_map] at this
    rw [this]
/-! ### `lhs_only_row` and the row of an unmatched right row -/

theorem lhs_only_row_read {lhs : MechTable} (hl : WF lhs) (i : Nat) :
    readRow (lhs.data.map Prod.fst) (lhs_only_row lhs i) = rowAt lhs i := by
  unfold lhs_only_row
  simp only [readRow, rowAt, List.map_map, iter, list_fmap, HashMap.collect]
  apply List.map_congr_left
  intro e he
  simp only [Function.comp]
  have hnd : ((lhs.data.map (fun (x : Nat × ValueKind × Matrix Value) => (x.1, cellById lhs i x.1))).map Prod.fst).Nodup := by
    rw [List.map_map]; exact hl.ids_nodup
  have := get_foldl_insert_mem (α := Nat × Value) Prod.fst Prod.snd (fun m p => HashMap.insert m p.1 p.2) (fun _ _ => rfl)
    (lhs.data.map (fun x => (x.1, cellById lhs i x.1))) [] (e.1, cellById lhs i e.1) hnd
    (List.mem_map.2 ⟨e, he, rfl⟩)
  simp only at this
  have h2 : (List.map (fun (x : Nat × ValueKind × Matrix Value) =>
      match x with
      | (lhs_id, _) => (lhs_id, Option.getD ((fun (x : ValueKind × Matrix Value) => match x with | (_, col) => index1d col i) <$> AList.get lhs.data lhs_id) Value.Empty)) lhs.data)
      = lhs.data.map (fun x => (x.1, cellById lhs i x.1)) := by
    apply List.map_congr_left
    rintro ⟨a, b⟩ _; rfl
  rw [h2, this, cellById_of_mem hl i he]; rfl

/-- the value the unmatched-right pass puts into the left column `id` -/
def unmatchedLhsVal (lhs rhs : MechTable) (j : Nat) (id : Nat) : Value :=
  match (ccIds lhs rhs).find? (fun p => p.1 == id) with
  | some p => cellById rhs j p.2
  | none => Value.Empty

def unmatchedRow (lhs rhs : MechTable) (j : Nat) : HashMap Nat Value :=
  (roData lhs rhs).foldl (fun row e => HashMap.insert row e.1 (cellById rhs j e.1))
    (lhs.data.foldl (fun row e => HashMap.insert row e.1 (unmatchedLhsVal lhs rhs j e.1)) HashMap.new)

theorem map_eq_map_range {α β : Type} : ∀ (xs : List α) (F : α → β) (G : Nat → β),
    (∀ i e, xs[i]? = some e → F e = G i) → xs.map F = (List.range xs.length).map G := by
  intro xs
  induction xs with
  | nil => intro F G _; rfl
  | cons y ys ih =>
    intro F G h
    rw [List.length_cons, List.range_succ_eq_map, List.map_cons, List.map_cons, List.map_map,
      ih F (G ∘ Nat.succ) (fun i e he => h (i + 1) e (by simpa using he)), h 0 y rfl]

theorem unmatchedLhsVal_eq {lhs rhs : MechTable} (hl : WF lhs) (hr : WF rhs) (j i : Nat)
    (el : Nat × ValueKind × Matrix Value) (hel : lhs.data[i]? = some el) :
    (unmatchedLhsVal lhs rhs j el.1).cell =
      (match (commonCols (colsOf lhs) (colsOf rhs)).find? (fun p => p.1 == i) with
       | some p => cellAt (rowAt rhs j) p.2
       | none => none) := by
  unfold unmatchedLhsVal
  cases hf : (ccIds lhs rhs).find? (fun p => p.1 == el.1) with
  | some p =>
    obtain ⟨l, r⟩ := p
    have hp := List.find?_some hf
    have hm := List.mem_of_find?_eq_some hf
    simp only [beq_iff_eq] at hp; subst hp
    obtain ⟨n, _, hrn⟩ := (mem_ccIds hr _ _).1 hm
    obtain ⟨j', er, her, rfl⟩ := pos_of_id (hr.id_mem_data hrn)
    have hcc := (bridge hl hr i j').2 ⟨el, er, hel, her, hm⟩
    cases hf' : (commonCols (colsOf lhs) (colsOf rhs)).find? (fun p => p.1 == i) with
    | none =>
      have := List.find?_eq_none.1 hf' _ hcc
      simp at this
    | some q =>
      obtain ⟨i', j''⟩ := q
      have hq := List.find?_some hf'
      have hqm := List.mem_of_find?_eq_some hf'
      simp only [beq_iff_eq] at hq; subst hq
      have := commonCols_unique _ _ hqm hcc
      subst this
      simp only [cellById_of_mem hr j (List.mem_of_getElem? her), cellAt_rowAt rhs j _ er her]
  | none =>
    cases hf' : (commonCols (colsOf lhs) (colsOf rhs)).find? (fun p => p.1 == i) with
    | none => rfl
    | some q =>
      obtain ⟨i', j'⟩ := q
      have hq := List.find?_some hf'
      have hqm := List.mem_of_find?_eq_some hf'
      simp only [beq_iff_eq] at hq; subst hq
      obtain ⟨el', er, hel', _, hcc⟩ := (bridge hl hr i' j').1 hqm
      rw [hel] at hel'; cases hel'
      have := List.find?_eq_none.1 hf _ hcc
      simp at this

theorem unmatchedRow_read {lhs rhs : MechTable} (hl : WF lhs) (hr : WF rhs) (hc : Compat lhs rhs) (j : Nat) :
    readRow (lhs.data.map Prod.fst ++ (roData lhs rhs).map Prod.fst) (unmatchedRow lhs rhs j) =
      padLeft (colsOf lhs).length (commonCols (colsOf lhs) (colsOf rhs)) (rhsOnly (colsOf lhs) (colsOf rhs)) (rowAt rhs j) := by
  simp only [readRow, List.map_append, List.map_map, unmatchedRow, padLeft]
  congr 1
  · have hlen : (colsOf lhs).length = lhs.data.length := by simp [colsOf]
    rw [hlen]
    apply map_eq_map_range
    intro i e he
    simp only [Function.comp]
    rw [get_foldl_insert_not_mem Prod.fst _ _ (fun _ _ => rfl)]
    · rw [get_foldl_insert_mem Prod.fst (fun e => unmatchedLhsVal lhs rhs j e.1) _ (fun _ _ => rfl) _ _ e hl.ids_nodup
        (List.mem_of_getElem? he)]
      simp only [Option.getD_some]
      exact unmatchedLhsVal_eq hl hr j i e he
    · intro hmem
      obtain ⟨e', he', hid⟩ := List.mem_map.1 hmem
      exact roData_disjoint hl hr hc he' (by rw [hid]; exact List.mem_map.2 ⟨e, List.mem_of_getElem? he, rfl⟩)
  · have : List.map ((fun id => ((AList.get
          ((roData lhs rhs).foldl (fun row e => HashMap.insert row e.1 (cellById rhs j e.1))
            (lhs.data.foldl (fun row e => HashMap.insert row e.1 (unmatchedLhsVal lhs rhs j e.1)) HashMap.new)) id).getD
              Value.Empty).cell) ∘ Prod.fst) (roData lhs rhs) =
        (roData lhs rhs).map (fun e => (index1d e.2.2 j).cell) := by
      apply List.map_congr_left
      intro e he
      simp only [Function.comp]
      rw [get_foldl_insert_mem Prod.fst (fun e => cellById rhs j e.1) _ (fun _ _ => rfl) _ _ e (roData_nodup hr) he,
        cellById_of_mem hr j (List.mem_filter.1 he).1]
      rfl
    rw [this, roData, rhs_only_data hl hr,
      filterMap_getElem_map rhs.data (fun e => (index1d e.2.2 j).cell) none _
        (fun k hk => by simpa [colsOf] using rhsOnly_lt _ _ k hk)]
    rfl

/-! ### the flags `rhs_matched` -/

/-- `for rhs_row in matched_rhs { rhs_matched[rhs_row - 1] = true; }` -/
def setAll (m : List Bool) (js : List Nat) : List Bool := js.foldl (fun m r => m.set (r - 1) true) m

theorem setAll_length : ∀ (js : List Nat) (m : List Bool), (setAll m js).length = m.length := by
  intro js
  induction js with
  | nil => intro m; rfl
  | cons r js ih => intro m; simp only [setAll, List.foldl_cons] at ih ⊢; rw [ih]; simp

theorem vecGet_setAll : ∀ (js : List Nat) (m : List Bool) (k : Nat),
    vecGet (setAll m js) k = (vecGet m k || (decide (k < m.length) && js.any (fun r => r - 1 == k))) := by
  intro js
  induction js with
  | nil => intro m k; simp [setAll]
  | cons r js ih =>
    intro m k
    have := ih (m.set (r - 1) true) k
    simp only [setAll, List.foldl_cons] at this ⊢
    rw [this]
    simp only [vecGet, List.getElem?_set, List.length_set, List.any_cons]
    by_cases hk : k < m.length <;> by_cases hr : r - 1 = k
    · subst hr; simp [hk]
    · have : (r - 1 == k) = false := by simpa using hr
      simp [hk, hr, this]
    · subst hr; simp [hk]
    · simp [hk, hr]

theorem vecGet_foldl_setAll (matched : Nat → List Nat) : ∀ (is : List Nat) (m : List Bool) (k : Nat),
    vecGet (is.foldl (fun m i => setAll m (matched i)) m) k =
      (vecGet m k || (decide (k < m.length) && is.any (fun i => (matched i).any (fun r => r - 1 == k)))) := by
  intro is
  induction is with
  | nil => intro m k; simp
  | cons i is ih =>
    intro m k
    rw [List.foldl_cons, ih, vecGet_setAll, setAll_length]
    simp only [List.any_cons]
    cases vecGet m k <;> cases decide (k < m.length) <;> simp

theorem foldl_pair_split {σ τ α : Type} (f : List σ × τ → α → List σ × τ) (g : α → List σ) (k : τ → α → τ)
    (h1 : ∀ s x, (f s x).1 = s.1 ++ g x) (h2 : ∀ s x, (f s x).2 = k s.2 x) :
    ∀ (l : List α) (s : List σ × τ), l.foldl f s = (s.1 ++ l.flatMap g, l.foldl k s.2) := by
  intro l
  induction l with
  | nil => intro s; simp
  | cons x l ih =>
    intro s
    rw [List.foldl_cons, ih, h1, h2]
    simp [List.append_assoc]

/-! ### the kernel in closed form -/

theorem foldl_filterMap {α β : Type} (f : List β → α → List β) (g : α → Option β)
    (h : ∀ acc x, f acc x = match g x with | some y => acc ++ [y] | none => acc) :
    ∀ (l : List α) (init : List β), l.foldl f init = init ++ l.filterMap g := by
  intro l
  induction l with
  | nil => intro init; simp
  | cons x l ih =>
    intro init
    rw [List.foldl_cons, ih, h, List.filterMap_cons]
    cases g x <;> simp

theorem foldl_map {α β : Type} (f : List β → α → List β) (g : α → β)
    (h : ∀ acc x, f acc x = acc ++ [g x]) : ∀ (l : List α) (init : List β), l.foldl f init = init ++ l.map g := by
  intro l
  induction l with
  | nil => intro init; simp
  | cons x l ih => intro init; rw [List.foldl_cons, ih, h]; simp

theorem foldl_filter {α : Type} (f : List α → α → List α) (p : α → Bool)
    (h : ∀ acc x, f acc x = if p x then acc ++ [x] else acc) : ∀ (l : List α) (init : List α),
    l.foldl f init = init ++ l.filter p := by
  intro l
  induction l with
  | nil => intro init; simp
  | cons x l ih =>
    intro init
    rw [List.foldl_cons, ih, h, List.filter_cons]
    cases p x <;> simp

def isRF : Gen.JoinKernel.JoinMode → Bool | .RightOuter | .FullOuter => true | _ => false
def isLF : Gen.JoinKernel.JoinMode → Bool | .LeftOuter | .FullOuter => true | _ => false
def isSA : Gen.JoinKernel.JoinMode → Bool | .LeftSemi | .LeftAnti => true | _ => false

def crhs (lhs rhs : MechTable) : HashSet Nat := (ccIds lhs rhs).map Prod.snd
def clhs (lhs rhs : MechTable) : HashSet Nat := (ccIds lhs rhs).map Prod.fst

def outputCols (lhs rhs : MechTable) (mode : Gen.JoinKernel.JoinMode) : List (Nat × ValueKind × String) :=
  if isSA mode then lhs.data.map (fun e => (e.1, e.2.1, nameOf lhs e.1))
  else lhs.data.map (fun e => (e.1, (if (!HashSet.contains (clhs lhs rhs) e.1 && isRF mode) then make_optional_kind e.2.1 else e.2.1),
      nameOf lhs e.1)) ++
    (roData lhs rhs).map (fun e => (e.1, (if isLF mode then make_optional_kind e.2.1 else e.2.1), nameOf rhs e.1))

def matchedRhs (lhs rhs : MechTable) (i : Nat) : List Nat :=
  (rangeIncl 1 rhs.rows).filter (fun r => rows_match lhs i rhs r (ccIds lhs rhs))

def stepOut (lhs rhs : MechTable) (mode : Gen.JoinKernel.JoinMode) (i : Nat) : List (HashMap Nat Value) :=
  match mode with
  | .Inner | .RightOuter => (matchedRhs lhs rhs i).map (fun r => merge_rows lhs i rhs r (crhs lhs rhs) false)
  | .LeftOuter | .FullOuter =>
    if (matchedRhs lhs rhs i).isEmpty then [merge_rows lhs i rhs 0 (crhs lhs rhs) true]
    else (matchedRhs lhs rhs i).map (fun r => merge_rows lhs i rhs r (crhs lhs rhs) false)
  | .LeftSemi => if !(matchedRhs lhs rhs i).isEmpty then [lhs_only_row lhs i] else []
  | .LeftAnti => if (matchedRhs lhs rhs i).isEmpty then [lhs_only_row lhs i] else []

def stepMark (lhs rhs : MechTable) (mode : Gen.JoinKernel.JoinMode) (m : List Bool) (i : Nat) : List Bool :=
  match mode with
  | .LeftSemi | .LeftAnti => m
  | _ => setAll m (matchedRhs lhs rhs i)

def marks (lhs rhs : MechTable) (mode : Gen.JoinKernel.JoinMode) : List Bool :=
  (rangeIncl 1 lhs.rows).foldl (stepMark lhs rhs mode) (List.replicate rhs.rows false)

def outRows (lhs rhs : MechTable) (mode : Gen.JoinKernel.JoinMode) : List (HashMap Nat Value) :=
  (rangeIncl 1 lhs.rows).flatMap (stepOut lhs rhs mode) ++
    (if isRF mode then
      ((rangeIncl 1 rhs.rows).filter (fun r => !vecGet (marks lhs rhs mode) (r - 1))).map (unmatchedRow lhs rhs)
     else [])

/-- the last loop of `build_joined_table`: the result rows transposed into columns -/
def finish (output_cols : List (Nat × ValueKind × String)) (out_rows : List (HashMap Nat Value)) : MechTable :=
  let dc := output_cols.foldl (fun (s : IndexMap Nat (ValueKind × Matrix Value) × HashMap Nat String) c =>
      (IndexMap.insert s.1 c.1 (c.2.1, out_rows.map (fun row => Option.getD (AList.get row c.1) Value.Empty)),
       HashMap.insert s.2 c.1 c.2.2)) (IndexMap.new, HashMap.new)
  { rows := out_rows.length, cols := output_cols.length, data := dc.1, col_names := dc.2 }

theorem inner_pair_fold (lhs rhs : MechTable) (i : Nat) (c : HashSet Nat) (js : List Nat) (o : List (HashMap Nat Value)) (m : List Bool) :
    List.foldl (fun (x : List (HashMap Nat Value) × List Bool) rhs_row =>
      match x with
      | (out_rows, rhs_matched) =>
        (out_rows ++ [merge_rows lhs i rhs rhs_row c false], rhs_matched.set (rhs_row - 1) true)) (o, m) js =
      (o ++ js.map (fun r => merge_rows lhs i rhs r c false), setAll m js) := by
  induction js generalizing o m with
  | nil => simp [setAll]
  | cons r js ih => simp only [List.foldl_cons, ih, setAll]; simp

theorem unmatchedRow_eq (lhs rhs : MechTable) (r : Nat) (F1 F2)
    (h1 : ∀ row (x : Nat × ValueKind × Matrix Value), F1 row x = if HashSet.contains (crhs lhs rhs) x.1 = true then row
      else HashMap.insert row x.1 (cellById rhs r x.1))
    (h2 : ∀ row (x : Nat × ValueKind × Matrix Value), F2 row x = HashMap.insert row x.1 (unmatchedLhsVal lhs rhs r x.1)) :
    List.foldl F1 (List.foldl F2 HashMap.new lhs.data) rhs.data = unmatchedRow lhs rhs r := by
  rw [foldl_skip (fun (e : Nat × ValueKind × Matrix Value) => HashSet.contains (crhs lhs rhs) e.1)
    (fun row e => HashMap.insert row e.1 (cellById rhs r e.1)) F1 h1]
  have : F2 = fun row x => HashMap.insert row x.1 (unmatchedLhsVal lhs rhs r x.1) := by funext row x; exact h2 row x
  rw [this]; rfl

theorem values_fold (id : Nat) (out : List (HashMap Nat Value)) :
    List.foldl (fun values row => values ++ [(AList.get row id).getD Value.Empty]) [] out =
      out.map (fun row => (AList.get row id).getD Value.Empty) := by
  rw [foldl_map _ (fun row => (AList.get row id).getD Value.Empty) (fun _ _ => rfl)]; rfl

theorem build_eq (lhs rhs : MechTable) (mode : Gen.JoinKernel.JoinMode) :
    build_joined_table lhs rhs mode = finish (outputCols lhs rhs mode) (outRows lhs rhs mode) := by
  unfold build_joined_table
  extract_lets rhs_name_to_id common_cols0 common_cols common_rhs common_lhs oc0 oc1 oc2 oc3 oc out0 m0 mr0 row0 data0 cn0 v0
  have hn : rhs_name_to_id = nameToId rhs := rfl
  have hcc : common_cols = ccIds lhs rhs := by
    show List.foldl _ _ _ = _
    rw [foldl_filterMap _ (fun e => (AList.get (nameToId rhs) e.2).map (fun r => (e.1, r)))]
    · rfl
    · rintro acc ⟨a, b⟩
      simp only [hn]
      cases AList.get (nameToId rhs) b <;> rfl
  have hcr : common_rhs = crhs lhs rhs := by
    simp only [common_rhs, hcc, crhs, HashSet.collect, iter, list_fmap]
  have hcl : common_lhs = clhs lhs rhs := by
    simp only [common_lhs, hcc, clhs, HashSet.collect, iter, list_fmap]
  have hoc : oc = outputCols lhs rhs mode := by
    have h1 : oc1 = lhs.data.map (fun e => (e.1, (if (!HashSet.contains (clhs lhs rhs) e.1 && isRF mode) then make_optional_kind e.2.1 else e.2.1),
        nameOf lhs e.1)) := by
      show List.foldl _ _ _ = _
      rw [foldl_map _ (fun e => (e.1, (if (!HashSet.contains (clhs lhs rhs) e.1 && isRF mode) then make_optional_kind e.2.1 else e.2.1),
        nameOf lhs e.1))]
      · rfl
      · rintro acc ⟨a, b, c⟩
        simp only [hcl]
        cases mode <;> rfl
    have h2 : oc2 = oc1 ++ (roData lhs rhs).map (fun e => (e.1, (if isLF mode then make_optional_kind e.2.1 else e.2.1), nameOf rhs e.1)) := by
      show List.foldl _ _ _ = _
      rw [foldl_skip (fun (e : Nat × ValueKind × Matrix Value) => HashSet.contains (crhs lhs rhs) e.1)
        (fun (acc : List (Nat × ValueKind × String)) (e : Nat × ValueKind × Matrix Value) =>
          acc ++ [(e.1, (if isLF mode then make_optional_kind e.2.1 else e.2.1), nameOf rhs e.1)])]
      · rw [foldl_map _ (fun (e : Nat × ValueKind × Matrix Value) => (e.1, (if isLF mode then make_optional_kind e.2.1 else e.2.1), nameOf rhs e.1)) (fun _ _ => rfl)]
        rfl
      · rintro acc ⟨a, b, c⟩
        simp only [hcr]
        cases mode <;> rfl
    have h3 : oc3 = lhs.data.map (fun e => (e.1, e.2.1, nameOf lhs e.1)) := by
      simp only [oc3, iter, list_fmap]
      apply List.map_congr_left
      rintro ⟨a, b, c⟩ _; rfl
    simp only [oc, outputCols, h3, h2, h1]
    cases mode <;> rfl
  have hm : ∀ i, List.foldl (fun matched_rhs rhs_row =>
        if rows_match lhs i rhs rhs_row common_cols = true then matched_rhs ++ [rhs_row] else matched_rhs)
      mr0 (rangeIncl 1 rhs.rows) = matchedRhs lhs rhs i := by
    intro i
    rw [foldl_filter _ (fun r => rows_match lhs i rhs r common_cols) (fun _ _ => rfl)]
    simp [matchedRhs, hcc, mr0]
  clear hn
  clear_value oc oc3 oc2 oc1 common_lhs common_rhs common_cols rhs_name_to_id
  subst hcc hcr hcl hoc
  clear oc3 oc2 oc1 rhs_name_to_id oc0 common_cols0
  rw [foldl_pair_split _ (stepOut lhs rhs mode) (stepMark lhs rhs mode)]
  · simp -zeta only [out0, m0, List.nil_append]
    extract_lets out_u out_f
    have hu : isRF mode = true → out_u = List.flatMap (stepOut lhs rhs mode) (rangeIncl 1 lhs.rows) ++
        ((rangeIncl 1 rhs.rows).filter (fun r => !vecGet (marks lhs rhs mode) (r - 1))).map (unmatchedRow lhs rhs) := by
      intro hrf
      show List.foldl _ _ _ = _
      rw [foldl_skip (fun r => vecGet (marks lhs rhs mode) (r - 1)) (fun acc r => acc ++ [unmatchedRow lhs rhs r]),
        foldl_map _ (unmatchedRow lhs rhs) (fun _ _ => rfl)]
      intro acc r
      simp only [row0]
      rw [unmatchedRow_eq lhs rhs r]
      · cases mode <;> first | rfl | cases hrf
      · intro row x; rfl
      · intro row x
        simp only [iter, unmatchedLhsVal]
        cases List.find? (fun x_1 => x_1.fst == x.fst) (ccIds lhs rhs) <;> rfl
    have hf : out_f = outRows lhs rhs mode := by
      simp only [out_f, outRows]
      cases hrf : isRF mode
      · cases mode <;> simp [isRF] at hrf ⊢
      · rw [hu hrf]
        cases mode <;> simp [isRF] at hrf ⊢
    clear_value out_f
    subst hf
    simp only [values_fold, v0, data0, cn0]
    rfl
  · rintro ⟨o, m⟩ i
    simp only [hm]
    cases mode <;> simp only [inner_pair_fold, stepOut] <;> (try split) <;> simp_all [List.isEmpty_iff]
  · rintro ⟨o, m⟩ i
    simp only [hm]
    cases mode <;> simp only [inner_pair_fold, stepMark] <;> (try split) <;> simp_all [setAll, List.isEmpty_iff]

/-! ### the result read as a model table -/

theorem IndexMap.insert_not_mem {ν : Type} : ∀ (d : IndexMap Nat ν) (k : Nat) (v : ν),
    k ∉ d.map Prod.fst → IndexMap.insert d k v = d ++ [(k, v)] := by
  intro d
  induction d with
  | nil => intro k v _; rfl
  | cons e d ih =>
    intro k v h
    obtain ⟨k', v'⟩ := e
    simp only [List.map_cons, List.mem_cons, not_or] at h
    have : (k' == k) = false := by simpa using fun hh => h.1 hh.symm
    simp only [IndexMap.insert, this, Bool.false_eq_true, if_false, List.cons_append, ih k v h.2]

theorem finish_fold (out : List (HashMap Nat Value)) : ∀ (oc : List (Nat × ValueKind × String))
    (d : IndexMap Nat (ValueKind × Matrix Value)) (n : HashMap Nat String),
    (d.map Prod.fst ++ oc.map Prod.fst).Nodup →
    oc.foldl (fun (s : IndexMap Nat (ValueKind × Matrix Value) × HashMap Nat String) c =>
      (IndexMap.insert s.1 c.1 (c.2.1, out.map (fun row => Option.getD (AList.get row c.1) Value.Empty)),
       HashMap.insert s.2 c.1 c.2.2)) (d, n) =
    (d ++ oc.map (fun c => (c.1, (c.2.1, out.map (fun row => Option.getD (AList.get row c.1) Value.Empty)))),
     (oc.map (fun c => (c.1, c.2.2))).reverse ++ n) := by
  intro oc
  induction oc with
  | nil => intro d n _; simp
  | cons c oc ih =>
    intro d n hnd
    have hc : c.1 ∉ d.map Prod.fst := by
      intro hm
      have := (List.nodup_append.1 hnd).2.2 _ hm _ (List.mem_map.2 ⟨c, List.mem_cons_self .., rfl⟩)
      exact this rfl
    rw [List.foldl_cons, IndexMap.insert_not_mem d _ _ hc, ih]
    · simp [HashMap.insert]
    · simp only [List.map_append, List.map_cons, List.map_nil, List.append_assoc, List.cons_append, List.nil_append]
      simpa using hnd

theorem rows_of_columns {α : Type} (cs : List α) (out : List (HashMap Nat Value)) (key : α → Nat) :
    (rangeIncl 1 out.length).map (fun r => cs.map (fun c =>
        (index1d (out.map (fun row => Option.getD (AList.get row (key c)) Value.Empty)) r).cell)) =
      out.map (fun row => cs.map (fun c => (Option.getD (AList.get row (key c)) Value.Empty).cell)) := by
  apply List.ext_getElem
  · simp [rangeIncl]
  · intro k h1 h2
    have hk : k < out.length := by simpa using h2
    simp only [List.getElem_map, rangeIncl, List.getElem_range']
    apply List.map_congr_left
    intro c _
    simp [index1d, hk]

theorem finish_rows (oc : List (Nat × ValueKind × String)) (out : List (HashMap Nat Value))
    (hnd : (oc.map Prod.fst).Nodup) : rowsOf (finish oc out) = out.map (readRow (oc.map Prod.fst)) := by
  simp only [rowsOf, finish]
  rw [finish_fold out oc IndexMap.new HashMap.new (by simpa [IndexMap.new] using hnd)]
  unfold rowAt
  simp only [IndexMap.new, List.nil_append, List.map_map, Function.comp_def]
  rw [rows_of_columns oc out Prod.fst]
  simp [readRow, Function.comp_def]

theorem finish_cols (oc : List (Nat × ValueKind × String)) (out : List (HashMap Nat Value))
    (hnd : (oc.map Prod.fst).Nodup) :
    colsOf (finish oc out) = oc.map (fun c => ⟨c.2.2, c.2.1.scalar, c.2.1.isOpt⟩) := by
  simp only [colsOf, finish, nameOf]
  rw [finish_fold out oc IndexMap.new HashMap.new (by simpa [IndexMap.new] using hnd)]
  simp only [IndexMap.new, HashMap.new, List.nil_append, List.append_nil, List.map_map, Function.comp_def]
  apply List.map_congr_left
  intro c hc
  have : AList.get (oc.map (fun c => (c.1, c.2.2))).reverse c.1 = some c.2.2 := by
    apply lookup_of_mem
    · rw [← List.map_reverse, List.map_map]
      have : (Prod.fst ∘ fun (c : Nat × ValueKind × String) => (c.1, c.2.2)) = Prod.fst := by funext p; rfl
      rw [this, List.map_reverse]
      exact hnd.perm (List.reverse_perm _).symm
    · simp only [List.mem_reverse, List.mem_map]
      exact ⟨c, hc, rfl⟩
  simp [this]

/-! ### the rows -/

def outIds (lhs rhs : MechTable) (mode : Gen.JoinKernel.JoinMode) : List Nat :=
  if isSA mode then lhs.data.map Prod.fst else lhs.data.map Prod.fst ++ (roData lhs rhs).map Prod.fst

theorem outputCols_ids (lhs rhs : MechTable) (mode : Gen.JoinKernel.JoinMode) :
    (outputCols lhs rhs mode).map Prod.fst = outIds lhs rhs mode := by
  unfold outputCols outIds
  split <;> simp [List.map_map, Function.comp_def]

theorem outIds_nodup {lhs rhs : MechTable} (hl : WF lhs) (hr : WF rhs) (hc : Compat lhs rhs)
    (mode : Gen.JoinKernel.JoinMode) : (outIds lhs rhs mode).Nodup := by
  unfold outIds
  split
  · exact hl.ids_nodup
  · rw [List.nodup_append]
    refine ⟨hl.ids_nodup, roData_nodup hr, ?_⟩
    intro a ha b hb hab
    subst hab
    obtain ⟨e, he, rfl⟩ := List.mem_map.1 hb
    exact roData_disjoint hl hr hc he ha

theorem matched_rows {lhs rhs : MechTable} (hl : WF lhs) (hr : WF rhs) (i : Nat) :
    (rowsOf rhs).filter (rowsMatch (commonCols (colsOf lhs) (colsOf rhs)) (rowAt lhs i)) =
      (matchedRhs lhs rhs i).map (rowAt rhs) := by
  simp only [rowsOf, matchedRhs, List.filter_map]
  congr 1
  apply List.filter_congr
  intro r _
  simp [rows_match_eq hl hr]

theorem stepOut_read {lhs rhs : MechTable} (hl : WF lhs) (hr : WF rhs) (hc : Compat lhs rhs)
    (mode : Gen.JoinKernel.JoinMode) (i : Nat) :
    (stepOut lhs rhs mode i).map (readRow (outIds lhs rhs mode)) =
      rowsFor (toMode mode) (commonCols (colsOf lhs) (colsOf rhs)) (rhsOnly (colsOf lhs) (colsOf rhs)) (rowsOf rhs)
        (rowAt lhs i) := by
  have hmerge : ∀ r, readRow (lhs.data.map Prod.fst ++ (roData lhs rhs).map Prod.fst)
      (merge_rows lhs i rhs r (crhs lhs rhs) false) =
        mergeRow (rhsOnly (colsOf lhs) (colsOf rhs)) (rowAt lhs i) (rowAt rhs r) := by
    intro r; have := merge_rows_read hl hr hc i r false; simpa [crhs] using this
  have hpad : readRow (lhs.data.map Prod.fst ++ (roData lhs rhs).map Prod.fst)
      (merge_rows lhs i rhs 0 (crhs lhs rhs) true) = padRight (rhsOnly (colsOf lhs) (colsOf rhs)) (rowAt lhs i) := by
    have := merge_rows_read hl hr hc i 0 true; simpa [crhs] using this
  have hempty : ((rowsOf rhs).filter (rowsMatch (commonCols (colsOf lhs) (colsOf rhs)) (rowAt lhs i))).isEmpty =
      (matchedRhs lhs rhs i).isEmpty := by
    rw [matched_rows hl hr]; simp
  cases mode <;> simp only [stepOut, rowsFor, toMode, outIds, isSA, hempty, Bool.false_eq_true, if_false, if_true]
  · rw [matched_rows hl hr]; simp [List.map_map, Function.comp_def, hmerge]
  · split
    · simp [hpad]
    · rw [matched_rows hl hr]; simp [List.map_map, Function.comp_def, hmerge]
  · rw [matched_rows hl hr]; simp [List.map_map, Function.comp_def, hmerge]
  · split
    · simp [hpad]
    · rw [matched_rows hl hr]; simp [List.map_map, Function.comp_def, hmerge]
  · split <;> simp [lhs_only_row_read hl]
  · split <;> simp [lhs_only_row_read hl]

theorem mem_rangeIncl (r n : Nat) : r ∈ rangeIncl 1 n ↔ 1 ≤ r ∧ r ≤ n := by
  simp only [rangeIncl, List.mem_range'_1]; omega

theorem vecGet_replicate_false (n k : Nat) : vecGet (List.replicate n false) k = false := by
  simp only [vecGet, List.getElem?_replicate]; split <;> rfl

theorem marks_get {lhs rhs : MechTable} (mode : Gen.JoinKernel.JoinMode) (hrf : isRF mode = true) (r : Nat)
    (hr : r ∈ rangeIncl 1 rhs.rows) :
    vecGet (marks lhs rhs mode) (r - 1) =
      (rangeIncl 1 lhs.rows).any (fun i => rows_match lhs i rhs r (ccIds lhs rhs)) := by
  have hstep : stepMark lhs rhs mode = fun m i => setAll m (matchedRhs lhs rhs i) := by
    funext m i; cases mode <;> first | rfl | cases hrf
  rw [marks, hstep, vecGet_foldl_setAll, vecGet_replicate_false, Bool.false_or]
  obtain ⟨h1, h2⟩ := (mem_rangeIncl r _).1 hr
  have hlt : r - 1 < (List.replicate rhs.rows false).length := by simp; omega
  simp only [hlt, decide_true, Bool.true_and]
  congr 1
  funext i
  rw [Bool.eq_iff_iff, List.any_eq_true]
  constructor
  · rintro ⟨r', hr', he⟩
    simp only [matchedRhs, List.mem_filter] at hr'
    have := (mem_rangeIncl r' _).1 hr'.1
    have : r' = r := by simp only [beq_iff_eq] at he; omega
    subst this; exact hr'.2
  · intro h
    exact ⟨r, by simp only [matchedRhs, List.mem_filter]; exact ⟨hr, h⟩, by simp⟩

theorem unmatched_read {lhs rhs : MechTable} (hl : WF lhs) (hr : WF rhs) (hc : Compat lhs rhs)
    (mode : Gen.JoinKernel.JoinMode) (hrf : isRF mode = true) :
    (((rangeIncl 1 rhs.rows).filter (fun r => !vecGet (marks lhs rhs mode) (r - 1))).map (unmatchedRow lhs rhs)).map
        (readRow (outIds lhs rhs mode)) =
      unmatchedRight (colsOf lhs).length (commonCols (colsOf lhs) (colsOf rhs)) (rhsOnly (colsOf lhs) (colsOf rhs))
        (rowsOf lhs) (rowsOf rhs) := by
  have hsa : isSA mode = false := by cases mode <;> first | rfl | cases hrf
  simp only [unmatchedRight, rowsOf, List.filter_map, List.map_map, outIds, hsa, Bool.false_eq_true, if_false]
  have hfilter : (rangeIncl 1 rhs.rows).filter (fun r => !vecGet (marks lhs rhs mode) (r - 1)) =
      (rangeIncl 1 rhs.rows).filter ((fun b => !matchedBy (commonCols (colsOf lhs) (colsOf rhs))
        (List.map (rowAt lhs) (rangeIncl 1 lhs.rows)) b) ∘ rowAt rhs) := by
    apply List.filter_congr
    intro r hrr
    simp only [Function.comp, matchedBy, List.any_map, marks_get mode hrf r hrr]
    congr 2
    funext i
    simp [rows_match_eq hl hr]
  rw [hfilter]
  apply List.map_congr_left
  intro r _
  simp only [Function.comp]
  exact unmatchedRow_read hl hr hc r

theorem kernel_rows {lhs rhs : MechTable} (hl : WF lhs) (hr : WF rhs) (hc : Compat lhs rhs)
    (mode : Gen.JoinKernel.JoinMode) :
    rowsOf (build_joined_table lhs rhs mode) =
      specRows (toMode mode) (colsOf lhs) (colsOf rhs) (rowsOf lhs) (rowsOf rhs) := by
  rw [build_eq, finish_rows _ _ (by rw [outputCols_ids]; exact outIds_nodup hl hr hc mode), outputCols_ids]
  simp only [outRows, List.map_append, List.map_flatMap, stepOut_read hl hr hc]
  have hflat : List.flatMap (fun i => rowsFor (toMode mode) (commonCols (colsOf lhs) (colsOf rhs))
        (rhsOnly (colsOf lhs) (colsOf rhs)) (rowsOf rhs) (rowAt lhs i)) (rangeIncl 1 lhs.rows) =
      (rowsOf lhs).flatMap (rowsFor (toMode mode) (commonCols (colsOf lhs) (colsOf rhs))
        (rhsOnly (colsOf lhs) (colsOf rhs)) (rowsOf rhs)) := by
    simp [rowsOf, List.flatMap_map]
  rw [hflat]
  cases hrf : isRF mode
  · cases mode <;> simp [isRF] at hrf <;> simp [specRows, toMode]
  · simp only [if_true]
    rw [unmatched_read hl hr hc mode hrf]
    cases mode <;> simp [isRF] at hrf <;> simp [specRows, toMode]

/-! ### the columns -/

def toCol (c : Nat × ValueKind × String) : Col := ⟨c.2.2, c.2.1.scalar, c.2.1.isOpt⟩

theorem make_optional_scalar (k : ValueKind) : (make_optional_kind k).scalar = k.scalar := by
  cases k <;> rfl
theorem make_optional_isOpt (k : ValueKind) : (make_optional_kind k).isOpt = true := by
  cases k <;> rfl

theorem kernel_cols {lhs rhs : MechTable} (hl : WF lhs) (hr : WF rhs) (hc : Compat lhs rhs)
    (mode : Gen.JoinKernel.JoinMode) :
    colsOf (build_joined_table lhs rhs mode) = joinCols (toMode mode) (colsOf lhs) (colsOf rhs) := by
  rw [build_eq, finish_cols _ _ (by rw [outputCols_ids]; exact outIds_nodup hl hr hc mode)]
  cases hsa : isSA mode
  · have hj : joinCols (toMode mode) (colsOf lhs) (colsOf rhs) =
        ((colsOf lhs).zipIdx.map (fun ci =>
          if !((commonCols (colsOf lhs) (colsOf rhs)).any (fun p => p.1 == ci.2)) && isRF mode
          then { ci.1 with opt := true } else ci.1))
        ++ (rhsOnly (colsOf lhs) (colsOf rhs)).filterMap (fun j => ((colsOf rhs)[j]?).map (fun c =>
          if isLF mode then { c with opt := true } else c)) := by
      cases mode <;> simp [isSA] at hsa <;> rfl
    rw [hj]
    simp only [outputCols, hsa, Bool.false_eq_true, if_false, List.map_append, List.map_map]
    congr 1
    · have hz : (colsOf lhs).zipIdx = lhs.data.zipIdx.map
          (Prod.map (fun e => (⟨nameOf lhs e.1, e.2.1.scalar, e.2.1.isOpt⟩ : Col)) id) := by
        unfold colsOf; exact List.zipIdx_map
      rw [hz, List.map_map]
      conv => lhs; rw [← List.zipIdx_map_fst 0 lhs.data]
      rw [List.map_map]
      apply List.map_congr_left
      rintro ⟨e, i⟩ hm
      have hel := List.mem_zipIdx_iff_getElem?.1 hm
      simp only at hel
      simp only [Function.comp, Prod.map, id]
      rw [← contains_commonLhs hl hr i e hel]
      simp only [clhs]
      by_cases hb : (!HashSet.contains ((ccIds lhs rhs).map Prod.fst) e.1 && isRF mode) = true
      · simp only [hb, if_true, make_optional_scalar, make_optional_isOpt]
      · simp [hb]
    · rw [roData, rhs_only_data hl hr]
      simp only [colsOf_getElem?, List.map_filterMap, Option.map_map]
      congr 1
      funext j
      cases rhs.data[j]? with
      | none => rfl
      | some e =>
        simp only [Option.map_some, Function.comp]
        by_cases hb : isLF mode = true
        · simp only [hb, if_true, make_optional_scalar, make_optional_isOpt]
        · simp [hb]
  · have hj : joinCols (toMode mode) (colsOf lhs) (colsOf rhs) = colsOf lhs := by
      cases mode <;> simp [isSA] at hsa <;> rfl
    rw [hj]
    simp only [outputCols, hsa, if_true, List.map_map, colsOf]
    rfl

/-- the table `build_joined_table` returns, read as a model table, is the model's join -/
theorem kernel_join {lhs rhs : MechTable} (hl : WF lhs) (hr : WF rhs) (hc : Compat lhs rhs)
    (mode : Gen.JoinKernel.JoinMode) :
    toTable (build_joined_table lhs rhs mode) = join (toMode mode) (toTable lhs) (toTable rhs) := by
  simp only [toTable, join, kernel_cols hl hr hc, kernel_rows hl hr hc, joinRows_eq_spec]

end MechVerif.JoinIR
