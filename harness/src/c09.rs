//! C09: parser totality.
//! Cases:
//!   `cur <hex text> <ops>`   drive the real ParseString through public parsers; ops `,`-joined:
//!        a (any), k (any_token), n (new_line), e (skip_till_eol), p (skip_past_eol), t:<hex> (tag)
//!        observation: `G=<graphemes as hex, ','-joined>|` then per op `ok|err:cursor:row:col` `;`-joined
//!   `parse <class> <hex text>`
//!        observation: `G=<number of graphemes>|L=<line lengths in graphemes incl. the appended newline>|O=<ok|err|panic|timeout>|D=<same|differs>|
//!                      R=<r1:c1-r2:c2,…>|E=<ok|panic>|T=<ms bucket>`
use crate::common::*;
use mech_core::*;
use mech_syntax::*;
use mech_syntax::parser::*;
use mech_syntax::base::{any, any_token, new_line};
use unicode_segmentation::UnicodeSegmentation;

fn outcome<'a, T>(r: Result<(ParseString<'a>, T), nom::Err<ParseError<'a>>>, input: &mut ParseString<'a>) -> String {
  match r {
    Ok((rest, _)) => { *input = rest; format!("ok:{}:{}:{}", input.cursor, input.location.row, input.location.col) }
    Err(nom::Err::Error(e)) | Err(nom::Err::Failure(e)) => { let p = &e.remaining_input; format!("err:{}:{}:{}", p.cursor, p.location.row, p.location.col) }
    Err(_) => "err:incomplete".into(),
  }
}

fn run_cursor(text: &str, ops: &str) -> String {
  let gs = graphemes::init_source(text);
  let mut input = ParseString::new(&gs);
  let mut out: Vec<String> = vec![];
  for op in ops.split(',') {
    if op.is_empty() { continue; }
    let cur = input.clone();
    let s = match op {
      "a" => outcome(any(cur), &mut input),
      "k" => outcome(any_token(cur), &mut input),
      "n" => outcome(new_line(cur), &mut input),
      "e" => outcome(skip_till_eol(cur), &mut input),
      "p" => outcome(skip_past_eol(cur), &mut input),
      t => {
        // `t:<g1>+<g2>…`: the tag, cut into its own graphemes (the parser matches a tag grapheme by grapheme)
        let text: String = t[2..].split('+').map(|h| String::from_utf8(crate::c07::unhex(h)).unwrap()).collect();
        let tg: &'static str = Box::leak(text.into_boxed_str());
        outcome(tag(tg)(cur), &mut input)
      }
    };
    out.push(s);
  }
  format!("G={}|{}", gs.iter().map(|g| hexs(g)).collect::<Vec<_>>().join(","), out.join(";"))
}

/// a tag operation: the tag's text cut into graphemes as the parser cuts it (neighbouring graphemes of a text may
/// join into one when they are written next to each other as a tag: CR + LF, a letter + a combining mark)
fn tag_op(t: &str) -> String { format!("t:{}", UnicodeSegmentation::graphemes(t, true).map(|g| hexs(g)).collect::<Vec<_>>().join("+")) }

fn ranges_of(e: &MechError) -> Option<(String, Vec<String>)> {
  // the report carries the source and the ranges
  let r = e.kind_as::<ParserErrorReport>()?;
  let mut v = vec![];
  for c in &r.1 {
    v.push(format!("{}:{}-{}:{}", c.cause_rng.start.row, c.cause_rng.start.col, c.cause_rng.end.row, c.cause_rng.end.col));
    for a in &c.annotation_rngs { v.push(format!("{}:{}-{}:{}", a.start.row, a.start.col, a.end.row, a.end.col)); }
  }
  Some((r.0.clone(), v))
}

fn parse_once(text: String) -> (String, String, String) {
  // (outcome, ranges, format_error outcome)
  match std::panic::catch_unwind(|| parser::parse(&text)) {
    Ok(Ok(_)) => ("ok".into(), String::new(), "ok".into()),
    Ok(Err(e)) => {
      let (rng, fe) = match ranges_of(&e) {
        Some((src, v)) => {
          let fe = match std::panic::catch_unwind(std::panic::AssertUnwindSafe(|| { let r = e.kind_as::<ParserErrorReport>().unwrap(); TextFormatter::new(&src).format_error(r) })) { Ok(_) => "ok", Err(_) => "panic" };
          (v.join(","), fe.to_string())
        }
        None => ("?".into(), "ok".into()),
      };
      ("err".into(), rng, fe)
    }
    Err(_) => ("panic".into(), String::new(), "ok".into()),
  }
}

fn run_parse(text: &str) -> String {
  let gs: Vec<&str> = UnicodeSegmentation::graphemes(text, true).collect();
  // line lengths in graphemes (a newline grapheme ends a line; the parser appends one more)
  let mut lens: Vec<usize> = vec![]; let mut cur = 0usize;
  for g in gs.iter().chain(["\n"].iter()) { if *g == "\n" || *g == "\r" || *g == "\r\n" { lens.push(cur); cur = 0; } else { cur += 1; } }
  let t0 = std::time::Instant::now();
  let (tx, rx) = std::sync::mpsc::channel();
  let owned = text.to_string();
  std::thread::Builder::new().stack_size(256 << 20).spawn(move || { let a = parse_once(owned.clone()); let b = parse_once(owned); let _ = tx.send((a, b)); }).unwrap();
  let res = rx.recv_timeout(std::time::Duration::from_secs(20));
  let ms = t0.elapsed().as_millis();
  let bucket = if ms < 1000 { "fast" } else if ms < 5000 { "1s+" } else { "5s+" };
  match res {
    Ok((a, b)) => format!("G={}|L={}|O={}|D={}|R={}|E={}|T={}", gs.len(), lens.iter().map(|x| x.to_string()).collect::<Vec<_>>().join(","), a.0, if a == b { "same" } else { "differs" }, a.1, a.2, bucket),
    Err(_) => format!("G={}|L={}|O=timeout|D=-|R=|E=ok|T=20s+", gs.len(), lens.iter().map(|x| x.to_string()).collect::<Vec<_>>().join(",")),
  }
}

pub fn exec(case: &str) -> String {
  let f: Vec<&str> = case.split('\t').collect();
  if f[0] == "cur" { run_cursor(&String::from_utf8(crate::c07::unhex(f[1])).unwrap(), f[2]) }
  else { run_parse(&String::from_utf8_lossy(&crate::c07::unhex(f[2])).to_string()) }
}

const ALPHABET: &[&str] = &["x", "y", "foo", "1", "23", "4.5", " ", " ", "\n", "\n", "\t", ":=", "=", "+=", "+", "-", "*", "/", "^", "(", ")", "[", "]", "{", "}", "<", ">", ",", ";", ":", ".", "..", "..=",
  "\"", "'", "|", "&&", "||", "!", "~", "#", "$$", "```", "--", "//", "=>", "->", "?", "@", "%", "\\", "_", "├", "└", "│", "─", "═", "true", "false", "u8", "f64", "<u8>", "∪", "∈", "⊆", "Δ", "⋈",
  "é", "e\u{301}", "😀", "👩‍👩‍👧", "🇩🇪", "\u{200b}", "\u{a0}", "\r\n", "\r", "中", "→", "≠", "¬", "*", "***", "- ", "> ", "1. ", "(1.1) ", "[^1]", "![", "](", "{{", "}}", "%%", "mech:", "disabled",
  "0x", "0o", "0b", "0d", "1e", "e+", "e-", "i", "1/", "0x1", "u8", ".", "1.",
  // every other sigil the grammar knows (operator spellings, box drawing, Mechdown and mika marks)
  "§", "°", "·¬", "Ɔ∞", "ˆ", "˙", "Ͼ", "ಠ", "ᓀ", "ᓂ", "ᓄ", "ᓇ", "ᕤ", "ᕦ", "ᗑ", "ᗒ", "ᗢ", "ᗣ", "ᗩ", "…", "›⌣", "›─", "←", "⇒", "∘", "∞C", "≖", "≻", "⊕", "⊖", "⊗", "⋇", "⌐·", "⌐▰", "⌣", "⌣‹", "⍜", "⏺",
  "─‹", "─◉─", "┃", "┌", "┏", "┐", "┓", "┗", "┘", "┛", "┤", "┬", "┴", "┼", "╥", "╭", "╭◉╮", "╮", "╯", "╰", "╰◉╯", "▰", "◉", "◕", "◜", "◞", "◠", "◡-", "◯", "☉", "⚆", "✓", "✖", "✗", "⦵", "⦾", "⦿",
  "⸌", "⸍", "⸢", "⸥", "⸸", "⹇", "ㆆ", "🤖", ",…", "-◡", "=¬=", "¬=", "·", "×", "÷", "•", "∁", "∉", "∖", "∧", "∨", "∩", "≡", "≤", "≥", "⊂", "⊃", "⊇", "⊊", "⊋", "⊻", "⋀", "⋁", "⋉", "▷", "⟕", "⟖", "⟗", "⨯", "⩵",
  "**", "*=", "-<", ">-", "<-", "=!=", "=:=", "^^", "^=", "/=", ":N"];

fn mutate(rng: &mut Rng, src: &str) -> String {
  // token-level mutations: split on spaces/newlines keeping them
  let mut toks: Vec<String> = vec![]; let mut cur = String::new();
  for c in src.chars() { if c.is_whitespace() || "()[]{}<>,;:|".contains(c) { if !cur.is_empty() { toks.push(cur.clone()); cur.clear(); } toks.push(c.to_string()); } else { cur.push(c); } }
  if !cur.is_empty() { toks.push(cur); }
  if toks.is_empty() { return src.to_string(); }
  for _ in 0..1 + rng.below(3) {
    let i = rng.below(toks.len() as u64) as usize;
    match rng.below(6) {
      0 => { toks.remove(i); if toks.is_empty() { break; } }
      1 => { let t = toks[i].clone(); toks.insert(i, t); }
      2 => { let j = rng.below(toks.len() as u64) as usize; toks.swap(i, j); }
      3 => { toks.insert(i, rng.pick(&["(", "[", "{", "\"", "<", "|", "```"]).to_string()); }
      4 => { toks.truncate(i.max(1)); }
      _ => { toks.insert(i, rng.pick(ALPHABET).to_string()); }
    }
  }
  toks.concat()
}

pub fn generate(seed: u64, thorough: bool, sink: &mut Sink) -> Vec<String> {
  let mut rng = Rng::new(seed);
  let mut cases: Vec<String> = vec![];
  let mut scratch = Sink::new();
  let n = if thorough { 6000 } else { 500 };
  // (1) the cursor under public parsers
  for _ in 0..n {
    let len = rng.below(14) as usize;
    let text: String = (0..len).map(|_| *rng.pick(&["a", "b", " ", "\n", "\r\n", "\r", "\t", "é", "e\u{301}", "😀", "👩‍👩‍👧", "🇩🇪", "\u{200b}", "\u{1}", "中", "─", "x"])).collect();
    let gs: Vec<&str> = UnicodeSegmentation::graphemes(text.as_str(), true).collect();
    let mut ops: Vec<String> = vec![]; let mut pos = 0usize;
    for _ in 0..1 + rng.below(10) {
      match rng.below(8) {
        0 | 1 => { ops.push("a".into()); pos += 1; }
        2 => { ops.push("k".into()); pos += 1; }
        3 => ops.push("n".into()),
        4 => ops.push("e".into()),
        5 => ops.push("p".into()),
        _ => { // a tag that matches the next 1-3 graphemes, or a wrong one
          if pos < gs.len() && rng.chance(3, 4) { let k = 1 + rng.below(3) as usize; let t: String = gs[pos..(pos + k).min(gs.len())].concat(); ops.push(tag_op(&t)); pos += k; }
          else { ops.push(tag_op(*rng.pick(&["zz", "\n", "a\n", "😀"]))); } }
      }
    }
    cases.push(format!("cur\t{}\t{}", hexs(&text), ops.join(","))); sink.hit("cursor");
  }
  // (2) the parser on arbitrary text
  let mut push = |class: &str, text: String, sink: &mut Sink| { sink.hit(&format!("parse:{}", class)); cases.push(format!("parse\t{}\t{}", class, hexs(&text))); };
  for _ in 0..n * 2 {
    let long = rng.chance(1, 10);
    let len = 1 + rng.below(if long { 60 } else { 16 }) as usize;
    let text: String = (0..len).map(|_| *rng.pick(ALPHABET)).collect();
    push("token-alphabet", text, sink);
  }
  let mut progs: Vec<String> = vec![];
  for c in crate::c01::generate(seed, false, &mut scratch).iter().step_by(40) { progs.push(crate::c01::source(c)); }
  for c in crate::c16::generate(seed, false, &mut scratch).iter().step_by(30) { progs.push(crate::c16::source(c)); }
  for c in crate::c17::generate(seed, false, &mut scratch).iter().step_by(60) { progs.push(crate::c17::source(c)); }
  for c in crate::c18::generate(seed, false, &mut scratch).iter().step_by(60) { progs.push(crate::c18::source(c)); }
  for c in crate::c14::generate(seed, false, &mut scratch).iter().step_by(60) { progs.push(crate::c14::source(c)); }
  for c in crate::c10::generate(seed, false, &mut scratch).iter().step_by(20) { progs.push(crate::c10::source(c)); }
  for _ in 0..n * 2 { let p = rng.pick(&progs).clone(); let m = mutate(&mut rng, &p); push("mutated-program", m, sink); }
  // unclosed openers (parse time grows quickly with their number: kept small)
  for k in 1..=5 { for o in ["(", "[", "{"] { push("unclosed", o.repeat(k), sink); push("unclosed", format!("x := {}", o.repeat(k)), sink); } }
  // seven unclosed brackets do not finish within the budget (known finding): one case, thorough tier only
  if thorough { push("unclosed", "[".repeat(7), sink); }
  for s in ["⸥\n", "hello ⸥ there\n", "⸢\n", "⸢ x ⸥\n", "⸥⸥", "x := 1\n⸥\ny := 2\n", "[^]: a note\n", "[^]:", "[^", "[^a]:"] { push("edge", s.to_string(), sink); }
  for s in ["$$$$", "$$", "```", "```mech", "\"", "x := \"", "|", "x := |a|", "#", "#A(", "~", ":=", "{{", "{{x", "[^", "![](", "\u{feff}x := 1", "x := 1\u{0}", "\r", "\r\n\r\n", ""] { push("edge", s.to_string(), sink); }
  // every proper prefix of every kind of lexeme, in the places an expression can stand: a literal or
  // operator cut short must be an error (or something shorter), never a panic
  let lexemes = ["0xFF", "0o17", "0b101", "0d12", "1.5e+3", "1.5e-3", "2E10", "1/2", "1+2i", "3.5j", "12u8", "1.5f32", "1_000", "0x_F", "\"a\\nb\"", "\"a{x}b\"", ":atom", "`sym`",
    "<u8>", "<[u8]:2,3>", "{1,2}", "{a: 1}", "[1 2; 3 4]", "(1,2)", "1..2..=9", "x.y.z", "x[1,2]", "x{1}", "true", "false", "f(x: 1)", "x'", "-x", "!b", "a ** b", "a ⊆ b", "a <= b", "a && b", "a |> f",
    "|a b|\n|1 2|", "#m(x) -> y", "x?", "_", "∅", "π", "1.", ".5", "@a", "x:=1", "~x := 1", "x += 1", "x<u8> := 1"];
  for lx in lexemes.iter() {
    let cs: Vec<char> = lx.chars().collect();
    for k in 1..=cs.len() {
      let pre: String = cs[..k].iter().collect();
      for ctx in ["{}", "x := {}", "x := {} + 1", "[1 {} 3]", "f({})", "y := 2\nx := {}\nz := 3"] { push("lexeme-prefix", ctx.replace("{}", &pre), sink); }
    }
  }
  // Mechdown inline and block lexemes, whole, cut short, and with one character taken out (an empty link
  // target, an empty image source, an unclosed emphasis, …), alone and inside a paragraph, a list item and a quote
  let md_lexemes = ["[a](b)", "![a](b)", "[a]", "[^1]", "[^1]: note", "`x`", "*a*", "**a**", "_a_", "~~a~~", "$$x$$", "{{x}}", "%% c", "(1.1) t", "1. t", "- [x] t", "> q", "| a | b |", "<<x>>", "((a))",
    "\"q\"", "!!a!!", "^a^", "[a](b){c}", "![a](b){w: 1}", "```\nx\n```", "~~~\nx\n~~~", "***", "====", "----", "@a", "#T", "[[a]]", "http://a.b", "<a@b.c>"];
  for lx in md_lexemes.iter() {
    let cs: Vec<char> = lx.chars().collect();
    let mut variants: Vec<String> = vec![lx.to_string()];
    for k in 1..cs.len() { variants.push(cs[..k].iter().collect()); }
    for k in 0..cs.len() { let mut v = cs.clone(); v.remove(k); variants.push(v.iter().collect()); }
    for v in variants {
      for ctx in ["{}", "See {} here.", "- item {}", "> {}", "Title\n=====\n\n{}\n\nx := 1"] { push("markup-lexeme", ctx.replace("{}", &v), sink); }
    }
  }
  // Mech lexemes with one character taken out
  for lx in lexemes.iter() {
    let cs: Vec<char> = lx.chars().collect();
    if cs.len() < 3 { continue; }
    for k in 0..cs.len() { let mut v = cs.clone(); v.remove(k); let t: String = v.iter().collect(); push("lexeme-deletion", format!("x := {}", t), sink); push("lexeme-deletion", t, sink); }
  }
  // (3) repository files and their prefixes
  let mut files: Vec<std::path::PathBuf> = vec![];
  let mut stack = vec![std::path::PathBuf::from("/repo/docs"), std::path::PathBuf::from("/repo/examples")];
  while let Some(d) = stack.pop() { if let Ok(rd) = std::fs::read_dir(&d) { for e in rd.flatten() { let p = e.path(); if p.is_dir() { stack.push(p); } else if p.extension().map(|x| x == "mec").unwrap_or(false) { files.push(p); } } } }
  files.sort();
  let nfiles = if thorough { files.len() } else { 12 };
  for p in files.iter().take(nfiles) {
    if let Ok(t) = std::fs::read_to_string(p) {
      if t.len() > 30000 { continue; }
      let chars: Vec<char> = t.chars().collect();
      push("file", t.clone(), sink);
      for _ in 0..(if thorough { 6 } else { 3 }) { let k = rng.below(chars.len() as u64 + 1) as usize; push("file-prefix", chars[..k].iter().collect(), sink); }
    }
  }
  cases
}
