/-
The generated definitions of `Gen/IncludeHelpers.lean` (the line-level helpers of the include expander, translated from
`src/mechfs.rs` on every run) compute the functions of `Model/Include.lean`, for all lines, and never panic.
-/
import MechVerif.Gen.IncludeHelpers
import MechVerif.Lemmas.Include
namespace MechVerif.IncludeIR
open MechVerif.Include MechVerif.Gen.IncludeHelpers

/-- length of the run of elements `c` at positions `k, k+1, …` with `p position c` -/
def scanLen (p : Nat → Char → Bool) : Nat → Text → Nat
  | _, [] => 0
  | k, c :: cs => if p k c then 1 + scanLen p (k + 1) cs else 0

theorem idx_append (pre : Text) (c : Char) (cs : Text) : idx (pre ++ c :: cs) pre.length = .ok c := by
  simp [idx]

/-- a scanning `while` over the characters of `b` stops after the run -/
theorem whileUp_scan (b : Text) (p : Nat → Char → Bool) :
    ∀ (suf pre : Text), b = pre ++ suf →
      whileUp (len b) (fun k => bindE (idx b k) (fun c => .ok (p k c))) pre.length
        = .ok (pre.length + scanLen p pre.length suf) := by
  intro suf
  induction suf with
  | nil =>
    intro pre hb
    subst hb
    rw [whileUp]
    simp [len, scanLen]
  | cons c cs ih =>
    intro pre hb
    rw [whileUp]
    have hlt : pre.length < len b := by subst hb; simp [len]
    have hidx : idx b pre.length = .ok c := by subst hb; exact idx_append pre c cs
    simp only [hlt, if_true, hidx, bindE_ok, scanLen]
    cases hp : p pre.length c with
    | false => simp
    | true =>
      have := ih (pre ++ [c]) (by subst hb; simp)
      simp only [List.length_append, List.length_singleton] at this
      simp only [this, if_true]
      congr 1
      omega

theorem scanLen_const (p : Char → Bool) : ∀ (s : Text) (k : Nat), scanLen (fun _ c => p c) k s = (s.takeWhile p).length := by
  intro s
  induction s with
  | nil => intro k; simp [scanLen]
  | cons c cs ih =>
    intro k
    simp only [scanLen, List.takeWhile_cons]
    by_cases hp : p c = true
    · simp [hp, ih]; omega
    · simp [hp]

theorem scanLen_spaces : ∀ (s : Text) (k : Nat), k ≤ 4 →
    k + scanLen (fun i c => (c == ' ') && decide (i < 4)) k s = min (k + (s.takeWhile (· == ' ')).length) 4 := by
  intro s
  induction s with
  | nil => intro k hk; simp [scanLen]; omega
  | cons c cs ih =>
    intro k hk
    simp only [scanLen, List.takeWhile_cons]
    by_cases hc : (c == ' ') = true
    · by_cases h4 : k < 4
      · have := ih (k + 1) (by omega)
        simp [h4, hc] at this ⊢
        omega
      · simp [h4, hc]
        omega
    · simp [hc]; omega

theorem usub_add_left (a b : Nat) : usub (a + b) a = .ok b := by
  simp [usub]

/-- `code_fence_delimiter` as written = the model's `codeFenceDelimiter`, for every line; it never panics -/
theorem code_fence_delimiter_eq (line : Text) : code_fence_delimiter line = .ok (codeFenceDelimiter line) := by
  have h1 := whileUp_scan line (fun i c => (c == ' ') && decide (i < 4)) line [] rfl
  have h2 := scanLen_spaces line 0 (by omega)
  simp only [List.length_nil, Nat.zero_add] at h1 h2
  rw [h2] at h1
  have hmin : ∀ a b : Nat, min a b = Nat.min a b := fun _ _ => rfl
  rw [hmin] at h1
  unfold code_fence_delimiter codeFenceDelimiter
  generalize Nat.min (List.takeWhile (fun x => x == ' ') line).length 4 = i at h1
  simp only [asBytes, byteAsChar, h1, bindE_ok]
  by_cases hc : i > 3 ∨ i ≥ line.length
  · have : (decide (i > 3) || decide (i ≥ len line)) = true := by simpa [len] using hc
    simp only [this, if_true]
  · have hlt : i < line.length := by omega
    have hnc : (decide (i > 3) || decide (i ≥ len line)) = false := by
      simp [len]; omega
    simp only [hnc]
    cases hd : line.drop i with
    | nil => have := congrArg List.length hd; simp at this; omega
    | cons m rest =>
      have hb : line = line.take i ++ m :: rest := by rw [← hd, List.take_append_drop]
      have hl : (line.take i).length = i := by simp; omega
      generalize line.take i = pre at hb hl
      subst hb
      subst hl
      have h3 := whileUp_scan (pre ++ m :: rest) (fun _ c => c == m) (m :: rest) pre rfl
      rw [scanLen_const] at h3
      simp only [idx_append, bindE_ok]
      by_cases hm : (m != '`' && m != '~') = true
      · simp [hm]
      · simp only [hm]
        simp only [h3, bindE_ok, List.takeWhile_cons, beq_self_eq_true, if_true, List.length_cons, usub_add_left]
        have e : 1 + (List.takeWhile (fun x => x == m) rest).length = (List.takeWhile (fun c => c == m) rest).length + 1 := by omega
        rw [e]
        by_cases h3' : (List.takeWhile (fun c => c == m) rest).length + 1 < 3 <;> simp [h3']

theorem length_takeWhile_le' (p : Char → Bool) (l : Text) : (l.takeWhile p).length ≤ l.length :=
  (List.takeWhile_sublist p).length_le

/-- the position after the run lies inside the line (so `&line[after..]` does not panic) -/
theorem codeFence_after_le (line : Text) (m : Char) (c a : Nat)
    (h : codeFenceDelimiter line = some (m, c, a)) : a ≤ line.length := by
  unfold codeFenceDelimiter at h
  simp only at h
  split at h
  · cases h
  · split at h
    · cases h
    · rename_i marker rest hd
      split at h
      · cases h
      · split at h
        · cases h
        · simp only [Option.some.injEq, Prod.mk.injEq] at h
          obtain ⟨_, _, rfl⟩ := h
          have h1 := congrArg List.length hd
          have h2 := length_takeWhile_le' (· == marker) rest
          simp at h1
          omega

theorem dropWhile_all (p : Char → Bool) : ∀ l : Text, (l.dropWhile p).all p = l.all p := by
  intro l
  induction l with
  | nil => rfl
  | cons c cs ih =>
    by_cases hp : p c = true
    · simp only [List.dropWhile_cons, hp, if_true, ih, List.all_cons, Bool.true_and]
    · simp [hp]

theorem dropWhile_isEmpty (p : Char → Bool) : ∀ l : Text, (l.dropWhile p).isEmpty = l.all p := by
  intro l
  induction l with
  | nil => rfl
  | cons c cs ih =>
    by_cases hp : p c = true
    · simp only [List.dropWhile_cons, hp, if_true, ih, List.all_cons, Bool.true_and]
    · simp [hp]

/-- `s.trim_matches(p).is_empty()` says that every character of `s` satisfies `p` -/
theorem trimMatches_isEmpty (p : Char → Bool) (s : Text) : isEmpty (trimMatches p s) = s.all p := by
  unfold isEmpty trimMatches
  rw [show ∀ l : Text, l.reverse.isEmpty = l.isEmpty from fun l => by cases l <;> simp]
  rw [dropWhile_isEmpty, List.all_reverse, dropWhile_all]

/-- `is_code_fence_close` as written = the model's `isFenceClose`, for every line, marker and length; never panics -/
theorem is_code_fence_close_eq (line : Text) (marker : Char) (minLen : Nat) :
    is_code_fence_close line marker minLen = .ok (isFenceClose line marker minLen) := by
  unfold is_code_fence_close isFenceClose
  rw [code_fence_delimiter_eq]
  simp only [bindE_ok]
  cases h : codeFenceDelimiter line with
  | none => rfl
  | some r =>
    obtain ⟨m, c, a⟩ := r
    have ha := codeFence_after_le line m c a h
    simp only
    by_cases hc : (m != marker || decide (c < minLen)) = true
    · simp [hc]
    · simp only [hc, sliceFrom, ha, if_true, bindE_ok, trimMatches_isEmpty]
      simp

/-- closed form of `standalone_braced_content`: the trimmed line starts with `{` and ends with `}`; what is between -/
def standaloneBraced (l : Text) : Option Text :=
  let t := trimWs l
  if t.head? == some '{' && t.getLast? == some '}' then some ((t.drop 1).dropLast) else none

theorem braced_length (t : Text) (h1 : t.head? = some '{') (h2 : t.getLast? = some '}') : 2 ≤ t.length := by
  match t, h1, h2 with
  | [a], h1, h2 =>
    simp at h1 h2
    subst h1
    exact absurd h2 (by decide)
  | _ :: _ :: _, _, _ => simp

theorem slice_inner (t : Text) (_h : 2 ≤ t.length) : (t.take (t.length - 1)).drop 1 = (t.drop 1).dropLast := by
  rw [List.dropLast_eq_take, List.drop_take, List.length_drop]

/-- `standalone_braced_content` as written: never panics, and returns the text between the braces -/
theorem standalone_braced_content_eq (l : Text) :
    standalone_braced_content l = .ok (standaloneBraced l) := by
  unfold standalone_braced_content standaloneBraced
  simp only [trim, startsWithChar, endsWithChar]
  by_cases hc : ((trimWs l).head? == some '{' && (trimWs l).getLast? == some '}') = true
  · have h12 := hc
    simp only [Bool.and_eq_true, beq_iff_eq] at h12
    have hlen := braced_length _ h12.1 h12.2
    have hu : usub (trimWs l).length 1 = .ok ((trimWs l).length - 1) := by
      simp only [usub]; rw [if_pos (by omega)]
    have hs : slice (trimWs l) 1 ((trimWs l).length - 1) = .ok ((trimWs l).take ((trimWs l).length - 1) |>.drop 1) := by
      simp only [slice]; rw [if_pos (by omega)]
    simp only [hc, Bool.not_true, hu, hs, bindE_ok, slice_inner _ hlen]
    simp
  · simp only [hc]
    simp

/-- `looks_like_mech_include` as written -/
theorem looks_like_mech_include_eq (c : Text) :
    looks_like_mech_include c = .ok (endsWith (trimWs c) ".mec".toList) := by
  unfold looks_like_mech_include
  rfl

/-- the two brace helpers, used the way `expand_mechdown_include_tokens` uses them, compute the model's `includeTarget` -/
theorem includeTarget_eq (body : Text) :
    includeTargetOf standalone_braced_content looks_like_mech_include body = .ok (includeTarget body) := by
  unfold includeTargetOf includeTarget
  rw [standalone_braced_content_eq]
  simp only [bindE_ok, standaloneBraced, trim]
  by_cases hc : ((trimWs body).head? == some '{' && (trimWs body).getLast? == some '}') = true
  · have h12 := hc
    simp only [Bool.and_eq_true, beq_iff_eq] at h12
    have hlen := braced_length _ h12.1 h12.2
    have hd : decide (2 ≤ (trimWs body).length) = true := by simpa using hlen
    simp only [hc, hd, if_true, looks_like_mech_include_eq, bindE_ok, Bool.and_true]
    split <;> rfl
  · simp only [hc]
    rfl

/-! ### the `active_set` discipline: the check `chk` is sound for the semantics `Exec` -/

/-- meaning of the abstract states, relative to the set `a` at entry -/
def absHolds (p : Path) (a : List Path) : Abs → List Path → Prop
  | .entry, s => s = a
  | .guarded, s => s = a ∧ p ∉ a
  | .pushed, s => s = p :: a ∧ p ∉ a

def Post (p : Path) (a : List Path) (n c : Option Abs) (k : Exit) (s' : List Path) (log : List (List Path)) : Prop :=
  (k = .normal → ∃ st', n = some st' ∧ absHolds p a st' s') ∧
  (k = .cont → ∃ st', c = some st' ∧ absHolds p a st' s') ∧
  (k = .retOk → s' = a) ∧
  (∀ x ∈ log, x = p :: a)

theorem joinAbs_right {c1 c : Option Abs} {y : Abs} (h : joinAbs c1 (some y) = some c) : c = some y := by
  cases c1 with
  | none => simp [joinAbs] at h; exact h.symm
  | some x =>
    simp only [joinAbs] at h
    split at h
    · rename_i hxy; cases h; rw [hxy]
    · cases h

theorem joinAbs_left {c2 c : Option Abs} {x : Abs} (h : joinAbs (some x) c2 = some c) : c = some x := by
  cases c2 with
  | none => simp [joinAbs] at h; exact h.symm
  | some y =>
    simp only [joinAbs] at h
    split at h
    · cases h; rfl
    · cases h

theorem absHolds_set {p : Path} {a : List Path} {st : Abs} {s : List Path} (h : absHolds p a st s) (hne : st ≠ .pushed) :
    s = a := by
  cases st with
  | entry => exact h
  | guarded => exact h.1
  | pushed => exact absurd rfl hne

theorem chk_sound (p : Path) (a : List Path) {sk : Skel} {s : List Path} {k : Exit} {s' : List Path}
    {log : List (List Path)} (h : Exec p sk s k s' log) :
    ∀ st n c, chk sk st = some (n, c) → absHolds p a st s → Post p a n c k s' log := by
  induction h with
  | skip s =>
    intro st n c hc hg
    simp only [chk, Option.some.injEq, Prod.mk.injEq] at hc
    obtain ⟨rfl, rfl⟩ := hc
    exact ⟨fun _ => ⟨st, rfl, hg⟩, by simp, by simp, by simp⟩
  | exitErr s => intro st n c _ _; exact ⟨by simp, by simp, by simp, by simp⟩
  | mayFail_ok s =>
    intro st n c hc hg
    simp only [chk, Option.some.injEq, Prod.mk.injEq] at hc
    obtain ⟨rfl, rfl⟩ := hc
    exact ⟨fun _ => ⟨st, rfl, hg⟩, by simp, by simp, by simp⟩
  | mayFail_err s => intro st n c _ _; exact ⟨by simp, by simp, by simp, by simp⟩
  | guard_in s _ => intro st n c _ _; exact ⟨by simp, by simp, by simp, by simp⟩
  | guard_out s hp =>
    intro st n c hc hg
    simp only [chk] at hc
    split at hc
    · cases hc
    · rename_i hne
      simp only [Option.some.injEq, Prod.mk.injEq] at hc
      obtain ⟨rfl, rfl⟩ := hc
      have hs := absHolds_set hg hne
      subst hs
      exact ⟨fun _ => ⟨.guarded, rfl, rfl, hp⟩, by simp, by simp, by simp⟩
  | insert s =>
    intro st n c hc hg
    simp only [chk] at hc
    split at hc
    · rename_i he
      subst he
      simp only [Option.some.injEq, Prod.mk.injEq] at hc
      obtain ⟨rfl, rfl⟩ := hc
      obtain ⟨rfl, hp⟩ := hg
      exact ⟨fun _ => ⟨.pushed, rfl, rfl, hp⟩, by simp, by simp, by simp⟩
    · cases hc
  | remove s =>
    intro st n c hc hg
    simp only [chk] at hc
    split at hc
    · rename_i he
      subst he
      simp only [Option.some.injEq, Prod.mk.injEq] at hc
      obtain ⟨rfl, rfl⟩ := hc
      obtain ⟨rfl, hp⟩ := hg
      exact ⟨fun _ => ⟨.guarded, rfl, by simp, hp⟩, by simp, by simp, by simp⟩
    · cases hc
  | tokens_ok s =>
    intro st n c hc hg
    simp only [chk] at hc
    split at hc
    · rename_i he
      subst he
      simp only [Option.some.injEq, Prod.mk.injEq] at hc
      obtain ⟨rfl, rfl⟩ := hc
      exact ⟨fun _ => ⟨.pushed, rfl, hg⟩, by simp, by simp, by simpa using hg.1⟩
    · cases hc
  | tokens_err s =>
    intro st n c hc hg
    simp only [chk] at hc
    split at hc
    · rename_i he
      subst he
      exact ⟨by simp, by simp, by simp, by simpa using hg.1⟩
    · cases hc
  | recursive_ok s =>
    intro st n c hc hg
    simp only [chk, Option.some.injEq, Prod.mk.injEq] at hc
    obtain ⟨rfl, rfl⟩ := hc
    exact ⟨fun _ => ⟨st, rfl, hg⟩, by simp, by simp, by simp⟩
  | recursive_err s => intro st n c _ _; exact ⟨by simp, by simp, by simp, by simp⟩
  | continue_ s =>
    intro st n c hc hg
    simp only [chk, Option.some.injEq, Prod.mk.injEq] at hc
    obtain ⟨rfl, rfl⟩ := hc
    exact ⟨by simp, fun _ => ⟨st, rfl, hg⟩, by simp, by simp⟩
  | returnOk s =>
    intro st n c hc hg
    simp only [chk] at hc
    split at hc
    · cases hc
    · rename_i hne
      exact ⟨by simp, by simp, fun _ => absHolds_set hg hne, by simp⟩
  | foreign s s' k => intro st n c hc _; simp [chk] at hc
  | seq_normal x y s s1 k s2 l1 l2 _ _ iha ihb =>
    intro st n c hc hg
    simp only [chk] at hc
    cases hca : chk x st with
    | none => simp [hca] at hc
    | some r =>
      obtain ⟨na, ca⟩ := r
      have pa := iha st na ca hca hg
      obtain ⟨st1, hn, hg1⟩ := pa.1 rfl
      subst hn
      simp only [hca] at hc
      cases hcb : chk y st1 with
      | none => simp [hcb] at hc
      | some r2 =>
        obtain ⟨nb, cb⟩ := r2
        simp only [hcb] at hc
        cases hj : joinAbs ca cb with
        | none => simp [hj] at hc
        | some cj =>
          simp only [hj, Option.some.injEq, Prod.mk.injEq] at hc
          obtain ⟨rfl, rfl⟩ := hc
          have pb := ihb st1 nb cb hcb hg1
          refine ⟨pb.1, ?_, pb.2.2.1, ?_⟩
          · intro hk
            obtain ⟨st', hc', hg'⟩ := pb.2.1 hk
            subst hc'
            exact ⟨st', joinAbs_right hj, hg'⟩
          · intro x hx
            cases List.mem_append.mp hx with
            | inl h => exact pa.2.2.2 x h
            | inr h => exact pb.2.2.2 x h
  | seq_abrupt x y s k s1 l1 _ hk iha =>
    intro st n c hc hg
    simp only [chk] at hc
    cases hca : chk x st with
    | none => simp [hca] at hc
    | some r =>
      obtain ⟨na, ca⟩ := r
      have pa := iha st na ca hca hg
      simp only [hca] at hc
      cases na with
      | none =>
        simp only [Option.some.injEq, Prod.mk.injEq] at hc
        obtain ⟨rfl, rfl⟩ := hc
        exact pa
      | some st1 =>
        simp only at hc
        cases hcb : chk y st1 with
        | none => simp [hcb] at hc
        | some r2 =>
          obtain ⟨nb, cb⟩ := r2
          simp only [hcb] at hc
          cases hj : joinAbs ca cb with
          | none => simp [hj] at hc
          | some cj =>
            simp only [hj, Option.some.injEq, Prod.mk.injEq] at hc
            obtain ⟨rfl, rfl⟩ := hc
            refine ⟨fun h => absurd h hk, ?_, pa.2.2.1, pa.2.2.2⟩
            intro hk'
            obtain ⟨st', hc', hg'⟩ := pa.2.1 hk'
            subst hc'
            exact ⟨st', joinAbs_left hj, hg'⟩
  | branch_then t e s k s1 l1 _ ih =>
    intro st n c hc hg
    simp only [chk] at hc
    cases hct : chk t st with
    | none => simp [hct] at hc
    | some r1 =>
      cases hce : chk e st with
      | none => simp [hct, hce] at hc
      | some r2 =>
        obtain ⟨n1, c1⟩ := r1
        obtain ⟨n2, c2⟩ := r2
        simp only [hct, hce] at hc
        cases hjn : joinAbs n1 n2 with
        | none => simp [hjn] at hc
        | some nj =>
          cases hjc : joinAbs c1 c2 with
          | none => simp [hjn, hjc] at hc
          | some cj =>
            simp only [hjn, hjc, Option.some.injEq, Prod.mk.injEq] at hc
            obtain ⟨rfl, rfl⟩ := hc
            have pt := ih st n1 c1 hct hg
            refine ⟨?_, ?_, pt.2.2.1, pt.2.2.2⟩
            · intro hk
              obtain ⟨st', h', hg'⟩ := pt.1 hk
              subst h'
              exact ⟨st', joinAbs_left hjn, hg'⟩
            · intro hk
              obtain ⟨st', h', hg'⟩ := pt.2.1 hk
              subst h'
              exact ⟨st', joinAbs_left hjc, hg'⟩
  | branch_else t e s k s1 l1 _ ih =>
    intro st n c hc hg
    simp only [chk] at hc
    cases hct : chk t st with
    | none => simp [hct] at hc
    | some r1 =>
      cases hce : chk e st with
      | none => simp [hct, hce] at hc
      | some r2 =>
        obtain ⟨n1, c1⟩ := r1
        obtain ⟨n2, c2⟩ := r2
        simp only [hct, hce] at hc
        cases hjn : joinAbs n1 n2 with
        | none => simp [hjn] at hc
        | some nj =>
          cases hjc : joinAbs c1 c2 with
          | none => simp [hjn, hjc] at hc
          | some cj =>
            simp only [hjn, hjc, Option.some.injEq, Prod.mk.injEq] at hc
            obtain ⟨rfl, rfl⟩ := hc
            have pe := ih st n2 c2 hce hg
            refine ⟨?_, ?_, pe.2.2.1, pe.2.2.2⟩
            · intro hk
              obtain ⟨st', h', hg'⟩ := pe.1 hk
              subst h'
              exact ⟨st', joinAbs_right hjn, hg'⟩
            · intro hk
              obtain ⟨st', h', hg'⟩ := pe.2.1 hk
              subst h'
              exact ⟨st', joinAbs_right hjc, hg'⟩
  | loop_done b s =>
    intro st n c hc hg
    simp only [chk] at hc
    cases hcb : chk b st with
    | none => simp [hcb] at hc
    | some r =>
      obtain ⟨nb, cb⟩ := r
      simp only [hcb] at hc
      split at hc
      · simp only [Option.some.injEq, Prod.mk.injEq] at hc
        obtain ⟨rfl, rfl⟩ := hc
        exact ⟨fun _ => ⟨st, rfl, hg⟩, by simp, by simp, by simp⟩
      · cases hc
  | loop_iter b s k s1 l1 k2 s2 l2 _ hk _ ihb ihl =>
    intro st n c hc hg
    have hc0 := hc
    simp only [chk] at hc
    cases hcb : chk b st with
    | none => simp [hcb] at hc
    | some r =>
      obtain ⟨nb, cb⟩ := r
      simp only [hcb] at hc
      split at hc
      · rename_i hinv
        have pb := ihb st nb cb hcb hg
        have hg1 : absHolds p a st s1 := by
          cases hk with
          | inl hk =>
            obtain ⟨st', h', hg'⟩ := pb.1 hk
            cases hinv.1 with
            | inl h0 => rw [h0] at h'; cases h'
            | inr h0 => rw [h0] at h'; cases h'; exact hg'
          | inr hk =>
            obtain ⟨st', h', hg'⟩ := pb.2.1 hk
            cases hinv.2 with
            | inl h0 => rw [h0] at h'; cases h'
            | inr h0 => rw [h0] at h'; cases h'; exact hg'
        have pl := ihl st n c hc0 hg1
        refine ⟨pl.1, pl.2.1, pl.2.2.1, ?_⟩
        intro x hx
        cases List.mem_append.mp hx with
        | inl h => exact pb.2.2.2 x h
        | inr h => exact pl.2.2.2 x h
      · cases hc
  | loop_abrupt b s k s1 l1 _ hk ihb =>
    intro st n c hc hg
    simp only [chk] at hc
    cases hcb : chk b st with
    | none => simp [hcb] at hc
    | some r =>
      obtain ⟨nb, cb⟩ := r
      simp only [hcb] at hc
      split at hc
      · simp only [Option.some.injEq, Prod.mk.injEq] at hc
        obtain ⟨rfl, rfl⟩ := hc
        have pb := ihb st nb cb hcb hg
        refine ⟨?_, ?_, pb.2.2.1, pb.2.2.2⟩
        · intro h; cases hk with
          | inl h' => rw [h'] at h; cases h
          | inr h' => rw [h'] at h; cases h
        · intro h; cases hk with
          | inl h' => rw [h'] at h; cases h
          | inr h' => rw [h'] at h; cases h
      · cases hc

/-- a body that passes the check: however it is executed from the set `a`, it cannot fall off its end or `continue`
    out of itself, every `Ok` return hands the set back as it was, and every call of `expand_mechdown_include_tokens`
    happens with the set `p :: a` — the model's `expandFile fs n (p :: active)` -/
theorem discipline_sound (p : Path) (a : List Path) (body : Skel) (hok : disciplineOk body = true)
    {k : Exit} {s' : List Path} {log : List (List Path)} (h : Exec p body a k s' log) :
    k ≠ .normal ∧ k ≠ .cont ∧ (k = .retOk → s' = a) ∧ (∀ x ∈ log, x = p :: a) := by
  have hc : chk body .entry = some (none, none) := by
    simpa [disciplineOk] using hok
  have := chk_sound p a h .entry none none hc rfl
  refine ⟨?_, ?_, this.2.2.1, this.2.2.2⟩
  · intro hk; obtain ⟨_, h', _⟩ := this.1 hk; cases h'
  · intro hk; obtain ⟨_, h', _⟩ := this.2.1 hk; cases h'

/-- the skeleton contains no call of the tokens function -/
def noTokensCalls : Skel → Bool
  | .skip => true
  | .ev e => e != .callTokens && e != .foreign
  | .seq a b => noTokensCalls a && noTokensCalls b
  | .branch t e => noTokensCalls t && noTokensCalls e
  | .loop b => noTokensCalls b

theorem noTokensCalls_log (p : Path) {sk : Skel} {s : List Path} {k : Exit} {s' : List Path}
    {log : List (List Path)} (hn : noTokensCalls sk = true) (h : Exec p sk s k s' log) : log = [] := by
  induction h with
  | tokens_ok s => simp [noTokensCalls] at hn
  | tokens_err s => simp [noTokensCalls] at hn
  | seq_normal x y s s1 k s2 l1 l2 _ _ iha ihb =>
    simp only [noTokensCalls, Bool.and_eq_true] at hn
    rw [iha hn.1, ihb hn.2]; rfl
  | seq_abrupt x y s k s1 l1 _ _ iha =>
    simp only [noTokensCalls, Bool.and_eq_true] at hn
    exact iha hn.1
  | branch_then t e s k s1 l1 _ ih =>
    simp only [noTokensCalls, Bool.and_eq_true] at hn
    exact ih hn.1
  | branch_else t e s k s1 l1 _ ih =>
    simp only [noTokensCalls, Bool.and_eq_true] at hn
    exact ih hn.2
  | loop_iter b s k s1 l1 k2 s2 l2 _ _ _ ihb ihl =>
    have hb : noTokensCalls b = true := by simpa [noTokensCalls] using hn
    rw [ihb hb, ihl hn]; rfl
  | loop_abrupt b s k s1 l1 _ _ ihb =>
    have hb : noTokensCalls b = true := by simpa [noTokensCalls] using hn
    exact ihb hb
  | _ => rfl

end MechVerif.IncludeIR
