/-
C07 — Bytecode files round-trip exactly and corrupted files are rejected.
Model: `Model/Crc.lean` (CRC-32 register, `verify_crc_trailer_seek`),
`Model/Bytecode.lean` (instruction stream codec).  Helper lemmas: `Lemmas/Crc.lean`,
`Lemmas/Bytecode.lean`.
`Model/Loader.lean` (header, sections, symbol table, dictionary: `load_program_from_bytes`),
`Lemmas/Loader.lean`.
`Model/Emit.lean` (the writer of a whole file, `ParsedProgram::to_bytes`, and the layout `compile` computes),
`Lemmas/Emit.lean`.
-/
import MechVerif.Lemmas.Crc
import MechVerif.Lemmas.Bytecode
import MechVerif.Lemmas.Loader
import MechVerif.Lemmas.Emit
import MechVerif.Gen.Layout
namespace MechVerif.C07
open MechVerif.Crc MechVerif.Bytecode

/-- Burst detection.  Two files of equal length whose bit difference (in
    transmission order: byte by byte, least significant bit first) is non-zero and
    confined to 32 consecutive bit positions cannot both carry a valid CRC trailer:
    if `f` verifies then `g` is rejected.  This covers every single-bit flip, every
    damage confined to four consecutive bytes, and damage inside the trailer itself,
    for files of every length. -/
theorem C07_crc_detects_window32 (f g : List Byte) (a b : Nat) (w : List Bool)
    (h4 : 4 ≤ f.length) (hlen : f.length = g.length) (hw : w.length ≤ 31)
    (hx : xorBits (bitsOfBytes f) (bitsOfBytes g)
            = List.replicate a false ++ (true :: w) ++ List.replicate b false)
    (hf : verifies f = true) : verifies g = false := by
  cases hg : verifies g with
  | false => rfl
  | true =>
    exfalso
    have h1 := (verifies_iff f h4).mp hf
    have h2 := (verifies_iff g (by omega)).mp hg
    have hl : (bitsOfBytes f).length = (bitsOfBytes g).length := by
      simp [bitsOfBytes_length, hlen]
    have h3 := run_lin (bitsOfBytes f) (bitsOfBytes g) ONES ONES hl
    rw [h1, h2, hx] at h3
    simp only [BitVec.xor_self] at h3
    exact window_nonzero a b w hw h3

/-- A single flipped bit anywhere in a verifying file (payload or trailer) is rejected. -/
theorem C07_verify_rejects_flip (f g : List Byte) (a b : Nat)
    (h4 : 4 ≤ f.length) (hlen : f.length = g.length)
    (hx : xorBits (bitsOfBytes f) (bitsOfBytes g)
            = List.replicate a false ++ [true] ++ List.replicate b false)
    (hf : verifies f = true) : verifies g = false :=
  C07_crc_detects_window32 f g a b [] h4 hlen (by simp) hx hf

/-- Files shorter than the trailer are rejected outright. -/
theorem C07_verify_rejects_short (f : List Byte) (h : f.length < 4) :
    verify f = .error .short := by
  simp [verify, h]

/-- Decision logic of the trailer check, stated outright: a file of at least four
    bytes is accepted iff its last four bytes are the little-endian CRC-32 of the rest. -/
theorem C07_verify_ok_iff (p : List Byte) (b0 b1 b2 b3 : Byte) :
    verifies (p ++ [b0, b1, b2, b3]) = (crc32 p == le32 b0 b1 b2 b3) := by
  unfold verifies verify
  have h1 : ¬ (p ++ [b0, b1, b2, b3]).length < 4 := by simp
  have h2 : (p ++ [b0, b1, b2, b3]).length - 4 = p.length := by simp
  simp only [h1, if_false, h2, List.drop_left, List.take_left]
  cases crc32 p == le32 b0 b1 b2 b3 <;> rfl

/-- The CRC register is linear over message xor (equal lengths). -/
theorem C07_crc_linear (u w : List Bool) (a b : BitVec 32) (h : u.length = w.length) :
    run (a ^^^ b) (xorBits u w) = run a u ^^^ run b w :=
  run_lin u w a b h

/-- Instruction streams round-trip: decoding what `write_to` emitted gives back the
    same instructions — for every list of well-formed instructions that does not end
    in a `Ret` (see the counterexample below), with any sufficient fuel. -/
theorem C07_instr_roundtrip_partial (is : List Instr)
    (hwf : ∀ i ∈ is, i.wf) (hnt : noTrailingRet is = true)
    (fuel : Nat) (hfuel : (encodeInstrs is).length ≤ fuel) :
    decodeInstrs fuel (encodeInstrs is) = .ok is :=
  decode_encode is hwf hnt fuel hfuel

/-- Full statement of the instruction round trip (kept visible; it is false at the
    pinned commit because of the `rem < 8` test, see the counterexample). -/
def C07_instr_roundtrip_statement : Prop :=
  ∀ is : List Instr, (∀ i ∈ is, i.wf) →
    decodeInstrs (encodeInstrs is).length (encodeInstrs is) = .ok is

def isTruncated (r : Except DErr (List Instr)) : Bool :=
  match r with | .error .truncated => true | _ => false

/-- A stream ending in `Ret` (5 bytes) does not decode: `decode_instructions`
    demands 8 remaining bytes before every instruction.  Latent: the compiler at the
    pinned commit never emits `Ret`. -/
theorem C07_counterexample_trailing_ret :
    isTruncated (decodeInstrs 5 (encodeInstrs [.ret 0])) = true := by decide

theorem C07_instr_roundtrip_statement_false : ¬ C07_instr_roundtrip_statement := by
  intro h
  have := h [.ret 0] (by intro i hi; simp at hi; subst hi; simp [Instr.wf, U32])
  have h2 := C07_counterexample_trailing_ret
  simp only [encodeInstrs, List.flatMap_cons, List.flatMap_nil, List.append_nil] at this h2
  rw [show (encodeInstr (.ret 0)).length = 5 by rfl] at this
  rw [this] at h2
  simp [isTruncated] at h2

/-! ### the file loader (`load_program_from_bytes`) -/
section loader
open MechVerif.Loader

/-- The 129-byte header round-trips: what `write_to` emitted, `read_from` reads back field for
    field, whatever bytes follow the header. -/
theorem C07_header_roundtrip (h : Header) (hw : h.wf) (rest : List Byte) :
    readHeader (writeHeader h ++ rest) = some h ∧ (writeHeader h).length = HEADER_SIZE :=
  ⟨readHeader_writeHeader h hw rest, writeHeader_length h hw.1⟩

/-- A file whose CRC trailer does not verify is never loaded: the loader's answer is the trailer
    check's error.  With `C07_verify_rejects_flip` this is "a flipped bit is rejected" for the
    loader as a whole, not only for the trailer check. -/
theorem C07_load_rejects_unverified (valid : List Byte → Bool) (bs : List Byte) (e : VErr)
    (h : verify bs = .error e) : ∃ e', load valid bs = .error e' :=
  ⟨_, load_crc_error valid bs e h⟩

theorem C07_load_rejects_flip (valid : List Byte → Bool) (f g : List Byte) (a b : Nat)
    (h4 : 4 ≤ f.length) (hlen : f.length = g.length)
    (hx : xorBits (bitsOfBytes f) (bitsOfBytes g) = List.replicate a false ++ [true] ++ List.replicate b false)
    (hf : verifies f = true) : ∃ e', load valid g = .error e' := by
  have hg := C07_verify_rejects_flip f g a b h4 hlen hx hf
  unfold verifies at hg
  cases hv : verify g with
  | ok u => rw [hv] at hg; cases hg
  | error e => exact C07_load_rejects_unverified valid g e hv

/-- Everything a successful load returns was read from inside the file: each of the sections the
    header names (constant blob, symbol table, instruction stream, dictionary) that is present
    ends at or before the end of the file and is exactly the bytes at the named offset; the
    trailer verified and the magic number is "MECH".  No header field can make the loader read or
    allocate beyond the file. -/
theorem C07_load_sections_inside (valid : List Byte → Bool) (bs : List Byte) (L : Loaded)
    (h : load valid bs = .ok L) :
    verify bs = .ok () ∧ L.header.magic = MECH ∧
    (L.header.constBlobOff ≠ 0 ∧ L.header.constBlobLen > 0 →
      L.header.constBlobOff + L.header.constBlobLen ≤ bs.length ∧
      L.blob = (bs.drop L.header.constBlobOff).take L.header.constBlobLen) ∧
    (L.header.symbolsOff ≠ 0 ∧ L.header.symbolsLen > 0 → L.header.symbolsOff + L.header.symbolsLen ≤ bs.length) ∧
    (L.header.instrOff ≠ 0 ∧ L.header.instrLen > 0 → L.header.instrOff + L.header.instrLen ≤ bs.length) ∧
    (L.header.dictOff ≠ 0 ∧ L.header.dictLen > 0 → L.header.dictOff + L.header.dictLen ≤ bs.length) ∧
    (L.header.constTblOff ≠ 0 ∧ L.header.constTblLen > 0 → L.header.constTblOff + L.header.constTblLen ≤ bs.length) := by
  obtain ⟨hv, _, hm, ⟨tbl, ht⟩, hb, ⟨sy, hs, _⟩, ⟨ib, hi, _⟩, ⟨db, hd, _⟩⟩ := load_ok_inv valid bs L h
  refine ⟨hv, hm, ?_, ?_, ?_, ?_, ?_⟩
  · exact (optSection_inside bs _ _ _ hb).1
  · exact fun hc => ((optSection_inside bs _ _ _ hs).1 hc).1
  · exact fun hc => ((optSection_inside bs _ _ _ hi).1 hc).1
  · exact fun hc => ((optSection_inside bs _ _ _ hd).1 hc).1
  · exact fun hc => ((optSection_inside bs _ _ _ ht).1 hc).1

/-- Contrapositive, as the property puts it: a header naming a section that does not fit in the
    file makes the load fail — it is not sliced, and nothing is returned. -/
theorem C07_load_rejects_outside_section (valid : List Byte → Bool) (bs : List Byte) (h : Header)
    (hh : readHeader bs = some h)
    (hout : (h.instrOff ≠ 0 ∧ h.instrLen > 0 ∧ bs.length < h.instrOff + h.instrLen) ∨
            (h.constBlobOff ≠ 0 ∧ h.constBlobLen > 0 ∧ bs.length < h.constBlobOff + h.constBlobLen) ∨
            (h.symbolsOff ≠ 0 ∧ h.symbolsLen > 0 ∧ bs.length < h.symbolsOff + h.symbolsLen) ∨
            (h.dictOff ≠ 0 ∧ h.dictLen > 0 ∧ bs.length < h.dictOff + h.dictLen) ∨
            (h.constTblOff ≠ 0 ∧ h.constTblLen > 0 ∧ bs.length < h.constTblOff + h.constTblLen)) :
    ∀ L, load valid bs ≠ .ok L := by
  intro L hL
  have inv := load_ok_inv valid bs L hL
  have hhd : L.header = h := by have := inv.2.1; rw [hh] at this; exact (Option.some.inj this).symm
  obtain ⟨_, _, a, b, c, d, e⟩ := C07_load_sections_inside valid bs L hL
  rw [hhd] at a b c d e
  rcases hout with ⟨x, y, z⟩ | ⟨x, y, z⟩ | ⟨x, y, z⟩ | ⟨x, y, z⟩ | ⟨x, y, z⟩
  · have := c ⟨x, y⟩; omega
  · have := (a ⟨x, y⟩).1; omega
  · have := b ⟨x, y⟩; omega
  · have := d ⟨x, y⟩; omega
  · have := e ⟨x, y⟩; omega

/-- The symbol table round-trips: `n` entries are written as `13 n` bytes and read back entry for
    entry, and the entry count the loader derives from the section length (`len / 13`) is `n`. -/
theorem C07_symbols_roundtrip (ss : List (Nat × Bool × Nat)) (hw : ∀ s ∈ ss, symWf s) :
    readSymbols (writeSymbols ss) ((writeSymbols ss).length / 13) 0 = .ok ss := by
  have h := readSymbols_write ss hw [] []
  rw [writeSymbols_length, Nat.mul_div_cancel_left _ (by decide : 0 < 13)]
  simpa using h

/-- The count must be `len / 13`: with the divisor 12 the pinned commit used, a table of twelve
    or more symbols is over-counted and the read runs off the end of the section (the load fails
    with an I/O error on a file the compiler itself wrote).  Repaired by a `fix:` commit. -/
theorem C07_symbol_count_div12_fails (ss : List (Nat × Bool × Nat)) (h12 : 12 ≤ ss.length) :
    ∀ r, readSymbols (writeSymbols ss) ((writeSymbols ss).length / 12) 0 ≠ .ok r := by
  intro r hr
  obtain ⟨_, hb⟩ := readSymbols_needs _ _ _ _ hr
  rw [writeSymbols_length] at hb
  have : ss.length + 1 ≤ 13 * ss.length / 12 := by
    rw [Nat.le_div_iff_mul_le (by decide)]; omega
  rcases hb with hb | hb
  · omega
  · have h2 : 13 * (ss.length + 1) ≤ 13 * (13 * ss.length / 12) := Nat.mul_le_mul_left 13 this
    omega

/-- The dictionary loop terminates on its own: the fuel the model gives it (one turn per byte of
    the section) is never what stops it — any larger amount gives the same result. -/
theorem C07_dict_loop_terminates (d : List Byte) (valid : List Byte → Bool) (k : Nat) :
    readDict d valid (d.length + k) 0 = readDict d valid d.length 0 :=
  readDict_fuel_enough d valid k

/-- **The whole file round-trips.**  Whatever `compile` lays out — any features, types, constant
    entries, blob, symbols, instructions and dictionary, with the header's counts, offsets and
    lengths computed from them (`Layout`) and every field within its on-disk width — the loader reads
    back from the emitted bytes exactly the header, features, types, constant table, blob,
    symbols, instructions and dictionary that were written: every section at its offset, nothing
    lost, nothing reordered, and the CRC trailer check passes.  (The instruction stream must not
    end in `Ret`: finding C07-D4, see `C07_counterexample_trailing_ret`.) -/
theorem C07_file_roundtrip (valid : List Byte → Bool) (L : Loaded) (hl : Layout L) (hw : LoadedWf valid L) :
    load valid (toBytes L) = .ok L := load_toBytes valid L hl hw

/-- Decoding the emitted bytes and re-encoding the decoded program reproduces the same bytes. -/
theorem C07_reencode_same_bytes (valid : List Byte → Bool) (L : Loaded) (hl : Layout L) (hw : LoadedWf valid L) :
    ∀ L', load valid (toBytes L) = .ok L' → toBytes L' = toBytes L := by
  intro L' h
  rw [C07_file_roundtrip valid L hl hw] at h
  cases h; rfl

/-- The emitted file always carries a valid trailer, so it is damage — not the writer — that the
    trailer check rejects. -/
theorem C07_emitted_file_verifies (L : Loaded) : Crc.verify (toBytes L) = .ok () := verify_trailer _

end loader

/-! ### non-vacuity -/

/-- "123456789" followed by its CRC-32 (0xCBF43926) little endian verifies -/
def exFile : List Byte :=
  [0x31, 0x32, 0x33, 0x34, 0x35, 0x36, 0x37, 0x38, 0x39, 0x26, 0x39, 0xF4, 0xCB]

example : verifies exFile = true := by decide +kernel
example : crc32 (exFile.take 9) = 0xCBF43926#32 := by decide +kernel
example : noTrailingRet [.binOp 7 0 1 2, .ret 0, .constLoad 1 2] = true := by decide
example : decodeInstrs 40 (encodeInstrs [.binOp 7 0 1 2, .ret 0, .constLoad 1 2])
    = .ok [.binOp 7 0 1 2, .ret 0, .constLoad 1 2] := by
  apply C07_instr_roundtrip_partial
  · intro i hi; simp at hi; rcases hi with h | h | h <;> subst h <;> simp [Instr.wf, U32, U64]
  · decide
  · decide

section loaderExamples
open MechVerif.Loader
def exHeader : Header := ⟨MECH, 1, 2, 0, 3, 4, 0, 0, 0, 0, 1, 129, 24, 153, 8, 26, 161, 187, 16, 0, 0, 0⟩
example : exHeader.wf := by unfold Header.wf exHeader MECH; decide
example : symWf (7, true, 3) := by unfold symWf; decide
example : readSymbols (writeSymbols [(7, true, 3), (9, false, 1)]) ((writeSymbols [(7, true, 3), (9, false, 1)]).length / 13) 0
    = .ok [(7, true, 3), (9, false, 1)] :=
  C07_symbols_roundtrip _ (by intro s hs; simp at hs; rcases hs with h | h <;> subst h <;> (unfold symWf; decide))
/-- a file with one feature, one type, one constant, a blob, two symbols, two instructions and a dictionary entry -/
def exLoaded : Loaded :=
  { header := ⟨MECH, 1, 2, 0, 3, 2, 1, 129, 1, 141, 1, 159, 24, 183, 8, 26, 191, 217, 30, 247, 15, 0⟩,
    features := [5], types := [(12, [1, 2])], consts := [⟨0, 1, 8, 0, 0, 0, 8⟩], blob := [0, 0, 0, 0, 0, 0, 0xF0, 0x3F],
    symbols := [(7, true, 3), (9, false, 1)], instrs := [.constLoad 1 0, .binOp 7 0 1 2], dict := [(7, [0x61, 0x62, 0x63])] }
example : Layout exLoaded := by
  constructor <;> (simp [exLoaded, HEADER_SIZE, writeFeatures, writeTypes, writeType, writeConsts, writeConst, writeSymbols, writeSymbol,
    writeDict, writeDictEntry, encodeInstrs, encodeInstr, leBytes_length])
example : LoadedWf (fun _ => true) exLoaded := by
  constructor
  · unfold exLoaded Header.wf MECH; decide
  · intro f hf; simp [exLoaded] at hf; subst hf; decide
  · intro t ht; simp [exLoaded] at ht; subst ht; decide
  · intro c hc; simp [exLoaded] at hc; subst hc; unfold constWf; decide
  · intro s hs; simp [exLoaded] at hs; rcases hs with h | h <;> subst h <;> (unfold symWf; decide)
  · intro i hi; simp [exLoaded] at hi; rcases hi with h | h <;> subst h <;> simp [Instr.wf, U32, U64]
  · decide
  · intro e he; simp [exLoaded] at he; subst he; unfold dictWf; decide
  · have h1 : (toBytes exLoaded).length = (body exLoaded).length + 4 := by simp [toBytes, trailer]
    have h2 : (body exLoaded).length = 262 := by decide +kernel
    rw [h1, h2]; decide
end loaderExamples

/-! ### the layout as written in the source (regenerated on every run: `Gen/Layout.lean`) -/
section written
open MechVerif.Loader MechVerif.Layout

/-- The model writes the header, every instruction, every constant-table entry and every symbol entry field by field in
    the order and widths read off `ByteCodeHeader::write_to`, `DecodedInstr::write_to` with the numbers of `enum OpCode`,
    `ParsedConstEntry::write_to` and `SymbolEntry::write_to` of the source; `HEADER_SIZE`, 24 and 13 are the sums of
    those widths. -/
theorem C07_model_writes_the_layout_of_the_source (h : Header) (i : Instr) (c : CEntry) (s : Nat × Bool × Nat) :
    writeHeader h = h.magic ++ encodeFields (Gen.Layout.headerWritten.tail.map (·.2)) (headerValues h) ∧
    Gen.Layout.headerSizeTerms.sum = HEADER_SIZE ∧
    encodeInstr i = BitVec.ofNat 8 (opcodeIn Gen.Layout.opcodes (instrRowIn Gen.Layout.decodedWritten i).2.1) ::
      (encodeFields ((instrRowIn Gen.Layout.decodedWritten i).2.2.1.map (·.2)) (fieldValues i) ++
       (if (instrRowIn Gen.Layout.decodedWritten i).2.2.2 then u32s (listValues i) else [])) ∧
    writeConst c = encodeFields (Gen.Layout.parsedConstEntryWritten.map (·.2)) (constEntryValues c) ∧
    (writeConst c).length = Gen.Layout.constEntryByteLenTerms.sum ∧
    writeSymbol s = encodeFields (Gen.Layout.symbolEntryWritten.map (·.2)) (symbolEntryValues s) ∧
    (writeSymbol s).length = Gen.Layout.symbolDivisor := by
  obtain ⟨_, hw, _, _, hs⟩ := Gen.Layout.C07_header_layout_is_model
  obtain ⟨ho, _⟩ := Gen.Layout.C07_opcodes_are_model
  obtain ⟨_, hd, _, _, _⟩ := Gen.Layout.C07_instr_layout_is_model
  obtain ⟨hpc, _, _, _, hcs, hsw, _, hdiv, _⟩ := Gen.Layout.C07_entry_layouts_are_model
  rw [hw, hs, ho, hd, hpc, hcs, hsw, hdiv]
  exact ⟨writeHeader_by_layout h, rfl, encodeInstr_by_layout i, writeConst_by_layout c, (entry_sizes c s).1,
    writeSymbol_by_layout s, (entry_sizes c s).2.2.1⟩

end written

end MechVerif.C07
