import MechVerif.Driver.Value
import MechVerif.Spec.Range
namespace MechVerif.Driver
open MechVerif.Num MechVerif.Range

def f64Ops : FOps Float where
  add := (· + ·)
  sub := (· - ·)
  ltZero := fun v => v < 0.0
  one := 1.0
  toUsize := fun v => v.toUInt64.toNat
  incSize := fun incl a s b =>
    let diff := b - a
    if s == 0.0 then .error .empty
    else if (diff > 0.0 && s > 0.0) || (diff < 0.0 && s < 0.0) then
      .ok (if incl then (diff / s).floor.toUInt64.toNat + 1 else (diff / s).ceil.toUInt64.toNat)
    else if incl then (if diff == 0.0 then .ok 1 else .error .empty) else .ok 0

def f32Ops : FOps Float32 where
  add := (· + ·)
  sub := (· - ·)
  ltZero := fun v => v < 0.0
  one := 1.0
  toUsize := fun v => v.toUInt64.toNat
  incSize := fun incl a s b => f64Ops.incSize incl a.toFloat s.toFloat b.toFloat

/-- the f64 quotient rounding of the integer increment forms -/
def qF64 (ceil : Bool) (diff s : Int) : Nat :=
  let q := Float.ofInt diff / Float.ofInt s
  (if ceil then q.ceil else q.floor).toUInt64.toNat

def renderRange (kind : String) (els : Except Err (List String)) : String :=
  match els with
  | .error _ => "err"
  | .ok xs => matText kind 1 xs.length xs

/-- exact operands: (a, step (1 if absent), b) -/
def exactOperand (kind : String) (t : String) : Option Dy :=
  if kind == "f64" then dyOfF64Bits (UInt64.ofNat (parseHex t))
  else if kind == "f32" then dyOfF32Bits (UInt32.ofNat (parseHex t))
  else if kind == "r64" then
    match t.splitOn "/" with
    | [n, d] =>
      match parseInt n, d.toNat? with
      | some n, some d => if d != 0 && 2 ^ d.log2 == d then some ⟨n, -(d.log2 : Int)⟩ else none
      | _, _ => none
    | _ => none
  else (parseInt t).map Dy.ofInt

def exactElem (kind : String) (t : String) : Option Dy := exactOperand kind t

/-- the progression the property demands (capped), as exact values -/
def expectTerms (incl : Bool) (a s b : Dy) : List Dy :=
  let rec go : Nat → Nat → List Dy → List Dy
    | 0, _, acc => acc.reverse
    | fuel + 1, i, acc =>
      let t := Dy.add a (Dy.mulNat s i)
      if (if incl then Dy.le t b else Dy.lt t b) then go fuel (i + 1) (t :: acc) else acc.reverse
  go 20000 0 []

def runC15 (fields : List String) (obs : String) : String × String × String :=
  match fields with
  | _ :: kind :: form :: ta :: ts :: tb :: _ =>
    let incl := form == "incl"
    let hasStep := ts != "-"
    -- model
    let model : String :=
      match IKind.ofName kind with
      | some k =>
        (match parseInt ta, (if hasStep then parseInt ts else some 1), parseInt tb with
         | some a, some s, some b =>
           let r := if hasStep then rangeIncInt k incl (qF64 (!incl)) a s b
                    else if incl then rangeInclInt k a b else rangeExclInt k a b
           renderRange kind (match r with | .ok xs => .ok (xs.map toString) | .error e => .error e)
         | _, _, _ => "bad-case")
      | none =>
        if kind == "f64" then
          let a := f64OfText ta; let b := f64OfText tb
          let r := if hasStep then rangeIncF f64Ops incl a (f64OfText ts) b
                   else if incl then rangeInclF f64Ops a b else rangeExclF f64Ops a b
          renderRange kind (match r with | .ok xs => .ok (xs.map f64Text) | .error e => .error e)
        else if kind == "f32" then
          let a := f32OfText ta; let b := f32OfText tb
          let r := if hasStep then rangeIncF f32Ops incl a (f32OfText ts) b
                   else if incl then rangeInclF f32Ops a b else rangeExclF f32Ops a b
          renderRange kind (match r with | .ok xs => .ok (xs.map f32Text) | .error e => .error e)
        else "err"   -- r64, c64, bool, string: no range implementation
    -- spec
    match exactOperand kind ta, (if hasStep then exactOperand kind ts else some (Dy.ofInt 1)), exactOperand kind tb with
    | some a, some s, some b =>
      let isErr := obs == "err"
      let obsVals : Option (List Dy) :=
        match parseMatObs obs with
        | some m => if m.kind == kind && m.rows == 1 && m.cols == m.els.length then m.els.mapM (exactElem kind) else none
        | none => none
      let sameAs (exp : List Dy) : Bool :=
        match obsVals with
        | some vs => vs.length == exp.length && (List.zip vs exp).all (fun (x, y) => Dy.eq x y)
        | none => false
      let (verdict, exists_) : String × Bool :=
        if s.sign == 0 then (if isErr then "ok" else "bad:zero step must be an error", false)
        else if s.sign > 0 then
          let exp := expectTerms incl a s b
          if exp.isEmpty then (if isErr || obs == matText kind 1 0 [] then "ok" else "bad:empty range must be an error or empty", false)
          else
            -- float kinds: as many terms as the exact progression has before the end, each the sum the fill loop
            -- accumulates in that kind (a, a+s, (a+s)+s, …; equal to the exact term whenever that is representable)
            let floatSame : Option Bool :=
              if kind == "f32" then
                some (obs == matText kind 1 exp.length ((fillF f32Ops (if hasStep then f32OfText ts else 1.0) exp.length (f32OfText ta)).map f32Text))
              else if kind == "f64" then
                some (obs == matText kind 1 exp.length ((fillF f64Ops (if hasStep then f64OfText ts else 1.0) exp.length (f64OfText ta)).map f64Text))
              else none
            (if sameAs exp || floatSame == some true then "ok" else s!"bad:expected the {exp.length} terms of the progression", true)
        else
          -- negative step: wrong order (a < b) must fail; a descending range may be an error or the descending vector
          if Dy.lt a b || Dy.eq a b && !incl then (if isErr then "ok" else "bad:wrong order for a negative step", false)
          else (if isErr then "ok" else "ok-unchecked-descending", false)
      let verdict := if verdict == "ok-unchecked-descending" then "ok" else verdict
      -- known-finding regions
      let region : String :=
        if !exists_ then "-" else
        match IKind.ofName kind with
        | some k =>
          let ai := a.m; let si := s.m; let bi := b.m
          let n := (expectTerms incl a s b).length
          if !k.inR (bi - ai) || (!hasStep && incl && !k.inR (bi - ai + 1) && k.inR (ai + n * si)) then "C15-D3"
          else if !k.inR (ai + n * si) then "C15-D1"
          else "-"
        | none =>
          if kind == "r64" then "C15-D4"
          else if !hasStep && !incl && !(Dy.sub b a).isInt then "C15-D2" else "-"
      (model, verdict, region)
    | _, _, _ => (model, "bad-case", "-")
  | _ => ("bad-case", "bad-case", "-")

end MechVerif.Driver
