/-
The interpreter's variable store as it is built (src/interpreter/src/statements.rs,
src/core/src/program/symbol_table.rs): values live in reference-counted cells,
`symbols` maps a name to a cell and a mutability flag.  A *bare variable* on the
right-hand side of a definition evaluates to the variable's own cell
(`var()` → `MutableReference`, `detach_variable_value` clones the `Ref`), so the new
name shares storage with the old one; every other expression yields a fresh cell.
Assignment writes through the cell.
-/
import MechVerif.Model.Num
namespace MechVerif.Store
open MechVerif.Num

abbrev Name := String

inductive V where
  | num (v : Int)                       -- an f64 scalar holding an integer
  | mat (rows cols : Nat) (els : List Int)
  | blob (text : String)                -- sets, strings, records …: never combined, only bound
  | tuple (cells : List Nat)         -- element cells
  | record (fields : List (String × Int))                 -- numeric fields
  | table (rows : Nat) (cols : List (String × List Int))  -- numeric columns of `rows` entries
deriving DecidableEq, Repr

/-- the arithmetic of `+=`, `-=`, `*=` -/
inductive AOp where
  | add | sub | mul
deriving DecidableEq, Repr

def AOp.ap : AOp → Int → Int → Int
  | .add, a, b => a + b
  | .sub, a, b => a - b
  | .mul, a, b => a * b

inductive Expr where
  | lit (v : V)          -- literal (tuple literals carry their element values in `tupleLit`)
  | tupleLit (els : List Int)
  | var (x : Name)       -- bare variable reference
  | copy (x : Name)      -- `x + 0`: the value of x in a fresh cell
  | bad                  -- an expression that fails to evaluate
deriving DecidableEq, Repr

inductive Stmt where
  | define (mutable : Bool) (n : Name) (e : Expr)
  | assign (n : Name) (e : Expr)
  | setIdx (n : Name) (ix : List Nat) (v : Int)     -- n[ix] = v (1-based linear indices)
  | addAssign (op : AOp) (n : Name) (e : Expr)      -- n += e, n -= e, n *= e
  | setField (n : Name) (f : String) (e : Expr)     -- n.f = e (record field, table column)
  | destructure (names : List Name) (t : Name)      -- (a, b) := t
deriving DecidableEq, Repr

structure Store where
  cells : List V
  syms : List (Name × Nat × Bool)
deriving DecidableEq, Repr

def Store.empty : Store := ⟨[], []⟩

def Store.lookup (s : Store) (n : Name) : Option (Nat × Bool) :=
  (s.syms.find? (fun e => e.1 == n)).map (·.2)

def Store.alloc (s : Store) (v : V) : Store × Nat := ({ s with cells := s.cells ++ [v] }, s.cells.length)

def Store.read (s : Store) (c : Nat) : Option V := s.cells[c]?

def Store.write (s : Store) (c : Nat) (v : V) : Store := { s with cells := s.cells.set c v }

inductive SErr where
  | redefine | undefined | immutable | kind | index | eval
deriving DecidableEq, Repr

/-- `x + 0` is defined for numbers and numeric matrices only -/
def copyable : V → Bool
  | .num _ | .mat _ _ _ => true
  | _ => false

/-- storage form of a matrix value (row vector, column vector, matrix; cf. `Matrix::from_vec`) -/
def formTag (r c : Nat) : Nat := if r = 1 ∧ c ≠ 1 then 0 else if c = 1 ∧ r ≠ 1 then 1 else 2

/-- allocate one cell per tuple element -/
def allocNums (s : Store) : List Int → Store
  | [] => s
  | x :: xs => allocNums (s.alloc (.num x)).1 xs

/-- the cell an expression evaluates to (allocating when it is not a bare variable) -/
def evalCell (s : Store) (e : Expr) : Except SErr (Store × Nat) :=
  match e with
  | .lit v => .ok (s.alloc v)
  | .tupleLit els =>
    let s1 := allocNums s els
    let ids := (List.range els.length).map (· + s.cells.length)
    .ok (s1.alloc (.tuple ids))
  | .var x => match s.lookup x with
    | none => .error .undefined
    | some (c, _) => .ok (s, c)
  | .copy x => match s.lookup x with
    | none => .error .undefined
    | some (c, _) => match s.read c with
      | some v => if copyable v then .ok (s.alloc v) else .error .eval
      | none => .error .eval
  | .bad => .error .eval

/-- the value an expression evaluates to (for assignment: always copied into the target) -/
def evalValue (s : Store) (e : Expr) : Except SErr V :=
  match e with
  | .lit v => .ok v
  | .tupleLit _ => .error .kind
  | .var x => match s.lookup x with
    | none => .error .undefined
    | some (c, _) => match s.read c with
      | some v => .ok v
      | none => .error .eval
  | .copy x => match s.lookup x with
    | none => .error .undefined
    | some (c, _) => match s.read c with
      | some v => if copyable v then .ok v else .error .eval
      | none => .error .eval
  | .bad => .error .eval

/-- the kind prefix of an opaque value's canonical text (`string`, `bool`, `set`, …) -/
def blobKind (t : String) : String := (t.splitOn ":").headD ""
def scalarBlob (t : String) : Bool := blobKind t == "string" || blobKind t == "bool"

/-- may a cell holding `old` receive `new` (scalar ← scalar, matrix ← matrix of any shape) -/
def compatible (old new : V) : Bool :=
  match old, new with
  | .num _, .num _ => true
  | .mat r c _, .mat r' c' _ => formTag r c == formTag r' c'      -- same storage form, any length
  | .blob a, .blob b => scalarBlob a && scalarBlob b && blobKind a == blobKind b   -- string ← string, bool ← bool
  | _, _ => false

def addV (op : AOp) (old new : V) : Option V :=
  match old, new with
  | .num a, .num b => some (.num (op.ap a b))
  | .mat r c els, .num b => some (.mat r c (els.map (op.ap · b)))
  | .mat r c els, .mat r' c' els' =>
    if r = r' ∧ c = c' then some (.mat r c (List.zipWith op.ap els els'))
    else if formTag r c == formTag r' c' then
      -- C05-D4 (= C04-D5): no shape check; the common prefix is updated
      some (.mat r c (List.zipWith op.ap els els' ++ els.drop els'.length))
    else none
  | _, _ => none

/-- `n.f = v`: a numeric field of a record takes a number, a column of a table takes a column
    vector of exactly the table's length -/
def setFieldV (f : String) (old new : V) : Option V :=
  match old, new with
  | .record fs, .num x =>
    if fs.any (fun p => p.1 == f) then some (.record (fs.map (fun p => if p.1 == f then (p.1, x) else p))) else none
  | .table rows cols, .mat r c els =>
    if r = rows ∧ c = 1 ∧ 2 ≤ rows ∧ els.length = rows ∧ cols.any (fun p => p.1 == f) then
      some (.table rows (cols.map (fun p => if p.1 == f then (p.1, els) else p)))
    else none
  | _, _ => none

/-- the mutable cell of a name, or the error the interpreter reports -/
def mutableCell (s : Store) (n : Name) : Except SErr Nat :=
  match s.lookup n with
  | none => .error .undefined
  | some (c, true) => .ok c
  | some (_, false) => .error .immutable

/-- write `v` at the 1-based linear positions one after another; the first index out of
    range aborts, earlier writes stay (cf. C04-D4) -/
def setMany (els : List Int) (v : Int) : List Nat → List Int × Bool
  | [] => (els, true)
  | i :: is => if 1 ≤ i ∧ i ≤ els.length then setMany (els.set (i - 1) v) v is else (els, false)

def bindAll (s : Store) : List Name → List Nat → Store × Except SErr Unit
  | [], _ => (s, .ok ())
  | _ :: _, [] => (s, .error .kind)
  | n :: ns, c :: cs =>
    if (s.lookup n).isSome then (s, .error .redefine)
    else bindAll { s with syms := s.syms ++ [(n, c, true)] } ns cs      -- destructured names are mutable (C05-D2)

/-- the source of a field assignment: a bare variable is not accepted by the field setters
    (`x.f = y` is rejected), anything else is evaluated -/
def fieldSource (s : Store) (e : Expr) : Except SErr V :=
  match e with
  | .var _ => .error .kind
  | _ => evalValue s e

/-- one statement; the store is returned on the error path too -/
def exec (s : Store) (st : Stmt) : Store × Except SErr Unit :=
  match st with
  | .define m n e =>
    if (s.lookup n).isSome then (s, .error .redefine) else
    match evalCell s e with
    | .error err => (s, .error err)
    | .ok (s1, c) => ({ s1 with syms := s1.syms ++ [(n, c, m)] }, .ok ())
  | .assign n e =>
    match evalValue s e with
    | .error err => (s, .error err)
    | .ok v =>
      match mutableCell s n with
      | .error err => (s, .error err)
      | .ok c =>
        match s.read c with
        | some old => if compatible old v then (s.write c v, .ok ()) else (s, .error .kind)
        | none => (s, .error .eval)
  | .setIdx n ix v =>
    match mutableCell s n with
    | .error err => (s, .error err)
    | .ok c =>
      match s.read c with
      | some (.mat r cc els) =>
        let res := setMany els v ix
        (s.write c (.mat r cc res.1), if res.2 then .ok () else .error .index)
      | _ => (s, .error .kind)
  | .addAssign op n e =>
    match evalValue s e with
    | .error err => (s, .error err)
    | .ok v =>
      match mutableCell s n with
      | .error err => (s, .error err)
      | .ok c =>
        match s.read c with
        | some old => (match addV op old v with
            | some nv => (s.write c nv, .ok ())
            | none => (s, .error .kind))
        | none => (s, .error .eval)
  | .setField n f e =>
    match fieldSource s e with
    | .error err => (s, .error err)
    | .ok v =>
      match mutableCell s n with
      | .error err => (s, .error err)
      | .ok c =>
        match s.read c with
        | some old => (match setFieldV f old v with
            | some nv => (s.write c nv, .ok ())
            | none => (s, .error .kind))
        | none => (s, .error .eval)
  | .destructure names t =>
    match s.lookup t with
    | none => (s, .error .undefined)
    | some (c, _) =>
      match s.read c with
      | some (.tuple cells) => if cells.length = names.length then bindAll s names cells else (s, .error .kind)
      | _ => (s, .error .kind)

def run (s : Store) : List Stmt → Store
  | [] => s
  | st :: rest => run (exec s st).1 rest

end MechVerif.Store
