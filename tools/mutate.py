#!/usr/bin/env python3
"""Mutation sampling: applies one small syntactic change at a random site of a property's anchor files in /repo
(under the lock the seed runner uses), runs that property's quick check, and restores /repo.  A change the check
does not catch is then run against the repository's own test suite; one that passes it too is a survivor, written to
.work/mutants/survivors.jsonl for triage (equivalent changes are survivors as well).

usage: tools/mutate.py <count> [<property> …]      (random properties when none is given)
"""
import fcntl, json, os, random, re, subprocess, sys, time

ROOT = os.path.dirname(os.path.dirname(os.path.abspath(__file__)))
OUT = os.path.join(ROOT, ".work", "mutants")
os.makedirs(OUT, exist_ok=True)

SWAPS = [
    (r"\.nrows\(\)", ".ncols()"), (r"\.ncols\(\)", ".nrows()"),
    (r" <= ", " < "), (r" >= ", " > "), (r" < ", " <= "), (r" > ", " >= "),
    (r" == ", " != "), (r" != ", " == "), (r"&&", "||"), (r"\|\|", "&&"),
    (r"\+ 1\b", "- 1"), (r"- 1\b", "+ 1"), (r"\+=", "-="), (r"-=", "+="),
    (r"\btrue\b", "false"), (r"\bfalse\b", "true"),
    (r"\[0\]", "[1]"), (r"\[1\]", "[0]"), (r"\.0\b", ".1"), (r"\.1\b", ".0"),
    (r"\$lhs", "$rhs"), (r"\$rhs", "$lhs"), (r"\blhs\b", "rhs"), (r"\brhs\b", "lhs"),
    (r"\brows\b", "cols"), (r"\bcols\b", "rows"), (r"\bi\b(?=\])", "j"), (r"\bstart\b", "end"),
    (r"\.min\(", ".max("), (r"\.max\(", ".min("), (r" \* ", " + "), (r" / ", " * "), (r" % ", " / "),
]

def sh(cmd, cwd=None, timeout=None):
    e = dict(os.environ); e["CARGO_NET_OFFLINE"] = "true"; e["RUSTC_BOOTSTRAP"] = "1"
    p = subprocess.run(cmd, cwd=cwd, env=e, stdout=subprocess.PIPE, stderr=subprocess.STDOUT, text=True, errors="replace", timeout=timeout, shell=isinstance(cmd, str))
    return p.returncode, p.stdout

def anchors():
    res = {}
    for l in open(os.path.join(ROOT, "properties.jsonl")):
        d = json.loads(l)
        res[d["id"]] = [f for f in d["anchors"]["files"] if f.endswith(".rs") and not f.startswith("tests/") and os.path.exists("/repo/" + f)]
    return res

def candidate(files, rng):
    for _ in range(200):
        f = rng.choice(files)
        data = open("/repo/" + f, "rb").read()
        lines = data.split(b"\n")
        i = rng.randrange(len(lines))
        line = lines[i].decode("utf-8", "replace")
        s = line.strip()
        if "<'" in s or "impl<" in s or "fn " in s and "->" in s or s.startswith("pub ") or s.startswith("where") or "=>" in s and "Value::" in s: continue
        if not s or s.startswith("//") or s.startswith("#[") or "cfg(" in s or s.startswith("use ") or "msg" in s or "println" in s or "format!" in s: continue
        opts = []
        for pat, rep in SWAPS:
            for m in re.finditer(pat, line):
                # not inside a comment or a string literal (rough)
                pre = line[:m.start()]
                if "//" in pre or pre.count('"') % 2 == 1: continue
                opts.append((m.start(), m.end(), rep))
        if not opts: continue
        a, b, rep = rng.choice(opts)
        new = line[:a] + rep + line[b:]
        lines[i] = new.encode("utf-8")
        return f, i + 1, line.strip(), new.strip(), b"\n".join(lines)
    return None

def main():
    n = int(sys.argv[1]); props = sys.argv[2:]
    anc = anchors()
    rng = random.Random(int(time.time()))
    log = open(os.path.join(OUT, "log.jsonl"), "a")
    for k in range(n):
        prop = rng.choice(props) if props else rng.choice(sorted(anc))
        if not anc.get(prop): continue
        c = candidate(anc[prop], rng)
        if not c: continue
        f, ln, old, new, data = c
        rec = {"property": prop, "file": f, "line": ln, "old": old, "new": new}
        with open("/tmp/seedrun.lock", "w") as lk:
            fcntl.flock(lk, fcntl.LOCK_EX)
            rc, out = sh("git -C /repo status --porcelain")
            if out.strip(): rec["status"] = "repo-not-clean"; print(json.dumps(rec)); break
            orig = open("/repo/" + f, "rb").read()
            try:
                open("/repo/" + f, "wb").write(data)
                rc, out = sh(["cargo", "build", "--profile", "fast", "--offline"], cwd=os.path.join(ROOT, "harness"), timeout=3000)
                if rc != 0:
                    rec["status"] = "does-not-compile"
                else:
                    rc, out = sh(["./check", prop, "--tier", "quick", "--seed", "1"], cwd=ROOT, timeout=3000)
                    viol = [l for l in out.split("\n") if l.startswith("VIOLATION")]
                    if viol:
                        rec["status"] = "caught"; rec["how"] = viol[0][:160]
                    else:
                        # does the repository's own suite notice it?
                        rc, out = sh("cargo test --workspace --no-fail-fast --offline 2>&1 | grep -E '^test result' | awk '{p+=$4; f+=$6} END {print p, f}'", cwd="/repo", timeout=6000)
                        rec["suite"] = out.strip()
                        ok = out.strip().split() == ["652", "0"]
                        rec["status"] = "SURVIVOR" if ok else "missed-but-fails-suite"
                        if ok:
                            rc, d = sh("git -C /repo diff")
                            rec["diff"] = d
                            open(os.path.join(OUT, "survivors.jsonl"), "a").write(json.dumps(rec) + "\n")
            finally:
                open("/repo/" + f, "wb").write(orig)
                sh("git -C /verif checkout -- evidence lean/MechVerif/Gen")
                sh("rm -f /verif/replays/*-1.json")
        log.write(json.dumps({k: v for k, v in rec.items() if k != "diff"}) + "\n"); log.flush()
        print(json.dumps({k: v for k, v in rec.items() if k != "diff"}), flush=True)

if __name__ == "__main__":
    main()
