/-
Compound constants: the kind codec `ConstElem for ValueKind` and the payloads of sets and tables
(`ConstElem for Value / MechSet / MechTable / Matrix<Value>`,
src/core/src/program/compiler/constants.rs).

A kind is written as a tag byte followed by what the tag needs; the decoder implements the tags
0-20 (scalar kinds), 21 (matrix), 22 (enum), 26 (table) and 29 (set) and, like the code, steps over
the element kind of a matrix or set kind by ONE byte (so only scalar element kinds decode to
what was written).  A nested value is its kind followed by its scalar payload; a set is its kind,
a count and the elements as nested values; a table is its kind, rows, columns and per column an
id, the column kind, a matrix of nested values and the column name.  Where the code unwraps or
indexes past the end the model returns `none` (the process would panic: finding C07-D6).
-/
import MechVerif.Model.Const
namespace MechVerif.ConstValue
open MechVerif.Bytecode MechVerif.Const
open MechVerif.Crc (Byte)

inductive VK where
  | simple (tag : Nat)                                  -- 1 … 20
  | matrix (elem : VK) (dims : List Nat)                -- 21
  | enum (id : Nat) (name : List Byte)                  -- 22
  | table (fields : List (List Byte × VK)) (rows : Nat) -- 26
  | tuple (vks : List VK)                               -- 27 (written, never read back)
  | set (elem : VK) (size : Option Nat)                 -- 29
  | option (vk : VK)                                    -- 30 (written, never read back)

def encStr (s : List Byte) : List Byte := leBytes 4 s.length ++ s

mutual
def encodeVK : VK → List Byte
  | .simple t => [BitVec.ofNat 8 t]
  | .matrix e dims => 21#8 :: (encodeVK e ++ leBytes 4 dims.length ++ dims.flatMap (leBytes 4))
  | .enum id name => 22#8 :: (leBytes 8 id ++ encStr name)
  | .table fields rows => 26#8 :: (leBytes 4 fields.length ++ encodeFields fields ++ leBytes 4 rows)
  | .tuple vks => 27#8 :: (leBytes 4 vks.length ++ encodeVKs vks)
  | .set e size => 29#8 :: (encodeVK e ++ (match size with | some n => 1#8 :: leBytes 4 n | none => [0#8]))
  | .option v => 30#8 :: encodeVK v
def encodeFields : List (List Byte × VK) → List Byte
  | [] => []
  | (n, k) :: fs => encStr n ++ encodeVK k ++ encodeFields fs
def encodeVKs : List VK → List Byte
  | [] => []
  | k :: ks => encodeVK k ++ encodeVKs ks
end

/-- `String::from_le` at the front of a buffer -/
def decStr (bs : List Byte) : Option (List Byte × List Byte) :=
  match readLE 4 bs with
  | none => none
  | some (n, rest) => if rest.length < n then none else some (rest.take n, rest.drop n)

/-- `n` u32 values -/
def decU32s : Nat → List Byte → Option (List Nat × List Byte)
  | 0, bs => some ([], bs)
  | n + 1, bs =>
    match readLE 4 bs with
    | none => none
    | some (v, r) => (match decU32s n r with | some (vs, r') => some (v :: vs, r') | none => none)

mutual
/-- `ValueKind::from_le`: the kind at the front of a buffer (the code re-encodes it to learn its length) -/
def decodeVK : Nat → List Byte → Option VK
  | 0, _ => none
  | fuel + 1, bs =>
    match bs with
    | [] => none
    | t :: rest =>
      let tag := t.toNat
      if tag = 0 then some (.simple 19)
      else if tag ≤ 20 then some (.simple tag)
      else if tag = 21 then
        (match decodeVK fuel rest with
         | none => none
         | some e =>
           -- "advance past elem_vk tag": one byte, whatever the element kind is
           (match readLE 4 (rest.drop 1) with
            | none => none
            | some (n, r) => (match decU32s n r with | some (dims, _) => some (.matrix e dims) | none => none)))
      else if tag = 22 then
        (match readLE 8 rest with
         | none => none
         | some (id, r) => (match decStr r with | some (name, _) => some (.enum id name) | none => none))
      else if tag = 26 then
        (match readLE 4 rest with
         | none => none
         | some (n, r) =>
           (match decodeFields fuel n r with
            | none => none
            | some (fs, r') => (match readLE 4 r' with | some (rows, _) => some (.table fs rows) | none => none)))
      else if tag = 29 then
        (match decodeVK fuel rest with
         | none => none
         | some e =>
           (match rest.drop 1 with
            | [] => none
            | f :: r => if f ≠ 0#8 then (match readLE 4 r with | some (n, _) => some (.set e (some n)) | none => none) else some (.set e none)))
      else none
/-- the fields of a table kind: a name and a kind each, the position advanced by their re-encoded lengths -/
def decodeFields : Nat → Nat → List Byte → Option (List (List Byte × VK) × List Byte)
  | 0, _, _ => none
  | _ + 1, 0, bs => some ([], bs)
  | fuel + 1, n + 1, bs =>
    match decStr bs with
    | none => none
    | some (name, r) =>
      (match decodeVK fuel r with
       | none => none
       | some k =>
         (match decodeFields fuel n (r.drop (encodeVK k).length) with
          | some (fs, r') => some ((name, k) :: fs, r')
          | none => none))
end

/-- the element kind of a scalar tag, for `Const.decode` -/
def ekOfTag : Nat → Option EK
  | 1 => some (.uint 1) | 2 => some (.uint 2) | 3 => some (.uint 4) | 4 => some (.uint 8) | 5 => some (.uint 16)
  | 6 => some (.sint 1) | 7 => some (.sint 2) | 8 => some (.sint 4) | 9 => some (.sint 8) | 10 => some (.sint 16)
  | 11 => some .f32 | 12 => some .f64 | 13 => some .c64 | 14 => some .r64 | 15 => some .str | 16 => some .bool
  | _ => none

def tagOfEk : EK → Nat
  | .uint 1 => 1 | .uint 2 => 2 | .uint 4 => 3 | .uint 8 => 4 | .uint 16 => 5
  | .sint 1 => 6 | .sint 2 => 7 | .sint 4 => 8 | .sint 8 => 9 | .sint 16 => 10
  | .f32 => 11 | .f64 => 12 | .c64 => 13 | .r64 => 14 | .str => 15 | .bool => 16
  | _ => 0

/-- a nested value: a scalar, or the empty value -/
inductive NV where
  | scalar (v : CV)
  | empty
deriving DecidableEq, Repr

/-- `Value::write_le` for the values the decoder reads back -/
def encodeNV : NV → List Byte
  | .scalar v => BitVec.ofNat 8 (tagOfEk v.kind) :: encode v
  | .empty => [19#8]

/-- `Value::from_le`: the kind, then the payload of that kind; returns the value and what follows it
    (the code advances by the re-encoded length) -/
def decodeNV (bs : List Byte) : Option (NV × List Byte) :=
  match decodeVK 2 bs with
  | some (.simple 19) => some (.empty, bs.drop 1)
  | some (.simple t) =>
    (match ekOfTag t with
     | some k => (match decode k (bs.drop 1) with | some (v, r) => some (.scalar v, r) | none => none)
     | none => none)
  | _ => none

def decodeNVs : Nat → List Byte → Option (List NV × List Byte)
  | 0, bs => some ([], bs)
  | n + 1, bs =>
    match decodeNV bs with
    | none => none
    | some (v, r) => (match decodeNVs n r with | some (vs, r') => some (v :: vs, r') | none => none)

/-- a set constant: element kind, declared count, elements in the order written -/
structure SetC where
  kind : VK
  count : Nat
  elems : List NV

def encodeSet (s : SetC) : List Byte := encodeVK s.kind ++ leBytes 4 s.count ++ s.elems.flatMap encodeNV

/-- `MechSet::from_le` -/
def decodeSet (bs : List Byte) : Option SetC :=
  match decodeVK bs.length bs with
  | none => none
  | some k =>
    (match readLE 4 (bs.drop (encodeVK k).length) with
     | none => none
     | some (n, r) => (match decodeNVs n r with | some (vs, _) => some ⟨k, n, vs⟩ | none => none))

/-- a column of a table constant -/
structure ColC where
  id : Nat
  kind : VK
  rows : Nat
  cols : Nat
  data : List NV
  name : List Byte

structure TableC where
  kind : VK
  rows : Nat
  cols : Nat
  columns : List ColC

def encodeCol (c : ColC) : List Byte :=
  leBytes 8 c.id ++ encodeVK c.kind ++ leBytes 4 c.rows ++ leBytes 4 c.cols ++ c.data.flatMap encodeNV ++ encStr c.name

def encodeTable (t : TableC) : List Byte :=
  encodeVK t.kind ++ leBytes 4 t.rows ++ leBytes 4 t.cols ++ t.columns.flatMap encodeCol

def decodeCols : Nat → List Byte → Option (List ColC × List Byte)
  | 0, bs => some ([], bs)
  | n + 1, bs =>
    match readLE 8 bs with
    | none => none
    | some (id, r0) =>
      (match decodeVK r0.length r0 with
       | none => none
       | some k =>
         (match readLE 4 (r0.drop (encodeVK k).length) with
          | none => none
          | some (rows, r1) =>
            (match readLE 4 r1 with
             | none => none
             | some (cols, r2) =>
               (match decodeNVs (rows * cols) r2 with
                | none => none
                | some (vs, r3) =>
                  -- `Matrix::<Value>::from_le` refuses an empty matrix
                  if rows = 0 ∨ cols = 0 then none else
                  (match decStr r3 with
                   | none => none
                   | some (name, r4) =>
                     (match decodeCols n r4 with
                      | some (cs, r5) => some (⟨id, k, rows, cols, vs, name⟩ :: cs, r5)
                      | none => none))))))

/-- `MechTable::from_le` -/
def decodeTable (bs : List Byte) : Option TableC :=
  match decodeVK bs.length bs with
  | none => none
  | some k =>
    (match readLE 4 (bs.drop (encodeVK k).length) with
     | none => none
     | some (rows, r1) =>
       (match readLE 4 r1 with
        | none => none
        | some (cols, r2) => (match decodeCols cols r2 with | some (cs, _) => some ⟨k, rows, cols, cs⟩ | none => none)))

end MechVerif.ConstValue
