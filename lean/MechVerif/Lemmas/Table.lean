import MechVerif.Model.Table
namespace MechVerif.Tbl

/-! relational algebra, declaratively -/

/-- some left row matches b -/
def matchedBy (common : List (Nat × Nat)) (A : List Row) (b : Row) : Bool :=
  A.any (fun a => rowsMatch common a b)

/-- the rows one left row contributes -/
def rowsFor (mode : JoinMode) (common : List (Nat × Nat)) (ro : List Nat) (B : List Row) (a : Row) : List Row :=
  let ms := B.filter (rowsMatch common a)
  match mode with
  | .inner | .right => ms.map (mergeRow ro a)
  | .left | .full => if ms.isEmpty then [padRight ro a] else ms.map (mergeRow ro a)
  | .semi => if !ms.isEmpty then [a] else []
  | .anti => if ms.isEmpty then [a] else []

/-- the rows the unmatched right rows contribute -/
def unmatchedRight (nL : Nat) (common : List (Nat × Nat)) (ro : List Nat) (A B : List Row) : List Row :=
  (B.filter (fun b => !matchedBy common A b)).map (padLeft nL common ro)

/-- the specification: relational-algebra joins on the common columns -/
def specRows (mode : JoinMode) (L R : List Col) (A B : List Row) : List Row :=
  let common := commonCols L R
  let ro := rhsOnly L R
  match mode with
  | .right | .full => A.flatMap (rowsFor mode common ro B) ++ unmatchedRight L.length common ro A B
  | _ => A.flatMap (rowsFor mode common ro B)

/-! the loop computes it -/

theorem zipWith_or_false (p : Row → Bool) : ∀ (ms : List Bool) (B : List Row),
    (∀ b ∈ B, p b = false) → ms.length ≤ B.length → List.zipWith (fun m b => m || p b) ms B = ms
  | [], _, _, _ => by simp
  | m :: ms, [], _, h => by simp at h
  | m :: ms, b :: B, hp, hl => by
    simp only [List.zipWith_cons_cons, List.cons.injEq]
    refine ⟨by simp [hp b (List.mem_cons_self ..)], ?_⟩
    exact zipWith_or_false p ms B (fun b' hb' => hp b' (List.mem_cons_of_mem _ hb'))
      (by simp only [List.length_cons] at hl; omega)

theorem zipWith_or_or (p q : Row → Bool) : ∀ (ms : List Bool) (B : List Row),
    List.zipWith (fun m b => m || q b) (List.zipWith (fun m b => m || p b) ms B) B =
      List.zipWith (fun m b => m || (p b || q b)) ms B
  | [], _ => by simp
  | _ :: _, [] => by simp
  | m :: ms, b :: B => by
    simp only [List.zipWith_cons_cons, List.cons.injEq]
    exact ⟨by simp [Bool.or_assoc], zipWith_or_or p q ms B⟩

theorem filter_isEmpty_iff (p : Row → Bool) (B : List Row) :
    (B.filter p).isEmpty = true ↔ ∀ b ∈ B, p b = false := by
  simp [List.isEmpty_iff, List.filter_eq_nil_iff]

theorem step_out (mode : JoinMode) (common : List (Nat × Nat)) (ro : List Nat) (B : List Row) (st : St) (a : Row) :
    (stepLhs mode common ro B st a).out = st.out ++ rowsFor mode common ro B a := by
  cases mode <;> simp only [stepLhs, rowsFor]
  · split <;> simp
  · split <;> simp_all
  · split <;> simp
  · split <;> simp_all
  · split <;> simp_all

theorem step_matched (mode : JoinMode) (hm : mode = .inner ∨ mode = .left ∨ mode = .right ∨ mode = .full)
    (common : List (Nat × Nat)) (ro : List Nat) (B : List Row) (st : St) (a : Row)
    (hl : st.matched.length ≤ B.length) :
    (stepLhs mode common ro B st a).matched =
      List.zipWith (fun m b => m || rowsMatch common a b) st.matched B := by
  have hempty : (B.filter (rowsMatch common a)).isEmpty = true →
      List.zipWith (fun m b => m || rowsMatch common a b) st.matched B = st.matched := by
    intro he
    exact zipWith_or_false _ _ _ ((filter_isEmpty_iff _ _).1 he) hl
  rcases hm with h | h | h | h <;> subst h <;> simp only [stepLhs]
  · split
    · next he => exact (hempty he).symm
    · rfl
  · split
    · next he => exact (hempty he).symm
    · rfl
  · split
    · next he => exact (hempty he).symm
    · rfl

theorem step_matched_length (mode : JoinMode) (common : List (Nat × Nat)) (ro : List Nat) (B : List Row)
    (st : St) (a : Row) (hl : st.matched.length ≤ B.length) :
    (stepLhs mode common ro B st a).matched.length ≤ B.length := by
  cases mode <;> simp only [stepLhs] <;> (try split) <;> simp_all [List.length_zipWith] <;> omega

theorem fold_spec (mode : JoinMode) (hm : mode = .inner ∨ mode = .left ∨ mode = .right ∨ mode = .full)
    (common : List (Nat × Nat)) (ro : List Nat) (B : List Row) :
    ∀ (A : List Row) (st : St), st.matched.length ≤ B.length →
      (A.foldl (stepLhs mode common ro B) st).out = st.out ++ A.flatMap (rowsFor mode common ro B) ∧
      (A.foldl (stepLhs mode common ro B) st).matched =
        List.zipWith (fun m b => m || matchedBy common A b) st.matched B := by
  intro A
  induction A with
  | nil =>
    intro st hl
    refine ⟨by simp, ?_⟩
    simp only [List.foldl_nil, matchedBy, List.any_nil]
    exact (zipWith_or_false (fun _ => false) _ _ (fun _ _ => rfl) hl).symm
  | cons a A ih =>
    intro st hl
    simp only [List.foldl_cons]
    obtain ⟨h1, h2⟩ := ih (stepLhs mode common ro B st a) (step_matched_length mode common ro B st a hl)
    rw [h1, h2, step_out, step_matched mode hm common ro B st a hl]
    refine ⟨by simp [List.append_assoc], ?_⟩
    rw [zipWith_or_or]
    simp [matchedBy]

theorem fold_out_only (mode : JoinMode) (common : List (Nat × Nat)) (ro : List Nat) (B : List Row) :
    ∀ (A : List Row) (st : St),
      (A.foldl (stepLhs mode common ro B) st).out = st.out ++ A.flatMap (rowsFor mode common ro B) := by
  intro A
  induction A with
  | nil => intro st; simp
  | cons a A ih => intro st; simp only [List.foldl_cons]; rw [ih, step_out]; simp [List.append_assoc]

theorem zip_flags_filter (f : Row → Bool) (g : Row → Row) : ∀ (B : List Row),
    ((B.zip (List.zipWith (fun m b => m || f b) (B.map (fun _ => false)) B)).filter (fun p => !p.2)).map (fun p => g p.1) =
      (B.filter (fun b => !f b)).map g := by
  intro B
  have : ∀ (B : List Row), List.zipWith (fun m b => m || f b) (B.map (fun _ => false)) B = B.map f := by
    intro B
    induction B with
    | nil => rfl
    | cons b B ih => simp [ih]
  rw [this]
  induction B with
  | nil => rfl
  | cons b B ih =>
    simp only [List.map_cons, List.zip_cons_cons, List.filter_cons]
    cases hf : f b <;> simp [ih]

/-- The loops of `build_joined_table` compute the relational-algebra join, row for row. -/
theorem joinRows_eq_spec (mode : JoinMode) (L R : List Col) (A B : List Row) :
    joinRows mode L R A B = specRows mode L R A B := by
  have hl : (St.mk [] (B.map (fun _ => false))).matched.length ≤ B.length := by simp
  cases mode
  · simp only [joinRows, specRows]; rw [fold_out_only]; simp
  · simp only [joinRows, specRows]; rw [fold_out_only]; simp
  · simp only [joinRows, specRows]
    obtain ⟨h1, h2⟩ := fold_spec .right (by simp) (commonCols L R) (rhsOnly L R) B A _ hl
    rw [h1, h2]
    simp only [List.nil_append, unmatchedRight]
    rw [zip_flags_filter]
  · simp only [joinRows, specRows]
    obtain ⟨h1, h2⟩ := fold_spec .full (by simp) (commonCols L R) (rhsOnly L R) B A _ hl
    rw [h1, h2]
    simp only [List.nil_append, unmatchedRight]
    rw [zip_flags_filter]
  · simp only [joinRows, specRows]; rw [fold_out_only]; simp
  · simp only [joinRows, specRows]; rw [fold_out_only]; simp

end MechVerif.Tbl
