import MechVerif.Driver.C20
import MechVerif.Driver.C07
import MechVerif.Driver.C15
import MechVerif.Driver.C01
import MechVerif.Driver.C03
import MechVerif.Driver.C04
import MechVerif.Driver.C11
import MechVerif.Driver.C12
import MechVerif.Driver.C05
import MechVerif.Driver.C19
import MechVerif.Driver.C02
import MechVerif.Driver.C13
import MechVerif.Driver.C14
import MechVerif.Driver.C18
import MechVerif.Driver.C16
import MechVerif.Driver.C17
import MechVerif.Driver.C06
import MechVerif.Driver.C10
import MechVerif.Driver.C08
import MechVerif.Driver.C09
open MechVerif.Driver

def dispatch (line : String) : String :=
  let (fields, obs) := splitCase line
  let (m, v, r) :=
    match fields.head? with
    | some "include" => runC20 fields obs
    | some "range" => runC15 fields obs
    | some "binop" | some "unop" => runC01 fields obs
    | some "index" => runC03 fields obs
    | some "assign" => runC04 fields obs
    | some "aseq" => runC04 fields obs
    | some "concat" => runC11 fields obs
    | some "session" => runC05 fields obs
    | some "steps" => runC19 fields obs
    | some "resolve" => runC19 fields obs
    | some "prec" => runC02 fields obs
    | some "lit" => runC13 fields obs
    | some "set" => S14.runC14 fields obs
    | some "join" => S18.runC18 fields obs
    | some "match" => S16.runC16 fields obs
    | some "fn" => S16.runC16 fields obs
    | some "fnt" | some "fne" => S16.runC16 fields obs
    | some "fsm" => S17.runC17 fields obs
    | some "prog" => S06.runC06 fields obs
    | some "cdec" => S06.runCdec fields obs
    | some "plan" => S06.runPlan fields obs
    | some "doc" => S10.runC10 fields obs
    | some "fmt" => S08.runC08 fields obs
    | some "cur" => S09.runC09 fields obs
    | some "parse" => S09.runC09 fields obs
    | some "sel" => S18.runC18 fields obs
    | some "conv" | some "reshape" | some "toset" | some "convopt" | some "optempty" | some "toset2" | some "convarg" | some "convres" => runC12 fields obs
    | some "crc" | some "dmg" | some "sweep" | some "rt" | some "instrs" | some "load" => runC07 fields obs
    | _ => ("bad-proto", "bad-proto", "-")
  m ++ "\t" ++ v ++ "\t" ++ r

partial def loop (h : IO.FS.Stream) (out : IO.FS.Stream) : IO Unit := do
  let line ← h.getLine
  if line.isEmpty then return ()
  let line := if line.endsWith "\n" then (line.dropEnd 1).toString else line
  out.putStrLn (dispatch line)
  loop h out

def main : IO Unit := do
  let stdin ← IO.getStdin
  let stdout ← IO.getStdout
  loop stdin stdout
