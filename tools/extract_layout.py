#!/usr/bin/env python3
"""Regenerates lean/MechVerif/Gen/Layout.lean from the bytecode file format as written in
src/core/src/program/compiler/sections.rs, src/core/src/program/program.rs and compiler/context.rs:

* `ByteCodeHeader`: the declared fields with their widths, the summands of `HEADER_SIZE`, the (field, width) sequence
  `write_to` writes and the one `read_from` reads;
* `OpCode`: the discriminants of the enum and the arms of `from_u8`;
* `EncodedInstr::write_to` and `DecodedInstr::write_to`: per variant the `OpCode` written first, then the
  (field, width) sequence, and whether a list of u32 arguments follows; `EncodedInstr::byte_len`: the summands per
  variant; `decode_instructions`: per `OpCode` the widths read and the variant built;
* `ConstEntry::write_to` / `byte_len` / `parse_const_entries` and `SymbolEntry::write_to`, the divisor of
  `symbols_len` in the loader and the factor in `CompileCtx::compile`;
* the magic the compiler writes and the loader expects, and the format version the compiler writes.

Only little-endian writes/reads of u8/u16/u32/u64 and `write_all`/`read_exact` of a byte array are recognised;
anything else in one of these functions makes `generate` return (False, reason)."""
import os, re, sys
sys.path.insert(0, os.path.dirname(os.path.abspath(__file__)))
from extract_convert import Unrecognised, read, strip_comments, balanced, split_top, match_arms

WIDTH = {'u8': 1, 'u16': 2, 'u32': 4, 'u64': 8}

def block_after(src, regex, what):
    m = re.search(regex, src)
    if not m: raise Unrecognised(what + " not found")
    return src[m.end():balanced(src, m.end(), '{', '}')]

def fn_body(scope, name, what):
    return block_after(scope, r'\bfn\s+%s\s*(?:<[^>{]*>)?\s*\([^{]*\{' % re.escape(name), "%s: fn %s" % (what, name))

def impl_body(src, name):
    # the inherent impl that is not a trait impl; there may be several `impl X {` blocks: return them all joined
    out = []
    for m in re.finditer(r'\bimpl\s+%s\s*\{' % re.escape(name), src):
        out.append(src[m.end():balanced(src, m.end(), '{', '}')])
    if not out: raise Unrecognised("impl %s not found" % name)
    return "\n".join(out)

def statements(body):
    return [s.strip() for s in split_top(body, ';') if s.strip()]

def int_lit(t):
    t = t.strip().replace('_', '')
    m = re.match(r'^(0x[0-9a-fA-F]+|\d+)(?:u8|u16|u32|u64|usize)?$', t)
    if not m: raise Unrecognised("integer literal `%s`" % t)
    return int(m.group(1), 0)

def sum_terms(expr, what):
    terms = [t.strip() for t in split_top(expr, '+')]
    try: return [int_lit(t) for t in terms]
    except Unrecognised: raise Unrecognised("%s: sum `%s`" % (what, re.sub(r'\s+', ' ', expr)[:80]))

WRITE = re.compile(r'^(\w+)\s*\.\s*write_(u8|u16|u32|u64)\s*(?:::\s*<\s*(\w+)\s*>)?\s*\((.*)\)\s*\?$', re.S)
def write_stmt(st, w):
    """`w.write_uN::<LittleEndian>(expr)?` -> (expr, width); None if it is not a write on `w`"""
    st = re.sub(r'\s*\.\s*map_err\s*\(.*\)\s*\?$', '?', st, flags=re.S)
    m = WRITE.match(st)
    if not m or m.group(1) != w: return None
    if m.group(2) != 'u8' and m.group(3) != 'LittleEndian': raise Unrecognised("a write that is not little-endian: `%s`" % st[:60])
    return re.sub(r'\s+', ' ', m.group(4).strip()), WIDTH[m.group(2)]

READ = re.compile(r'^let\s+(?:mut\s+)?(\w+)\s*=\s*(\w+)\s*\.\s*read_(u8|u16|u32|u64)\s*(?:::\s*<\s*(\w+)\s*>)?\s*\(\s*\)\s*\?(.*)$', re.S)
def read_stmt(st, r):
    m = READ.match(st)
    if not m or m.group(2) != r: return None
    if m.group(3) != 'u8' and m.group(4) != 'LittleEndian': raise Unrecognised("a read that is not little-endian: `%s`" % st[:60])
    return m.group(1), WIDTH[m.group(3)], m.group(5).strip()

def field_of(expr, decl=None):
    """`self.x`, `*x`, `x` -> x"""
    m = re.match(r'^(?:\*\s*|self\s*\.\s*)?(\w+)$', expr)
    if not m: raise Unrecognised("written expression `%s`" % expr)
    return m.group(1)

# ---------------------------------------------------------------------------------------------------------------------

def header(src):
    st = block_after(src, r'pub\s+struct\s+ByteCodeHeader\s*\{', "sections.rs: struct ByteCodeHeader")
    decl = []
    for f in split_top(st, ','):
        f = f.strip()
        if not f: continue
        m = re.match(r'^pub\s+(\w+)\s*:\s*(.+)$', f, re.S)
        if not m: raise Unrecognised("ByteCodeHeader field `%s`" % f[:40])
        ty = re.sub(r'\s+', '', m.group(2))
        a = re.match(r'^\[u8;(\d+)\]$', ty)
        if a: decl.append((m.group(1), int(a.group(1))))
        elif ty in WIDTH: decl.append((m.group(1), WIDTH[ty]))
        else: raise Unrecognised("ByteCodeHeader field %s has type %s" % (m.group(1), ty))
    widths = dict(decl)
    imp = impl_body(src, 'ByteCodeHeader')
    m = re.search(r'pub\s+const\s+HEADER_SIZE\s*:\s*usize\s*=([^;]*);', imp)
    if not m: raise Unrecognised("sections.rs: const HEADER_SIZE not found")
    size_terms = sum_terms(m.group(1), "HEADER_SIZE")
    # write_to
    wb = fn_body(imp, 'write_to', 'ByteCodeHeader')
    written = []
    for s in statements(wb):
        if re.match(r'^Ok\s*\(\s*\(\s*\)\s*\)$', s): continue
        m = re.match(r'^w\s*\.\s*write_all\s*\(\s*&\s*self\s*\.\s*(\w+)\s*\)\s*\?$', s)
        if m:
            if m.group(1) not in widths: raise Unrecognised("ByteCodeHeader::write_to writes unknown field " + m.group(1))
            written.append((m.group(1), widths[m.group(1)])); continue
        ws = write_stmt(s, 'w')
        if ws is None: raise Unrecognised("ByteCodeHeader::write_to: statement `%s`" % s[:60])
        e = re.match(r'^self\s*\.\s*(\w+)$', ws[0])
        if not e: raise Unrecognised("ByteCodeHeader::write_to writes `%s`" % ws[0])
        written.append((e.group(1), ws[1]))
    # read_from
    rb = fn_body(imp, 'read_from', 'ByteCodeHeader')
    reads, arrays, result = [], {}, None
    for s in statements(rb):
        m = re.match(r'^let\s+mut\s+(\w+)\s*=\s*\[\s*0u8\s*;\s*(\d+)\s*\]$', s)
        if m: arrays[m.group(1)] = int(m.group(2)); continue
        m = re.match(r'^r\s*\.\s*read_exact\s*\(\s*&\s*mut\s+(\w+)\s*\)\s*\?$', s)
        if m:
            if m.group(1) not in arrays: raise Unrecognised("ByteCodeHeader::read_from: read_exact into " + m.group(1))
            reads.append((m.group(1), arrays[m.group(1)])); continue
        rs = read_stmt(s, 'r')
        if rs is not None:
            if rs[2]: raise Unrecognised("ByteCodeHeader::read_from: `%s`" % s[:60])
            reads.append((rs[0], rs[1])); continue
        m = re.match(r'^Ok\s*\(\s*Self\s*\{(.*)\}\s*\)$', s, re.S)
        if m:
            result = [x.strip() for x in m.group(1).split(',') if x.strip()]
            continue
        raise Unrecognised("ByteCodeHeader::read_from: statement `%s`" % s[:60])
    if result is None or not all(re.match(r'^\w+$', x) for x in result): raise Unrecognised("ByteCodeHeader::read_from does not end in `Ok(Self { fields })` with the fields by name")
    if sorted(result) != sorted(n for n, _ in reads): raise Unrecognised("ByteCodeHeader::read_from: the fields returned are not the fields read")
    return decl, size_terms, written, reads

def opcodes(src):
    en = block_after(src, r'pub\s+enum\s+OpCode\s*\{', "sections.rs: enum OpCode")
    codes = []
    for v in split_top(en, ','):
        v = v.strip()
        if not v: continue
        m = re.match(r'^(\w+)\s*=\s*(\S+)$', v)
        if not m: raise Unrecognised("OpCode variant without explicit number: `%s`" % v)
        codes.append((m.group(1), int_lit(m.group(2))))
    fb = fn_body(impl_body(src, 'OpCode'), 'from_u8', 'OpCode')
    mm = re.search(r'match\s+\w+\s*\{', fb)
    if not mm: raise Unrecognised("OpCode::from_u8: no match")
    back, default = [], False
    for pat, expr in match_arms(fb[mm.end():balanced(fb, mm.end(), '{', '}')]):
        if pat == '_':
            if expr != 'None': raise Unrecognised("OpCode::from_u8: `_ => %s`" % expr)
            default = True; continue
        m = re.match(r'^Some\s*\(\s*OpCode::(\w+)\s*\)$', expr)
        if not m: raise Unrecognised("OpCode::from_u8: arm `%s => %s`" % (pat, expr))
        back.append((int_lit(pat), m.group(1)))
    if not default: raise Unrecognised("OpCode::from_u8: no `_ => None`")
    return codes, back

def instr_writer(src, enum, what):
    """per variant of `enum`: (variant, opcode written first, [(field, width)], a u32 list follows)"""
    wb = fn_body(impl_body(src, enum), 'write_to', enum)
    mm = re.search(r'match\s+self\s*\{', wb)
    if not mm: raise Unrecognised("%s::write_to: no `match self`" % enum)
    rows = []
    for pat, expr in match_arms(wb[mm.end():balanced(wb, mm.end(), '{', '}')]):
        m = re.match(r'^%s::(\w+)\s*\{(.*)\}$' % enum, pat, re.S)
        if not m: raise Unrecognised("%s::write_to: pattern `%s`" % (enum, pat[:60]))
        variant, binders = m.group(1), [b.strip() for b in m.group(2).split(',') if b.strip()]
        if variant == 'Unknown': continue          # a raw opcode byte and its bytes, written back as they were read
        if not (expr.startswith('{') and expr.endswith('}')): raise Unrecognised("%s::write_to: arm of %s" % (enum, variant))
        sts = statements(expr[1:-1])
        ws = write_stmt(sts[0], 'w') if sts else None
        m0 = ws and re.match(r'^OpCode::(\w+) as u8$', ws[0])
        if not m0 or ws[1] != 1: raise Unrecognised("%s::write_to: %s does not start with its opcode byte" % (enum, variant))
        fields, vararg, i = [], False, 1
        while i < len(sts):
            s = sts[i]
            ws = write_stmt(s, 'w')
            if ws is not None:
                a = re.match(r'^(\w+)\s*\.\s*len\s*\(\s*\)\s*as u32$', ws[0])
                if a:
                    if a.group(1) not in binders or ws[1] != 4: raise Unrecognised("%s::write_to: %s count `%s`" % (enum, variant, ws[0]))
                    fields.append((a.group(1) + ".len", 4))
                else:
                    f = field_of(ws[0])
                    if f not in binders: raise Unrecognised("%s::write_to: %s writes `%s`" % (enum, variant, ws[0]))
                    fields.append((f, ws[1]))
                i += 1; continue
            f = re.match(r'^for\s+(\w+)\s+in\s+(\w+)\s*\{(.*)\}$', s, re.S)
            if f and i == len(sts) - 1 and fields and fields[-1] == (f.group(2) + ".len", 4):
                inner = statements(f.group(3))
                iw = write_stmt(inner[0], 'w') if len(inner) == 1 else None
                if not iw or iw[1] != 4 or field_of(iw[0]) != f.group(1): raise Unrecognised("%s::write_to: %s argument loop" % (enum, variant))
                vararg = True; i += 1; continue
            raise Unrecognised("%s::write_to: %s statement `%s`" % (enum, variant, s[:60]))
        rows.append((variant, m0.group(1), fields, vararg))
    if len(rows) < 2: raise Unrecognised("%s::write_to: only %d variants read" % (enum, len(rows)))
    return rows

def instr_byte_len(src):
    bb = fn_body(impl_body(src, 'EncodedInstr'), 'byte_len', 'EncodedInstr')
    mm = re.search(r'match\s+self\s*\{', bb)
    if not mm: raise Unrecognised("EncodedInstr::byte_len: no `match self`")
    rows = []
    for pat, expr in match_arms(bb[mm.end():balanced(bb, mm.end(), '{', '}')]):
        m = re.match(r'^EncodedInstr::(\w+)\s*\{(.*)\}$', pat, re.S)
        if not m: raise Unrecognised("EncodedInstr::byte_len: pattern `%s`" % pat[:60])
        terms, per_arg = [], 0
        for t in split_top(expr, '+'):
            t = t.strip()
            a = re.match(r'^\(\s*(\d+)\s*\*\s*(\w+)\s*\.\s*len\s*\(\s*\)\s*as\s+u64\s*\)$', t)
            if a: per_arg = int(a.group(1))
            else: terms.append(int_lit(t))
        rows.append((m.group(1), terms, per_arg))
    return rows

def instr_reader(prog):
    db = fn_body(prog, 'decode_instructions', 'program.rs')
    m = re.search(r'let\s+(\w+)\s*=\s*cur\s*\.\s*read_u8\s*\(\s*\)\s*\?\s*;\s*match\s+OpCode::from_u8\s*\(\s*\1\s*\)\s*\{', db)
    if not m: raise Unrecognised("decode_instructions: `let b = cur.read_u8()?; match OpCode::from_u8(b)` not found")
    pre = re.search(r'if\s+rem\s*<\s*(\d+)\s*\{', db[:m.start()])
    if not pre: raise Unrecognised("decode_instructions: the `rem < N` test is gone")
    rows = []
    for pat, expr in match_arms(db[m.end():balanced(db, m.end(), '{', '}')]):
        mo = re.match(r'^Some\s*\(\s*OpCode::(\w+)\s*\)$', pat)
        if not mo:
            if re.match(r'^(Some\s*\(\s*\w+\s*\)|None)$', pat) and 'Err' in expr: continue     # unknown / invalid opcode: an error
            raise Unrecognised("decode_instructions: arm `%s`" % pat[:60])
        sts = statements(expr[1:-1]) if expr.startswith('{') else None
        if not sts: raise Unrecognised("decode_instructions: arm of " + mo.group(1))
        fields, vararg, built = [], False, None
        for s in sts:
            rs = read_stmt(s, 'cur')
            if rs is not None:
                if rs[2] not in ('', 'as usize'): raise Unrecognised("decode_instructions: `%s`" % s[:60])
                fields.append((rs[0], rs[1])); continue
            if re.match(r'^let\s+left\s*=', s) or re.match(r'^let\s+mut\s+args\s*=\s*Vec::with_capacity', s): continue
            f = re.match(r'^for\s+_\s+in\s+0\s*\.\.\s*(\w+)\s*\{(.*)\}\s*(out\s*\.\s*push\s*\(.*\))$', s, re.S) or \
                re.match(r'^for\s+_\s+in\s+0\s*\.\.\s*(\w+)\s*\{(.*)\}$', s, re.S)
            if f and fields and fields[-1] == (f.group(1), 4):
                inner = statements(f.group(2))
                ir = read_stmt(inner[0], 'cur') if inner else None
                if not ir or ir[1] != 4 or len(inner) != 2 or not re.match(r'^args\s*\.\s*push\s*\(\s*%s\s*\)$' % ir[0], inner[1]):
                    raise Unrecognised("decode_instructions: argument loop of " + mo.group(1))
                vararg = True
                s = f.group(3) if f.lastindex and f.lastindex >= 3 else None
                if s is None: continue
            p = re.match(r'^out\s*\.\s*push\s*\(\s*DecodedInstr::(\w+)\s*\{(.*)\}\s*\)$', s, re.S)
            if p: built = p.group(1); continue
            raise Unrecognised("decode_instructions: %s statement `%s`" % (mo.group(1), s[:60]))
        if built is None: raise Unrecognised("decode_instructions: arm of %s builds nothing" % mo.group(1))
        rows.append((mo.group(1), built, [w for _, w in fields], vararg))
    return int(pre.group(1)), rows

def entry_writer(src, name):
    wb = fn_body(impl_body(src, name), 'write_to', name)
    out = []
    for s in statements(wb):
        if re.match(r'^Ok\s*\(\s*\(\s*\)\s*\)$', s): continue
        ws = write_stmt(s, 'w')
        if ws is None: raise Unrecognised("%s::write_to: statement `%s`" % (name, s[:60]))
        e = ws[0]
        m = re.match(r'^self\s*\.\s*(\w+)(?: as u8)?$', e) or re.match(r'^if self\s*\.\s*(\w+) \{ 1 \} else \{ 0 \}$', e)
        if m: out.append((m.group(1), ws[1]))
        elif re.match(r'^\d+$', e): out.append(("pad", ws[1]))
        else: raise Unrecognised("%s::write_to writes `%s`" % (name, e))
    return out

def extract(repo="/repo"):
    sec = strip_comments(read(repo, 'src/core/src/program/compiler/sections.rs'))
    prog = strip_comments(read(repo, 'src/core/src/program/program.rs'))
    ctx = strip_comments(read(repo, 'src/core/src/program/compiler/context.rs'))
    r = {}
    r['decl'], r['size_terms'], r['written'], r['read'] = header(sec)
    r['opcodes'], r['from_u8'] = opcodes(sec)
    r['enc_write'] = instr_writer(sec, 'EncodedInstr', 'sections.rs')
    r['enc_len'] = instr_byte_len(sec)
    r['dec_write'] = instr_writer(prog, 'DecodedInstr', 'program.rs')
    r['min_rem'], r['dec_read'] = instr_reader(prog)
    r['const_write'] = entry_writer(sec, 'ConstEntry')
    m = re.search(r'pub\s+fn\s+byte_len\s*\(\s*\)\s*->\s*u64\s*\{([^}]*)\}', impl_body(sec, 'ConstEntry'))
    if not m: raise Unrecognised("ConstEntry::byte_len not found")
    r['const_len_terms'] = sum_terms(m.group(1), "ConstEntry::byte_len")
    pb = fn_body(prog, 'parse_const_entries', 'program.rs')
    lp = re.search(r'for\s+_\s+in\s+0\s*\.\.\s*count\s*\{', pb)
    if not lp: raise Unrecognised("parse_const_entries: loop not found")
    creads = []
    for s in statements(pb[lp.end():balanced(pb, lp.end(), '{', '}')]):
        rs = read_stmt(s, 'cur')
        if rs is not None and not rs[2]: creads.append((rs[0], rs[1])); continue
        if re.match(r'^out\s*\.\s*push\s*\(\s*ParsedConstEntry\s*\{', s): continue
        raise Unrecognised("parse_const_entries: statement `%s`" % s[:60])
    r['const_read'] = creads
    r['pconst_write'] = entry_writer(prog, 'ParsedConstEntry')
    r['symbol_write'] = entry_writer(sec, 'SymbolEntry')
    m = re.search(r'for\s+_\s+in\s+0\s*\.\.\s*\(\s*header\s*\.\s*symbols_len\s*/\s*(\d+)\s*\)\s*\{', prog)
    if not m: raise Unrecognised("program.rs: the loop over `header.symbols_len / N` not found")
    r['symbol_div'] = int(m.group(1))
    sreads = []
    for s in statements(prog[m.end():balanced(prog, m.end(), '{', '}')]):
        rs = read_stmt(s, 'cur')
        if rs is not None and rs[2] in ('', '!= 0'): sreads.append((rs[0], rs[1])); continue
        if re.match(r'^(symbols\s*\.\s*insert|if\s+mutable\b)', s): continue
        raise Unrecognised("program.rs: symbol loop statement `%s`" % s[:60])
    r['symbol_read'] = sreads
    m = re.search(r'let\s+symbols_len\s*:\s*u64\s*=\s*\(\s*self\s*\.\s*symbols\s*\.\s*len\s*\(\s*\)\s*as\s+u64\s*\)\s*\*\s*(\d+)\s*;', ctx)
    if not m: raise Unrecognised("context.rs: `symbols_len = (self.symbols.len() as u64) * N` not found")
    r['symbol_mul'] = int(m.group(1))
    if not re.search(r'let\s+const_tbl_len\s*:\s*u64\s*=\s*\(\s*self\s*\.\s*const_entries\s*\.\s*len\s*\(\s*\)\s*as\s+u64\s*\)\s*\*\s*ConstEntry::byte_len\s*\(\s*\)\s*;', ctx):
        raise Unrecognised("context.rs: `const_tbl_len = entries * ConstEntry::byte_len()` not found")
    if not re.search(r'let\s+header_size\s*=\s*ByteCodeHeader::HEADER_SIZE\s+as\s+u64\s*;', ctx):
        raise Unrecognised("context.rs: `header_size = ByteCodeHeader::HEADER_SIZE` not found")
    hb = block_after(ctx, r'let\s+header\s*=\s*ByteCodeHeader\s*\{', "context.rs: the header literal")
    hf = {}
    for f in split_top(hb, ','):
        f = f.strip()
        if not f: continue
        m = re.match(r'^(\w+)(?:\s*:\s*(.+))?$', f, re.S)
        if not m: raise Unrecognised("context.rs: header field `%s`" % f[:40])
        hf[m.group(1)] = (m.group(2) or m.group(1)).strip()
    m = re.match(r'^\*b"([ -~]*)"$', hf.get('magic', ''))
    if not m: raise Unrecognised("context.rs: header magic is `%s`" % hf.get('magic'))
    r['magic_written'] = m.group(1)
    r['version_written'] = int_lit(hf.get('version', '?'))
    lb = fn_body(prog, 'load_program_from_reader', 'program.rs')
    m = re.search(r'header\s*\.\s*validate_magic\s*\(\s*b"([ -~]*)"\s*\)', lb)
    if not m: raise Unrecognised("program.rs: the loader's validate_magic(b\"…\") not found")
    r['magic_expected'] = m.group(1)
    if not re.search(r'vec!\s*\[\s*0u8\s*;\s*ByteCodeHeader::HEADER_SIZE\s*\]', lb): raise Unrecognised("program.rs: the loader does not read HEADER_SIZE bytes")
    vm = re.search(r'self\s*\.\s*header\s*\.\s*version\s*!=\s*(\d+)', prog)
    if not vm: raise Unrecognised("program.rs: validate() no longer compares header.version with a number")
    r['version_expected'] = int(vm.group(1))
    return r

def L_fields(fs): return "[" + ", ".join('("%s", %d)' % f for f in fs) + "]"
def L_nats(ns): return "[" + ", ".join(str(n) for n in ns) + "]"
def L_bool(b): return "true" if b else "false"

def generate(root, repo="/repo"):
    try:
        r = extract(repo)
    except (Unrecognised, OSError, ValueError, IndexError, KeyError) as e:
        return False, "C07 layout extraction failed: %s" % e
    out = os.path.join(root, 'lean', 'MechVerif', 'Gen', 'Layout.lean')
    L = ["/- GENERATED by tools/extract_layout.py from src/core/src/program/{compiler/sections.rs, program.rs, compiler/context.rs}",
         "   — do not edit. -/", "import MechVerif.Lemmas.Layout", "namespace MechVerif.Gen.Layout", "open MechVerif.Layout", "",
         "/-- fields of `struct ByteCodeHeader` with their widths in bytes, in declaration order -/",
         "def headerDeclared : List (String × Nat) :=\n  " + L_fields(r['decl']),
         "/-- summands of `ByteCodeHeader::HEADER_SIZE` -/", "def headerSizeTerms : List Nat := " + L_nats(r['size_terms']),
         "/-- what `ByteCodeHeader::write_to` writes, in order -/", "def headerWritten : List (String × Nat) :=\n  " + L_fields(r['written']),
         "/-- what `ByteCodeHeader::read_from` reads, in order -/", "def headerRead : List (String × Nat) :=\n  " + L_fields(r['read']), "",
         "/-- `enum OpCode` -/", "def opcodes : List (String × Nat) := " + L_fields(r['opcodes']),
         "/-- arms of `OpCode::from_u8` -/", "def opcodeFromU8 : List (Nat × String) := [" + ", ".join('(%d, "%s")' % x for x in r['from_u8']) + "]", ""]
    def instr_rows(rows):
        return "  [" + ",\n   ".join('("%s", "%s", %s, %s)' % (v, o, L_fields(f), L_bool(va)) for v, o, f, va in rows) + "]"
    L += ["/-- `EncodedInstr::write_to`: (variant, OpCode written as the first byte, fields after it, a list of u32 follows) -/",
          "def encodedWritten : List (String × String × List (String × Nat) × Bool) :=", instr_rows(r['enc_write']),
          "/-- `DecodedInstr::write_to` (the `Unknown` variant, raw bytes written back, left out) -/",
          "def decodedWritten : List (String × String × List (String × Nat) × Bool) :=", instr_rows(r['dec_write']),
          "/-- `EncodedInstr::byte_len`: (variant, summands, bytes per list element) -/",
          "def encodedByteLen : List (String × List Nat × Nat) :=",
          "  [" + ",\n   ".join('("%s", %s, %d)' % (v, L_nats(t), p) for v, t, p in r['enc_len']) + "]",
          "/-- `decode_instructions`: (OpCode, variant built, widths read after the opcode byte, a list of u32 follows) -/",
          "def decodedRead : List (String × String × List Nat × Bool) :=",
          "  [" + ",\n   ".join('("%s", "%s", %s, %s)' % (o, v, L_nats(w), L_bool(va)) for o, v, w, va in r['dec_read']) + "]",
          "/-- `decode_instructions` refuses to start an instruction with fewer than this many bytes left -/",
          "def decodeMinRemaining : Nat := %d" % r['min_rem'], "",
          "def constEntryWritten : List (String × Nat) := " + L_fields(r['const_write']),
          "def constEntryByteLenTerms : List Nat := " + L_nats(r['const_len_terms']),
          "def constEntryRead : List (String × Nat) := " + L_fields(r['const_read']),
          "/-- `ParsedConstEntry::write_to`, the writer `to_bytes` uses -/",
          "def parsedConstEntryWritten : List (String × Nat) := " + L_fields(r['pconst_write']),
          "def symbolEntryWritten : List (String × Nat) := " + L_fields(r['symbol_write']),
          "def symbolEntryRead : List (String × Nat) := " + L_fields(r['symbol_read']),
          "/-- the loader reads `symbols_len / symbolDivisor` entries; the compiler sets `symbols_len = count * symbolFactor` -/",
          "def symbolDivisor : Nat := %d" % r['symbol_div'], "def symbolFactor : Nat := %d" % r['symbol_mul'], "",
          '/-- the bytes of `*b"%s"` in the header the compiler builds, and of the `b"%s"` the loader compares with -/' % (r['magic_written'], r['magic_expected']),
          'def magicWritten : List Nat := ' + L_nats([ord(c) for c in r['magic_written']]),
          'def magicExpected : List Nat := ' + L_nats([ord(c) for c in r['magic_expected']]),
          "def versionWritten : Nat := %d" % r['version_written'], "def versionExpected : Nat := %d" % r['version_expected'], "",
          "/-- the header: declared, written and read in the order and widths of the model's `writeHeader` / `readHeaderSeq`, and",
          "    `HEADER_SIZE` is the sum of exactly these widths -/",
          "theorem C07_header_layout_is_model :",
          "    headerDeclared = headerLayout ∧ headerWritten = headerLayout ∧ headerRead = headerLayout ∧",
          "    headerSizeTerms = headerLayout.map (·.2) ∧ headerSizeTerms.sum = Loader.HEADER_SIZE := by decide", "",
          "/-- the opcode numbers are the model's, and `from_u8` is the inverse of the enum -/",
          "theorem C07_opcodes_are_model :",
          "    opcodes = opcodeTable ∧ opcodeFromU8 = opcodeTable.map (fun p => (p.2, p.1)) := by decide", "",
          "/-- both instruction writers emit the model's layout; `byte_len` is the size of what is written; the decoder reads",
          "    for every opcode the widths its writer wrote and builds the same variant -/",
          "theorem C07_instr_layout_is_model :",
          "    encodedWritten = instrLayout ∧ decodedWritten = instrLayout ∧",
          "    encodedByteLen = instrLayout.map (fun r => (r.1, 1 :: r.2.2.1.map (·.2), if r.2.2.2 then 4 else 0)) ∧",
          "    readerAgrees decodedRead = true ∧ decodeMinRemaining = 8 :=",
          "  ⟨by decide, by decide, by decide, by decide, by decide⟩", "",
          "/-- constant-table and symbol entries: written and read field by field as the model does, 24 and 13 bytes -/",
          "theorem C07_entry_layouts_are_model :",
          "    parsedConstEntryWritten = constEntryLayout ∧ constEntryRead = constEntryLayout ∧",
          "    constEntryWritten = constEntryLayout.map (fun p => if p.1 == \"reserved\" then (\"pad\", p.2) else p) ∧",
          "    constEntryByteLenTerms = constEntryLayout.map (·.2) ∧ constEntryByteLenTerms.sum = CONST_ENTRY_SIZE ∧",
          "    symbolEntryWritten = symbolEntryLayout ∧ symbolEntryRead = symbolEntryLayout ∧",
          "    symbolDivisor = SYMBOL_ENTRY_SIZE ∧ symbolFactor = SYMBOL_ENTRY_SIZE := by decide", "",
          "/-- the magic written and expected is the model's `MECH`; the format version written is the one `validate` expects -/",
          "theorem C07_magic_version_are_model :",
          "    magicWritten.map (BitVec.ofNat 8) = Loader.MECH ∧ magicExpected = magicWritten ∧",
          "    versionWritten = FORMAT_VERSION ∧ versionExpected = FORMAT_VERSION := by decide", "",
          "end MechVerif.Gen.Layout", ""]
    text = "\n".join(L)
    old = open(out).read() if os.path.exists(out) else None
    if old != text: open(out, 'w').write(text)
    return True, "C07 layout extracted: header %d fields / %d bytes, %d opcodes, %d+%d instruction writers, %d decoder arms, const entry %d bytes, symbol entry %d bytes (loader divides by %d, compiler multiplies by %d), magic %s, version %d" % (
        len(r['written']), sum(r['size_terms']), len(r['opcodes']), len(r['enc_write']), len(r['dec_write']), len(r['dec_read']),
        sum(r['const_len_terms']), sum(w for _, w in r['symbol_write']), r['symbol_div'], r['symbol_mul'], r['magic_written'], r['version_written'])

if __name__ == '__main__':
    root = os.path.dirname(os.path.dirname(os.path.abspath(__file__)))
    if len(sys.argv) > 1 and sys.argv[1] == '--show':
        for k, v in extract(sys.argv[2] if len(sys.argv) > 2 else "/repo").items(): print(k, v)
    else:
        print(generate(root, sys.argv[1] if len(sys.argv) > 1 else "/repo"))
