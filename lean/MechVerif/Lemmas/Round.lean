/-
Correct rounding of a positive rational to binary64 (`ratToF64` of Model/Lit.lean): the sticky-bit
rounding step is the nearest multiple with ties to even, the scaling is exact, the quotient has
enough bits, and the mantissa kept is normalised.
-/
import MechVerif.Model.Lit
namespace MechVerif.Lit
open MechVerif.FloatX

theorem roundHalfEven_nearest (N D K : Nat) (hD : 0 < D) (hK : 2 ≤ K) (hKe : K % 2 = 0) :
    let M := roundHalfEven N D K
    2 * (M * (K * D)) ≤ 2 * N + K * D ∧ 2 * N ≤ 2 * (M * (K * D)) + K * D ∧
    ((2 * (M * (K * D)) = 2 * N + K * D ∨ 2 * N = 2 * (M * (K * D)) + K * D) → M % 2 = 0) := by
  intro M
  -- decompositions
  have hN : N = (N / D) * D + N % D := by rw [Nat.mul_comm]; exact (Nat.div_add_mod N D).symm
  have hq : N / D = (N / D / K) * K + (N / D) % K := by rw [Nat.mul_comm]; exact (Nat.div_add_mod (N / D) K).symm
  have ht : N % D < D := Nat.mod_lt _ hD
  have hr : (N / D) % K < K := Nat.mod_lt _ (by omega)
  have hKh : K = 2 * (K / 2) := by omega
  generalize hm : N / D / K = m at *
  generalize hrr : (N / D) % K = r at *
  generalize htt : N % D = t at *
  generalize hh : K / 2 = h at *
  -- products as atoms
  have e1 : (N / D) * D = m * (K * D) + r * D := by rw [hq, Nat.add_mul, Nat.mul_assoc]
  have e2 : K * D = 2 * (h * D) := by rw [hKh, Nat.mul_assoc]
  have e3 : (m + 1) * (K * D) = m * (K * D) + K * D := by rw [Nat.add_mul, Nat.one_mul]
  have lt_h : r < h → r * D + D ≤ h * D := by
    intro hlt; have := Nat.mul_le_mul_right D (Nat.succ_le_of_lt hlt); rw [Nat.succ_mul] at this; exact this
  have gt_h : h < r → h * D + D ≤ r * D := by
    intro hlt; have := Nat.mul_le_mul_right D (Nat.succ_le_of_lt hlt); rw [Nat.succ_mul] at this; exact this
  have lt_K : r * D + D ≤ K * D := by
    have := Nat.mul_le_mul_right D (Nat.succ_le_of_lt hr); rw [Nat.succ_mul] at this; exact this
  have hM : M = if r > h ∨ (r = h ∧ (t ≠ 0 ∨ m % 2 = 1)) then m + 1 else m := by
    show roundHalfEven N D K = _
    unfold roundHalfEven
    simp only [hm, hrr, htt, hh]
  generalize hP : m * (K * D) = P at *
  generalize hA : r * D = A at *
  generalize hH : h * D = H at *
  generalize hKD : K * D = KD at *
  by_cases hc : r > h ∨ (r = h ∧ (t ≠ 0 ∨ m % 2 = 1))
  · rw [if_pos hc] at hM
    rw [hM, e3]
    rcases hc with hc | ⟨hc, hc2⟩
    · have := gt_h hc
      refine ⟨by omega, by omega, ?_⟩
      intro h'; omega
    · have hAH : A = H := by rw [← hA, ← hH, hc]
      refine ⟨by omega, by omega, ?_⟩
      intro h'
      rcases hc2 with hc2 | hc2
      · omega
      · omega
  · rw [if_neg hc] at hM
    rw [hM, hP]
    have hc' : r ≤ h ∧ (r = h → t = 0 ∧ m % 2 = 0) := by
      constructor
      · omega
      · intro e; constructor <;> (apply Classical.byContradiction; intro hn; exact hc (Or.inr ⟨e, by omega⟩))
    rcases Nat.lt_or_ge r h with hlt | hge
    · have := lt_h hlt
      refine ⟨by omega, by omega, ?_⟩
      intro h'; omega
    · have e : r = h := by omega
      have hAH : A = H := by rw [← hA, ← hH, e]
      obtain ⟨t0, me⟩ := hc'.2 e
      refine ⟨by omega, by omega, fun _ => me⟩

theorem bitLen_bounds (n : Nat) (h : n ≠ 0) : 2 ^ (bitLen n - 1) ≤ n ∧ n < 2 ^ bitLen n := by
  unfold bitLen
  have : (n == 0) = false := by simpa using h
  simp only [this, Bool.false_eq_true, if_false, Nat.add_sub_cancel]
  exact ⟨Nat.log2_self_le h, Nat.lt_log2_self⟩

theorem bitLen_pos (n : Nat) (h : n ≠ 0) : 0 < bitLen n := by
  unfold bitLen
  have : (n == 0) = false := by simpa using h
  simp only [this, Bool.false_eq_true, if_false]; omega

def shiftOf (num den : Nat) : Int := 55 + (bitLen den : Int) - (bitLen num : Int) + 1

/-- the scaling is exact: n2 / d2 = (num / den) · 2^shift -/
theorem scaleRat_exact (num den : Nat) :
    (scaleRat num den).shift = shiftOf num den ∧
    (0 ≤ shiftOf num den → (scaleRat num den).n2 = num * 2 ^ (shiftOf num den).toNat ∧ (scaleRat num den).d2 = den) ∧
    (shiftOf num den < 0 → (scaleRat num den).n2 = num ∧ (scaleRat num den).d2 = den * 2 ^ (-(shiftOf num den)).toNat) := by
  unfold scaleRat shiftOf
  simp only
  split
  · next h => exact ⟨rfl, fun _ => ⟨rfl, rfl⟩, fun h' => by omega⟩
  · next h => exact ⟨rfl, fun h' => absurd h' h, fun _ => ⟨rfl, rfl⟩⟩

/-- the scaled quotient has at least 56 bits -/
theorem scaled_quotient_large (num den : Nat) (hn : num ≠ 0) (hd : den ≠ 0) :
    0 < (scaleRat num den).d2 ∧ 2 ^ 55 ≤ (scaleRat num den).n2 / (scaleRat num den).d2 := by
  obtain ⟨h3, h1, h2⟩ := scaleRat_exact num den
  have bn := bitLen_bounds num hn
  have bd := bitLen_bounds den hd
  have pn := bitLen_pos num hn
  have pd := bitLen_pos den hd
  have hdpos : 0 < den := Nat.pos_of_ne_zero hd
  have hsdef : shiftOf num den = 55 + (bitLen den : Int) - (bitLen num : Int) + 1 := rfl
  generalize shiftOf num den = sh at *
  by_cases hs : 0 ≤ sh
  · obtain ⟨e1, e2⟩ := h1 hs
    refine ⟨by rw [e2]; exact hdpos, ?_⟩
    rw [e1, e2, Nat.le_div_iff_mul_le hdpos]
    have hs' : sh.toNat + bitLen num = 56 + bitLen den := by omega
    have k1 : 2 ^ 55 * den < 2 ^ 55 * 2 ^ bitLen den := Nat.mul_lt_mul_of_pos_left bd.2 (Nat.pow_pos (by decide))
    have k2 : 2 ^ 55 * 2 ^ bitLen den = 2 ^ (bitLen num - 1) * 2 ^ sh.toNat := by
      rw [← Nat.pow_add, ← Nat.pow_add]; congr 1; omega
    have k3 : 2 ^ (bitLen num - 1) * 2 ^ sh.toNat ≤ num * 2 ^ sh.toNat := Nat.mul_le_mul_right _ bn.1
    rw [k2] at k1
    exact Nat.le_of_lt (Nat.lt_of_lt_of_le k1 k3)
  · have hs' : sh < 0 := by omega
    obtain ⟨e1, e2⟩ := h2 hs'
    have hd2 : 0 < den * 2 ^ (-sh).toNat := Nat.mul_pos hdpos (Nat.pow_pos (by decide))
    refine ⟨by rw [e2]; exact hd2, ?_⟩
    rw [e1, e2, Nat.le_div_iff_mul_le hd2]
    have hk : 55 + (bitLen den + (-sh).toNat) = bitLen num - 1 := by omega
    have k1 : 2 ^ 55 * (den * 2 ^ (-sh).toNat) < 2 ^ 55 * (2 ^ bitLen den * 2 ^ (-sh).toNat) :=
      Nat.mul_lt_mul_of_pos_left (Nat.mul_lt_mul_of_pos_right bd.2 (Nat.pow_pos (by decide))) (Nat.pow_pos (by decide))
    have k2 : 2 ^ 55 * (2 ^ bitLen den * 2 ^ (-sh).toNat) = 2 ^ (bitLen num - 1) := by
      rw [← Nat.pow_add, ← Nat.pow_add, hk]
    rw [k2] at k1
    exact Nat.le_of_lt (Nat.lt_of_lt_of_le k1 bn.1)

theorem ratRound_fin (num den : Nat) (M : Nat) (e2 : Int) (p : Nat) (h : ratRound num den = .fin M e2 p) :
    e2 = (bitLen ((scaleRat num den).n2 / (scaleRat num den).d2) : Int) - 1 - (scaleRat num den).shift ∧
    1 ≤ p ∧ p ≤ 53 ∧ e2 ≤ 1023 ∧ (e2 ≥ -1022 → p = 53) ∧ (e2 < -1022 → (p : Int) = 53 - (-1022 - e2)) ∧
    M = roundHalfEven (scaleRat num den).n2 (scaleRat num den).d2 (2 ^ (bitLen ((scaleRat num den).n2 / (scaleRat num den).d2) - p)) := by
  unfold ratRound at h
  simp only at h
  generalize hq : bitLen ((scaleRat num den).n2 / (scaleRat num den).d2) = lq at *
  generalize hsh : (scaleRat num den).shift = sh at *
  by_cases h1 : (lq : Int) - 1 - sh > 1023
  · rw [if_pos h1] at h; cases h
  · rw [if_neg h1] at h
    by_cases hge : (lq : Int) - 1 - sh ≥ -1022
    · simp only [if_pos hge] at h
      rw [if_neg (by decide)] at h
      simp only [Rounded.fin.injEq] at h
      obtain ⟨hM, he, hp⟩ := h
      subst he
      have hp' : p = 53 := by rw [← hp]; rfl
      subst hp'
      exact ⟨rfl, by decide, by decide, by omega, fun _ => rfl, fun hlt => by omega, hM.symm⟩
    · simp only [if_neg hge] at h
      by_cases h2 : (53 : Int) - (-1022 - ((lq : Int) - 1 - sh)) ≤ 0
      · rw [if_pos h2] at h; cases h
      · rw [if_neg h2] at h
        simp only [Rounded.fin.injEq] at h
        obtain ⟨hM, he, hp⟩ := h
        subst he
        refine ⟨rfl, by omega, by omega, by omega, fun hh => absurd hh hge, fun _ => by omega, ?_⟩
        rw [← hM, ← hp]

theorem roundHalfEven_cases (N D K : Nat) : roundHalfEven N D K = N / D / K ∨ roundHalfEven N D K = N / D / K + 1 := by
  unfold roundHalfEven
  simp only
  split
  · exact Or.inr rfl
  · exact Or.inl rfl

/-- the mantissa kept has exactly p bits, and at least three bits are discarded -/
theorem mantissa_normalised (q p : Nat) (hq : 2 ^ 55 ≤ q) (hp1 : 1 ≤ p) (hp : p ≤ 53) :
    56 ≤ bitLen q ∧ 2 ^ (p - 1) ≤ q / 2 ^ (bitLen q - p) ∧ q / 2 ^ (bitLen q - p) < 2 ^ p := by
  have hq0 : q ≠ 0 := by
    intro e; rw [e] at hq; exact absurd hq (by decide)
  obtain ⟨b1, b2⟩ := bitLen_bounds q hq0
  have hl : 56 ≤ bitLen q := by
    apply Classical.byContradiction
    intro hn
    have : bitLen q ≤ 55 := by omega
    have : 2 ^ bitLen q ≤ 2 ^ 55 := Nat.pow_le_pow_right (by decide) this
    omega
  have hK : 0 < 2 ^ (bitLen q - p) := Nat.pow_pos (by decide)
  refine ⟨hl, ?_, ?_⟩
  · rw [Nat.le_div_iff_mul_le hK, ← Nat.pow_add]
    have : p - 1 + (bitLen q - p) = bitLen q - 1 := by omega
    rw [this]; exact b1
  · rw [Nat.div_lt_iff_lt_mul hK, ← Nat.pow_add]
    have : p + (bitLen q - p) = bitLen q := by omega
    rw [this]; exact b2

theorem decode_encode_normal (M : Nat) (e2 : Int) (p : Nat) (hM1 : 2 ^ 52 ≤ M) (hM2 : M < 2 ^ 53) (he1 : -1022 ≤ e2) (he2 : e2 ≤ 1023) :
    decode64 (encodeF64 (.fin M e2 p)) = .finite ⟨(M : Int), e2 - 52⟩ := by
  unfold encodeF64
  simp only [ge_iff_le, if_pos he1]
  have hne : (M == 2 ^ 53) = false := by
    have : M ≠ 2 ^ 53 := by omega
    simpa using this
  simp only [hne, Bool.false_eq_true, if_false]
  rw [if_neg (by omega)]
  generalize hE : (e2 + 1023).toNat = E
  have hE1 : 1 ≤ E := by omega
  have hE2 : E ≤ 2046 := by omega
  have hlt : E * 2 ^ 52 + (M - 2 ^ 52) < 2 ^ 64 := by omega
  unfold decode64
  simp only [UInt64.toNat_ofNat_of_lt' hlt]
  have h1 : (E * 2 ^ 52 + (M - 2 ^ 52)) / 2 ^ 63 = 0 := by omega
  have h2 : (E * 2 ^ 52 + (M - 2 ^ 52)) / 2 ^ 52 % 2048 = E := by omega
  have h3 : (E * 2 ^ 52 + (M - 2 ^ 52)) % 2 ^ 52 = M - 2 ^ 52 := by omega
  rw [h1, h2, h3]
  have e1 : (E == 2047) = false := by
    have : E ≠ 2047 := by omega
    simpa using this
  have e0 : (E == 0) = false := by
    have : E ≠ 0 := by omega
    simpa using this
  simp only [e1, e0, Bool.false_eq_true, if_false]
  have hs : (if ((0 : Nat) == 1) = true then (-1 : Int) else 1) = 1 := rfl
  have hm : M - 2 ^ 52 + 2 ^ 52 = M := by omega
  have he : (E : Int) - 1075 = e2 - 52 := by omega
  rw [hs, hm, he, Int.one_mul]

/-- `.inf` is returned only when the leading bit of the exact value is at 2^1024 or above -/
theorem ratRound_inf (num den : Nat) (h : ratRound num den = .inf) :
    (bitLen ((scaleRat num den).n2 / (scaleRat num den).d2) : Int) - 1 - (scaleRat num den).shift ≥ 1024 := by
  unfold ratRound at h
  simp only at h
  generalize hq : bitLen ((scaleRat num den).n2 / (scaleRat num den).d2) = lq at *
  generalize hsh : (scaleRat num den).shift = sh at *
  by_cases h1 : (lq : Int) - 1 - sh > 1023
  · omega
  · rw [if_neg h1] at h
    by_cases hge : (lq : Int) - 1 - sh ≥ -1022
    · simp only [if_pos hge] at h
      rw [if_neg (by decide)] at h
      cases h
    · simp only [if_neg hge] at h
      by_cases h2 : (53 : Int) - (-1022 - ((lq : Int) - 1 - sh)) ≤ 0
      · rw [if_pos h2] at h; cases h
      · rw [if_neg h2] at h; cases h

/-- the sticky comparison: "q exceeds 2^k or the division left a remainder" is "N exceeds 2^k · D" -/
theorem above_power_iff (N D k : Nat) (hD : 0 < D) (hq : 2 ^ k ≤ N / D) :
    (N / D > 2 ^ k ∨ N % D ≠ 0) ↔ 2 ^ k * D < N := by
  have hN : N = D * (N / D) + N % D := (Nat.div_add_mod N D).symm
  have ht : N % D < D := Nat.mod_lt _ hD
  generalize N / D = q at *
  generalize N % D = t at *
  constructor
  · intro h
    rcases h with h | h
    · have : (2 ^ k + 1) * D ≤ q * D := Nat.mul_le_mul_right D h
      rw [Nat.add_mul, Nat.one_mul] at this
      rw [hN, Nat.mul_comm D q]; omega
    · have : 2 ^ k * D ≤ q * D := Nat.mul_le_mul_right D hq
      rw [hN, Nat.mul_comm D q]; omega
  · intro h
    by_cases hq' : q > 2 ^ k
    · exact Or.inl hq'
    · have : q = 2 ^ k := by omega
      subst this
      right
      intro ht0
      rw [hN, ht0, Nat.mul_comm] at h
      omega

/-- below the subnormal range: the result is 0, or the smallest subnormal exactly when the value
    lies strictly above half of it (a tie at exactly half goes to the even one, 0) -/
theorem ratRound_tiny (num den : Nat) (hn : num ≠ 0) (hd : den ≠ 0) (up : Bool) (h : ratRound num den = .tiny up) :
    let e2 : Int := (bitLen ((scaleRat num den).n2 / (scaleRat num den).d2) : Int) - 1 - (scaleRat num den).shift
    e2 ≤ -1075 ∧
    (up = true ↔ (e2 = -1075 ∧
      2 ^ (bitLen ((scaleRat num den).n2 / (scaleRat num den).d2) - 1) * (scaleRat num den).d2 < (scaleRat num den).n2)) := by
  intro e2
  obtain ⟨hdpos, hq55⟩ := scaled_quotient_large num den hn hd
  have hq0 : (scaleRat num den).n2 / (scaleRat num den).d2 ≠ 0 := by
    intro e; rw [e] at hq55; exact absurd hq55 (by decide)
  obtain ⟨b1, _⟩ := bitLen_bounds _ hq0
  have habove := above_power_iff (scaleRat num den).n2 (scaleRat num den).d2 _ hdpos b1
  show ((bitLen ((scaleRat num den).n2 / (scaleRat num den).d2) : Int) - 1 - (scaleRat num den).shift) ≤ -1075 ∧ _
  unfold ratRound at h
  simp only at h
  generalize hq : bitLen ((scaleRat num den).n2 / (scaleRat num den).d2) = lq at *
  generalize hsh : (scaleRat num den).shift = sh at *
  by_cases h1 : (lq : Int) - 1 - sh > 1023
  · rw [if_pos h1] at h; cases h
  · rw [if_neg h1] at h
    by_cases hge : (lq : Int) - 1 - sh ≥ -1022
    · simp only [if_pos hge] at h
      rw [if_neg (by decide)] at h
      cases h
    · simp only [if_neg hge] at h
      by_cases h2 : (53 : Int) - (-1022 - ((lq : Int) - 1 - sh)) ≤ 0
      · rw [if_pos h2] at h
        simp only [Rounded.tiny.injEq] at h
        refine ⟨by omega, ?_⟩
        rw [← h]
        simp only [Bool.and_eq_true, beq_iff_eq, Bool.or_eq_true, decide_eq_true_eq, bne_iff_ne, ne_eq]
        constructor
        · intro ⟨hp0, hx⟩
          exact ⟨by omega, habove.mp hx⟩
        · intro ⟨he, hx⟩
          exact ⟨by omega, habove.mpr hx⟩
      · rw [if_neg h2] at h; cases h

end MechVerif.Lit
