/-
Reference semantics for C04: `update` changes exactly the addressed elements
(1-based, column-major) and nothing else; a failing assignment changes nothing.
-/
import MechVerif.Model.Assign
import MechVerif.Spec.Index
namespace MechVerif.Assign
open MechVerif.Num MechVerif.Mat MechVerif.Index

/-- apply all writes or none -/
def applyAll {α : Type} (f : α → α → Except Err α) :
    List (Nat × α) → List α → Option (List α)
  | [], d => some d
  | (p, v) :: ws, d =>
    match d[p]? with
    | none => none
    | some old =>
      match f old v with
      | .error _ => none
      | .ok new => applyAll f ws (d.set p new)

/-- reference `x[s] op= src`: `none` = rejected, x unchanged -/
def update1 {α : Type} (f : α → α → Except Err α) (m : Mat α) (s : Sel) (src : Operand α) : Option (Mat α) :=
  match refIxs s (m.rows * m.cols) with
  | none => none
  | some ix =>
    if ¬ inRange ix (m.rows * m.cols) then none else
    match src with
    | .scalar v => (applyAll f (ix.map (fun i => (i - 1, v))) m.data).map (fun d => { m with data := d })
    | .mat w =>
      -- i-th addressed element ← i-th source element; needs one source element per target
      if w.data.length ≠ ix.length ∨ ¬ ix.Nodup then none else
      (applyAll f (List.zip (ix.map (· - 1)) w.data) m.data).map (fun d => { m with data := d })

/-- reference `x[s1, s2] op= v` with a scalar source -/
def update2 {α : Type} (f : α → α → Except Err α) (m : Mat α) (s1 s2 : Sel) (v : α) : Option (Mat α) :=
  match refIxs s1 m.rows, refIxs s2 m.cols with
  | some R, some C =>
    if ¬ (inRange R m.rows ∧ inRange C m.cols) then none else
    (applyAll f ((pairs R C).map (fun p => ((p.2 - 1) * m.rows + (p.1 - 1), v))) m.data).map
      (fun d => { m with data := d })
  | _, _ => none

/-- reference `x[s1, s2] = w` with a vector source: the addressed cells, column by column, take the
    source's elements one for one; the source must have exactly as many elements as cells are
    addressed (otherwise the statement is rejected and nothing changes) -/
def update2v {α : Type} (f : α → α → Except Err α) (m : Mat α) (s1 s2 : Sel) (w : Mat α) : Option (Mat α) :=
  match refIxs s1 m.rows, refIxs s2 m.cols with
  | some R, some C =>
    if ¬ (inRange R m.rows ∧ inRange C m.cols) then none else
    let ps := pairs R C
    if w.data.length ≠ ps.length ∨ ¬ ps.Nodup then none else
    (applyAll f (List.zip (ps.map (fun p => (p.2 - 1) * m.rows + (p.1 - 1))) w.data) m.data).map
      (fun d => { m with data := d })
  | _, _ => none

end MechVerif.Assign
