/-
C10, the parser's half: how `code_block()` (src/syntax/src/mechdown.rs) decides from the text after the opening
fence whether the block is executable Mech code, and in which namespace it runs.  `tools/extract_fencetag.py` reads
that decision into a `TagIR` (which prefixes make a block Mech code, which prefixes are stripped in which order,
which remainders are special, what the namespace is otherwise); `classOf` gives a `TagIR` its meaning with Rust's
`starts_with` and `trim_start_matches` (a pattern is removed as often as it occurs at the start).
Text is a list of characters.
-/
namespace MechVerif.FenceTag

inductive TagClass where
  | grammar                  -- an `ebnf` block
  | unnamed                  -- executable, namespace 0
  | disabled
  | hidden                   -- executable, namespace 0, not shown
  | named (n : List Char)    -- executable, the namespace of this name
  | notMech                  -- any other block: never executed
deriving DecidableEq, Repr

/-- `s.strip_prefix(p)` -/
def dropPrefix? : List Char → List Char → Option (List Char)
  | [], s => some s
  | _ :: _, [] => none
  | p :: ps, c :: cs => if p = c then dropPrefix? ps cs else none

def startsWith (p s : List Char) : Bool := (dropPrefix? p s).isSome

def trimGo (p : List Char) : Nat → List Char → List Char
  | 0, s => s
  | f + 1, s => if p = [] then s else match dropPrefix? p s with | some r => trimGo p f r | none => s

/-- `s.trim_start_matches(p)`: the pattern is removed as long as the text starts with it -/
def trimStartMatches (p s : List Char) : List Char := trimGo p s.length s

structure TagIR where
  grammarTag : List Char
  /-- `tag.starts_with(p)` for one of these makes the block Mech code -/
  mechPrefixes : List (List Char)
  /-- the `trim_start_matches` calls that compute `rest`, in order -/
  strip : List (List Char)
  /-- remainders with a meaning of their own: (text, namespace is 0, disabled, hidden) -/
  special : List (List Char × Bool × Bool × Bool)
  /-- any other remainder is the name of the namespace (`hash_str(rest)`) -/
  otherwiseNamed : Bool
deriving DecidableEq, Repr

def classOf (ir : TagIR) (tag : List Char) : TagClass :=
  if tag = ir.grammarTag then .grammar else
  if ir.mechPrefixes.any (fun p => startsWith p tag) then
    let rest := ir.strip.foldl (fun s p => trimStartMatches p s) tag
    match ir.special.find? (fun e => e.1 == rest) with
    | some (_, false, _, _) => .named rest
    | some (_, true, true, _) => .disabled
    | some (_, true, false, true) => .hidden
    | some (_, true, false, false) => .unnamed
    | none => if ir.otherwiseNamed then .named rest else .notMech
  else .notMech

/-- the decision as the documentation of code blocks describes it -/
def expectedIR : TagIR :=
  { grammarTag := ['e', 'b', 'n', 'f'],
    mechPrefixes := [['m', 'e', 'c', 'h'], ['m', 'e', 'c'], ['🤖']],
    strip := [['m', 'e', 'c', 'h'], ['m', 'e', 'c'], ['🤖'], [':']],
    special := [([], true, false, false), (['d', 'i', 's', 'a', 'b', 'l', 'e', 'd'], true, true, false), (['h', 'i', 'd', 'd', 'e', 'n'], true, false, true)],
    otherwiseNamed := true }

/-- a name that the stripping leaves alone and that has no meaning of its own -/
def GoodName (n : List Char) : Prop :=
  n ≠ [] ∧ n.head? ≠ some ':' ∧ n ≠ ['d', 'i', 's', 'a', 'b', 'l', 'e', 'd'] ∧ n ≠ ['h', 'i', 'd', 'd', 'e', 'n']

end MechVerif.FenceTag
