//! C08, class `syntax`: programs over the sublanguage of Model/Syntax.lean (definitions, assignments and
//! op-assignments over formulas whose operands are literals, names, calls with positional and named arguments, matrix
//! literals, table literals, tuples, sets, records, maps, subscripted names, parenthesised formulas, prefixed and transposed operands,
//! and ranges).
//! Case: `fmt  syntax  <hex of the source>  <tokens>`; the tokens are what the model parses:
//!   L<text> literal   I<name> name   ( ) [ ] { }   , ; _ (element separator) :   .. ..=   . (field access)   swz (the comma of a swizzle)   | (the bars of a table literal)
//!   <operator name of c02::BINOPS>   neg (the character `-` before an operand)   not   tr
//!   ~   :=   =   A<k> (op-assignment k: 0 += 1 -= 2 *= 3 /= 4 ^=)   K<text> (kind annotation)   NL
//! Observation: as for formulas, with the s-expression of the whole program for T and U.
use crate::common::*;
use crate::interp::*;
use mech_core::*;
use mech_core::nodes::*;

const OPA: &[&str] = &["+=", "-=", "*=", "/=", "^="];

// ---- the real tree as an s-expression ----------------------------------------------------------------

fn op_name(op: &FormulaOperator) -> String {
  match op {
    FormulaOperator::AddSub(AddSubOp::Add) => "add", FormulaOperator::AddSub(AddSubOp::Sub) => "sub",
    FormulaOperator::MulDiv(MulDivOp::Mul) => "mul", FormulaOperator::MulDiv(MulDivOp::Div) => "div", FormulaOperator::MulDiv(MulDivOp::Mod) => "mod",
    FormulaOperator::Power(_) => "pow",
    FormulaOperator::Comparison(c) => match c { ComparisonOp::Equal => "eq", ComparisonOp::NotEqual => "ne", ComparisonOp::LessThan => "lt",
      ComparisonOp::LessThanEqual => "le", ComparisonOp::GreaterThan => "gt", ComparisonOp::GreaterThanEqual => "ge", _ => "cmp?" },
    FormulaOperator::Logic(l) => match l { LogicOp::And => "and", LogicOp::Or => "or", LogicOp::Xor => "xor", LogicOp::Not => "not" },
    _ => "op?",
  }.to_string()
}

fn toks(ts: Vec<Token>) -> String { ts.iter().map(|t| t.to_string()).collect::<Vec<_>>().join("") }

fn sx_factor(f: &Factor) -> String {
  match f {
    Factor::Term(t) => {
      let mut acc = sx_factor(&t.lhs);
      for (op, rhs) in &t.rhs { acc = format!("({} {} {})", op_name(op), acc, sx_factor(rhs)); }
      acc
    }
    Factor::Parenthetical(x) => format!("(paren {})", sx_factor(x)),
    Factor::Negate(x) => format!("(neg {})", sx_factor(x)),
    Factor::Not(x) => format!("(not {})", sx_factor(x)),
    Factor::Transpose(x) => format!("(tr {})", sx_factor(x)),
    Factor::Expression(e) => sx_expr(e),
  }
}

fn sx_range(r: &RangeExpression) -> String {
  let i = |o: &RangeOp| match o { RangeOp::Inclusive => "1", RangeOp::Exclusive => "0" };
  match &r.increment {
    None => format!("(range {} {} {})", i(&r.operator), sx_factor(&r.start), sx_factor(&r.terminal)),
    Some((o1, s)) => format!("(range3 {} {} {} {} {})", i(o1), i(&r.operator), sx_factor(&r.start), sx_factor(s), sx_factor(&r.terminal)),
  }
}

fn sx_sub(s: &Subscript) -> String {
  match s {
    Subscript::All => ":".to_string(),
    Subscript::Formula(f) => sx_factor(f),
    Subscript::Range(r) => sx_range(r),
    other => format!("sub?{:?}", std::mem::discriminant(other)),
  }
}

fn sx_sel(s: &Subscript) -> String {
  match s {
    Subscript::Bracket(v) => format!("(br {})", v.iter().map(sx_sub).collect::<Vec<_>>().join(" ")),
    Subscript::Brace(v) => format!("(bc {})", v.iter().map(sx_sub).collect::<Vec<_>>().join(" ")),
    Subscript::Dot(id) => format!("(dot {})", id.to_string()),
    Subscript::DotInt(n) => format!("(doti {})", toks(n.tokens())),
    Subscript::Swizzle(ids) => format!("(swz {})", ids.iter().map(|i| i.to_string()).collect::<Vec<_>>().join(" ")),
    other => format!("sel?{:?}", std::mem::discriminant(other)),
  }
}

/// the chain of subscripts after a name, in source order
fn sx_subs(subs: &Vec<Subscript>) -> String { subs.iter().map(sx_sel).collect::<Vec<_>>().join(" ") }

fn sx_expr(e: &Expression) -> String {
  match e {
    Expression::Formula(f) => sx_factor(f),
    Expression::Range(r) => sx_range(r),
    Expression::Var(v) => if v.kind.is_some() { format!("var?{}", v.name.to_string()) } else { v.name.to_string() },
    Expression::Literal(l) => toks(l.tokens()),
    Expression::FunctionCall(c) => {
      let args: Vec<String> = c.args.iter().map(|(n, e)| match n { Some(n) => format!("(named {} {})", n.to_string(), sx_expr(e)), None => sx_expr(e) }).collect();
      if args.is_empty() { format!("(call {})", c.name.to_string()) } else { format!("(call {} {})", c.name.to_string(), args.join(" ")) }
    }
    Expression::Slice(s) => format!("(slice {} {})", s.name.to_string(), sx_subs(&s.subscript)),
    Expression::Structure(Structure::Matrix(m)) => {
      let rows: Vec<String> = m.rows.iter().map(|r| format!("(row {})", r.columns.iter().map(|c| sx_expr(&c.element)).collect::<Vec<_>>().join(" "))).collect();
      if rows.is_empty() { "(mat)".to_string() } else { format!("(mat {})", rows.join(" ")) }
    }
    Expression::Structure(Structure::Tuple(t)) => if t.elements.is_empty() { "(tup)".to_string() } else { format!("(tup {})", t.elements.iter().map(sx_expr).collect::<Vec<_>>().join(" ")) },
    Expression::Structure(Structure::Set(s)) => if s.elements.is_empty() { "(set)".to_string() } else { format!("(set {})", s.elements.iter().map(sx_expr).collect::<Vec<_>>().join(" ")) },
    Expression::Structure(Structure::Empty) => "(set)".to_string(),
    Expression::Structure(Structure::Record(r)) => format!("(rec {})", r.bindings.iter().map(|b| format!("(bind {} {} {})", b.name.to_string(),
      match &b.kind { Some(k) => toks(k.tokens()), None => "-".to_string() }, sx_expr(&b.value))).collect::<Vec<_>>().join(" ")),
    Expression::Structure(Structure::Table(t)) => format!("(tbl {} {})",
      t.header.0.iter().map(|f| format!("(fld {} {})", f.name.to_string(), match &f.kind { Some(k) => toks(k.tokens()), None => "-".to_string() })).collect::<Vec<_>>().join(" "),
      t.rows.iter().map(|r| format!("(row {})", r.columns.iter().map(|c| sx_expr(&c.element)).collect::<Vec<_>>().join(" "))).collect::<Vec<_>>().join(" ")),
    Expression::Structure(Structure::Map(m)) => if m.elements.is_empty() { "(map)".to_string() } else { format!("(map {})", m.elements.iter().map(|e| format!("(kv {} {})", sx_expr(&e.key), sx_expr(&e.value))).collect::<Vec<_>>().join(" ")) },
    other => format!("expr?{:?}", std::mem::discriminant(other)),
  }
}

fn sx_target(t: &SliceRef) -> String {
  match &t.subscript { None => format!("{} []", t.name.to_string()), Some(s) => format!("{} [{}]", t.name.to_string(), sx_subs(s)) }
}

fn sx_stmt(c: &MechCode) -> String {
  match c {
    MechCode::Statement(Statement::VariableDefine(d)) => {
      let kind = match &d.var.kind { Some(k) => toks(k.tokens()), None => "-".to_string() };
      format!("(def {} {} {} {})", if d.mutable { 1 } else { 0 }, d.var.name.to_string(), kind, sx_expr(&d.expression))
    }
    MechCode::Statement(Statement::VariableAssign(a)) => format!("(asg {} {})", sx_target(&a.target), sx_expr(&a.expression)),
    MechCode::Statement(Statement::OpAssign(a)) => {
      let k = match a.op { OpAssignOp::Add => 0, OpAssignOp::Sub => 1, OpAssignOp::Mul => 2, OpAssignOp::Div => 3, OpAssignOp::Exp => 4, _ => 9 };
      format!("(opa {} {} {})", k, sx_target(&a.target), sx_expr(&a.expression))
    }
    MechCode::Expression(e) => format!("(expr {})", sx_expr(e)),
    other => format!("code?{:?}", std::mem::discriminant(other)),
  }
}

/// the whole program: one s-expression per statement
pub fn tree_of(src: &str) -> String {
  let t = match parse_code(src) { Ok(t) => t, Err(e) => return format!("noparse:{}", e) };
  let mut out: Vec<String> = vec![];
  for s in &t.body.sections { for el in &s.elements {
    match el {
      SectionElement::MechCode(codes) => { for (c, _) in codes { out.push(sx_stmt(c)); } }
      _ => out.push("prose?".to_string()),
    }
  }}
  out.join(" ")
}

// ---- generator ---------------------------------------------------------------------------------------

/// `sp_ctx`: the expression being written is an element of a matrix row or a cell of a table row (what follows it is a
/// space): no table literal at its top level, the real parser would read what follows as another row.
/// `last_open`: the operand just written ends with a table literal: the next operator is not the subtraction sign.
struct G<'a> { rng: &'a mut Rng, toks: Vec<String>, text: String, sink: &'a mut Sink, sp_ctx: bool, last_open: bool }

const NAMES: &[&str] = &["a", "b", "c", "x", "y", "zz", "q1"];
const FUNS: &[&str] = &["f", "g", "math/sin", "h2"];
const LITS: &[&str] = &["1", "2", "3", "10", "5", "42", "7"];
const KINDS: &[&str] = &["u8", "f64", "[u8]", "[f64]:2,2", "string", "{u8}"];

impl<'a> G<'a> {
  fn put(&mut self, tok: &str, text: &str) { self.toks.push(tok.to_string()); self.text.push_str(text); }

  fn factor(&mut self, depth: u32) {
    let sp = self.sp_ctx;
    self.factor_in(depth);
    self.sp_ctx = sp;
  }

  fn factor_in(&mut self, depth: u32) {
    let sp = self.sp_ctx;
    self.last_open = false;
    // prefix operators
    let pre = self.rng.below(10);
    if pre == 0 { self.put("neg", "-"); self.sink.hit("syntax:neg"); self.factor(depth); return; }
    if pre == 1 { self.put("not", "!"); self.sink.hit("syntax:not"); self.factor(depth); return; }
    let choice = if depth == 0 { self.rng.below(2) } else { self.rng.below(if sp { 15 } else { 16 }) };
    self.sp_ctx = false;
    let mut open = false;
    match choice {
      0 => { let l = *self.rng.pick(LITS); self.put(&format!("L{}", l), l); }
      1 | 2 | 3 => { let n = *self.rng.pick(NAMES); self.put(&format!("I{}", n), n); }
      4 => { // call
        let f = *self.rng.pick(FUNS); self.put(&format!("I{}", f), f); self.put("(", "(");
        let n = self.rng.below(4);
        for i in 0..n {
          if i > 0 { self.put(",", ", "); }
          if self.rng.chance(1, 3) { let a = *self.rng.pick(NAMES); self.put(&format!("I{}", a), a); self.put(":", ": "); self.sink.hit("syntax:named-argument"); }
          self.expr(depth - 1);
        }
        self.put(")", ")"); self.sink.hit("syntax:call"); }
      5 | 6 => { // matrix
        self.put("[", "[");
        let rows = self.rng.below(4);
        for r in 0..rows { if r > 0 { self.put(";", "; "); } let cols = 1 + self.rng.below(3); for c in 0..cols { if c > 0 { self.put("_", " "); } self.sp_ctx = true; self.expr(depth - 1); self.sp_ctx = false; } }
        self.put("]", "]"); self.sink.hit("syntax:matrix"); }
      7 => { // tuple: none, or two and more elements, or a single range
        self.put("(", "(");
        match self.rng.below(4) { 0 => {}, 1 => { self.range(depth - 1); }, _ => { let n = 2 + self.rng.below(2); for i in 0..n { if i > 0 { self.put(",", ", "); } self.expr(depth - 1); } } }
        self.put(")", ")"); self.sink.hit("syntax:tuple"); }
      8 => { // set
        self.put("{", "{"); let n = self.rng.below(4); for i in 0..n { if i > 0 { self.put(",", ", "); } self.expr(depth - 1); }
        self.put("}", "}"); self.sink.hit("syntax:set"); }
      9 | 10 => { // subscripted name
        let n = *self.rng.pick(NAMES); self.put(&format!("I{}", n), n); self.sels(depth - 1); self.sink.hit("syntax:slice"); }
      11 => { self.put("(", "("); self.formula(depth - 1); self.put(")", ")"); self.sink.hit("syntax:paren"); }
      12 => { // record: bindings, some with a kind annotation
        self.put("{", "{"); let n = 1 + self.rng.below(3);
        for i in 0..n {
          if i > 0 { self.put(",", ", "); }
          let a = *self.rng.pick(NAMES); self.put(&format!("I{}", a), a);
          if self.rng.chance(1, 3) { let k = *self.rng.pick(KINDS); self.put(&format!("K{}", hexs(k)), &format!("<{}>", k)); }
          self.put(":", ": "); self.expr(depth - 1);
        }
        self.put("}", "}"); self.sink.hit("syntax:record"); }
      15 => { // table literal: fields with kinds, one to three rows; rows of other lengths now and then
        self.put("|", "|"); let cols = 1 + self.rng.below(3);
        for c in 0..cols { if c > 0 { self.put("_", " "); } let a = *self.rng.pick(NAMES); self.put(&format!("I{}", a), a); let k = *self.rng.pick(KINDS); self.put(&format!("K{}", hexs(k)), &format!("<{}>", k)); }
        self.put("|", "|");
        let rows = 1 + self.rng.below(3);
        for _ in 0..rows {
          self.text.push(' ');
          let n = if self.rng.chance(1, 6) { 1 + self.rng.below(3) } else { cols };
          for c in 0..n { if c > 0 { self.put("_", " "); } self.sp_ctx = true; self.expr(depth - 1); self.sp_ctx = false; }
          self.put("|", " |");
        }
        open = true; self.sink.hit("syntax:table"); }
      _ => { // map: the empty map, or keys that are literals, names or any expression (all keys bare names: a record)
        self.put("{", "{"); let n = self.rng.below(4);
        if n == 0 { self.put(":", ":"); self.sink.hit("syntax:map-empty"); }
        for i in 0..n {
          if i > 0 { self.put(",", ", "); }
          match self.rng.below(5) { 0 | 1 | 2 => { let l = *self.rng.pick(LITS); self.put(&format!("L{}", l), l); }, 3 => { let a = *self.rng.pick(NAMES); self.put(&format!("I{}", a), a); }, _ => { self.expr(depth - 1); } }
          self.put(":", ": "); self.expr(depth - 1);
        }
        self.put("}", "}"); self.sink.hit("syntax:map"); }
    }
    if self.rng.chance(1, 10) { self.put("tr", "'"); self.sink.hit("syntax:transpose"); open = false; }
    self.last_open = open;
  }

  fn subs(&mut self, depth: u32, open: &str, close: &str) {
    self.put(open, open);
    let n = 1 + self.rng.below(2);
    for i in 0..n { if i > 0 { self.put(",", ", "); } if self.rng.chance(1, 3) { self.put(":", ":"); } else { self.expr(depth); } }
    self.put(close, close);
  }

  /// one to three subscripts after a name: brackets, braces, field access by name or number, swizzles
  fn sels(&mut self, depth: u32) {
    let n = 1 + self.rng.below(6) / 3 + self.rng.below(6) / 5;
    if n > 1 { self.sink.hit("syntax:chained-subscripts"); }
    for _ in 0..n {
      match self.rng.below(8) {
        0 | 1 | 2 => { self.subs(depth, "[", "]"); self.sink.hit("syntax:bracket-subscript"); }
        3 => { self.subs(depth, "{", "}"); self.sink.hit("syntax:brace-subscript"); }
        4 | 5 => { let f = *self.rng.pick(NAMES); self.put(".", "."); self.put(&format!("I{}", f), f); self.sink.hit("syntax:dot"); }
        6 => { let l = *self.rng.pick(LITS); self.put(".", "."); self.put(&format!("L{}", l), l); self.sink.hit("syntax:dot-int"); }
        _ => { let f = *self.rng.pick(NAMES); self.put(".", "."); self.put(&format!("I{}", f), f);
               let k = 1 + self.rng.below(2); for _ in 0..k { let f = *self.rng.pick(NAMES); self.put("swz", ","); self.put(&format!("I{}", f), f); }
               self.sink.hit("syntax:swizzle"); }
      }
    }
  }

  fn formula(&mut self, depth: u32) {
    self.factor(depth);
    let n = self.rng.below(3);
    for _ in 0..n {
      let mut op = *self.rng.pick(&["add", "sub", "mul", "div", "pow", "lt", "eq", "and", "or", "mod"]);
      if self.last_open && op == "sub" { op = "add"; }
      let sym = crate::c02::BINOPS.iter().find(|b| b.1 == op).unwrap().0;
      self.put(op, &format!(" {} ", sym));
      self.factor(depth);
    }
  }

  fn range(&mut self, depth: u32) {
    self.formula(depth);
    let i = self.rng.chance(1, 2); self.put(if i { "..=" } else { ".." }, if i { "..=" } else { ".." });
    self.formula(depth);
    if self.rng.chance(1, 3) { let i = self.rng.chance(1, 2); self.put(if i { "..=" } else { ".." }, if i { "..=" } else { ".." }); self.formula(depth); self.sink.hit("syntax:range3"); } else { self.sink.hit("syntax:range"); }
  }

  fn expr(&mut self, depth: u32) { if self.rng.chance(1, 6) { self.range(depth); } else { self.formula(depth); } }

  fn stmt(&mut self) {
    match self.rng.below(5) {
      0 | 1 => {
        if self.rng.chance(1, 3) { self.put("~", "~"); }
        let n = *self.rng.pick(NAMES); self.put(&format!("I{}", n), n);
        if self.rng.chance(1, 3) { let k = *self.rng.pick(KINDS); self.put(&format!("K{}", hexs(k)), &format!("<{}>", k)); }
        self.put(":=", " := "); self.sink.hit("syntax:define");
      }
      2 | 3 => {
        let n = *self.rng.pick(NAMES); self.put(&format!("I{}", n), n);
        if self.rng.chance(1, 2) { self.sels(1); }
        self.put("=", " = "); self.sink.hit("syntax:assign");
      }
      _ => {
        let n = *self.rng.pick(NAMES); self.put(&format!("I{}", n), n);
        if self.rng.chance(1, 2) { self.sels(1); }
        let k = self.rng.below(5) as usize; self.put(&format!("A{}", k), &format!(" {} ", OPA[k])); self.sink.hit("syntax:op-assign");
      }
    }
    let d = 1 + self.rng.below(3) as u32;
    self.expr(d);
  }
}

pub fn generate(seed: u64, count: usize, sink: &mut Sink) -> Vec<String> {
  let mut rng = Rng::new(seed ^ 0x5717A);
  let mut out = vec![];
  for _ in 0..count {
    let mut g = G { rng: &mut rng, toks: vec![], text: String::new(), sink, sp_ctx: false, last_open: false };
    let n = 1 + g.rng.below(3);
    for i in 0..n { if i > 0 { g.put("NL", "\n"); } g.stmt(); }
    let (toks, text) = (g.toks.join(" "), g.text.clone());
    out.push(format!("fmt\tsyntax\t{}\t{}", hexs(&text), toks));
  }
  out
}
