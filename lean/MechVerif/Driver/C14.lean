import MechVerif.Driver.Value
import MechVerif.Lemmas.SetElem
namespace MechVerif.Driver.S14
open MechVerif.Num MechVerif.SetM

/-- split at a separator outside (), {} -/
def splitTop (sep : Char) (cs : List Char) : List (List Char) :=
  let rec go (cs : List Char) (depth : Nat) (cur : List Char) (acc : List (List Char)) : List (List Char) :=
    match cs with
    | [] => (cur.reverse :: acc).reverse
    | c :: rest =>
      if c == sep && depth == 0 then go rest depth [] (cur.reverse :: acc)
      else
        let depth' := if c == '(' || c == '{' then depth + 1 else if c == ')' || c == '}' then depth - 1 else depth
        go rest depth' (c :: cur) acc
  go cs 0 [] []

def parseAtom14 (t : String) : Option Atom :=
  match t.splitOn ":" with
  | ["f64", h] => some (.f64 (UInt64.ofNat (parseHex h)))
  | ["r64", q] =>
    (match q.splitOn "/" with
     | [n, d] => (match n.toInt?, d.toInt? with
        | some n, some d =>
          if d == 0 then none else
          let g : Int := (Int.gcd n d : Nat)
          some (if d < 0 then .rat (-(n / g)) (-(d / g)) else .rat (n / g) (d / g))
        | _, _ => none)
     | _ => none)
  | ["string", h] => (unhexBytes h).map (fun b => .str b.toList)
  | ["bool", "true"] => some (.bool true)
  | ["bool", "false"] => some (.bool false)
  | [k, v] => (match IKind.ofName k, v.toInt? with | some k, some v => some (.int k v) | _, _ => none)
  | _ => none

def atomText (a : Atom) : String :=
  match a with
  | .f64 b => "f64:" ++ hexFixed b.toNat 16
  | .int k v => k.name ++ ":" ++ toString v
  | .rat n d => s!"r64:{n}/{d}"
  | .str s => "string:" ++ hexOfBytes (ByteArray.mk s.toArray)
  | .bool b => "bool:" ++ (if b then "true" else "false")

def akindText : AKind → String
  | .f64 => "f64" | .int k => k.name | .rat => "r64" | .str => "string" | .bool => "bool"

def sortStrings (l : List String) : List String := (l.toArray.qsort (· < ·)).toList

def innerSetText (A : List Atom) : String :=
  let k := match A.head? with | some a => akindText a.kind | none => "_"
  s!"set:{k}:n{A.length}:" ++ "{" ++ "|".intercalate (sortStrings (A.map atomText)) ++ "}"

def elemText : Elem → String
  | .atom a => atomText a
  | .tup t => "tup:(" ++ ";".intercalate (t.map atomText) ++ ")"
  | .set A => innerSetText A

def ekindText : Elem → String
  | .atom a => akindText a.kind
  | .tup t => "(" ++ ",".intercalate (t.map (fun a => akindText a.kind)) ++ ")"
  | .set A => "{" ++ (match A.head? with | some a => akindText a.kind | none => "_") ++ "}" ++ (if A.length > 0 then s!":{A.length}" else "")

def setText (S : List Elem) : String :=
  let k := match S.head? with | some e => ekindText e | none => "_"
  s!"set:{k}:n{S.length}:" ++ "{" ++ "|".intercalate (sortStrings (S.map elemText)) ++ "}"

/-- case-line element → value (inner sets are built by insertion, as the literal is) -/
def parseElemCase (cs : List Char) : Option VElem :=
  let t := String.ofList cs
  if t.startsWith "tup:(" then
    let inner := (cs.drop 5).dropLast
    ((splitTop ';' inner).mapM (fun a => parseAtom14 (String.ofList a))).map mkTup
  else if t.startsWith "S(" then
    let inner := (cs.drop 2).dropLast
    if inner.isEmpty then some (mkInner []) else
    ((splitTop ';' inner).mapM (fun a => parseAtom14 (String.ofList a))).map mkInner
  else (parseAtom14 t).map mkAtom

def parseListCase (s : String) : Option (List VElem) :=
  if s == "-" then some [] else (splitTop ',' s.toList).mapM parseElemCase

/-- observed canonical text → elements (for the specification check) -/
def parseElemObs (cs : List Char) : Option Elem :=
  let t := String.ofList cs
  if t.startsWith "tup:(" then
    let inner := (cs.drop 5).dropLast
    ((splitTop ';' inner).mapM (fun a => parseAtom14 (String.ofList a))).map .tup
  else if t.startsWith "set:" then
    -- set:<kind>:n<k>:{a|b}
    match t.splitOn ":{" with
    | [_, body] =>
      let inner := body.toList.dropLast
      if inner.isEmpty then some (.set []) else
      ((splitTop '|' inner).mapM (fun a => parseAtom14 (String.ofList a))).map .set
    | _ => none
  else (parseAtom14 t).map .atom

structure SetObs where
  kind : String
  n : Nat
  elems : List Elem

/-- `set:<kind>:n<k>:{…}` at the top level: the kind text may contain braces and colons -/
def parseSetObs (s : String) : Option SetObs :=
  if !s.startsWith "set:" then none else
  let cs := (s.drop 4).toString.toList
  -- the body is the last top-level {...}; find ":n<digits>:{" scanning from the left at depth 0
  let rec find (pre : List Char) (rest : List Char) (depth : Nat) (fuel : Nat) : Option (List Char × List Char) :=
    match fuel, rest with
    | 0, _ => none
    | _, [] => none
    | fuel + 1, c :: r =>
      if depth == 0 && c == ':' && r.head? == some 'n' then
        let digits := (r.drop 1).takeWhile Char.isDigit
        let after := (r.drop 1).drop digits.length
        if !digits.isEmpty && after.take 2 == [':', '{'] then some (pre.reverse, r) else find (c :: pre) r depth fuel
      else
        let depth' := if c == '(' || c == '{' then depth + 1 else if c == ')' || c == '}' then depth - 1 else depth
        find (c :: pre) r depth' fuel
  match find [] cs 0 (cs.length + 1) with
  | none => none
  | some (kind, r) =>
    let digits := (r.drop 1).takeWhile Char.isDigit
    let body := (((r.drop 1).drop digits.length).drop 2).dropLast
    let elems := if body.isEmpty then some [] else (splitTop '|' body).mapM parseElemObs
    elems.map (fun es => ⟨String.ofList kind, (String.ofList digits).toNat!, es⟩)

/-- an arbitrary "hash" of what an element feeds the hasher (any function will do: the
    theorems hold for every `g`) -/
def gHash : Atom → Nat
  | .f64 b => 5 * b.toNat + 1
  | .int k v => 7 * (2 * v.natAbs + (if v < 0 then 1 else 0)) + k.bits
  | .rat n d => 11 * (2 * n.natAbs + (if n < 0 then 1 else 0)) + 13 * d.natAbs
  | .str s => s.foldl (fun acc c => acc * 257 + c.toNat + 1) 3
  | .bool b => if b then 17 else 19

abbrev veq := VElem.eq
abbrev vkey := VElem.key gHash

def vals (l : List VElem) : List Elem := l.map (·.val)

/-! mathematical reference on canonicalised values -/
def memRef (S : List Elem) (x : Elem) : Bool := S.any (fun y => Elem.eq x y)
def subsetRef (A B : List Elem) : Bool := A.all (memRef B)
def sameSet (A B : List Elem) : Bool := subsetRef A B && subsetRef B A
def distinctRef : List Elem → Bool
  | [] => true
  | x :: t => !(t.any (fun y => Elem.eq x y || Elem.eq y x)) && distinctRef t

def fOf (e : Elem) : Float := match e with | .atom (.f64 b) => Float.ofBits b | _ => 0.0
def fElem (x : Float) : VElem := mkAtom (.f64 x.toBits)
def cmpF (c : String) (x y : Float) : Bool :=
  if c == ">" then x > y else if c == "<" then x < y else if c == "!=" then x != y else if c == "==" then x == y
  else if c == ">=" then x >= y else x <= y
def arithF (o : String) (x y : Float) : Float := if o == "+" then x + y else if o == "*" then x * y else x - y
def tupParts (e : Elem) : Option (Atom × Atom) := match e with | .tup [a, b] => some (a, b) | _ => none

inductive Expect where
  | set (members : List Elem) (uniform : Bool)   -- the mathematical result; `uniform`: operands of one kind
  | bool (b : Bool)
  | size (n : Nat)
  | error

def kindsUniform (l : List Elem) : Bool :=
  match l with | [] => true | x :: t => t.all (fun y => ekindText y == ekindText x)

def dedupRef (l : List Elem) : List Elem := l.foldl (fun acc x => if memRef acc x then acc else acc ++ [x]) []

def runC14 (fields : List String) (obs : String) : String × String × String :=
  let bad := ("bad-case", "bad-case", "-")
  let finish (model : String) (exp : Expect) (mixed : Bool) : String × String × String :=
    let verdict : String :=
      match exp with
      | .error => if obs == "err" then "ok" else "bad:expected an error"
      | .bool b => if obs == "bool:" ++ (if b then "true" else "false") then "ok" else s!"bad:expected bool:{b}"
      | .size n => if obs == s!"u64:{n}" then "ok" else s!"bad:expected u64:{n}"
      | .set members uniform =>
        if !uniform && obs == "err" then "ok" else
        match parseSetObs obs with
        | none => "bad:expected a set"
        | some so =>
          if so.n != so.elems.length then "bad:reported size differs from the number of elements"
          else if !distinctRef so.elems then "bad:two equal elements"
          else if !sameSet so.elems members then "bad:elements differ from the mathematical result " ++ setText (dedupRef members)
          else if !(so.elems.all (fun e => ekindText e == so.kind) || (so.elems.isEmpty && so.kind == "_")) then "bad:elements are not all of the set's kind"
          else "ok"
    let region := if verdict == "ok" then "-" else if mixed then "C14-D2" else "-"
    (model, verdict, region)
  match fields with
  | [_, "lit", _, a] =>
    (match parseListCase a with
     | some A =>
       let model := match literal veq vkey VElem.kind A with | some S => setText (vals S) | none => "err"
       finish model (if kindsUniform (vals A) then .set (vals A) true else .error) false
     | none => bad)
  | [_, "size", _, a] =>
    (match parseListCase a with
     | some A =>
       (match literal veq vkey VElem.kind A with
        | some S => finish s!"u64:{size S}" (.size (dedupRef (vals A)).length) false
        | none => bad)
     | none => bad)
  | [_, op, _, a, b] =>
    if op == "elem" || op == "notelem" then
      match parseElemCase a.toList, parseListCase b with
      | some x, some B =>
        (match literal veq vkey VElem.kind B with
         | none => ("err", (if obs == "err" then "ok" else "bad:expected an error"), "-")
         | some S =>
           let r := elementOf veq vkey VElem.kind x S
           let r := if op == "elem" then r else !r
           let m := memRef (vals B) x.val
           finish ("bool:" ++ (if r then "true" else "false")) (.bool (if op == "elem" then m else !m)) false)
      | _, _ => bad
    else if op == "c2" || op == "c4" then
      match parseListCase a, parseListCase b with
      | some A, some B =>
        (match literal veq vkey VElem.kind A, literal veq vkey VElem.kind B with
         | some SA, some SB =>
           let envs := SA.flatMap (fun x => SB.map (fun y => (x, y)))
           if op == "c2" then
             let yield (e : VElem × VElem) : VElem := match e.1.val, e.2.val with | .atom p, .atom q => mkTup [p, q] | _, _ => e.1
             let S := comprehension veq vkey envs (fun _ => true) yield
             finish (setText (vals S)) (.set (envs.map (fun e => (yield e).val)) true) false
           else
             let keep (e : VElem × VElem) : Bool := match tupParts e.1.val, tupParts e.2.val with | some (_, q), some (q', _) => Atom.eq q q' | _, _ => false
             let yield (e : VElem × VElem) : VElem := match tupParts e.1.val, tupParts e.2.val with | some (p, _), some (_, r) => mkTup [p, r] | _, _ => e.1
             let S := comprehension veq vkey envs keep yield
             finish (setText (vals S)) (.set ((envs.filter keep).map (fun e => (yield e).val)) true) false
         | _, _ => bad)
      | _, _ => bad
    else
    match parseListCase a, parseListCase b with
    | some A, some B =>
      (match literal veq vkey VElem.kind A, literal veq vkey VElem.kind B with
       | some SA, some SB =>
         let ea := vals A; let eb := vals B
         let uniform := kindsUniform (ea ++ eb)
         let setR (S : List VElem) (members : List Elem) := finish (setText (vals S)) (.set members uniform) (!uniform)
         let boolR (r : Bool) (m : Bool) := finish ("bool:" ++ (if r then "true" else "false")) (.bool m) false
         if op == "union" then setR (union veq vkey SA SB) (ea ++ eb)
         else if op == "inter" then setR (inter veq vkey SA SB) (ea.filter (memRef eb))
         else if op == "diff" then setR (diff veq vkey SA SB) (ea.filter (fun x => !memRef eb x))
         else if op == "symdiff" then setR (symdiff veq vkey SA SB) (ea.filter (fun x => !memRef eb x) ++ eb.filter (fun x => !memRef ea x))
         else if op == "subset" then boolR (isSubset veq vkey SA SB) (subsetRef ea eb)
         else if op == "superset" then boolR (isSuperset veq vkey SA SB) (subsetRef eb ea)
         else if op == "psubset" then boolR (properSubset veq vkey SA SB) (subsetRef ea eb && !subsetRef eb ea)
         else if op == "psuperset" then boolR (properSuperset veq vkey SA SB) (subsetRef eb ea && !subsetRef ea eb)
         else bad
       | _, _ => ("err", (if obs == "err" then "ok" else "bad:expected an error"), "-"))
    | _, _ => bad
  | [_, "frommat", _, _kind, _r, _c, data] =>
    (match parseListCase data with
     | some A => let S := fromList veq vkey A; finish (setText (vals S)) (.set (vals A) true) false
     | none => bad)
  | [_, "c1", _, a, o, d, c, k] =>
    (match parseListCase a, d.toInt?, k.toInt? with
     | some A, some d, some k =>
       (match literal veq vkey VElem.kind A with
        | some SA =>
          let keep (y : VElem) : Bool := cmpF c (fOf y.val) (Float.ofInt k)
          let yield (y : VElem) : VElem := fElem (arithF o (fOf y.val) (Float.ofInt d))
          let S := comprehension veq vkey SA keep yield
          finish (setText (vals S)) (.set ((SA.filter keep).map (fun y => (yield y).val)) true) false
        | none => bad)
     | _, _, _ => bad)
  | [_, "c3", _, a, b, c] =>
    (match parseListCase a, parseListCase b with
     | some A, some B =>
       (match literal veq vkey VElem.kind A, literal veq vkey VElem.kind B with
        | some SA, some SB =>
          let envs := SA.flatMap (fun x => SB.map (fun y => (x, y)))
          let keep (e : VElem × VElem) : Bool := cmpF c (fOf e.1.val) (fOf e.2.val)
          let yield (e : VElem × VElem) : VElem := fElem (fOf e.1.val + fOf e.2.val)
          let S := comprehension veq vkey envs keep yield
          finish (setText (vals S)) (.set ((envs.filter keep).map (fun e => (yield e).val)) true) false
        | _, _ => bad)
     | _, _ => bad)
  | _ => bad

end MechVerif.Driver.S14
