//! C04: indexed assignment. Case: `assign <kind> <M|r|c|data> <sel1> <sel2|-> <op> <source operand> <srckind>`
//! op ∈ set add sub mul div; observation = `<ok|err>#<variable afterwards>`.
use crate::common::*;
use crate::interp::*;
use crate::c01::{operand_def, gen_operand, gen_elem};
use crate::c03::{sel_src, gen_sel, SEL_CLASSES, SHAPES};
use mech_interpreter::*;

/// (definitions, the assignment statement)
/// definitions and statement of one assignment to `m`. `mode` = `<source>[/<selectors>]`: the source is the
/// bare variable (`var`), a temporary value `v + zero` (`tmp`) or written in place (`lit`); the selectors are
/// written in place unless the letters after `/` (one per selector: `l` in place, `v` a variable, `m` a mutable
/// variable) say otherwise; `:` is always written in place
fn stmt_parts(s1: &str, s2: &str, op: &str, src: &str, srck: &str, mode: &str, suffix: &str) -> (String, String) {
  let (srcmode, selforms) = match mode.split_once('/') { Some((a, b)) => (a, b), None => (mode, "") };
  let forms: Vec<char> = selforms.chars().collect();
  let vname = format!("v{}", suffix); let zname = format!("z{}", suffix);
  let mut defs = String::new();
  let inline = if srcmode == "lit" { crate::c01::operand_inline(srck, src) } else { None };
  let srcexpr = match inline {
    Some(t) => t,
    None => {
      defs.push_str(&operand_def(&vname, srck, src, false));
      // (a source that cannot be written in place is the temporary value it replaces)
      if srcmode == "var" { vname.clone() } else {
        let zero = match srck { "bool" => "true".to_string(), "string" => "\"\"".to_string(), "r64" => "0/1".to_string(), "c64" => "0+0i".to_string(), "f64" | "f32" => "0.0".to_string(), _ => "0".to_string() };
        let annot_needed = !(srck == "f64" || srck == "r64" || srck == "c64" || srck == "bool" || srck == "string");
        defs.push_str(&format!("{}{} := {}\n", zname, if annot_needed { format!("<{}>", srck) } else { String::new() }, zero));
        if srck == "bool" { format!("{} && {}", vname, zname) } else { format!("{} + {}", vname, zname) } } } };
  let mut sel = |name: String, s: &str, i: usize| -> String {
    let c = forms.get(i).copied().unwrap_or('l');
    if c == 'l' || s == "a" { return sel_src(s); }
    defs.push_str(&format!("{}{} := {}\n", if c == 'm' { "~" } else { "" }, name, sel_src(s)));
    name };
  let target = if s2 == "-" { format!("m[{}]", sel(format!("ia{}", suffix), s1, 0)) } else { let a = sel(format!("ia{}", suffix), s1, 0); let b = sel(format!("ib{}", suffix), s2, 1); format!("m[{},{}]", a, b) };
  let opsym = match op { "set" => "=", "add" => "+=", "sub" => "-=", "mul" => "*=", "div" => "/=", _ => "=" };
  (defs, format!("{} {} {}", target, opsym, srcexpr))
}

pub fn sources(case: &str) -> (String, String) {
  let f: Vec<&str> = case.split('\t').collect();
  let def = operand_def("m", f[1], f[2], true);
  let (defs, stmt) = stmt_parts(f[3], f[4], f[5], f[6], f[7], if f.len() > 8 { f[8] } else { "tmp" }, "");
  (format!("{}{}", def, defs), stmt)
}

/// `aseq <kind> <matrix> (<sel1> <sel2|-> <op> <source> <srckind> <mode>)+`: several assignments to the same
/// variable, one statement per interpret() call; observation `<ok|err>#<m afterwards>` per step, joined by `@`
fn exec_seq(f: &Vec<&str>) -> String {
  let def = operand_def("m", f[1], f[2], true);
  let mut intrp = Interpreter::new(0);
  let t1 = match parse_code(&def) { Ok(t) => t, Err(e) => return format!("harness:{}:{}", e, hexs(&def)) };
  match std::panic::catch_unwind(std::panic::AssertUnwindSafe(|| intrp.interpret(&t1))) { Ok(Ok(_)) => {}, _ => return format!("harness:defs-failed:{}", hexs(&def)) }
  let mut out = vec![];
  for (i, st) in f[3..].chunks(6).enumerate() {
    let (s1, s2, op, src, srck, mode) = (st[0], st[1], st[2], st[3], st[4], st[5]);
    let (defs, stmt) = stmt_parts(s1, s2, op, src, srck, mode, &i.to_string());
    let td = match parse_code(&defs) { Ok(t) => t, Err(e) => return format!("harness:{}:{}", e, hexs(&defs)) };
    match std::panic::catch_unwind(std::panic::AssertUnwindSafe(|| intrp.interpret(&td))) { Ok(Ok(_)) => {}, _ => return format!("harness:defs-failed:{}", hexs(&defs)) }
    let ts = match parse_code(&stmt) { Ok(t) => t, Err(e) => return format!("harness:{}:{}", e, hexs(&stmt)) };
    let status = match std::panic::catch_unwind(std::panic::AssertUnwindSafe(|| intrp.interpret(&ts))) { Ok(Ok(_)) => "ok", Ok(Err(_)) => "err", Err(_) => return "hostpanic".into() };
    let t3 = parse_code("m").unwrap();
    let after = match std::panic::catch_unwind(std::panic::AssertUnwindSafe(|| intrp.interpret(&t3))) { Ok(Ok(v)) => canon(&v), _ => "unreadable".to_string() };
    out.push(format!("{}#{}", status, after));
  }
  out.join("@")
}

pub fn exec(case: &str) -> String {
  let f: Vec<&str> = case.split('\t').collect();
  if f[0] == "aseq" { return exec_seq(&f); }
  let (prog, stmt) = sources(case);
  let t1 = match parse_code(&prog) { Ok(t) => t, Err(e) => return format!("harness:{}:{}", e, hexs(&prog)) };
  let t2 = match parse_code(&stmt) { Ok(t) => t, Err(e) => return format!("harness:{}:{}", e, hexs(&stmt)) };
  let mut intrp = Interpreter::new(0);
  match std::panic::catch_unwind(std::panic::AssertUnwindSafe(|| intrp.interpret(&t1))) {
    Ok(Ok(_)) => {}
    _ => return format!("harness:defs-failed:{}", hexs(&prog)),
  }
  let status = match std::panic::catch_unwind(std::panic::AssertUnwindSafe(|| intrp.interpret(&t2))) {
    Ok(Ok(_)) => "ok", Ok(Err(_)) => "err", Err(_) => return "hostpanic".into() };
  let t3 = parse_code("m").unwrap();
  let after = match std::panic::catch_unwind(std::panic::AssertUnwindSafe(|| intrp.interpret(&t3))) {
    Ok(Ok(v)) => canon(&v), _ => "unreadable".to_string() };
  format!("{}#{}", status, after)
}

pub const A_CLASSES: &[&str] = &["s", "vr", "vc", "g", "a", "br", "bc"];

fn naddr_of(s1: &str, n: usize) -> usize {
  match s1.split(':').next().unwrap() {
    "s" => 1, "a" => n,
    "g" => { let p: Vec<&str> = s1.split(':').collect(); (p[2].parse::<i64>().unwrap() - p[1].parse::<i64>().unwrap() + 1).max(0) as usize }
    "vr" | "vc" => s1.split(':').nth(1).unwrap().split(' ').count(),
    _ => s1.split(':').nth(1).unwrap().split(' ').filter(|x| *x == "true").count(),
  }
}

/// index vectors for assignment: distinct indices (the property speaks of distinct linear indices)
fn gen_sel_distinct(class: &str, n: usize, bad: &str, rng: &mut Rng) -> String {
  if class == "vr" || class == "vc" {
    let mut pool: Vec<i64> = (1..=n as i64).collect();
    for i in (1..pool.len()).rev() { let j = rng.below(i as u64 + 1) as usize; pool.swap(i, j); }
    let len = (2 + rng.below(2) as usize).min(n).max(1);
    let mut v: Vec<i64> = pool[..len].to_vec();
    if v.len() < 2 { return "skip".to_string(); }   // extent 1: no duplicate-free 2-element vector exists
    match bad { "zero" => { v[1] = 0; } "over" => { v[1] = n as i64 + 1; } _ => {} }
    format!("{}:{}", class, v.iter().map(|x| x.to_string()).collect::<Vec<_>>().join(" "))
  } else { gen_sel(class, n, bad, rng) }
}

pub const NUM_KINDS: &[&str] = &["f64", "u8", "i32", "r64", "f32", "u64", "i8", "c64", "u16", "u32", "u128", "i16", "i64", "i128"];
pub const ALL_KINDS: &[&str] = &["f64", "u8", "bool", "string", "i32", "r64", "f32", "u64", "i8", "c64", "u16", "u32", "u128", "i16", "i64", "i128"];

fn form_name(rows: usize, cols: usize) -> &'static str {
  if rows == 1 && cols == 1 { "MD1" } else if rows == 1 { "RD" } else if cols == 1 { "VD" } else { "MD" }
}

/// the support table: `form|op|src|mode|c1|c2|kind status` (status: ok, unsupported, deviant),
/// produced by tools/assign_table.py from an exhaustive exploration of the pinned commit
pub fn table() -> std::collections::HashMap<String, String> {
  let mut t = std::collections::HashMap::new();
  for l in include_str!("c04_cells.txt").lines() {
    if let Some((k, v)) = l.split_once(' ') { t.insert(k.to_string(), v.to_string()); }
  }
  t
}

/// `x /= 0/1` on rationals stores the invalid value n/0 before failing (finding C04-D9,
/// recorded witness in corpus/C04.extra.cases); random cases avoid rational zero divisors
fn nonzero_src(kind: &str, op: &str, o: String) -> String {
  if kind == "r64" && op == "div" { o.replace("0/1", "1/3") } else { o }
}

/// one case for a cell. variant: "ok" (in range), or an error-path flavour
fn make_case(rows: usize, cols: usize, op: &str, srcform: &str, srcmode: &str, c1: &str, c2: &str, kind: &str,
             variant: &str, label: &str, rng: &mut Rng) -> Option<String> {
  let numel = rows * cols;
  let m = gen_operand(kind, rows, cols, false, rng, 0);
  if c2 == "-" {
    let bad = match variant { "ok" | "vec-short" | "vec-long" | "wrongkind" => "ok", v => v };
    if c1 == "g" && bad == "zero" { return None; }
    if (bad == "short" || bad == "long") && !c1.starts_with('b') { return None; }
    if ["zero", "over"].contains(&bad) && (c1.starts_with('b') || c1 == "a") { return None; }
    let s1 = gen_sel_distinct(c1, numel, bad, rng);
    if s1 == "skip" { return None; }
    let naddr = naddr_of(&s1, numel);
    if c1 == "g" && naddr < 2 { return None; }
    let (srck, src) = if variant == "wrongkind" {
      let k2 = if kind == "string" { "f64" } else { "string" };
      (k2, gen_operand(k2, 1, 1, true, rng, 1))
    } else if srcform == "S" { (kind, nonzero_src(kind, op, gen_operand(kind, 1, 1, true, rng, 1))) } else {
      let n = match variant { "vec-short" => naddr.saturating_sub(1), "vec-long" => naddr + 1, _ => naddr };
      if n < 2 { return None; }
      (kind, nonzero_src(kind, op, if rng.chance(1, 2) { gen_operand(kind, 1, n, false, rng, 1) } else { gen_operand(kind, n, 1, false, rng, 1) }))
    };
    Some(format!("assign\t{}\t{}\t{}\t-\t{}\t{}\t{}\t{}\t{}", kind, m, s1, op, src, srck, srcmode, label))
  } else {
    let (b1, b2) = match variant {
      "ok" => ("ok", "ok"),
      "bad1" => (if c1.starts_with('b') { *rng.pick(&["short", "long"]) } else if c1 == "a" { return None } else { *rng.pick(&["zero", "over"]) }, "ok"),
      "bad2" => ("ok", if c2.starts_with('b') { *rng.pick(&["short", "long"]) } else if c2 == "a" { return None } else { *rng.pick(&["zero", "over"]) }),
      _ => return None,
    };
    let b1 = if c1 == "g" && b1 == "zero" { "over" } else { b1 };
    let b2 = if c2 == "g" && b2 == "zero" { "over" } else { b2 };
    let s1 = gen_sel_distinct(c1, rows, b1, rng);
    let s2 = gen_sel_distinct(c2, cols, b2, rng);
    if s1 == "skip" || s2 == "skip" { return None; }
    if (c1 == "g" && naddr_of(&s1, rows) < 2) || (c2 == "g" && naddr_of(&s2, cols) < 2) { return None; }
    let src = gen_operand(kind, 1, 1, true, rng, 1);
    Some(format!("assign\t{}\t{}\t{}\t{}\t{}\t{}\t{}\t{}\t{}", kind, m, s1, s2, op, src, kind, srcmode, label))
  }
}

pub fn generate(seed: u64, thorough: bool, sink: &mut Sink) -> Vec<String> {
  let mut rng = Rng::new(seed);
  let mut cases = vec![];
  let explore = std::env::var("C04_EXPLORE").is_ok();
  let tab = if explore { std::collections::HashMap::new() } else { table() };
  for (rows, cols, sname) in SHAPES {
    let form = form_name(*rows, *cols);
    for op in ["set", "add", "sub", "mul", "div"] {
      for srcmode in ["tmp", "var"] {
        let kinds: &[&str] = if op == "set" { ALL_KINDS } else { NUM_KINDS };
        for c1 in A_CLASSES {
          let mut c2s: Vec<&str> = vec!["-"]; c2s.extend(A_CLASSES.iter());
          for c2 in c2s {
            for srcform in ["S", "V"] {
              if srcform == "V" && c2 != "-" { continue; }
              if srcform == "V" && *c1 == "s" { continue; }
              for kind in kinds {
                let key = format!("{}|{}|{}|{}|{}|{}|{}", form, op, srcform, srcmode, c1, c2, kind);
                if explore {
                  if let Some(c) = make_case(*rows, *cols, op, srcform, srcmode, c1, c2, kind, "ok", "explore", &mut rng) { cases.push(c); }
                  continue;
                }
                let status = tab.get(&key).map(|s| s.as_str()).unwrap_or("unknown");
                match status {
                  "ok" => {
                    // quick: a third of the (cell, kind) pairs per run, rotating with the seed; thorough: all, twice
                    if !thorough && !rng.chance(1, 3) { continue; }
                    for _ in 0..(if thorough { 2 } else { 1 }) {
                      if let Some(c) = make_case(*rows, *cols, op, srcform, srcmode, c1, c2, kind, "ok", "ok", &mut rng) { cases.push(c); sink.hit(&format!("ok-cell:{}:{}:{}", sname, op, if c2 == "-" { "1d" } else { "2d" })); }
                    }
                    // error paths of a supported cell
                    let variants: &[&str] = if c2 == "-" { &["over", "zero", "short", "long", "vec-short", "vec-long", "wrongkind"] } else { &["bad1", "bad2"] };
                    for v in variants {
                      if !thorough && !rng.chance(1, 3) { continue; }
                      if (*v == "vec-short" || *v == "vec-long") && srcform != "V" { continue; }
                      if let Some(c) = make_case(*rows, *cols, op, srcform, srcmode, c1, c2, kind, v, "ok", &mut rng) { cases.push(c); sink.hit(&format!("errpath:{}:{}", op, v)); }
                    }
                  }
                  "unsupported" => {
                    if !rng.chance(1, if thorough { 2 } else { 12 }) { continue; }
                    if let Some(c) = make_case(*rows, *cols, op, srcform, srcmode, c1, c2, kind, "ok", "unsupported", &mut rng) { cases.push(c); sink.hit(&format!("unsupported-cell:{}:{}", sname, op)); }
                  }
                  _ => { sink.hit(&format!("not-generated:{}", status)); }
                }
              }
            }
          }
        }
      }
    }
  }
  // a whole row or a whole column assigned from a vector (x[i,:] = v, x[:,j] = v): the source a row or a column
  // vector, of exactly the addressed length or one more or less, through a temporary or a bare variable
  if !explore {
    for _ in 0..(if thorough { 3000 } else { 300 }) {
      let (rows, cols) = *rng.pick(&[(2usize, 3usize), (3, 2), (3, 3), (2, 4), (4, 3)]);
      let kind = *rng.pick(&["f64", "f64", "string", "bool", "u8", "i32", "f32", "r64", "u64"]);
      let m = gen_operand(kind, rows, cols, false, &mut rng, 0);
      let row_form = rng.chance(1, 2);
      let (s1, s2, n) = if row_form { (format!("s:{}", 1 + rng.below(rows as u64)), "a".to_string(), cols) } else { ("a".to_string(), format!("s:{}", 1 + rng.below(cols as u64)), rows) };
      let len = match rng.below(6) { 0 => n + 1, 1 => n.saturating_sub(1).max(1), _ => n };
      if len < 2 { continue; }
      let src = if rng.chance(1, 2) { gen_operand(kind, 1, len, false, &mut rng, 1) } else { gen_operand(kind, len, 1, false, &mut rng, 1) };
      let mode = if rng.chance(1, 3) { "var" } else { "tmp" };
      cases.push(format!("assign\t{}\t{}\t{}\t{}\tset\t{}\t{}\t{}\trowcol", kind, m, s1, s2, src, kind, mode));
      sink.hit(if len == n { "rowcol:fits" } else { "rowcol:wrong-length" });
    }
  }
  // whole rows from a matrix source: x[ix,:] op= M (M one row per addressed row); ix an index vector (distinct, any
  // order) or a range; the source of exactly the addressed shape.  The i-th addressed cell (column by column) takes the i-th source element (update2v).
  if !explore {
    for _ in 0..(if thorough { 4000 } else { 500 }) {
      let (rows, cols) = *rng.pick(&[(3usize, 2usize), (4, 2), (2, 3), (3, 3), (2, 4), (4, 3), (5, 2)]);
      let kind = *rng.pick(&["f64", "f64", "f64", "u8", "i32", "f32", "u64", "i64"]);
      let m = gen_operand(kind, rows, cols, false, &mut rng, 0);
      let pick_ix = |n: usize, rng: &mut Rng| -> (String, usize) {
        if rng.chance(1, 3) { let a = 1 + rng.below(n as u64) as usize; let b = a + rng.below((n - a + 1) as u64) as usize; (format!("g:{}:{}", a, b), b - a + 1) }
        else {
          let mut all: Vec<usize> = (1..=n).collect();
          for i in (1..all.len()).rev() { let j = rng.below((i + 1) as u64) as usize; all.swap(i, j); }
          let k = 1 + rng.below(n as u64) as usize;
          (format!("vr:{}", all[..k].iter().map(|x| x.to_string()).collect::<Vec<_>>().join(" ")), k)
        }
      };
      // (x[:,jx] = M and x[ix,jx] = M are not generated: at the pinned commit the first reads the source column
      // modulo the source's row count and the second reads the source row by row; matrix sources through two
      // selectors are outside what the property states, so neither is judged)
      let form = rng.below(2);
      let (s1, s2, sr, sc, op) = { let (ix, k) = pick_ix(rows, &mut rng); (ix, "a".to_string(), k, cols, *rng.pick(&["set", "add", "sub", "mul", "mul", "div"])) };
      if sr * sc < 2 || sr < 2 && form < 2 { continue; }
      if op == "div" && kind != "f64" && kind != "f32" { continue; }
      let src = gen_operand(kind, sr, sc, false, &mut rng, 1);
      let mode = if rng.chance(1, 3) { "var" } else { "tmp" };
      cases.push(format!("assign\t{}\t{}\t{}\t{}\t{}\t{}\t{}\t{}\trowcol", kind, m, s1, s2, op, src, kind, mode));
      sink.hit(&format!("matrix-source:{}:{}", ["rows-all", "rows-all", "all-cols", "rows-cols"][form as usize], op));
    }
  }
  // sequences of two to four assignments to the same variable, each a supported cell of that storage form and kind
  if !explore {
    let nseq = if thorough { 4000 } else { 400 };
    for _ in 0..nseq {
      let (rows, cols, _) = *rng.pick(SHAPES);
      let form = form_name(rows, cols);
      let kind = *rng.pick(NUM_KINDS);
      let len = 2 + rng.below(3) as usize;
      let mut steps: Vec<String> = vec![]; let mut first: Option<String> = None;
      let mut tries = 0;
      while steps.len() < len && tries < 60 {
        tries += 1;
        let op = *rng.pick(&["set", "set", "add", "sub", "mul"]);
        let srcmode = *rng.pick(&["tmp", "var"]);
        let c1 = *rng.pick(A_CLASSES);
        let c2 = if rng.chance(1, 2) { "-" } else { *rng.pick(A_CLASSES) };
        let srcform = if c2 == "-" && c1 != "s" && rng.chance(1, 2) { "V" } else { "S" };
        let key = format!("{}|{}|{}|{}|{}|{}|{}", form, op, srcform, srcmode, c1, c2, kind);
        if tab.get(&key).map(|s| s.as_str()) != Some("ok") { continue; }
        if let Some(c) = make_case(rows, cols, op, srcform, srcmode, c1, c2, kind, "ok", "ok", &mut rng) {
          let f: Vec<&str> = c.split('\t').collect();
          if first.is_none() { first = Some(f[2].to_string()); }
          steps.push(f[3..9].join("\t"));
        }
      }
      if steps.len() >= 2 { cases.push(format!("aseq\t{}\t{}\t{}", kind, first.unwrap(), steps.join("\t"))); sink.hit(&format!("sequence:{}", steps.len())); }
    }
  }
  // how the operands are written: a third of the supported single assignments name their selectors first
  // (immutable or mutable variables), and a temporary source is sometimes written in place instead
  if !explore {
    let mut frng = Rng::new(seed ^ 0xa551);
    for c in cases.iter_mut() {
      let f: Vec<String> = c.split('\t').map(|x| x.to_string()).collect();
      if f[0] != "assign" || f.len() < 10 || f[9] != "ok" { continue; }
      let mut mode = f[8].clone();
      if mode == "tmp" && frng.chance(1, 4) { mode = "lit".to_string(); }
      if frng.chance(1, 3) { let forms: String = (0..2).map(|_| *frng.pick(&['l', 'v', 'v', 'm'])).collect(); mode = format!("{}/{}", mode, forms); }
      if mode != f[8] { sink.hit(&format!("operands:{}", mode)); let mut g = f.clone(); g[8] = mode; *c = g.join("\t"); }
    }
  }
  if !cases.is_empty() { sink.sample(cases[0].clone()); sink.sample(cases[cases.len() / 2].clone()); }
  cases
}
