import MechVerif.Model.KernelIR
import MechVerif.Lemmas.Broadcast
namespace MechVerif.KernelIR
open MechVerif.Num MechVerif.Mat

variable {α β : Type}

/-- the operands a family is dispatched for -/
def famOk (k : Kernel) (a b : Operand α) : Prop :=
  match k, a, b with
  | .ss, .scalar _, .scalar _ => True
  | .sm, .scalar _, .mat _ => True
  | .ms, .mat _, .scalar _ => True
  | .zip, .mat _, .mat _ | .matCol, .mat _, .mat _ | .colMat, .mat _, .mat _
  | .matRow, .mat _, .mat _ | .rowMat, .mat _, .mat _ => True
  | _, _, _ => False

theorem dispatch_famOk (a b : Operand α) (k : Kernel) (h : dispatch a b = .ok k) : famOk k a b := by
  cases a with
  | scalar x =>
    cases b with
    | scalar y => simp [dispatch] at h; subst h; trivial
    | mat n => simp [dispatch] at h; subst h; trivial
  | mat m =>
    cases b with
    | scalar y => simp [dispatch] at h; subst h; trivial
    | mat n =>
      rcases dispatch_mat m n k h with ⟨h1, _⟩ | ⟨h1, _⟩ | ⟨h1, _⟩ | ⟨h1, _⟩ | ⟨h1, _⟩ <;> subst h1 <;> trivial

/-- an access that can only fail as an index error -/
def IdxErr (x : Except Err α) : Prop := ∀ e, x = .error e → e = .index

theorem idxErr_ok (v : α) : IdxErr (.ok v : Except Err α) := by intro e h; cases h

theorem idxErr_getE (l : List α) (k : Nat) : IdxErr (getE l k) := by
  intro e h
  unfold getE at h
  cases hk : l[k]? with
  | none => rw [hk] at h; cases h; rfl
  | some y => rw [hk] at h; cases h

/-- two accesses that fail alike may be read in either order -/
theorem bindE_swap {γ : Type} (X Y : Except Err α) (hX : IdxErr X) (hY : IdxErr Y) (g : α → α → Except Err γ) :
    bindE Y (fun v => bindE X (fun u => g u v)) = bindE X (fun u => bindE Y (fun v => g u v)) := by
  cases X with
  | ok x => cases Y <;> rfl
  | error e1 =>
    cases Y with
    | ok y => rfl
    | error e2 =>
      have h1 := hX e1 rfl
      have h2 := hY e2 rfl
      subst h1; subst h2; rfl

theorem irOk_cases (k : Kernel) (comm : Bool) (ir : IR) (h : irOk k comm ir = true) :
    loopOk k ir.loop = true ∧
    ((ir.a = (expected k).a ∧ ir.b = (expected k).b) ∨
     (comm = true ∧ ir.a = (expected k).b ∧ ir.b = (expected k).a)) := by
  unfold irOk at h
  simp only [Bool.and_eq_true, Bool.or_eq_true, decide_eq_true_eq] at h
  exact ⟨h.1, h.2.elim Or.inl (fun h2 => Or.inr ⟨h2.1, h2.2⟩)⟩

theorem lhsAt_idxErr (k : Kernel) (a : Operand α) (R i : Nat) : IdxErr (lhsAt k a R i) := by
  cases a with
  | scalar x => cases k <;> exact idxErr_ok x
  | mat m => cases k <;> exact idxErr_getE _ _

theorem rhsAt_idxErr (k : Kernel) (b : Operand α) (R i : Nat) : IdxErr (rhsAt k b R i) := by
  cases b with
  | scalar x => cases k <;> exact idxErr_ok x
  | mat m => cases k <;> exact idxErr_getE _ _

/-- the two accesses of the expected kernel of a family are the operand addressing of `Model/Mat` -/
theorem expected_acc (k : Kernel) (l : LoopK) (hl : loopOk k l = true) (a b : Operand α) (hf : famOk k a b)
    (R i : Nat) :
    accAt l (expected k).a.2 (pick (expected k).a.1 a b) R i = lhsAt k a R i ∧
    accAt l (expected k).b.2 (pick (expected k).b.1 a b) R i = rhsAt k b R i := by
  cases k <;> cases a <;> cases b <;> simp only [famOk] at hf <;>
    cases l <;> simp [loopOk, expected] at hl <;>
    (try subst hl) <;>
    simp [expected, pick, accAt, lhsAt, rhsAt]

/-- one output element of an accepted kernel is the element `Model/Mat` computes -/
theorem irCell_eq (k : Kernel) (comm : Bool) (ir : IR) (f : α → α → Except Err β)
    (hcomm : comm = true → ∀ x y, f x y = f y x) (hok : irOk k comm ir = true)
    (a b : Operand α) (hf : famOk k a b) (R i : Nat) :
    irCell ir f a b R i = bindE (lhsAt k a R i) (fun u => bindE (rhsAt k b R i) (f u)) := by
  obtain ⟨hl, hab⟩ := irOk_cases k comm ir hok
  obtain ⟨hA, hB⟩ := expected_acc k ir.loop hl a b hf R i
  rcases hab with ⟨ha, hb⟩ | ⟨hc, ha, hb⟩
  · unfold irCell; rw [ha, hb, hA, hB]
  · unfold irCell; rw [ha, hb, hA, hB]
    have hfc := hcomm hc
    have : (fun u => bindE (lhsAt k a R i) (f u)) = (fun v => bindE (lhsAt k a R i) (fun u => f u v)) := by
      funext v; congr 1; funext u; exact hfc v u
    rw [this]
    exact bindE_swap (lhsAt k a R i) (rhsAt k b R i) (lhsAt_idxErr k a R i) (rhsAt_idxErr k b R i) f

/-- **Soundness of the extracted table.**  If every family's extracted kernel is accepted, evaluating
    with the extracted kernels is evaluating with `evalBinop` — so everything proved about `evalBinop`
    (broadcast shape, per-element value, rejection, acceptance) holds for the kernels as written. -/
theorem evalBinopIR_eq (tbl : Kernel → IR) (comm : Bool) (f : α → α → Except Err β)
    (hcomm : comm = true → ∀ x y, f x y = f y x) (hok : ∀ k, irOk k comm (tbl k) = true)
    (a b : Operand α) : evalBinopIR tbl f a b = evalBinop f a b := by
  unfold evalBinopIR evalBinop
  cases hd : dispatch a b with
  | error e => rfl
  | ok k =>
    have hf := dispatch_famOk a b k hd
    cases k with
    | ss =>
      cases a with
      | scalar x =>
        cases b with
        | scalar y =>
          simp only
          rw [irCell_eq .ss comm (tbl .ss) f hcomm (hok .ss) _ _ hf 1 0]
          rfl
        | mat n => simp [famOk] at hf
      | mat m => cases b <;> simp [famOk] at hf
    | _ =>
      all_goals (
        simp only [cellwise]
        congr 1
        congr 1
        funext i
        exact irCell_eq _ comm _ f hcomm (hok _) a b hf _ i)

end MechVerif.KernelIR
