#!/usr/bin/env python3
"""Regenerates MANIFEST.json from tools/props.py (CONFIG) so it is always valid."""
import json, os, sys
sys.path.insert(0, os.path.dirname(os.path.abspath(__file__)))
import props
ROOT = os.path.dirname(os.path.dirname(os.path.abspath(__file__)))
ALL = ["C%02d" % i for i in range(1, 21)]
checks = []
for pid in ALL:
    c = props.CONFIG.get(pid)
    if not c or not c.get("claimed", True): continue
    checks.append({
        "property_id": pid,
        "quick_cmd": "./check %s --tier quick" % pid,
        "thorough_cmd": "./check %s --tier thorough" % pid,
        "evidence_file": "/verif/evidence/%s.json" % pid,
        "replay_cmd_template": "./check %s --replay {path}" % pid,
        "engine": c.get("engine", "core"),
        "level_claimed": {"category": "proof", "text": c["level_text"], "design_ref": "DESIGN.md §5 " + pid},
        "level_note": c["level_note"],
        "technique": c.get("technique", "Lean 4 theorems over a hand-written model + differential correspondence with the real code"),
    })
na = [{"property_id": pid, "reason": props.NOT_CLAIMED.get(pid, "check not built yet in this round; model and theorems planned in DESIGN.md §5")}
      for pid in ALL if pid not in [c["property_id"] for c in checks]]
m = {
 "version": 1,
 "setup_cmd": "./setup.sh",
 "hooks": {"guard": "mech_verif", "enable": "no hooks are needed: every observation goes through public APIs; checks build /repo unchanged via path dependencies",
           "baseline_off_cmd": "cd /repo && cargo test --workspace --no-fail-fast --offline", "source_commits": [], "add_only": True},
 "engines": [
  {"name": "lean", "path": "lean", "serves_properties": [c["property_id"] for c in checks], "kind_free_text": "Lean 4 project MechVerif: Model/ Spec/ Lemmas/ Props/ and the line-protocol driver mvdriver"},
  {"name": "harness", "path": "harness", "serves_properties": [c["property_id"] for c in checks], "kind_free_text": "Rust crate mvh linking the real mech crates (path deps on /repo); generates cases and records implementation observations"},
 ],
 "checks": checks,
 "not_applicable": na,
 "notes": "All checks: ./check Cnn --tier quick|thorough [--seed N]; VERIF_SEED / VERIF_TIER honoured. See DESIGN.md.",
}
json.dump(m, open(os.path.join(ROOT, "MANIFEST.json"), "w"), indent=1)
print("MANIFEST.json:", len(checks), "checks,", len(na), "not claimed")
