#!/usr/bin/env python3
"""Regenerates lean/MechVerif/Gen/AccessKernels.lean from src/interpreter/src/stdlib/access/matrix.rs:
every `access_*` kernel macro is read (aliases, mask length checks, the loop nest around the statement that
writes the output, the coordinates handed to `source.index(…)`) and written as a value of
`MechVerif.AccessIR.AIR`.  The generated file ends in a `decide` proof that every kernel is accepted
(`airOk`): coordinates computed as the model reads them (`- 1` on index arguments, loops over the right
extent, masks compared with the dimension they index), the column loop outside the row loop, the output
filled in sequence.  A body the reader does not recognise makes `generate` return (False, reason)."""
import os, re, sys
sys.path.insert(0, os.path.dirname(os.path.abspath(__file__)))
from extract_kernels import macro_bodies, TOK, Unrecognised

KERNELS = ["access_1d", "access_2d", "access_1d_slice", "access_1d_slice_bool", "access_1d_slice_bool_v",
           "access_2d_row_slice_bool", "access_2d_col_slice_bool", "access_2d_slice", "access_2d_slice_bool",
           "access_2d_slice_bool2", "access_2d_slice_bool_bool", "access_2d_slice_all", "access_2d_slice_all_bool",
           "access_2d_row_slice", "access_2d_col_slice", "access_col", "access_row", "access_1d_all"]

def tokens(body):
    body = re.sub(r'//[^\n]*', '', body)
    toks = TOK.findall(body)
    if '=>' not in toks: raise Unrecognised("no `=>` in macro")
    head, toks = toks[:toks.index('=>')], toks[toks.index('=>') + 1:]
    params = [t for t in head if t.startswith('$')]
    ren = {}
    ixs = [p for p in params if p.startswith('$ix')]
    for n, p in enumerate(ixs): ren[p] = 'I%d' % n
    ren['$source'] = 'S'; ren['$out'] = 'O'
    res = []
    for t in toks:
        if t.startswith('$'):
            if t not in ren: raise Unrecognised("unknown macro variable " + t)
            t = ren[t]
        if t in ('unsafe', 'mut'): continue
        prev = res[-1] if res else None
        operand_before = prev is not None and ((re.match(r'^\w+$', prev) is not None and prev not in ('in', 'let', 'for', 'if', 'else', 'true', 'false')) or prev in (']', ')'))
        if t == '*' and not operand_before: continue
        if t == '&': continue
        res.append(t)
    changed = True
    while changed:
        changed = False
        for i in range(len(res) - 2):
            if res[i] == '(' and res[i + 2] == ')' and re.match(r'^[A-Za-z_]\w*$', res[i + 1]) and (i == 0 or not re.match(r'^\w+$', res[i - 1]) or res[i - 1] in ('in', '=', 'if')):
                res[i:i + 3] = [res[i + 1]]; changed = True; break
    return res

def parse(t):
    # a simpler recursive parser that keeps the `if` conditions
    def block(i):
        out = []
        while i < len(t):
            x = t[i]
            if x == '}': return out, i + 1
            if x == ';': i += 1; continue
            if x == '{':
                body, i = block(i + 1); out.extend(body); continue
            if x == 'for':
                j = t.index('{', i); head = t[i + 1:j]
                if len(head) < 5 or head[1] != 'in' or head[2] != '0' or head[3] != '..': raise Unrecognised("loop header: " + ' '.join(head))
                body, i = block(j + 1); out.append(('for', head[0], head[4:], body)); continue
            if x == 'if':
                j = t.index('{', i); cond = t[i + 1:j]
                body, i = block(j + 1); out.append(('if', cond, body)); continue
            j, d = i, 0
            while j < len(t) and not (t[j] in (';', '}') and d == 0):
                d += (t[j] in ('(', '[', '{')) - (t[j] in (')', ']', '}'))
                j += 1
            out.append(('stmt', t[i:j])); i = j + (1 if j < len(t) and t[j] == ';' else 0)
        return out, i
    return block(0)[0]

def read_kernel(body):
    t = tokens(body)
    prog = parse(t)
    alias = {}
    def subst(ts):
        for _ in range(4):
            new = []
            for x in ts: new.extend(alias.get(x, [x]))
            if new == ts: break
            ts = new
        # ( NAME ) -> NAME again after substitution
        return ts
    guards = {}      # arg -> dim
    writes = []      # (path, target tokens, rhs tokens, following statements in the same block)
    counters = {}
    def walk(stmts, path):
        for k, s in enumerate(stmts):
            if s[0] == 'stmt':
                ts = s[1]
                if ts[:1] == ['let'] and len(ts) >= 4 and ts[2] == '=':
                    rhs = ts[3:]
                    if rhs == ['0']: counters[ts[1]] = True
                    else: alias[ts[1]] = subst(rhs)
                    continue
                if len(ts) == 3 and ts[1] == '=' and ts[2] == '0': counters[ts[0]] = True; continue
                if ts[0] == 'O' and '=' in ts and ('index' in ts):
                    e = ts.index('=')
                    writes.append((list(path), ts[:e], subst(ts[e + 1:]), stmts[k + 1:]))
            elif s[0] == 'for':
                walk(s[3], path + [('for', s[1], subst(s[2]))])
            else:
                cond = subst(s[1])
                if any(x[0] == 'stmt' and 'panic' in x[1] for x in s[2]):
                    for part in ' '.join(cond).split(' || '):
                        m = re.match(r'^(I\d) \. len \( \) != S \. (nrows|ncols|len) \( \)$', part.strip())
                        if not m: raise Unrecognised("length check: " + part)
                        guards[int(m.group(1)[1:])] = {'nrows': 'rows', 'ncols': 'cols', 'len': 'len'}[m.group(2)]
                else:
                    walk(s[2], path + [('if', cond)])
    walk(prog, [])
    if not writes: raise Unrecognised("no statement writes the output from source.index(…)")
    path, target, rhs, after = writes[-1]
    rs = ' '.join(rhs)
    m = re.match(r'^S \. index \( (.*) \) \. clone \( \)$', rs)
    if not m: raise Unrecognised("right-hand side: " + rs)
    inner = m.group(1).split(' ')
    # coordinates
    if inner[0] == '(' and inner[-1] == ')':
        d, cut = 0, None
        for k, x in enumerate(inner[1:-1], 1):
            d += (x in ('(', '[')) - (x in (')', ']'))
            if x == ',' and d == 0: cut = k
        if cut is None: coords = [inner[1:-1]]
        else: coords = [inner[1:cut], inner[cut + 1:-1]]
    else: coords = [inner]
    loops = [(p[1], p[2]) for p in path if p[0] == 'for']
    masks = {}       # loop var -> arg
    for p in path:
        if p[0] == 'if':
            for part in ' '.join(p[1]).split(' && '):
                mm = re.match(r'^(I\d) \[ (\w+) \] == true$', part.strip())
                if not mm: raise Unrecognised("condition: " + part)
                masks[mm.group(2)] = int(mm.group(1)[1:])
    def bound_of(var):
        for v, b in loops:
            if v == var:
                bs = ' '.join(b)
                mm = re.match(r'^(I\d) \. (len|nrows|ncols) \( \)$', bs)
                if mm: return "(.argLen %d)" % int(mm.group(1)[1:])
                mm = re.match(r'^S \. (nrows|ncols|len) \( \)$', bs)
                if mm: return "(.dim .%s)" % {'nrows': 'rows', 'ncols': 'cols', 'len': 'len'}[mm.group(1)]
                raise Unrecognised("loop bound: " + bs)
        raise Unrecognised("not a loop variable: " + var)
    used = []
    def axis(ts):
        s = ' '.join(ts)
        mm = re.match(r'^(I\d)( - 1)?$', s)
        if mm: return ".scalar %d %s" % (int(mm.group(1)[1:]), "true" if mm.group(2) else "false"), None
        mm = re.match(r'^(I\d) \[ (\w+) \]( - 1)?$', s)
        if mm:
            used.append(mm.group(2))
            return ".vec %d %s %s" % (int(mm.group(1)[1:]), "true" if mm.group(3) else "false", bound_of(mm.group(2))), mm.group(2)
        mm = re.match(r'^(\w+)$', s)
        if mm and any(v == s for v, _ in loops):
            used.append(s)
            if s in masks:
                a = masks[s]; g = guards.get(a)
                return ".mask %d %s %s" % (a, bound_of(s), "(some .%s)" % g if g else "none"), s
            return ".all %s" % bound_of(s), s
        raise Unrecognised("coordinate: " + s)
    if len(coords) == 1:
        col, cv = axis(coords[0]); row, rv = None, None
    else:
        row, rv = axis(coords[0]); col, cv = axis(coords[1])
    # a mask on a loop variable that is not a coordinate is not something this reader understands
    for v in masks:
        if v not in used: raise Unrecognised("mask on a variable that is no coordinate: " + v)
    for v, _ in loops:
        if v not in used: raise Unrecognised("loop variable that is no coordinate: " + v)
    order = [v for v, _ in loops]
    col_outer = True
    if rv is not None and cv is not None: col_outer = order.index(cv) < order.index(rv)
    # the output position
    tg = ' '.join(target)
    seq = False
    if tg == 'O' and not loops: seq = True
    else:
        mm = re.match(r'^O \[ (\w+) \]$', tg)
        if mm:
            v = mm.group(1)
            if len(loops) == 1 and v == loops[0][0] and v not in masks: seq = True
            elif v in counters and after and after[0][0] == 'stmt' and after[0][1] == [v, '+', '=', '1'] or (v in counters and after and after[0][0] == 'stmt' and ' '.join(after[0][1]) in ("%s += 1" % v, "%s + = 1" % v)): seq = True
    return row, col, col_outer, seq

def extract(repo="/repo"):
    text = open(os.path.join(repo, "src/interpreter/src/stdlib/access/matrix.rs"), newline='').read().replace('\r\n', '\n')
    bodies = macro_bodies(text)
    out = []
    for k in KERNELS:
        if k not in bodies: raise Unrecognised("macro %s not found" % k)
        try: out.append((k,) + read_kernel(bodies[k]))
        except (Unrecognised, ValueError, IndexError) as e: raise Unrecognised("%s: %s" % (k, e))
    return out

def generate(root, repo="/repo"):
    try: ks = extract(repo)
    except (Unrecognised, OSError) as e: return False, "C03 access-kernel extraction failed: %s" % e
    L = ["/- GENERATED by tools/extract_access.py from src/interpreter/src/stdlib/access/matrix.rs — do not edit. -/",
         "import MechVerif.Lemmas.AccessIR", "namespace MechVerif.Gen.AccessKernels", "open MechVerif.AccessIR", "",
         "/-- (kernel macro, what its body says) -/", "def kernels : List (String × AIR) :=", "  ["]
    L.append(",\n".join('   ("%s", ⟨%s, %s, %s, %s⟩)' % (k, "none" if row is None else "some (%s)" % row, col, "true" if co else "false", "true" if seq else "false")
                        for k, row, col, co, seq in ks) + "]")
    L += ["", "/-- every access kernel, as written, computes its coordinates the way the model reads them, runs the column loop",
          "    outside the row loop and fills its output in sequence -/",
          "theorem C03_access_kernels_as_written_ok : kernels.all (fun e => airOk e.2) = true := by decide",
          "", "end MechVerif.Gen.AccessKernels", ""]
    text = "\n".join(L)
    out = os.path.join(root, 'lean', 'MechVerif', 'Gen', 'AccessKernels.lean')
    old = open(out).read() if os.path.exists(out) else None
    if old != text: open(out, 'w').write(text)
    return True, "C03 access kernels extracted: %d macros" % len(ks)

if __name__ == '__main__':
    root = os.path.dirname(os.path.dirname(os.path.abspath(__file__)))
    if len(sys.argv) > 1 and sys.argv[1] == '--show':
        for x in extract(sys.argv[2] if len(sys.argv) > 2 else "/repo"): print(x)
    else: print(generate(root))
