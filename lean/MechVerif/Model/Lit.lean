/-
Numeric literals: the value functions of src/interpreter/src/literals.rs on the tokens
the grammar of src/syntax/src/literals.rs produces.  Decimal → binary conversion
(`str::parse::<f64>`, correctly rounded) is computed exactly here; only the
`mantissa * 10f64.powf(exponent)` of scientific literals uses hardware operations
(a parameter).
-/
import MechVerif.Model.Float
import MechVerif.Model.Num
namespace MechVerif.Lit
open MechVerif.FloatX MechVerif.Num

/-- Horner evaluation of a digit list, most significant digit first -/
def digitsVal (base : Nat) (ds : List Nat) : Nat := ds.foldl (fun acc d => acc * base + d) 0

/-- the positional value the digits spell -/
def denote (base : Nat) : List Nat → Nat
  | [] => 0
  | d :: ds => d * base ^ ds.length + denote base ds

/-- round N / (D·K) to the nearest integer, ties to even, from the quotient q = N / D, a sticky bit
    (is N / D exact?) and the low part of q -/
def roundHalfEven (N D K : Nat) : Nat :=
  let q := N / D
  let sticky := N % D ≠ 0
  let m := q / K
  let r := q % K
  let half := K / 2
  if r > half ∨ (r = half ∧ (sticky ∨ m % 2 = 1)) then m + 1 else m

/-- num/den scaled by a power of two so that the quotient has at least 55 significant bits:
    n2 / d2 = (num / den) · 2^shift -/
structure Scaled where
  n2 : Nat
  d2 : Nat
  shift : Int
deriving Repr

def scaleRat (num den : Nat) : Scaled :=
  let shift : Int := 55 + (bitLen den : Int) - (bitLen num : Int) + 1
  if shift ≥ 0 then ⟨num * 2 ^ shift.toNat, den, shift⟩ else ⟨num, den * 2 ^ (-shift).toNat, shift⟩

/-- the outcome of rounding a positive rational to binary64, before it is written as bits -/
inductive Rounded where
  | inf
  | tiny (up : Bool)                       -- below the smallest subnormal: 0 or 2^-1074
  | fin (m : Nat) (e2 : Int) (p : Nat)     -- mantissa m of (at most) p bits, e2 = exponent of the leading bit of the exact value;
                                           -- the value is m · 2^(e2 + 1 - p)
deriving Repr, DecidableEq

def ratRound (num den : Nat) : Rounded :=
  let sc := scaleRat num den
  let q := sc.n2 / sc.d2
  let lq := bitLen q
  let e2 : Int := (lq : Int) - 1 - sc.shift                    -- exponent of the leading bit
  if e2 > 1023 then .inf else
  -- number of mantissa bits available (53 for normal numbers, fewer for subnormals)
  let p : Int := if e2 ≥ -1022 then 53 else 53 - (-1022 - e2)
  if p ≤ 0 then
    -- below half of the smallest subnormal rounds to 0, above to the smallest subnormal
    .tiny (p == 0 && (q > 2 ^ (lq - 1) || sc.n2 % sc.d2 != 0))
  else
    let drop := lq - p.toNat                                     -- bits to discard (lq ≥ 55 > p)
    .fin (roundHalfEven sc.n2 sc.d2 (2 ^ drop)) e2 p.toNat

def encodeF64 : Rounded → UInt64
  | .inf => 0x7ff0000000000000
  | .tiny up => if up then 1 else 0
  | .fin m' e2 _ =>
    if e2 ≥ -1022 then
      let (m'', e3) := if m' == 2 ^ 53 then (2 ^ 52, e2 + 1) else (m', e2)
      if e3 > 1023 then 0x7ff0000000000000 else
      UInt64.ofNat ((e3 + 1023).toNat * 2 ^ 52 + (m'' - 2 ^ 52))
    else UInt64.ofNat m'      -- subnormal (a carry into 2^52 yields the smallest normal number by itself)

/-- correctly rounded (nearest, ties to even) binary64 of the positive rational num/den -/
def ratToF64 (num den : Nat) : UInt64 :=
  if num == 0 || den == 0 then 0 else encodeF64 (ratRound num den)

inductive Kindish where
  | int (k : IKind) | f32 | f64
deriving DecidableEq, Repr

inductive Spelling where
  | integer (ds : List Nat)                                   -- 123, 1_000
  | float (ip fp : List Nat)                                  -- 1.5, .5
  | scientific (ip fp : List Nat) (neg : Bool) (ex : List Nat) -- 1.5e-3
  | based (base : Nat) (ds : List Nat) (underscore : Bool)    -- 0xff, 0o17, 0b101, 0d99
  | typed (ds : List Nat) (k : Kindish)                       -- 255u8, 3f32
  | rational (n d : List Nat)                                 -- 1/2
deriving Repr

inductive LVal where
  | f64 (b : UInt64) | f32 (b : UInt32) | int (k : IKind) (v : Int) | rat (n d : Int)
  | cplx (re im : UInt64)
deriving DecidableEq, Repr

/-- a literal as it appears on the right of `x := …` or under a kind annotation -/
inductive Literal where
  | plain (s : Spelling)
  | neg (s : Spelling)                                                    -- -5, -0x10, -1/2
  | complex (negOuter : Bool) (re : Option Spelling) (minus : Bool) (im : Spelling)  -- 3+4i, 2.5j, -3+4i
  | annotated (k : Kindish) (neg : Bool) (s : Spelling)                   -- x<u8> := 300
deriving Repr

/-- hardware part of scientific literals -/
structure SciImpl where
  mulPow10 : UInt64 → Bool → UInt64 → UInt64     -- mantissa · 10^(±exponent) as the code computes it
  f64ToF32 : UInt64 → UInt32

def gcdNorm (n d : Int) : Int × Int :=
  let g : Int := (Int.gcd n d : Nat)
  if d < 0 then (-(n / g), -(d / g)) else (n / g, d / g)

inductive LErr where
  | panic | kind
deriving DecidableEq, Repr

def I64MAX : Nat := 2 ^ 63 - 1

def valueOf (si : SciImpl) : Spelling → Except LErr LVal
  | .integer ds => .ok (.f64 (ratToF64 (digitsVal 10 ds) 1))
  | .float ip fp => .ok (.f64 (ratToF64 (digitsVal 10 (ip ++ fp)) (10 ^ fp.length)))
  | .scientific ip fp neg ex =>
    .ok (.f64 (si.mulPow10 (ratToF64 (digitsVal 10 (ip ++ fp)) (10 ^ fp.length)) neg (ratToF64 (digitsVal 10 ex) 1)))
  | .based base ds us =>
    -- `from_str_radix` on the raw token: an underscore (kept by the 0x/0o/0b lexers, dropped by
    -- `digit_sequence` for 0d) or a value above i64::MAX is a panic
    if us && base != 10 then .error .panic else
    let v := digitsVal base ds
    if v > I64MAX then .error .panic else .ok (.int .i64 v)
  | .typed ds k =>
    let f := ratToF64 (digitsVal 10 ds) 1
    (match k with
     | .f64 => .ok (.f64 f)
     | .f32 => .ok (.f32 (si.f64ToF32 f))
     | .int ik => .ok (.int ik (floatToInt ik.lo ik.hi (decode64 f))))
  | .rational n d =>
    let nv := digitsVal 10 n
    let dv := digitsVal 10 d
    if nv > I64MAX || dv > I64MAX then .error .panic
    else if dv == 0 then .error .panic
    else let r := gcdNorm nv dv; .ok (.rat r.1 r.2)

def SIGN64 : UInt64 := 0x8000000000000000
def SIGN32 : UInt32 := 0x80000000

/-- prefix minus on a literal value (`-7u8` has no negate kernel: a kind error) -/
def negate : LVal → Except LErr LVal
  | .f64 b => .ok (.f64 (b ^^^ SIGN64))
  | .f32 b => .ok (.f32 (b ^^^ SIGN32))
  | .int k v => if k.signed then .ok (.int k (-v)) else .error .kind
  | .rat n d => .ok (.rat (-n) d)
  | .cplx re im => .ok (.cplx (re ^^^ SIGN64) (im ^^^ SIGN64))

def asF64 : LVal → Except LErr UInt64
  | .f64 b => .ok b
  | _ => .error .kind

/-- the value of a literal in context.  A complex literal is `re ± im·i` with both parts read
    as binary64; a prefix minus negates the whole literal that follows (so `-3+4i` is
    `-(3+4i)`); an annotation converts the binary64 value of the digits into the kind with the
    saturating conversion of the convert machine. -/
def evalLit (si : SciImpl) : Literal → Except LErr LVal
  | .plain s => valueOf si s
  | .neg s => (match valueOf si s with | .ok v => negate v | .error e => .error e)
  | .complex negOuter re minus im =>
    let reV : Except LErr UInt64 := match re with
      | none => .ok 0
      | some r => (match valueOf si r with | .ok v => asF64 v | .error e => .error e)
    (match reV, (match valueOf si im with | .ok v => asF64 v | .error e => .error e) with
     | .ok a, .ok b =>
       let b' := if minus then b ^^^ SIGN64 else b
       .ok (if negOuter then .cplx (a ^^^ SIGN64) (b' ^^^ SIGN64) else .cplx a b')
     | .error e, _ => .error e
     | _, .error e => .error e)
  | .annotated k neg s =>
    (match valueOf si s with
     | .error e => .error e
     | .ok v =>
       (match asF64 v with
        | .error e => .error e
        | .ok f =>
          let f' := if neg then f ^^^ SIGN64 else f
          (match k with
           | .f64 => .ok (.f64 f')
           | .f32 => .ok (.f32 (si.f64ToF32 f'))
           | .int ik => .ok (.int ik (floatToInt ik.lo ik.hi (decode64 f'))))))

end MechVerif.Lit
