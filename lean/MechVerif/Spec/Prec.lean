/-
The documented grouping (docs/design/specification.mec §6.1), stated outright: a tree
is the grouping of a flat formula iff its in-order traversal is that formula and at
every node every operator on the right binds strictly tighter than the node's operator
and every operator on the left binds at least as tight (left associativity, `^` included).
-/
import MechVerif.Model.Prec
namespace MechVerif.Prec

def Tree.ops {α : Type} (t : Tree α) : List Op := t.tail.map (·.1)

/-- the formatter's rendering of a formula tree (`term`/`factor` emitters): the first operand,
    then (operator, operand)* in source order -/
def fmt {α : Type} (t : Tree α) : α × Rest α := (t.first, t.tail)

def WellGrouped {α : Type} : Tree α → Prop
  | .leaf _ => True
  | .node l o r => (∀ x ∈ l.ops, o.lvl ≤ x.lvl) ∧ (∀ x ∈ r.ops, o.lvl < x.lvl) ∧ WellGrouped l ∧ WellGrouped r

/-- the specified levels, loosest first (level 1 = logic … level 7 = set operators) -/
def specLevels : List (Nat × String) :=
  [(1, "logic_operator"), (2, "comparison_operator"), (3, "add_sub_operator"),
   (4, "mul_div_operator|matrix_operator"), (5, "power_operator"), (6, "table_operator"), (7, "set_operator")]

end MechVerif.Prec
