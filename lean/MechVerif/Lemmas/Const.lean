import MechVerif.Model.Const
import MechVerif.Lemmas.Bytecode
namespace MechVerif.Const
open MechVerif.Bytecode
open MechVerif.Crc (Byte)

theorem pow256_even (w : Nat) (hw : 0 < w) : 256 ^ w = 2 * (256 ^ w / 2) := by
  obtain ⟨k, rfl⟩ : ∃ k, w = k + 1 := ⟨w - 1, by omega⟩
  have : 256 ^ (k + 1) = 2 * (128 * 256 ^ k) := by rw [Nat.pow_succ]; omega
  omega

theorem toTwos_lt (w : Nat) (v : Int) : toTwos w v < 256 ^ w := by
  unfold toTwos
  have hpos : (0 : Int) < ((256 ^ w : Nat) : Int) := by
    have : 0 < 256 ^ w := Nat.pow_pos (by omega)
    exact_mod_cast this
  have h1 := Int.emod_nonneg v (Int.ne_of_gt hpos)
  have h2 := Int.emod_lt_of_pos v hpos
  omega

theorem ofTwos_toTwos (w : Nat) (v : Int) (hw : 0 < w)
    (hlo : -((256 ^ w / 2 : Nat) : Int) ≤ v) (hhi : v < ((256 ^ w / 2 : Nat) : Int)) :
    ofTwos w (toTwos w v) = v := by
  have hev := pow256_even w hw
  have hM : ((256 ^ w : Nat) : Int) = 2 * ((256 ^ w / 2 : Nat) : Int) := by exact_mod_cast hev
  unfold ofTwos toTwos
  by_cases hv : 0 ≤ v
  · have hmod : v % ((256 ^ w : Nat) : Int) = v := Int.emod_eq_of_lt hv (by omega)
    rw [hmod]
    have : v.toNat < 256 ^ w / 2 := by omega
    rw [if_pos this]
    omega
  · have hmod : v % ((256 ^ w : Nat) : Int) = v + ((256 ^ w : Nat) : Int) := by
      have := Int.add_emod_right v ((256 ^ w : Nat) : Int)
      rw [← this]
      exact Int.emod_eq_of_lt (by omega) (by omega)
    rw [hmod]
    have : ¬ (v + ((256 ^ w : Nat) : Int)).toNat < 256 ^ w / 2 := by omega
    rw [if_neg this]
    omega

/-- Every scalar constant decodes to itself, whatever follows it in the buffer. -/
theorem decode_encode (v : CV) (h : v.wf) (rest : List Byte) :
    decode v.kind (encode v ++ rest) = some (v, rest) := by
  cases v with
  | uint w x => simp only [CV.kind, decode, encode, CV.wf] at *; rw [readLE_leBytes w x rest h]; rfl
  | sint w x =>
    simp only [CV.kind, decode, encode, CV.wf] at *
    rw [readLE_leBytes w _ rest (toTwos_lt w x)]
    simp only [Option.map_some]
    rw [ofTwos_toTwos w x h.1 h.2.1 h.2.2]
  | f32 b => simp only [CV.kind, decode, encode, CV.wf] at *; rw [readLE_leBytes 4 b rest h]; rfl
  | f64 b => simp only [CV.kind, decode, encode, CV.wf] at *; rw [readLE_leBytes 8 b rest h]; rfl
  | bool b => cases b <;> simp [CV.kind, decode, encode]
  | str s =>
    simp only [CV.kind, decode, encode, CV.wf] at *
    rw [List.append_assoc, readLE_leBytes 4 s.length (s ++ rest) h]
    simp
  | r64 n d =>
    simp only [CV.kind, decode, encode, CV.wf] at *
    rw [List.append_assoc, readLE_leBytes 8 _ _ (toTwos_lt 8 n)]
    simp only
    rw [readLE_leBytes 8 _ rest (toTwos_lt 8 d)]
    simp only [Option.map_some]
    rw [ofTwos_toTwos 8 n (by omega) h.1.1 h.1.2, ofTwos_toTwos 8 d (by omega) h.2.1 h.2.2]
  | c64 re im =>
    simp only [CV.kind, decode, encode, CV.wf] at *
    rw [List.append_assoc, readLE_leBytes 8 re _ h.1]
    simp only
    rw [readLE_leBytes 8 im rest h.2]
    rfl

theorem decodeN_encode (k : EK) : ∀ (data : List CV) (rest : List Byte),
    (∀ v ∈ data, v.kind = k ∧ v.wf) →
    decodeN k data.length (data.flatMap encode ++ rest) = some (data, rest) := by
  intro data
  induction data with
  | nil => intro rest _; rfl
  | cons v vs ih =>
    intro rest h
    obtain ⟨hk, hw⟩ := h v (List.mem_cons_self ..)
    simp only [List.length_cons, decodeN, List.flatMap_cons, List.append_assoc]
    rw [← hk, decode_encode v hw]
    simp only
    rw [hk, ih rest (fun x hx => h x (List.mem_cons_of_mem _ hx))]

/-- A matrix constant decodes to the same shape and the same elements in the same
    (column-major) order. -/
theorem decodeMat_encodeMat (m : MatC) (h : m.wf) (rest : List Byte) :
    decodeMat m.kind (encodeMat m ++ rest) = some (m, rest) := by
  obtain ⟨hr, hc, hl, hall⟩ := h
  simp only [decodeMat, encodeMat, List.append_assoc]
  rw [readLE_leBytes 4 m.rows _ hr]
  simp only
  rw [readLE_leBytes 4 m.cols _ hc]
  simp only
  rw [← hl, decodeN_encode m.kind m.data rest hall]
  rfl

end MechVerif.Const
