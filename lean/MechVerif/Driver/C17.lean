import MechVerif.Driver.C16
import MechVerif.Model.Fsm
namespace MechVerif.Driver.S17
open MechVerif.Arms MechVerif.Fsm MechVerif.Driver.S16

/-- expressions without calls -/
partial def pE17 : List String → PR E
  | "lit" :: t :: r => (pS t).map (fun s => (.lit s, r))
  | "var" :: x :: r => some (.var (nameCode x), r)
  | "bin" :: o :: r =>
    (match pOp o, pE17 r with
     | some o, some (a, r1) => (match pE17 r1 with | some (b, r2) => some (.bin o a b, r2) | none => none)
     | _, _ => none)
  | _ => none

def takeE : Nat → List String → PR (List E)
  | 0, ts => some ([], ts)
  | n + 1, ts => (match pE17 ts with | some (e, r) => (match takeE n r with | some (es, r2) => some (e :: es, r2) | none => none) | none => none)

/-- a state argument: `arr k E*` (array of scalar expressions), `whole x` (a variable holding a whole
    value) or a scalar expression -/
def pAE : List String → PR AE
  | "arr" :: k :: r => (match k.toNat? with | some k => (takeE k r).map (fun p => (.arr p.1, p.2)) | none => none)
  | "whole" :: x :: r => some (.whole (nameCode x), r)
  | ts => (pE17 ts).map (fun p => (.sc p.1, p.2))

def takeAE : Nat → List String → PR (List AE)
  | 0, ts => some ([], ts)
  | n + 1, ts => (match pAE ts with | some (e, r) => (match takeAE n r with | some (es, r2) => some (e :: es, r2) | none => none) | none => none)

/-- a payload pattern: `A<pre>|<0 or 1>|<suf>` (array pattern; pre, suf comma separated) or a scalar pattern -/
def pP17 (tok : String) : Option P :=
  if tok.startsWith "A" then
    match (tok.drop 1).toString.splitOn "|" with
    | [pre, sp, suf] =>
      let items (t : String) : Option (List SP) := if t.isEmpty then some [] else (t.splitOn ",").mapM pSP
      (match items pre, items suf with
       | some a, some b => some (.arr a (sp == "1") b)
       | _, _ => none)
    | _ => none
  else (pSP tok).map .sp

/-- an argument of the call: `a:<kind>:v;v;…` (array) or a scalar -/
def pArg (tok : String) : Option V :=
  match tok.splitOn ":" with
  | ["a", k, vs] => ((vs.splitOn ";").mapM (fun v => pS ("n:" ++ k ++ ":" ++ v))).map .arr
  | _ => (pS tok).map .sc

def pTarget : List String → PR Target
  | "next" :: name :: k :: r => (match k.toNat? with | some k => (takeAE k r).map (fun p => (.next name p.1, p.2)) | none => none)
  -- `~>`: an asynchronous transition is validated and taken like `->`
  | "anext" :: name :: k :: r => (match k.toNat? with | some k => (takeAE k r).map (fun p => (.next name p.1, p.2)) | none => none)
  | "out" :: r => (pE17 r).map (fun p => (.output p.1, p.2))
  | _ => none

def pGuards : Nat → List String → PR (List Guard)
  | 0, ts => some ([], ts)
  | n + 1, "*" :: r =>
    (match pTarget r with | some (t, r1) => (match pGuards n r1 with | some (gs, r2) => some (⟨none, t⟩ :: gs, r2) | none => none) | none => none)
  | n + 1, "c" :: r =>
    (match pE17 r with
     | some (c, r0) => (match pTarget r0 with | some (t, r1) => (match pGuards n r1 with | some (gs, r2) => some (⟨some c, t⟩ :: gs, r2) | none => none) | none => none)
     | none => none)
  | _, _ => none

def pArm17 (s : String) : Option Fsm.Arm :=
  match toks s with
  | name :: k :: r =>
    (match k.toNat? with
     | some k =>
       (match takeN pP17 k r with
        | some (pats, "d" :: r1) => (match pTarget r1 with | some (t, []) => some ⟨name, pats, .direct t⟩ | _ => none)
        | some (pats, "g" :: n :: r1) =>
          (match n.toNat? with
           | some n => (match pGuards n r1 with | some (gs, []) => some ⟨name, pats, .guarded gs⟩ | _ => none)
           | none => none)
        | _ => none)
     | none => none)
  | _ => none

def pKind (s : String) : Option NK := if s == "u64" then some .u64 else if s == "f64" then some .f64 else none

def pIKind (s : String) : Option IK :=
  if s.startsWith "[" then (pKind ((s.drop 1).toString.dropEnd 1).toString).map .arr else (pKind s).map .sc

def kindText : NK → String | .u64 => "u64" | .f64 => "f64"

/-- a state as the trace shows it: scalars by value, arrays by kind and shape -/
def stateText (s : StateV) : String :=
  s.name ++ ":" ++ ",".intercalate (s.payload.map (fun v => match v with
    | .sc (.num _ n) => toString n | .sc (.bool b) => toString b | .sc (.str t) => t
    | .arr l => (match kindOfV (.arr l) with
        | some (.arr k) => "a:" ++ kindText k ++ ":1x" ++ toString l.length
        | _ => "a:?:1x" ++ toString l.length)
    | _ => "?"))

/-! reference simulation: the declared transition system with lexical scoping (inputs and the
    variables of the current arm's pattern) -/
def specGuard (env : Env) : List Guard → Except Unit (Option Guard)
  | [] => .ok none
  | g :: gs =>
    (match g.cond with
     | none => .ok (some g)
     | some c => (match evalScalar noSelf env c with
        | .ok (.bool true) => .ok (some g)
        | .ok (.bool false) => specGuard env gs
        | _ => .error ()))

inductive SR where
  | moved (s : StateV) | out (v : S) | stuck

def specArg (env : Env) : AE → Except Unit V
  | .sc e => (match evalScalar noSelf env e with | .ok s => .ok (.sc s) | .error _ => .error ())
  | .arr es => (match es.mapM (fun e => evalScalar noSelf env e) with | .ok l => .ok (.arr l) | .error _ => .error ())
  | .whole x => (match env.get x with | some v => .ok v | none => .error ())

def specTarget (env : Env) : Target → Except Unit SR
  | .next name args => (match args.mapM (specArg env) with | .ok vs => .ok (.moved ⟨name, vs⟩) | .error _ => .error ())
  | .output e => (match evalScalar noSelf env e with | .ok v => .ok (.out v) | .error _ => .error ())

def specStep (inputs : Env) (s : StateV) : List Fsm.Arm → Except Unit SR
  | [] => .ok .stuck
  | arm :: rest =>
    if arm.name == s.name && arm.pats.length == s.payload.length then
      match matchPs arm.pats s.payload [] with
      | none => specStep inputs s rest
      | some bound =>
        let env := bound ++ inputs
        match arm.body with
        | .direct t => specTarget env t
        | .guarded gs => (match specGuard env gs with
          | .error _ => .error ()
          | .ok (some g) => specTarget env g.target
          | .ok none => specStep inputs s rest)
    else specStep inputs s rest

/-- (result, visited): `none` = an error is the only acceptable outcome -/
def specRun (inputs : Env) (arms : List Fsm.Arm) : Nat → StateV → List StateV → Option S × List StateV
  | 0, _, acc => (none, acc.reverse)
  | k + 1, s, acc =>
    match specStep inputs s arms with
    | .error _ => (none, (s :: acc).reverse)
    | .ok (.out v) => (some v, (s :: acc).reverse)
    | .ok .stuck => (none, (s :: acc).reverse)
    | .ok (.moved s') => specRun inputs arms k s' (s :: acc)

def runC17 (fields : List String) (obs : String) : String × String × String :=
  let bad := ("bad-case", "bad-case", "-")
  -- a trailing `form=…` field says how the arguments of the call are written (in place or through variables):
  -- the run does not depend on it
  match fields.filter (fun f => !f.startsWith "form=") with
  | [_, maxs, inputs, outk, declared, start, arms, args] =>
    let ins := (inputs.splitOn ",").mapM (fun d => match d.splitOn ":" with | [n, k] => (pIKind k).map (fun k => (nameCode n, k)) | _ => none)
    let decl := (declared.splitOn ",").map (fun d => (d.splitOn ":").headD "")
    let st : Option (String × List AE) := match toks start with
      | name :: k :: r => (match k.toNat? with | some k => (match takeAE k r with | some (es, []) => some (name, es) | _ => none) | none => none)
      | _ => none
    let armsP := (arms.splitOn ";;").mapM pArm17
    let argsP : Option (List V) := if args == "-" then some [] else (args.splitOn ",").mapM pArg
    (match maxs.toNat?, ins, st, armsP, argsP with
     | some maxSteps, some ins, some st, some arms, some args =>
       let m : Machine := ⟨ins, pKind outk, decl, st, arms⟩
       let r := invoke m maxSteps args
       -- the states the trace shows: none when the call is rejected before the run starts
       let vis : List StateV :=
         if m.inputs.length ≠ args.length then [] else
         match bindInputs m.inputs args [] with
         | .error _ => []
         | .ok env => (match evalAs env m.start.2, validate m with
           | .ok vs, .ok _ => visited m.arms maxSteps ⟨m.start.1, vs⟩ env
           | _, _ => [])
       let resText := match r with | .ok (.value v) => sText v | .ok (.halted s) => "tup:(atom:" ++ s.name ++ ")" | .error _ => "err"
       let model := resText ++ "|" ++ ";".intercalate (vis.map stateText)
       -- specification
       let wellFormed := decide (m.inputs.length = args.length) && (m.inputs.zip args).all (fun p => kindOfV p.2 == some p.1.2) &&
         (let names := arms.map (·.name); decl.all names.contains && names.contains st.1 && (targets m).all names.contains)
       let exp : String :=
         if !wellFormed then "err|" else
         let inputsEnv : Env := (m.inputs.zip args).map (fun p => (p.1.1, p.2))
         match st.2.mapM (specArg inputsEnv) with
         | .error _ => "err|"
         | .ok vs =>
           let (res, seen) := specRun inputsEnv arms maxSteps ⟨st.1, vs⟩ []
           let resT := match res with
             | some v => if kindOfS v == pKind outk then sText v else "err"
             | none => "err"
           resT ++ "|" ++ ";".intercalate (seen.map stateText)
       -- `?`: the harness could not read the trace of visited states (its format is debugging output and
       -- may change): only the result is compared
       if obs.endsWith "|?" then
         let cut (t : String) : String := (t.splitOn "|").headD ""
         (cut model ++ "|?", (if cut obs == cut exp then "ok" else "bad:expected " ++ cut exp ++ " (visited states unavailable)"), "-")
       else
       (model, (if obs == exp then "ok" else "bad:expected " ++ exp), "-")
     | _, _, _, _, _ => bad)
  | _ => bad

end MechVerif.Driver.S17
