#!/usr/bin/env python3
"""Regenerates lean/MechVerif/Gen/SetKernels.lean from machines/set/src/{operations,relations,membership}/*.rs:
for every binary set operator the fields its `new` binds to the first and second argument and the expression its
`solve` evaluates, with the fields replaced by the argument they were bound to, as a value of `MechVerif.SetIR.SExpr`.
A body the reader does not recognise makes `generate` return (False, reason)."""
import os, re, sys
sys.path.insert(0, os.path.dirname(os.path.abspath(__file__)))
from extract_kernels import Unrecognised

FILES = [("union", "operations/union.rs"), ("intersection", "operations/intersection.rs"), ("difference", "operations/difference.rs"),
         ("symmetric_difference", "operations/symmetric_difference.rs"), ("subset", "relations/subset.rs"), ("superset", "relations/superset.rs"),
         ("proper_subset", "relations/proper_subset.rs"), ("proper_superset", "relations/proper_superset.rs"),
         ("equals", "relations/equals.rs"), ("not_equals", "relations/not_equals.rs"),
         ("element_of", "membership/element_of.rs"), ("not_element_of", "membership/not_element_of.rs")]
METH = {"union": ".union", "intersection": ".intersection", "difference": ".difference", "symmetric_difference": ".symmetricDifference",
        "is_subset": ".isSubset", "is_superset": ".isSuperset", "is_disjoint": ".isDisjoint", "contains": ".contains"}

def block_after(text, start):
    i = text.index('{', start); d = 1; j = i + 1
    while d:
        d += (text[j] == '{') - (text[j] == '}'); j += 1
    return text[i + 1:j - 1]

def read_file(text):
    text = re.sub(r'//[^\n]*', '', text.replace('\r\n', '\n'))
    m = re.search(r'FunctionArgs::Binary\(\s*out\s*,\s*arg1\s*,\s*arg2\s*\)\s*=>', text)
    if not m: raise Unrecognised("no `FunctionArgs::Binary(out, arg1, arg2)` arm")
    arm = block_after(text, m.end())
    binds = dict((a, f) for f, a in re.findall(r'let\s+(\w+)\s*:\s*Ref<[^>]*>\s*=\s*unsafe\s*\{\s*(arg1|arg2)\.as_unchecked\(\)\s*\}', arm))
    if set(binds) != {"arg1", "arg2"}: raise Unrecognised("arguments not bound to two fields")
    cons = re.search(r'Ok\(Box::new\(\w+\s*\{([^}]*)\}', arm)
    if not cons: raise Unrecognised("no struct built")
    # the struct fields are the bound names (shorthand) or `field: name`
    field_of = {}
    for part in cons.group(1).split(','):
        part = part.strip()
        if not part: continue
        if ':' in part: f, v = [x.strip() for x in part.split(':', 1)]
        else: f = v = part
        field_of[v] = f
    arg_of_field = {}
    for a, name in binds.items():
        if name not in field_of: raise Unrecognised("bound name %s not stored" % name)
        arg_of_field[field_of[name]] = 'a1' if a == 'arg1' else 'a2'
    m = re.search(r'fn\s+solve\s*\(\s*&self\s*\)', text)
    if not m: raise Unrecognised("no solve()")
    body = block_after(text, m.end())
    # pointers: let x_ptr: &T = &*(self.F.as_ptr());
    ptr = {}
    for name, f in re.findall(r'let\s+(?:mut\s+)?(\w+)\s*:\s*&(?:mut\s+)?[\w<>]+\s*=\s*&(?:mut\s+)?\*\(self\.(\w+)\.as_(?:mut_)?ptr\(\)\)', body):
        ptr[name] = f
    outs = [n for n, f in ptr.items() if f == 'out']
    if len(outs) != 1: raise Unrecognised("output pointer")
    out = outs[0]
    def arg(name):
        if name not in ptr or ptr[name] not in arg_of_field: raise Unrecognised("operand " + name)
        return '.' + arg_of_field[ptr[name]]
    def expr(s):
        s = s.strip()
        while s.startswith('(') and s.endswith(')') and balanced(s[1:-1]): s = s[1:-1].strip()
        parts = split_top(s, '&&')
        if len(parts) > 1:
            e = expr(parts[0])
            for p in parts[1:]: e = "(.and %s %s)" % (e, expr(p))
            return e
        if s.startswith('!'): return "(.not %s)" % expr(s[1:])
        m = re.match(r'^(\w+)\.set\.(\w+)\(\s*&?\(?\s*(\w+)\.set\s*\)?\s*\)(?:\.cloned\(\)\.collect\(\))?$', s)
        if m and m.group(2) in METH: return "(.call %s %s %s)" % (METH[m.group(2)], arg(m.group(1)), arg(m.group(3)))
        m = re.match(r'^(\w+)\.set\.contains\(\s*&?(\w+)\s*\)$', s)
        if m: return "(.call .contains %s %s)" % (arg(m.group(1)), arg(m.group(2)))
        m = re.match(r'^(\w+)\.set\.len\(\)\s*(<|>)\s*(\w+)\.set\.len\(\)$', s)
        if m: return "(%s %s %s)" % (".lenLt" if m.group(2) == '<' else ".lenGt", arg(m.group(1)), arg(m.group(3)))
        m = re.match(r'^(\w+)\.set\s*(==|!=)\s*(\w+)\.set$', s)
        if m: return "(%s %s %s)" % (".eq" if m.group(2) == '==' else ".ne", arg(m.group(1)), arg(m.group(3)))
        raise Unrecognised("expression: " + s)
    def balanced(s):
        d = 0
        for c in s:
            d += (c == '(') - (c == ')')
            if d < 0: return False
        return d == 0
    def split_top(s, sep):
        parts, d, cur, i = [], 0, '', 0
        while i < len(s):
            if s[i] == '(': d += 1
            elif s[i] == ')': d -= 1
            if d == 0 and s.startswith(sep, i): parts.append(cur); cur = ''; i += len(sep); continue
            cur += s[i]; i += 1
        parts.append(cur)
        return parts
    # the guarded form of membership: if S.kind == E.kind() { *out = X; } else { *out = false; }
    g = re.search(r'if\s+(\w+)\.kind\s*==\s*(\w+)\.kind\(\)\s*\{\s*\*%s\s*=\s*([^;]+);\s*\}\s*else\s*\{\s*\*%s\s*=\s*(true|false)\s*;\s*\}' % (out, out), body)
    if g: return "(.kindGuard %s %s %s %s)" % (arg(g.group(1)), arg(g.group(2)), expr(g.group(3)), g.group(4))
    assigns = re.findall(r'(?:\*%s|%s\.set)\s*=\s*([^;]+);' % (out, out), body)
    assigns = [a for a in assigns if 'clear' not in a]
    if len(assigns) != 1: raise Unrecognised("%d assignments to the output" % len(assigns))
    return expr(assigns[0])

def extract(repo="/repo"):
    out = []
    for op, f in FILES:
        p = os.path.join(repo, "machines/set/src", f)
        try: out.append((op, read_file(open(p, newline='').read())))
        except (Unrecognised, ValueError, IndexError) as e: raise Unrecognised("%s: %s" % (f, e))
    return out

def generate(root, repo="/repo"):
    try: ks = extract(repo)
    except (Unrecognised, OSError) as e: return False, "C14 set-kernel extraction failed: %s" % e
    L = ["/- GENERATED by tools/extract_setops.py from machines/set/src — do not edit. -/", "import MechVerif.Model.SetIR",
         "namespace MechVerif.Gen.SetKernels", "open MechVerif.SetIR", "", "/-- (operator, the expression its kernel evaluates over its two arguments) -/",
         "def kernels : List (String × SExpr) :=", "  [" + ",\n   ".join('("%s", %s)' % k for k in ks) + "]", "",
         "/-- every set kernel evaluates, over its arguments in the order given, the expression that defines the model's function -/",
         "theorem C14_set_kernels_as_written_ok : kernels.all kernelOk = true := by decide", "",
         "theorem C14_set_kernels_all_present : kernels.map (·.1) = [" + ", ".join('"%s"' % op for op, _ in FILES) + "] := by decide",
         "", "end MechVerif.Gen.SetKernels", ""]
    text = "\n".join(L)
    out = os.path.join(root, 'lean', 'MechVerif', 'Gen', 'SetKernels.lean')
    old = open(out).read() if os.path.exists(out) else None
    if old != text: open(out, 'w').write(text)
    return True, "C14 set kernels extracted: %d operators" % len(ks)

if __name__ == '__main__':
    root = os.path.dirname(os.path.dirname(os.path.abspath(__file__)))
    if len(sys.argv) > 1 and sys.argv[1] == '--show':
        for x in extract(sys.argv[2] if len(sys.argv) > 2 else "/repo"): print(x)
    else: print(generate(root))
