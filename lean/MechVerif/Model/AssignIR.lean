/-
C04, second tie to the source: the indexed-assignment kernels as they are *written*.

src/interpreter/src/stdlib/assign/matrix.rs holds one macro per way of writing into a matrix
(`assign_1d_scalar`, `set_1d_range*`, `assign_2d_all_*`, `assign_2d_scalar_all_*`, `assign_2d_range_scalar*`,
`assign_2d_scalar_range*`, `assign_2d_range_range*`, `assign_2d_all_range*`, `assign_2d_range_all*`) and
machines/math/src/op_assign/{add,sub,mul,div}_assign.rs the kernels of `x[…] op= v`.
`tools/extract_assign.py` reads each macro body and writes what it says as a value of `KIR`: for each of the (one
or two) coordinates of the sink element that is written how it is computed (an index argument minus one, an
element of an index vector minus one, a loop variable kept by a logical mask, a loop variable over a whole
dimension), which loop is the outer one, whether the view on a scalar coordinate is taken before the loop, which
element of the source is written (`source.clone()`, `source[e]` with `e` an arithmetic expression over loop
variables, target coordinates, argument lengths and dimensions of the sink), and the operator (`=`, `+=`, `-=`,
`*=`, `/=`).
`run` below gives such a value its meaning — the loops as written, the first failing step aborting, what was
written before it staying written (finding C04-D4) — and `Lemmas/AssignIR.lean` proves that an accepted `KIR`
performs exactly the writes `assign1` / `assign2` of `Model/Assign.lean` perform, the functions the C04 theorems
are about.  Kernels that deviate at the pinned commit are not accepted: they are listed, with the finding they
belong to and the exact shape that was extracted, in `knownDeviations`.
-/
import MechVerif.Model.AccessIR
import MechVerif.Model.Assign
namespace MechVerif.AssignIR
open MechVerif.Num MechVerif.Mat MechVerif.Index MechVerif.AccessIR MechVerif.Assign

/-- how one coordinate of the written sink element is computed: the forms of the access kernels
    (`AccessIR.Axis`), and three forms that only deviating kernels use -/
inductive TAxis where
  | std (ax : Axis)
  /-- `v - 1`, `v` a loop variable to `bound` kept when `ix<a>[v] == true` (the `- 1` belongs to index values,
      not to positions of a mask) -/
  | maskPred (a : Nat) (bound : Bound)
  /-- `v`, a loop variable to `bound` kept when `ix<a>[v] != 0`: an index vector read as if it were a mask -/
  | nonzero (a : Nat) (bound : Bound)
  /-- `v`, a loop variable to `bound` over the elements of the sink in storage order, kept when
      `ix<a>[v / source.<q>()]` holds -/
  | maskQuot (a : Nat) (bound : Bound) (q : Dim)
deriving DecidableEq, Repr

/-- the index of the source element that is written, as an expression -/
inductive SExpr where
  | rowVar | colVar            -- the loop variable of the row axis / of the column (or linear) axis
  | rowCoord | colCoord        -- the 0-based coordinates of the element that is written
  | lit (n : Nat)
  | argLen (a : Nat)           -- `ix<a>.len()`
  | dim (d : Dim)              -- `sink.nrows()` / `.ncols()` / `.len()`
  | add (x y : SExpr)
  | mul (x y : SExpr)
deriving DecidableEq, Repr

inductive SrcSel where
  /-- `source.clone()` / `*source`: the source is one value -/
  | whole
  /-- `source[e]` -/
  | at (e : SExpr)
deriving DecidableEq, Repr

inductive OpTok where
  | set | add | sub | mul | div
deriving DecidableEq, Repr

structure KIR where
  /-- the row coordinate; `none`: one-index sink `sink[k]` -/
  row : Option TAxis
  /-- the column coordinate, or the linear one -/
  col : TAxis
  /-- of two loops, the column coordinate's is the outer one -/
  colOuter : Bool
  /-- the view on a scalar coordinate (`let col = sink.column_mut(ix2 - 1)`) is taken before the loop -/
  hoist : Bool
  src : SrcSel
  op : OpTok
deriving DecidableEq, Repr

/-! ### meaning -/

/-- the arithmetic of the element kind, and `=` -/
def fOf {α : Type} (arith : OpTok → α → α → Except Err α) : OpTok → α → α → Except Err α
  | .set => fun _ v => .ok v
  | o => arith o

def tGuard {α : Type} (m : Mat α) (args : List Arg) : TAxis → Except Err Unit
  | .std ax => guardOk m args ax
  | _ => .ok ()

/-- the values the axis' loop variable takes, in order.  A mask read past its end is a panic; it is placed before
    the loop here (as in `AccessIR.loopVals`), which is exact whenever the loop runs over the mask's own length —
    every mask loop of the extracted kernels except `maskQuot`, used by one listed deviation only. -/
def tLoopVals {α : Type} (m : Mat α) (args : List Arg) : TAxis → Except Err (List Nat)
  | .std ax => loopVals m args ax
  | .maskPred a b => loopVals m args (.mask a b none)
  | .nonzero a b =>
    bindE (boundVal m args b) (fun n =>
      match args[a]? with
      | some (.ixs l) =>
        if n ≤ l.length then .ok ((List.range n).filter (fun v => l.getD v 0 != 0)) else .error .index
      | _ => .error .other)
  | .maskQuot a b q =>
    bindE (boundVal m args b) (fun n =>
      match args[a]? with
      | some (.bools l) =>
        if (n - 1) / dimOf m q < l.length ∨ n = 0
        then .ok ((List.range n).filter (fun v => l.getD (v / dimOf m q) false)) else .error .index
      | _ => .error .other)

/-- the 0-based coordinate for a value of the loop variable -/
def tCoord (args : List Arg) : TAxis → Nat → Except Err Nat
  | .std ax, v => coord args ax v
  | .maskPred _ _, v => pred1 v
  | .nonzero _ _, v => .ok v
  | .maskQuot _ _ _, v => .ok v

/-- the position written through a one-index sink `sink[k]` (nalgebra checks `k < len`) -/
def linTargetOf {α : Type} (m : Mat α) (args : List Arg) (ax : TAxis) (v : Nat) : Except Err Nat :=
  bindE (tCoord args ax v) (fun k => if k < m.rows * m.cols then .ok k else .error .index)

/-- the position written through a two-index sink `sink[(r, c)]`, `sink.column_mut(c)[r]`, `sink.row_mut(r)[c]`
    (nalgebra checks both) -/
def rcTargetOf {α : Type} (m : Mat α) (args : List Arg) (rowAx colAx : TAxis) (r c : Nat) : Except Err Nat :=
  bindE (tCoord args rowAx r) (fun r0 => bindE (tCoord args colAx c) (fun c0 =>
    if r0 < m.rows ∧ c0 < m.cols then .ok (c0 * m.rows + r0) else .error .index))

def sEval {α : Type} (m : Mat α) (args : List Arg) (rv cv : Nat) (r0 c0 : Except Err Nat) : SExpr → Except Err Nat
  | .rowVar => .ok rv
  | .colVar => .ok cv
  | .rowCoord => r0
  | .colCoord => c0
  | .lit n => .ok n
  | .argLen a => argLen args a
  | .dim d => .ok (dimOf m d)
  | .add x y => bindE (sEval m args rv cv r0 c0 x) (fun a => bindE (sEval m args rv cv r0 c0 y) (fun b => .ok (a + b)))
  | .mul x y => bindE (sEval m args rv cv r0 c0 x) (fun a => bindE (sEval m args rv cv r0 c0 y) (fun b => .ok (a * b)))

/-- the source element of one step (a kernel whose source is one value is only instantiated with a scalar source,
    a kernel that indexes its source only with a matrix) -/
def srcElem {α : Type} (m : Mat α) (args : List Arg) (ss : SrcSel) (src : Operand α) (rv cv : Nat)
    (r0 c0 : Except Err Nat) : Except Err α :=
  match ss, src with
  | .whole, .scalar v => .ok v
  | .at e, .mat w => bindE (sEval m args rv cv r0 c0 e) (getE w.data)
  | _, _ => .error .other

/-- a kernel whose source is one value gets a scalar, a kernel that indexes its source a matrix (the structs the
    kernels are instantiated in are typed that way) -/
def srcFits {α : Type} : SrcSel → Operand α → Bool
  | .whole, .scalar _ => true
  | .at _, .mat _ => true
  | _, _ => false

/-- one step of a kernel: the target position, the old element, the source element, the operator, the write -/
def step1 {α : Type} (f : α → α → Except Err α) (t : Except Err Nat) (s : Except Err α) (d : List α) :
    Except Err (List α) :=
  bindE t (fun p => bindE (getE d p) (fun old => bindE s (fun v => bindE (f old v) (fun new => .ok (d.set p new)))))

/-- the steps in order; the first failing step aborts and what was written stays written -/
def scatterS {α : Type} (f : α → α → Except Err α) :
    List (Except Err Nat × Except Err α) → List α → List α × Except Err Unit
  | [], d => (d, .ok ())
  | x :: rest, d =>
    match step1 f x.1 x.2 d with
    | .error e => (d, .error e)
    | .ok d' => scatterS f rest d'

/-- taking the view on a scalar coordinate fails when the coordinate is outside the matrix -/
def hoistCheck (args : List Arg) (ax : TAxis) (extent : Nat) : Except Err Unit :=
  match ax with
  | .std (.scalar a m1) => bindE (coord args (.scalar a m1) 0) (fun c => if c < extent then .ok () else .error .index)
  | _ => .ok ()

/-- the loop variables' values of a two-index kernel: mask checks, loop bounds, hoisted views -/
def loops2 {α : Type} (m : Mat α) (args : List Arg) (rowAx colAx : TAxis) (hoist : Bool) :
    Except Err (List Nat × List Nat) :=
  bindE (tGuard m args rowAx) (fun _ =>
  bindE (tGuard m args colAx) (fun _ =>
  bindE (tLoopVals m args rowAx) (fun rs =>
  bindE (tLoopVals m args colAx) (fun cs =>
  bindE (if hoist then bindE (hoistCheck args rowAx m.rows) (fun _ => hoistCheck args colAx m.cols) else .ok ()) (fun _ =>
    .ok (rs, cs))))))

/-- the (row variable, column variable) pairs in the order the nest visits them -/
def nest (colOuter : Bool) (rs cs : List Nat) : List (Nat × Nat) :=
  if colOuter then cs.flatMap (fun c => rs.map (fun r => (r, c)))
  else rs.flatMap (fun r => cs.map (fun c => (r, c)))

/-- what a kernel does to the matrix it is given: the new contents and whether it ran to its end -/
def run {α : Type} (arith : OpTok → α → α → Except Err α) (ir : KIR) (m : Mat α) (args : List Arg)
    (src : Operand α) : Mat α × Except Err Unit :=
  match ir.row with
  | none =>
    match bindE (tGuard m args ir.col) (fun _ => tLoopVals m args ir.col) with
    | .error e => (m, .error e)
    | .ok vs =>
      let r := scatterS (fOf arith ir.op) (vs.map (fun v =>
        (linTargetOf m args ir.col v,
         srcElem m args ir.src src 0 v (.ok 0) (tCoord args ir.col v)))) m.data
      ({ m with data := r.1 }, r.2)
  | some rowAx =>
    match loops2 m args rowAx ir.col ir.hoist with
    | .error e => (m, .error e)
    | .ok (rs, cs) =>
      let r := scatterS (fOf arith ir.op) ((nest ir.colOuter rs cs).map (fun p =>
        (rcTargetOf m args rowAx ir.col p.1 p.2,
         srcElem m args ir.src src p.1 p.2 (tCoord args rowAx p.1) (tCoord args ir.col p.2)))) m.data
      ({ m with data := r.1 }, r.2)

/-! ### what each kernel is for, and when it is accepted -/

inductive SelKind where
  | scalar | vec | mask | all
deriving DecidableEq, Repr

/-- what a kernel is meant to do: the selector kind per coordinate (`row = none`: one linear index), whether the
    source is a vector, and the operator.  Index arguments are numbered in the order of the macro's `$ix…`
    parameters. -/
structure Sig where
  row : Option SelKind
  col : SelKind
  vectorSrc : Bool
  op : OpTok
deriving DecidableEq, Repr

def kindOf : TAxis → SelKind
  | .std (.scalar _ _) => .scalar
  | .std (.vec _ _ _) => .vec
  | .std (.mask _ _ _) => .mask
  | .std (.all _) => .all
  | .maskPred _ _ => .mask
  | .nonzero _ _ => .vec
  | .maskQuot _ _ _ => .mask

def argOf : TAxis → Option Nat
  | .std (.scalar a _) => some a
  | .std (.vec a _ _) => some a
  | .std (.mask a _ _) => some a
  | .std (.all _) => none
  | .maskPred a _ => some a
  | .nonzero a _ => some a
  | .maskQuot a _ _ => some a

def tOk (d : Dim) : TAxis → Bool
  | .std ax => axisOk d ax
  | _ => false

def isScalarAx : TAxis → Bool
  | .std (.scalar _ _) => true
  | _ => false

/-- the loop variable counts the addressed elements: 0, 1, 2, … (an index vector or a whole dimension; not a mask,
    whose loop variable counts positions) -/
def countsAddressed : TAxis → Bool
  | .std (.vec _ _ _) => true
  | .std (.all _) => true
  | _ => false

/-- the selector of `Model/Index` an axis stands for (what the index argument holds) -/
def tSelOf (args : List Arg) : TAxis → Option Sel
  | .std ax => selOf args ax
  | .maskPred a _ => (match args[a]? with | some (.bools l) => some (.mask l) | _ => none)
  | .nonzero a _ => (match args[a]? with | some (.ixs l) => some (.vec l) | _ => none)
  | .maskQuot a _ _ => (match args[a]? with | some (.bools l) => some (.mask l) | _ => none)

/-- A kernel is accepted for what it is meant to do when
    * its operator is the one of its signature,
    * every coordinate is of the signature's kind, reads the index argument of its position, and is written the
      way the model reads it (`AccessIR.axisOk`: `- 1` on index values, a vector's loop over that vector's own
      length, a mask compared with the extent it indexes before anything is written, a whole-dimension loop over
      that dimension),
    * a scalar source is written as it is, and a vector source is indexed by the loop variable of the one axis
      that loops, that variable counting the addressed elements. -/
def kOk (sig : Sig) (ir : KIR) : Bool :=
  decide (ir.op = sig.op) &&
  match sig.row, ir.row with
  | none, none =>
    tOk .len ir.col && decide (kindOf ir.col = sig.col) && (argOf ir.col).all (· == 0) &&
    (if sig.vectorSrc then decide (ir.src = .at .colVar) && countsAddressed ir.col else decide (ir.src = .whole))
  | some rk, some r =>
    tOk .rows r && tOk .cols ir.col && decide (kindOf r = rk) && decide (kindOf ir.col = sig.col) &&
    (argOf r).all (· == 0) && (argOf ir.col).all (· == (if (argOf r).isSome then 1 else 0)) &&
    (if sig.vectorSrc then
       (decide (ir.src = .at .rowVar) && countsAddressed r && isScalarAx ir.col) ||
       (decide (ir.src = .at .colVar) && countsAddressed ir.col && isScalarAx r)
     else decide (ir.src = .whole))
  | _, _ => false

/-- the kernel visits the addressed cells in the model's order (column by column, or one loop only) and checks
    nothing ahead of the loop: then even a failing run leaves exactly what the model leaves -/
def kExact (ir : KIR) : Bool :=
  !ir.hoist &&
  match ir.row with
  | none => true
  | some r => ir.colOuter || isScalarAx r || isScalarAx ir.col

/-- the kernel macros and what each is for.
    assign/matrix.rs: `x[i] = v`, `x[ix] = v`, `x[ix] = w`, `x[:,j] = …`, `x[i,:] = …`, `x[ix,j] = …`, `x[i,jx] = …`,
    `x[ix,jx] = …`, `x[:,jx] = v`, `x[ix,:] = v`; op_assign/*.rs: `x[ix] op= …`, `x[ix,:] op= v`. -/
def expected : List (String × Sig) :=
  [("assign_1d_scalar", ⟨none, .scalar, false, .set⟩),
   ("set_1d_range", ⟨none, .vec, false, .set⟩),
   ("set_1d_range_b", ⟨none, .mask, false, .set⟩),
   ("set_1d_range_vec", ⟨none, .vec, true, .set⟩),
   ("set_1d_range_vec_b", ⟨none, .mask, true, .set⟩),
   ("assign_2d_all_scalar", ⟨some .all, .scalar, false, .set⟩),
   ("assign_2d_all_vector", ⟨some .all, .scalar, true, .set⟩),
   ("assign_2d_scalar_all_scalar", ⟨some .scalar, .all, false, .set⟩),
   ("assign_2d_scalar_all_vector", ⟨some .scalar, .all, true, .set⟩),
   ("assign_2d_range_scalar", ⟨some .vec, .scalar, false, .set⟩),
   ("assign_2d_range_scalar_v", ⟨some .vec, .scalar, true, .set⟩),
   ("assign_2d_range_scalar_b", ⟨some .mask, .scalar, false, .set⟩),
   ("assign_2d_range_scalar_vb", ⟨some .mask, .scalar, true, .set⟩),
   ("assign_2d_scalar_range", ⟨some .scalar, .vec, false, .set⟩),
   ("assign_2d_scalar_range_v", ⟨some .scalar, .vec, true, .set⟩),
   ("assign_2d_scalar_range_b", ⟨some .scalar, .mask, false, .set⟩),
   ("assign_2d_scalar_range_vb", ⟨some .scalar, .mask, true, .set⟩),
   ("assign_2d_range_range", ⟨some .vec, .vec, false, .set⟩),
   ("assign_2d_range_range_v", ⟨some .vec, .vec, true, .set⟩),
   ("assign_2d_range_range_b", ⟨some .mask, .mask, false, .set⟩),
   ("assign_2d_range_range_vb", ⟨some .mask, .mask, true, .set⟩),
   ("assign_2d_range_range_bu", ⟨some .mask, .vec, false, .set⟩),
   ("assign_2d_range_range_vbu", ⟨some .mask, .vec, true, .set⟩),
   ("assign_2d_range_range_ub", ⟨some .vec, .mask, false, .set⟩),
   ("assign_2d_range_range_vub", ⟨some .vec, .mask, true, .set⟩),
   ("assign_2d_all_range", ⟨some .all, .vec, false, .set⟩),
   ("assign_2d_all_range_b", ⟨some .all, .mask, false, .set⟩),
   ("assign_2d_range_all", ⟨some .vec, .all, false, .set⟩),
   ("assign_2d_range_all_b", ⟨some .mask, .all, false, .set⟩),
   ("add_assign_1d_range", ⟨none, .vec, false, .add⟩),
   ("add_assign_1d_range_b", ⟨none, .mask, false, .add⟩),
   ("add_assign_1d_range_vec", ⟨none, .vec, true, .add⟩),
   ("add_assign_1d_range_vec_b", ⟨none, .mask, true, .add⟩),
   ("add_assign_2d_vector_all", ⟨some .vec, .all, false, .add⟩),
   ("add_assign_2d_vector_all_b", ⟨some .mask, .all, false, .add⟩),
   ("sub_assign_1d_range", ⟨none, .vec, false, .sub⟩),
   ("sub_assign_1d_range_b", ⟨none, .mask, false, .sub⟩),
   ("sub_assign_1d_range_vec", ⟨none, .vec, true, .sub⟩),
   ("sub_assign_1d_range_vec_b", ⟨none, .mask, true, .sub⟩),
   ("sub_assign_2d_vector_all", ⟨some .vec, .all, false, .sub⟩),
   ("sub_assign_2d_vector_all_b", ⟨some .mask, .all, false, .sub⟩),
   ("mul_assign_1d_range", ⟨none, .vec, false, .mul⟩),
   ("mul_assign_1d_range_b", ⟨none, .mask, false, .mul⟩),
   ("mul_assign_1d_range_vec", ⟨none, .vec, true, .mul⟩),
   ("mul_assign_1d_range_vec_b", ⟨none, .mask, true, .mul⟩),
   ("mul_assign_2d_vector_all", ⟨some .vec, .all, false, .mul⟩),
   ("mul_assign_2d_vector_all_b", ⟨some .mask, .all, false, .mul⟩),
   ("div_assign_1d_range", ⟨none, .vec, false, .div⟩),
   ("div_assign_1d_range_b", ⟨none, .mask, false, .div⟩),
   ("div_assign_1d_range_vec", ⟨none, .vec, true, .div⟩),
   ("div_assign_1d_range_vec_b", ⟨none, .mask, true, .div⟩),
   ("div_assign_2d_vector_all", ⟨some .vec, .all, false, .div⟩),
   ("div_assign_2d_vector_all_b", ⟨some .mask, .all, false, .div⟩)]

/-- the model's result for a kernel's signature: `assign1` / `assign2` of `Model/Assign.lean` on the selectors the
    index arguments hold (`none`: the arguments are not of the signature's kinds) -/
def selOfKind (args : List Arg) (a : Nat) : SelKind → Option Sel
  | .scalar => (match args[a]? with | some (.scalar i) => some (.scalar i) | _ => none)
  | .vec => (match args[a]? with | some (.ixs l) => some (.vec l) | _ => none)
  | .mask => (match args[a]? with | some (.bools l) => some (.mask l) | _ => none)
  | .all => some .all

def modelRun {α : Type} (arith : OpTok → α → α → Except Err α) (sig : Sig) (m : Mat α) (args : List Arg)
    (src : Operand α) : Option (Mat α × Except Err Unit) :=
  match sig.row with
  | none => (selOfKind args 0 sig.col).map (fun s => assign1 (fOf arith sig.op) m s src)
  | some rk =>
    match selOfKind args 0 rk, selOfKind args (if rk = .all then 0 else 1) sig.col with
    | some s1, some s2 => some (assign2 (fOf arith sig.op) m s1 s2 src)
    | _, _ => none

/-! ### the kernels that deviate at the pinned commit -/

/-- arithmetic on `Nat` for the witnesses (subtraction below zero and division by zero fail) -/
def natArith : OpTok → Nat → Nat → Except Err Nat
  | .set => fun _ v => .ok v
  | .add => fun a b => .ok (a + b)
  | .sub => fun a b => if b ≤ a then .ok (a - b) else .error .overflow
  | .mul => fun a b => .ok (a * b)
  | .div => fun a b => if b = 0 then .error .overflow else .ok (a / b)

/-- A kernel that is not accepted: the finding it belongs to, the shape that was extracted at the pinned commit,
    and an input on which the kernel as written and the model part. -/
structure Deviation where
  name : String
  finding : String
  shape : KIR
  wm : Mat Nat
  wargs : List Arg
  wsrc : Operand Nat
deriving Repr

/-- shapes shared by several entries -/
def maskLin (src : SrcSel) (op : OpTok) : KIR := ⟨none, .std (.mask 0 (.argLen 0) none), true, false, src, op⟩
def maskRowsAll (op : OpTok) : KIR :=
  ⟨some (.std (.mask 0 (.argLen 0) none)), .std (.all (.dim .cols)), true, false, .whole, op⟩

def m23 : Mat Nat := ⟨2, 3, [1, 2, 3, 4, 5, 6]⟩
def m32 : Mat Nat := ⟨3, 2, [1, 2, 3, 4, 5, 6]⟩
def v3 : Mat Nat := ⟨1, 3, [1, 2, 3]⟩
def w3 : Operand Nat := .mat ⟨1, 3, [7, 8, 9]⟩
def w6 : Operand Nat := .mat ⟨2, 3, [11, 12, 13, 14, 15, 16]⟩

/-- Findings: C04-D5 a logical index of another length than the extent it indexes is accepted (recorded in
    known_findings.json under C04-D4); C04-D6 with a logical index the source is read at the *position*, not at the
    count of addressed elements; C04-D8 wrong cells are written (recorded witnesses of corpus/C04.cases: row masks
    with `:`, `x[I,:] /= v`); C04-D10 (new, two-index targets with vector sources are outside the property's text,
    DESIGN 9.7: not judged by the differential runs) the source of `x[I,J] = w` is read in row-major order or at the
    target's own linear position. -/
def knownDeviations : List Deviation :=
  [⟨"set_1d_range_b", "C04-D5", maskLin .whole .set, v3, [.bools [true, false]], .scalar 8⟩,
   ⟨"set_1d_range_vec_b", "C04-D6", maskLin (.at .colVar) .set, v3, [.bools [true, false, true]], w3⟩,
   ⟨"assign_2d_range_scalar_b", "C04-D5",
    ⟨some (.std (.mask 0 (.argLen 0) none)), .std (.scalar 1 true), true, true, .whole, .set⟩,
    m32, [.bools [true, false], .scalar 1], .scalar 8⟩,
   ⟨"assign_2d_range_scalar_vb", "C04-D6",
    ⟨some (.std (.mask 0 (.argLen 0) none)), .std (.scalar 1 true), true, true, .at .rowVar, .set⟩,
    m32, [.bools [true, false, true], .scalar 1], w3⟩,
   ⟨"assign_2d_scalar_range_b", "C04-D5",
    ⟨some (.std (.scalar 0 true)), .std (.mask 1 (.argLen 1) none), true, false, .whole, .set⟩,
    m23, [.scalar 1, .bools [true, false]], .scalar 8⟩,
   ⟨"assign_2d_scalar_range_vb", "C04-D6",
    ⟨some (.std (.scalar 0 true)), .std (.mask 1 (.argLen 1) none), true, false, .at .colVar, .set⟩,
    m23, [.scalar 1, .bools [true, false, true]], w3⟩,
   ⟨"assign_2d_range_range_v", "C04-D10",
    ⟨some (.std (.vec 0 true (.argLen 0))), .std (.vec 1 true (.argLen 1)), false, false,
     .at (.add (.mul .rowVar (.argLen 1)) .colVar), .set⟩,
    m23, [.ixs [1, 2], .ixs [1, 2, 3]], w6⟩,
   ⟨"assign_2d_range_range_b", "C04-D5",
    ⟨some (.std (.mask 0 (.argLen 0) none)), .std (.mask 1 (.argLen 1) none), false, false, .whole, .set⟩,
    m23, [.bools [true], .bools [true, false, true]], .scalar 8⟩,
   ⟨"assign_2d_range_range_vb", "C04-D6",
    ⟨some (.std (.mask 0 (.argLen 0) none)), .std (.mask 1 (.argLen 1) none), false, false,
     .at (.add (.mul .rowVar (.argLen 1)) .colVar), .set⟩,
    m23, [.bools [true, true], .bools [true, false, true]], w6⟩,
   ⟨"assign_2d_range_range_bu", "C04-D5",
    ⟨some (.std (.mask 0 (.argLen 0) none)), .std (.vec 1 true (.argLen 1)), false, false, .whole, .set⟩,
    m23, [.bools [true], .ixs [1, 3]], .scalar 8⟩,
   ⟨"assign_2d_range_range_vbu", "C04-D10",
    ⟨some (.std (.mask 0 (.argLen 0) none)), .std (.vec 1 true (.argLen 1)), true, false,
     .at (.add .rowVar (.mul .colCoord (.dim .rows))), .set⟩,
    m23, [.bools [true, true], .ixs [3, 1]], w6⟩,
   ⟨"assign_2d_range_range_ub", "C04-D8",
    ⟨some (.nonzero 0 (.argLen 0)), .std (.mask 1 (.argLen 1) none), false, false, .whole, .set⟩,
    m23, [.ixs [2], .bools [true, false, true]], .scalar 8⟩,
   ⟨"assign_2d_range_range_vub", "C04-D10",
    ⟨some (.std (.vec 0 true (.argLen 0))), .std (.mask 1 (.argLen 1) none), true, false,
     .at (.add .rowCoord (.mul .colVar (.dim .rows))), .set⟩,
    m23, [.ixs [2, 1], .bools [true, false, true]], w6⟩,
   ⟨"assign_2d_all_range_b", "C04-D5",
    ⟨some (.std (.all (.dim .rows))), .std (.mask 0 (.argLen 0) none), true, false, .whole, .set⟩,
    m23, [.bools [true, false]], .scalar 8⟩,
   ⟨"assign_2d_range_all_b", "C04-D8",
    ⟨some (.maskPred 0 (.argLen 0)), .std (.all (.dim .cols)), true, false, .whole, .set⟩,
    m23, [.bools [false, true]], .scalar 8⟩,
   ⟨"add_assign_1d_range_b", "C04-D5", maskLin .whole .add, v3, [.bools [true, false]], .scalar 8⟩,
   ⟨"add_assign_1d_range_vec_b", "C04-D6", maskLin (.at .colVar) .add, v3, [.bools [true, false, true]], w3⟩,
   ⟨"add_assign_2d_vector_all_b", "C04-D5", maskRowsAll .add, m32, [.bools [true, false]], .scalar 8⟩,
   ⟨"sub_assign_1d_range_b", "C04-D5", maskLin .whole .sub, v3, [.bools [true, false]], .scalar 1⟩,
   ⟨"sub_assign_1d_range_vec_b", "C04-D6", maskLin (.at .colVar) .sub, ⟨1, 3, [9, 9, 9]⟩, [.bools [true, false, true]], w3⟩,
   ⟨"sub_assign_2d_vector_all_b", "C04-D5", maskRowsAll .sub, m32, [.bools [true, false]], .scalar 1⟩,
   ⟨"mul_assign_1d_range_b", "C04-D5", maskLin .whole .mul, v3, [.bools [true, false]], .scalar 8⟩,
   ⟨"mul_assign_1d_range_vec_b", "C04-D6", maskLin (.at .colVar) .mul, v3, [.bools [true, false, true]], w3⟩,
   ⟨"mul_assign_2d_vector_all_b", "C04-D5", maskRowsAll .mul, m32, [.bools [true, false]], .scalar 8⟩,
   ⟨"div_assign_1d_range_b", "C04-D5", maskLin .whole .div, ⟨1, 3, [8, 8, 8]⟩, [.bools [true, false]], .scalar 2⟩,
   ⟨"div_assign_1d_range_vec_b", "C04-D6", maskLin (.at .colVar) .div, ⟨1, 3, [70, 80, 90]⟩, [.bools [true, false, true]], w3⟩,
   ⟨"div_assign_2d_vector_all", "C04-D8",
    ⟨none, .std (.all (.dim .len)), true, false, .whole, .div⟩,
    ⟨2, 2, [8, 8, 8, 8]⟩, [.ixs [1]], .scalar 2⟩,
   ⟨"div_assign_2d_vector_all_b", "C04-D8",
    ⟨none, .maskQuot 0 (.dim .len) .cols, true, false, .whole, .div⟩,
    ⟨2, 3, [8, 8, 8, 8, 8, 8]⟩, [.bools [true, false]], .scalar 2⟩]

def deviationOf (name : String) : Option Deviation := knownDeviations.find? (fun d => d.name == name)

/-- the table theorem of `Gen/AssignKernels.lean`: every kernel the signature table names is extracted; a kernel
    that is listed as a deviation has exactly the listed shape (a repaired kernel breaks this) and that shape is
    indeed not accepted; every other kernel is accepted for its signature (a new deviation breaks this). -/
def tableOk (ks : List (String × KIR)) : Bool :=
  expected.all (fun e => ks.any (fun k => k.1 == e.1)) &&
  ks.all (fun k =>
    match expected.lookup k.1 with
    | none => false
    | some sig =>
      match deviationOf k.1 with
      | some d => decide (d.shape = k.2) && !(kOk sig k.2)
      | none => kOk sig k.2)

/-- every listed deviation names a kernel of the signature table, and on its witness the kernel as written and the
    model give different results -/
def deviationsDeviate : Bool :=
  knownDeviations.all (fun d =>
    match expected.lookup d.name with
    | none => false
    | some sig =>
      match modelRun natArith sig d.wm d.wargs d.wsrc with
      | none => false
      | some r => decide (run natArith d.shape d.wm d.wargs d.wsrc ≠ r))

/-! ### which struct an `op=` statement is compiled to (`op_assign!`, src/interpreter/src/statements.rs) -/

structure OpArm where
  /-- the subscript pattern of the arm: `["Formula"]`, `["Formula", "All"]`, `["Range"]`, `["Range", "All"]` -/
  subs : List String
  /-- the shape of the index value the arm is for (`""`: no match on the shape) -/
  shape : String
  /-- the struct whose `compile` is pushed on the plan -/
  struct : String
  /-- the struct's name is built from the statement's operator: `[<$op AssignRange>]` -/
  perOp : Bool
deriving DecidableEq, Repr

/-- arms that compile a struct of plain assignment under `op=`: the statement then stores the source instead of
    combining it with the old value (findings C04-D1, C04-D2; recorded in known_findings.json under C04-D8) -/
def knownArmDeviations : List (OpArm × String) :=
  [(⟨["Formula"], "1,1", "MatrixAssignScalar", false⟩, "C04-D1"),
   (⟨["Formula", "All"], "1,1", "MatrixAssignScalarAll", false⟩, "C04-D2")]

/-- one subscript: the `…AssignRange` family (kernels `<op>_assign_1d_range*`); a subscript and `:`: the
    `…AssignRangeAll` family (kernels `<op>_assign_2d_vector_all*`) -/
def armOk (a : OpArm) : Bool :=
  a.perOp &&
  ((a.subs.length == 1 && a.struct == "AssignRange") ||
   (a.subs.length == 2 && a.subs[1]? == some "All" && a.struct == "AssignRangeAll"))

def armsOk (arms : List OpArm) (uses : List (String × String)) : Bool :=
  arms.all (fun a => if knownArmDeviations.any (fun d => d.1.subs == a.subs && d.1.shape == a.shape)
                     then knownArmDeviations.any (fun d => decide (d.1 = a)) && !(armOk a)
                     else armOk a) &&
  knownArmDeviations.all (fun d => arms.any (fun a => decide (d.1 = a))) &&
  decide (uses = [("add_assign", "Add"), ("sub_assign", "Sub"), ("mul_assign", "Mul"), ("div_assign", "Div")])

end MechVerif.AssignIR
