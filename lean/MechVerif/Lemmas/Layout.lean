/-
The writers of the model emit the layouts of `Model/Layout.lean`.
-/
import MechVerif.Model.Layout
import MechVerif.Lemmas.Emit
namespace MechVerif.Layout
open MechVerif.Bytecode MechVerif.Loader
open MechVerif.Crc (Byte)

theorem encodeFields_header (h : Header) :
    encodeFields [1, 2, 2, 4, 4, 4, 8, 4, 8, 4, 8, 8, 8, 8, 8, 8, 8, 8, 8, 8, 4] (headerValues h) =
  leBytes 1 h.version ++ (leBytes 2 h.mechVer ++ (leBytes 2 h.flags ++ (leBytes 4 h.regCount ++ (leBytes 4 h.instrCount ++
  (leBytes 4 h.featureCount ++ (leBytes 8 h.featureOff ++ (leBytes 4 h.typesCount ++ (leBytes 8 h.typesOff ++ (leBytes 4 h.constCount ++
  (leBytes 8 h.constTblOff ++ (leBytes 8 h.constTblLen ++ (leBytes 8 h.constBlobOff ++ (leBytes 8 h.constBlobLen ++
  (leBytes 8 h.symbolsLen ++ (leBytes 8 h.symbolsOff ++ (leBytes 8 h.instrOff ++ (leBytes 8 h.instrLen ++ (leBytes 8 h.dictOff ++
  (leBytes 8 h.dictLen ++ (leBytes 4 h.reserved ++ [])))))))))))))))))))) := rfl

/-- the header is its magic followed by its numeric fields in the order and widths of `headerLayout` -/
theorem writeHeader_by_layout (h : Header) :
    writeHeader h = h.magic ++ encodeFields (headerLayout.tail.map (·.2)) (headerValues h) := by
  have hw : headerLayout.tail.map (·.2) = [1, 2, 2, 4, 4, 4, 8, 4, 8, 4, 8, 8, 8, 8, 8, 8, 8, 8, 8, 8, 4] := by decide
  rw [hw, encodeFields_header]
  unfold writeHeader
  simp only [List.append_assoc, List.append_nil]

theorem headerLayout_size : (headerLayout.map (·.2)).sum = HEADER_SIZE := by decide

/-- an instruction is its opcode byte, its fields in the order and widths of its row of `instrLayout`, and for the
    variadic form the list of u32 arguments -/
theorem encodeInstr_by_layout (i : Instr) :
    encodeInstr i = BitVec.ofNat 8 (opcodeOf (instrRow i).2.1) ::
      (encodeFields ((instrRow i).2.2.1.map (·.2)) (fieldValues i) ++ (if (instrRow i).2.2.2 then u32s (listValues i) else [])) := by
  cases i <;> simp [encodeInstr, instrRow, instrRowIn, opcodeIn, instrLayout, variantOf, opcodeOf, opcodeTable, fieldValues, listValues, encodeFields,
    List.append_assoc] <;> rfl

/-- every variant of the model has a row, and every row belongs to a variant -/
theorem instrLayout_covers (i : Instr) : (instrRow i).1 = variantOf i := by
  cases i <;> rfl

theorem writeConst_by_layout (c : CEntry) :
    writeConst c = encodeFields (constEntryLayout.map (·.2)) (constEntryValues c) := by
  simp [writeConst, constEntryLayout, constEntryValues, encodeFields]

theorem writeSymbol_by_layout (s : Nat × Bool × Nat) :
    writeSymbol s = encodeFields (symbolEntryLayout.map (·.2)) (symbolEntryValues s) := by
  simp [writeSymbol, symbolEntryLayout, symbolEntryValues, encodeFields, List.append_assoc]

theorem entry_sizes (c : CEntry) (s : Nat × Bool × Nat) :
    (writeConst c).length = CONST_ENTRY_SIZE ∧ (constEntryLayout.map (·.2)).sum = CONST_ENTRY_SIZE ∧
    (writeSymbol s).length = SYMBOL_ENTRY_SIZE ∧ (symbolEntryLayout.map (·.2)).sum = SYMBOL_ENTRY_SIZE :=
  ⟨writeConst_length c, by decide, writeSymbol_length s, by decide⟩

end MechVerif.Layout
