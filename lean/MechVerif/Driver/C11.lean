import MechVerif.Driver.Scalar
import MechVerif.Spec.Concat
namespace MechVerif.Driver
open MechVerif.Num MechVerif.Scalar MechVerif.Mat MechVerif.Concat

def parseBlock (t : String) : Option (Kind × Mat Val) :=
  match t.splitOn "~" with
  | [kn, ot] =>
    match kindOfName kn with
    | none => none
    | some k => (parseOperand k ot).map (fun o => (k, blockOf o))
  | _ => none

/-- the block matrix by direct element lookup (independent of the copy kernels) -/
def specLit (rows : List (List (Mat Val))) : Option (Mat Val) :=
  let okRow (r : List (Mat Val)) : Bool := match r with
    | [] => false
    | b :: bs => bs.all (fun x => x.rows == b.rows)
  if rows.isEmpty || !rows.all okRow then none else
  let widths := rows.map sumCols
  let C := widths.headD 0
  if !widths.all (· == C) then none else
  let R := (rows.map rowHeight).sum
  let cells := (List.range (R * C)).map (fun k => litGet rows (k % R) (k / R))
  if cells.all Option.isSome then some ⟨R, C, cells.filterMap id⟩ else none

def runC11 (fields : List String) (obs : String) : String × String × String :=
  -- an optional third field says how each block is written in the source (variable, nested literal,
  -- expression value): the result must not depend on it
  match (match fields with | [a, b, _forms] => [a, b] | other => other) with
  | [_, body] =>
    let rowsT := (body.splitOn ";;").map (fun r => r.splitOn ",,")
    match rowsT.mapM (fun r => r.mapM parseBlock) with
    | none => ("bad-case", "bad-case", "-")
    | some rowsKB =>
      let kinds := (rowsKB.flatMap id).map (·.1)
      let k := kinds.headD .f64
      let rows := rowsKB.map (fun r => r.map (·.2))
      let sameKind := kinds.all (· == k)
      let model := if !sameKind then "err" else
        match matrixLit rows with
        | .ok m => operandText k (.mat m)
        | .error _ => "err"
      let spec := if !sameKind then "err" else
        match specLit rows with
        | some m => operandText k (.mat m)
        | none => "err"
      (model, if obs == spec then "ok" else "bad:expected " ++ spec, "-")
  | _ => ("bad-case", "bad-case", "-")

end MechVerif.Driver
