/-
The writer of a whole bytecode file: `ParsedProgram::to_bytes` (src/core/src/program/program.rs)
and the layout `CompileCtx::compile` computes (src/core/src/program/compiler/context.rs) —
header, features (count + u64 each), types (count + entries: tag u16, reserved u16 = 0,
version u32 = 1, length u32, payload), constant table (24 bytes an entry), constant blob,
symbols (13 bytes an entry), instruction stream, dictionary (id u64, length u32, name),
CRC-32 trailer.  `to_bytes` writes the header it holds; `compile` fills the header's counts,
offsets and lengths from the sections it is about to write (`layout`).
-/
import MechVerif.Model.Loader
namespace MechVerif.Loader
open MechVerif.Bytecode
open MechVerif.Crc (Byte)

/-- the four little-endian bytes of a checksum -/
def trailer (c : BitVec 32) : List Byte :=
  [c.extractLsb' 0 8, c.extractLsb' 8 8, c.extractLsb' 16 8, c.extractLsb' 24 8]

def writeFeatures (fs : List Nat) : List Byte := leBytes 4 fs.length ++ fs.flatMap (leBytes 8)

def writeType (t : Nat × List Byte) : List Byte :=
  leBytes 2 t.1 ++ (leBytes 2 0 ++ (leBytes 4 1 ++ (leBytes 4 t.2.length ++ t.2)))

def writeTypes (ts : List (Nat × List Byte)) : List Byte := leBytes 4 ts.length ++ ts.flatMap writeType

/-- `ConstEntry::write_to` -/
def writeConst (c : CEntry) : List Byte :=
  leBytes 4 c.typeId ++ (leBytes 1 c.enc ++ (leBytes 1 c.align ++ (leBytes 1 c.flags ++ (leBytes 1 c.reserved ++
    (leBytes 8 c.offset ++ leBytes 8 c.length)))))

def writeConsts (cs : List CEntry) : List Byte := cs.flatMap writeConst

/-- `SymbolEntry::write_to` -/
def writeSymbol (s : Nat × Bool × Nat) : List Byte :=
  leBytes 8 s.1 ++ leBytes 1 (if s.2.1 then 1 else 0) ++ leBytes 4 s.2.2

def writeSymbols (ss : List (Nat × Bool × Nat)) : List Byte := ss.flatMap writeSymbol

/-- `DictEntry::write_to` -/
def writeDictEntry (e : Nat × List Byte) : List Byte := leBytes 8 e.1 ++ (leBytes 4 e.2.length ++ e.2)

def writeDict (es : List (Nat × List Byte)) : List Byte := es.flatMap writeDictEntry

/-- everything before the trailer, in the order `to_bytes` writes it -/
def body (L : Loaded) : List Byte :=
  writeHeader L.header ++ (writeFeatures L.features ++ (writeTypes L.types ++ (writeConsts L.consts ++ (L.blob ++
    (writeSymbols L.symbols ++ (encodeInstrs L.instrs ++ writeDict L.dict))))))

/-- `ParsedProgram::to_bytes` -/
def toBytes (L : Loaded) : List Byte := body L ++ trailer (Crc.crc32 (body L))

/-- the counts, offsets and lengths `compile` writes into the header for the sections it emits -/
structure Layout (L : Loaded) : Prop where
  magic : L.header.magic = MECH
  instrCount : L.header.instrCount = L.instrs.length
  featureCount : L.header.featureCount = L.features.length
  featureOff : L.header.featureOff = HEADER_SIZE
  typesCount : L.header.typesCount = L.types.length
  typesOff : L.header.typesOff = HEADER_SIZE + (writeFeatures L.features).length
  constCount : L.header.constCount = L.consts.length
  constTblOff : L.header.constTblOff = HEADER_SIZE + (writeFeatures L.features).length + (writeTypes L.types).length
  constTblLen : L.header.constTblLen = (writeConsts L.consts).length
  constBlobOff : L.header.constBlobOff =
    HEADER_SIZE + (writeFeatures L.features).length + (writeTypes L.types).length + (writeConsts L.consts).length
  constBlobLen : L.header.constBlobLen = L.blob.length
  symbolsOff : L.header.symbolsOff =
    HEADER_SIZE + (writeFeatures L.features).length + (writeTypes L.types).length + (writeConsts L.consts).length + L.blob.length
  symbolsLen : L.header.symbolsLen = (writeSymbols L.symbols).length
  instrOff : L.header.instrOff =
    HEADER_SIZE + (writeFeatures L.features).length + (writeTypes L.types).length + (writeConsts L.consts).length + L.blob.length +
      (writeSymbols L.symbols).length
  instrLen : L.header.instrLen = (encodeInstrs L.instrs).length
  dictOff : L.header.dictOff =
    HEADER_SIZE + (writeFeatures L.features).length + (writeTypes L.types).length + (writeConsts L.consts).length + L.blob.length +
      (writeSymbols L.symbols).length + (encodeInstrs L.instrs).length
  dictLen : L.header.dictLen = (writeDict L.dict).length

end MechVerif.Loader
