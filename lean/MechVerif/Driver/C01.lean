import MechVerif.Driver.Scalar
import MechVerif.Spec.Broadcast
namespace MechVerif.Driver
open MechVerif.Num MechVerif.Scalar MechVerif.Mat

/-- the spec, computed independently of the dispatch: broadcast shape and every element
    through `bAt` -/
def specBinop (f : Val → Val → Except Err Val) (a b : Operand Val) : Except Err (Operand Val) :=
  match bshape a.shape b.shape with
  | none => .error .dim
  | some .scalar =>
    (match a, b with
     | .scalar x, .scalar y => mapE (f x y) .scalar
     | _, _ => .error .other)
  | some (.mat R C) =>
    let cells := (List.range (R * C)).mapM (fun k =>
      let i := k % R; let j := k / R
      match bAt a R C i j, bAt b R C i j with
      | some x, some y => f x y
      | _, _ => .error .index)
    mapE cells (fun d => .mat ⟨R, C, d⟩)

def runC01 (fields : List String) (obs : String) : String × String × String :=
  match fields with
  | ["binop", opn, kn, lt, rt, _] =>
    match opOfName opn, kindOfName kn with
    | some op, some k =>
      match parseOperand k lt, parseOperand k rt with
      | some a, some b =>
        let f := scalarOp hwFloat k op
        let rk := resultKind k op
        let model := renderResult rk (evalBinop f a b)
        let spec := renderResult rk (specBinop f a b)
        (model, if obs == spec then "ok" else "bad:expected " ++ spec, "-")
      | _, _ => ("bad-case", "bad-case", "-")
    | _, _ => ("bad-case", "bad-case", "-")
  | ["unop", opn, kn, ot, _] =>
    match kindOfName kn with
    | some k =>
      match parseOperand k ot with
      | some a =>
        let op := if opn == "neg" then UnOp.neg else UnOp.not
        let model := renderResult k (evalUnop (scalarUnop hwFloat k op) a)
        (model, if obs == model then "ok" else "bad:expected " ++ model, "-")
      | none => ("bad-case", "bad-case", "-")
    | none => ("bad-case", "bad-case", "-")
  | _ => ("bad-case", "bad-case", "-")

end MechVerif.Driver
