import MechVerif.Driver.C06
import MechVerif.Model.Cursor
namespace MechVerif.Driver.S09
open MechVerif.Cursor MechVerif.Driver

def gOfText (t : String) : G :=
  let nl := t == "\n" || t == "\r" || t == "\r\n"
  let c := t.toList.headD ' '
  let w := if c == '\t' then 1 else if c.toNat < 0x20 || (0x7f ≤ c.toNat && c.toNat ≤ 0x9f) then 0 else 1
  ⟨nl, w, t⟩

def psText (ok : Bool) (p : PS) : String := (if ok then "ok:" else "err:") ++ s!"{p.cursor}:{p.row}:{p.col}"

def splitGraphemesLike (tag : String) (gs : List G) (at_ : Nat) : List String :=
  -- a tag is matched grapheme by grapheme: cut it along the graphemes of the text at the cursor when it is
  -- a prefix of them, otherwise treat it as one unit (it then cannot match)
  let rec go (rest : String) (i : Nat) (fuel : Nat) (acc : List String) : List String :=
    match fuel with
    | 0 => acc.reverse ++ (if rest.isEmpty then [] else [rest])
    | fuel + 1 =>
      if rest.isEmpty then acc.reverse else
      match gs[i]? with
      | some g => if !g.text.isEmpty && rest.startsWith g.text then go (rest.drop g.text.length).toString (i + 1) fuel (g.text :: acc) else acc.reverse ++ [rest]
      | none => acc.reverse ++ [rest]
  go tag at_ (tag.length + 1) []

def runCur (gs : List G) (ops : List String) : List String :=
  let rec go (ops : List String) (p : PS) (acc : List String) : List String :=
    match ops with
    | [] => acc.reverse
    | op :: rest =>
      let r : Option PS :=
        if op == "a" || op == "k" then consumeOne gs p
        else if op == "n" then newLine gs p
        else if op == "e" then some (skipTillEol gs gs.length p)
        else if op == "p" then skipPastEol gs p
        else match ((op.drop 2).toString.splitOn "+").mapM S06.unhexStr with
          -- the tag arrives cut into its own graphemes (harness: unicode-segmentation, as `graphemes::init_tag`)
          | some tag => if gs.length ≤ p.cursor then none else consumeTag gs p tag
          | none => none
      match r with
      | some q => go rest q (psText true q :: acc)
      | none =>
        -- a failing parser reports the position where it gave up: the end of the line for `p`, else where it stood
        let q := if op == "p" then skipTillEol gs gs.length p else p
        go rest p (psText false q :: acc)
  go ops start []

/-- `r1:c1-r2:c2` within the newline-terminated text whose lines have the given lengths -/
def rangeOk (lens : List Nat) (r : String) : Bool :=
  match r.splitOn "-" with
  | [a, b] =>
    (match (a.splitOn ":").mapM String.toNat?, (b.splitOn ":").mapM String.toNat? with
     | some [r1, c1], some [r2, c2] =>
       let okLoc (row col : Nat) (slack : Nat) : Bool := row ≥ 1 && row ≤ lens.length && col ≥ 1 && col ≤ (lens.getD (row - 1) 0) + 1 + slack
       okLoc r1 c1 0 && okLoc r2 c2 1 && (r1 < r2 || (r1 == r2 && c1 ≤ c2))
     | _, _ => false)
  | _ => false

def runC09 (fields : List String) (obs : String) : String × String × String :=
  let bad := ("bad-case", "bad-case", "-")
  match fields with
  | ["cur", _hextext, ops] =>
    (match obs.splitOn "|" with
     | [g, _] =>
       let gtexts := ((g.drop 2).toString.splitOn ",").map (fun h => (S06.unhexStr h).getD "?")
       let gs := gtexts.map gOfText
       let model := g ++ "|" ++ ";".intercalate (runCur gs ((ops.splitOn ",").filter (· != "")))
       (model, (if obs == model then "ok" else "bad:cursor bookkeeping differs"), "-")
     | _ => bad)
  | ["parse", cls, hextext] =>
    let openers := ((S06.unhexStr hextext).getD "").toList.filter (fun c => c == '(' || c == '[' || c == '{') |>.length
    let kv := (obs.splitOn "|").map (fun p => match p.splitOn "=" with | k :: v => (k, "=".intercalate v) | [] => ("", ""))
    let get (k : String) : String := ((kv.find? (fun p => p.1 == k)).map (·.2)).getD ""
    let lens := ((get "L").splitOn ",").filterMap String.toNat?
    let ranges := if (get "R").isEmpty then [] else (get "R").splitOn ","
    let o := get "O"
    let verdict :=
      if o == "panic" then "bad:the parser panicked"
      else if o == "timeout" then "bad:the parser did not finish in 20 s"
      else if get "D" != "same" then "bad:two parses of the same text differ"
      else if o == "err" && ranges.isEmpty then "bad:an error report without a range"
      else if !(ranges.all (rangeOk lens)) then "bad:a reported range lies outside the input"
      else if get "E" != "ok" then "bad:format_error panicked on the report"
      else "ok"
    let region :=
      if verdict == "ok" then "-"
      else if o == "timeout" && (cls == "unclosed" || openers ≥ 6) then "C09-D2"
      else if o == "panic" || o == "timeout" || get "D" != "same" then "-"
      else if ranges.any (fun r => r.startsWith "0:0") then "C09-D3"
      else if !(ranges.all (rangeOk lens)) then "-"
      else if get "E" != "ok" then "C09-D4"
      else "-"
    (obs, verdict, region)
  | _ => bad

end MechVerif.Driver.S09
