#!/usr/bin/env python3
"""Regenerates lean/MechVerif/Gen/Kernels.lean from the source of the element-wise operators:

* every kernel macro `<op>_{op,vec_op,scalar_lhs_op,scalar_rhs_op,mat_vec_op,vec_mat_op,mat_row_op,row_mat_op}`
  of machines/math/src/ops/{add,sub,mul,div,modulus,pow}.rs, machines/compare/src/{eq,neq,gt,gte,lt,lte}.rs and
  machines/logic/src/{and,or,xor}.rs is read by a small symbolic reader (aliases, the loop header(s), the one
  statement that computes an output element) and written as a value of `MechVerif.KernelIR.IR` together with the
  operator token it uses;
* every row of `impl_fxns!` (src/core/src/stdlib.rs): (struct suffix, lhs type, rhs type, kernel macro suffix);
* every arm of `impl_binop_match_arms!`: (lhs storage variant, rhs storage variant, struct suffix).

The generated file ends in `decide` proofs that each kernel is accepted for its family (`irOk`), uses the operator's
own token, and that the wiring is the one `Model/Mat.lean` dispatches by.  Library calls are read with nalgebra's
documented meaning: `x.add_to(y, out)` / `x.sub_to(y, out)`: out[i] = x[i] ± y[i]; `x.component_mul(y)` /
`x.component_div(y)`: element-wise; `x.add_scalar(s)`: x[i] + s.
A macro body the reader does not recognise makes `generate` return (False, reason): the check then keeps the last
generated table, says so in a NOTE and leaves the decision to the correspondence run."""
import os, re, sys

OPS = [("add", "machines/math/src/ops/add.rs", "add"), ("sub", "machines/math/src/ops/sub.rs", "sub"),
       ("mul", "machines/math/src/ops/mul.rs", "mul"), ("div", "machines/math/src/ops/div.rs", "div"),
       ("mod", "machines/math/src/ops/modulus.rs", "mod"), ("pow", "machines/math/src/ops/pow.rs", "pow"),
       ("eq", "machines/compare/src/eq.rs", "eq"), ("neq", "machines/compare/src/neq.rs", "neq"),
       ("gt", "machines/compare/src/gt.rs", "gt"), ("gte", "machines/compare/src/gte.rs", "gte"),
       ("lt", "machines/compare/src/lt.rs", "lt"), ("lte", "machines/compare/src/lte.rs", "lte"),
       ("and", "machines/logic/src/and.rs", "and"), ("or", "machines/logic/src/or.rs", "or"),
       ("xor", "machines/logic/src/xor.rs", "xor")]
SUFFIXES = ["op", "vec_op", "scalar_lhs_op", "scalar_rhs_op", "mat_vec_op", "vec_mat_op", "mat_row_op", "row_mat_op"]
FAMILY = {"op": ".ss", "vec_op": ".zip", "scalar_lhs_op": ".ms", "scalar_rhs_op": ".sm", "mat_vec_op": ".matCol",
          "vec_mat_op": ".colMat", "mat_row_op": ".matRow", "row_mat_op": ".rowMat"}
BINOPS = {"+", "-", "*", "/", "%", "==", "!=", ">", ">=", "<", "<=", "&&", "||", "^"}
LIBCALL = {"add_to": "+", "sub_to": "-", "component_mul": "*", "component_div": "/", "add_scalar": "+"}

class Unrecognised(Exception):
    pass

def macro_bodies(text):
    out = {}
    for m in re.finditer(r'macro_rules!\s*(\w+)\s*\{', text):
        i, d = m.end(), 1
        while d and i < len(text):
            c = text[i]
            d += (c == '{') - (c == '}')
            i += 1
        out.setdefault(m.group(1), text[m.end():i - 1])
    return out

TOK = re.compile(r'\$\w+|[A-Za-z_]\w*|\d+|==|!=|>=|<=|&&|\|\||\.\.|=>|[-+*/%^<>=(){}\[\];,.&!|:]')

def tokens(body):
    body = re.sub(r'//[^\n]*', '', body)
    toks = TOK.findall(body)
    # drop the macro pattern `( $lhs : expr , $rhs : expr , $out : expr ) =>`
    if '=>' not in toks: raise Unrecognised("no `=>` in macro")
    toks = toks[toks.index('=>') + 1:]
    ren = {'$lhs': 'L', '$rhs': 'R', '$out': 'O'}
    res = []
    for t in toks:
        t = ren.get(t, t)
        if t.startswith('$'): raise Unrecognised("unknown macro variable " + t)
        if t in ('unsafe', 'mut'): continue
        prev = res[-1] if res else None
        operand_before = prev is not None and (re.match(r'^\w+$', prev) is not None and prev not in ('in', 'let', 'for', 'if', 'else') or prev in (']', ')'))
        if t == '*' and not operand_before: continue        # dereference
        if t == '&' : continue                                # borrow (binary & does not occur; && is one token)
        res.append(t)
    # ( X ) -> X for a single name, repeatedly
    changed = True
    while changed:
        changed = False
        for i in range(len(res) - 2):
            if res[i] == '(' and res[i + 2] == ')' and re.match(r'^[A-Za-z_]\w*$', res[i + 1]) and (i == 0 or not re.match(r'^\w+$', res[i - 1]) or res[i - 1] in ('in', '=')):
                res[i:i + 3] = [res[i + 1]]; changed = True; break
    return res

def read_kernel(body):
    t = tokens(body)
    # strip outer braces
    env = {'L': ('L', 'whole?'), 'R': ('R', 'whole?'), 'O': ('O', 'whole?')}   # name -> (side, how it is bound)
    loop = None            # None | ('linear', side) | ('cols', side) | ('rows', side)
    inner = False
    i = 0
    def side_of(name):
        if name not in env: raise Unrecognised("unknown name " + name)
        return env[name]
    def expect(seq):
        nonlocal i
        if t[i:i + len(seq)] != seq: raise Unrecognised("expected %s at %s" % (' '.join(seq), ' '.join(t[i:i + 12])))
        i += len(seq)
    stmt = None
    while i < len(t):
        if t[i] == 'let':
            # let v = X ;
            if i + 4 < len(t) + 1 and t[i + 2] == '=' and t[i + 4:i + 5] in ([';'],) and t[i + 3] in env:
                s, how = env[t[i + 3]]
                env[t[i + 1]] = (s, how); i += 5; continue
            raise Unrecognised("let: " + ' '.join(t[i:i + 10]))
        if t[i] == 'for':
            j = t.index('{', i)
            head = t[i + 1:j]
            hs = ' '.join(head)
            m = re.match(r'^(\w+) in 0 \.\. (\w+) \. len \( \)$', hs)
            if m:
                v, x = m.group(1), m.group(2)
                s, how = side_of(x)
                if loop is None:
                    if how != 'whole?': raise Unrecognised("linear loop over a bound variable")
                    loop = ('linear', s); env[v] = ('idx', 'linear')
                else:
                    if loop[0] not in ('cols', 'rows') or how != 'outer': raise Unrecognised("inner loop bound " + hs)
                    inner = True; env[v] = ('idx', 'inner')
                i = j + 1; continue
            m = re.match(r'^\( (\w+) , \( (\w+) , (\w+) \) \) in (\w+) \. iter_mut \( \) \. zip \( (\w+) \. iter \( \) \. zip \( (\w+) \. iter \( \) \) \)$', hs)
            if m and loop is None:
                o, l, r, O, X, Y = m.groups()
                if side_of(O)[0] != 'O': raise Unrecognised("zip target " + hs)
                loop = ('linear', side_of(X)[0])
                env[o] = ('O', 'lin'); env[l] = (side_of(X)[0], 'lin'); env[r] = (side_of(Y)[0], 'lin')
                i = j + 1; continue
            m = re.match(r'^\( (\w+) , (\w+) \) in (\w+) \. iter_mut \( \) \. zip \( (\w+) \. iter \( \) \)$', hs)
            if m and loop is None:
                o, l, O, X = m.groups()
                if side_of(O)[0] != 'O': raise Unrecognised("zip target " + hs)
                loop = ('linear', side_of(X)[0]); env[o] = ('O', 'lin'); env[l] = (side_of(X)[0], 'lin')
                i = j + 1; continue
            m = re.match(r'^\( (\w+) , (\w+) \) in (\w+) \. (column|row)_iter_mut \( \) \. zip \( (\w+) \. (column|row)_iter \( \) \)$', hs)
            if m and loop is None and m.group(4) == m.group(6):
                c, xc, O, kind, X, _ = m.groups()
                if side_of(O)[0] != 'O': raise Unrecognised("zip target " + hs)
                loop = ('cols' if kind == 'column' else 'rows', side_of(X)[0])
                env[c] = ('O', 'outer'); env[xc] = (side_of(X)[0], 'outer')
                i = j + 1; continue
            raise Unrecognised("loop header: " + hs)
        if t[i] in ('{', '}', ';'):
            i += 1; continue
        # the statement
        j = i
        while j < len(t) and t[j] not in (';', '}'): j += 1
        if stmt is not None: raise Unrecognised("more than one statement: " + ' '.join(t[i:j]))
        stmt = t[i:j]; i = j
    if stmt is None: raise Unrecognised("no statement")

    def access(ts):
        """an operand expression -> (side, acc)"""
        if len(ts) == 1 and ts[0] in env:
            s, how = env[ts[0]]
            if s not in ('L', 'R', 'O'): raise Unrecognised("operand " + ts[0])
            if how == 'whole?':
                return (s, 'whole')
            if how == 'lin': return (s, 'lin')
            if how == 'outer': return (s, 'outerwhole')     # a whole column / row (library call)
            raise Unrecognised("operand " + ts[0])
        if len(ts) == 4 and ts[1] == '[' and ts[3] == ']' and ts[0] in env and ts[2] in env and env[ts[2]][0] == 'idx':
            s, how = env[ts[0]]
            ik = env[ts[2]][1]
            if how == 'whole?' and ik == 'linear': return (s, 'lin')
            if how == 'whole?' and ik == 'inner': return (s, 'inner')
            if how == 'outer' and ik == 'inner': return (s, 'outer')
            raise Unrecognised("indexing " + ' '.join(ts))
        # ( X ) [ i ] with leftover parentheses
        if ts and ts[0] == '(' :
            d = 0
            for k, x in enumerate(ts):
                d += (x == '(') - (x == ')')
                if d == 0: break
            if k == len(ts) - 1: return access(ts[1:-1])
            return access(ts[1:k] + ts[k + 1:]) if k == 2 else (_ for _ in ()).throw(Unrecognised("operand " + ' '.join(ts)))
        raise Unrecognised("operand " + ' '.join(ts))

    def split_top(ts, seps):
        d = 0
        for k, x in enumerate(ts):
            if x in '([': d += 1
            elif x in ')]': d -= 1
            elif d == 0 and x in seps and k > 0: return ts[:k], x, ts[k + 1:]
        return None

    tok = None
    if '=' in stmt and split_top(stmt, {'='}):
        tgt, _, rhs = split_top(stmt, {'='})
        target = access(tgt)
        if target[0] != 'O': raise Unrecognised("assignment target " + ' '.join(tgt))
        sp = split_top(rhs, BINOPS)
        if sp:
            a, tok, b = sp
            A, B = access(a), access(b)
        else:
            m = split_top(rhs, {'.'})
            if not m: raise Unrecognised("expression " + ' '.join(rhs))
            recv, _, call = m
            if call[1] != '(' or call[-1] != ')': raise Unrecognised("call " + ' '.join(call))
            name, arg = call[0], call[2:-1]
            if name == 'pow': tok = 'pow'; A, B = access(recv), access(arg)
            elif name in ('component_mul', 'component_div'):
                tok = LIBCALL[name]; A, B = access(recv), access(arg)
                if loop is not None or A[1] != 'whole' or B[1] != 'whole' or target[1] != 'whole': raise Unrecognised(name)
                loop = ('linear', A[0]); A, B = (A[0], 'lin'), (B[0], 'lin'); target = ('O', 'lin')
            elif name == 'add_scalar':
                tok = LIBCALL[name]; A, B = access(recv), access(arg)
                if loop is not None or A[1] != 'whole' or B[1] != 'whole' or target[1] != 'whole': raise Unrecognised(name)
                loop = ('linear', A[0]); A = (A[0], 'lin'); target = ('O', 'lin')
            else: raise Unrecognised("call " + name)
    else:
        m = split_top(stmt, {'.'})
        if not m: raise Unrecognised("statement " + ' '.join(stmt))
        recv, _, call = m
        name = call[0]
        if name not in ('add_to', 'sub_to') or call[1] != '(' or call[-1] != ')': raise Unrecognised("statement " + ' '.join(stmt))
        args = call[2:-1]
        sp = split_top(args, {','})
        if not sp: raise Unrecognised("arguments of " + name)
        tok = LIBCALL[name]
        A, B, target = access(recv), access(sp[0]), access(sp[2])
        if target[0] != 'O': raise Unrecognised("target of " + name)
        if loop is None:
            if not (A[1] == B[1] == target[1] == 'whole'): raise Unrecognised(name)
            loop = ('linear', A[0]); A, B, target = (A[0], 'lin'), (B[0], 'lin'), ('O', 'lin')
        else:
            if loop[0] not in ('cols', 'rows') or target[1] != 'outerwhole': raise Unrecognised(name + " in loop")
            conv = {'outerwhole': 'outer', 'whole': 'inner'}
            if A[1] not in conv or B[1] not in conv: raise Unrecognised(name + " operands")
            A, B, target = (A[0], conv[A[1]]), (B[0], conv[B[1]]), ('O', 'outer')
    if loop is not None and loop[1] not in ('L', 'R'): raise Unrecognised("a loop driven by %s" % loop[1])
    # the target must be the output element of the loop
    want = {None: 'whole', 'linear': 'lin', 'cols': 'outer', 'rows': 'outer'}[loop[0] if loop else None]
    if target[1] != want: raise Unrecognised("target %s under loop %s" % (target, loop))
    if loop and loop[0] in ('cols', 'rows') and not inner and tok not in ('+', '-'): raise Unrecognised("column loop without inner index")
    for X in (A, B):
        if X[0] not in ('L', 'R') or X[1] not in ('whole', 'lin', 'outer', 'inner'): raise Unrecognised("operand %s" % (X,))
    return loop, A, B, tok

def lean_ir(loop, A, B):
    l = ".none" if loop is None else "(.%s .%s)" % (loop[0], loop[1])
    return "⟨%s, (.%s, .%s), (.%s, .%s)⟩" % (l, A[0], A[1], B[0], B[1])

TYPES = {"$in": "S", "DMatrix<$in>": "MD", "RowDVector<$in>": "RD", "DVector<$in>": "VD"}
def short_type(t):
    t = t.strip()
    if t in TYPES: return TYPES[t]
    m = re.match(r'^(Matrix|RowVector|Vector)(\w+)<\$in>$', t)
    if m: return {"Matrix": "M", "RowVector": "R", "Vector": "V"}[m.group(1)] + m.group(2)
    raise Unrecognised("type " + t)

def read_impl_fxns(text):
    bodies = macro_bodies(text)
    if 'impl_fxns' not in bodies: raise Unrecognised("impl_fxns! not found")
    rows = []
    for m in re.finditer(r'\$op!\(\[<\$lib (\w+)>\],\s*([^,]+),\s*([^,]+),\s*([^,]+),\s*\[<\$lib:lower _(\w+)>\]', bodies['impl_fxns']):
        suf, a, b, o, k = m.groups()
        rows.append((suf, short_type(a), short_type(b), short_type(o.replace('$out', '$in')), k))
    if len(rows) < 14: raise Unrecognised("impl_fxns!: only %d rows read" % len(rows))
    return rows

VARIANT = {"DMatrix": "MD", "RowDVector": "RD", "DVector": "VD"}
def short_variant(v):
    if v in VARIANT: return VARIANT[v]
    m = re.match(r'^(Matrix|RowVector|Vector)(\w+)$', v)
    if m: return {"Matrix": "M", "RowVector": "R", "Vector": "V"}[m.group(1)] + m.group(2)
    raise Unrecognised("storage variant " + v)

def read_match_arms(text):
    bodies = macro_bodies(text)
    if 'impl_binop_match_arms' not in bodies: raise Unrecognised("impl_binop_match_arms! not found")
    b = bodies['impl_binop_match_arms']
    side = r'Value::(?:\$lhs_type\((?:lhs|rhs)\)|\[<Matrix \$lhs_type>\]\((?:Matrix::(\w+)\((?:lhs|rhs)\)|(lhs|rhs))\))'
    arms = []
    def block(start):
        i, d = start, 1
        while d and i < len(b):
            d += (b[i] == '{') - (b[i] == '}')
            i += 1
        return b[start:i - 1]
    pat = re.compile(r'\(\s*' + side + r'\s*,\s*' + side + r'\s*\)\s*(?:if[^{]*)?=>\s*\{')
    for m in pat.finditer(b):
        body = block(m.end())
        lv, lany, rv, rany = m.group(1), m.group(2), m.group(3), m.group(4)
        if lany or rany:
            # one side is matched by an inner `match lhs|rhs { Matrix::X(..) => {..} .. }`
            if lany and rany: raise Unrecognised("match arm with both storages open")
            var = lany or rany
            fixed = short_variant(rv if lany else lv)
            im = re.search(r'match\s+%s\s*\{' % var, body)
            if not im: raise Unrecognised("open arm without inner match on " + var)
            start = m.end() + im.end()
            inner = block(start)
            for n in re.finditer(r'Matrix::(\w+)\(%s\)\s*=>\s*\{' % var, inner):
                nb = block(start + n.end())
                structs = set(re.findall(r'Box::new\(\[<\$lib (\w+)>\]', nb))
                if len(structs) != 1: raise Unrecognised("inner arm %s builds %s" % (n.group(1), sorted(structs)))
                o = short_variant(n.group(1))
                arms.append((o, fixed, structs.pop()) if lany else (fixed, o, structs.pop()))
            continue
        l = short_variant(lv) if lv else "S"
        r = short_variant(rv) if rv else "S"
        structs = set(re.findall(r'Box::new\(\[<\$lib (\w+)>\]', body))
        if len(structs) != 1: raise Unrecognised("match arm (%s,%s) builds %s" % (l, r, sorted(structs)))
        arms.append((l, r, structs.pop()))
    if len(arms) < 14: raise Unrecognised("impl_binop_match_arms!: only %d arms read" % len(arms))
    return arms

def extract(repo="/repo"):
    kernels = []
    for op, path, prefix in OPS:
        bodies = macro_bodies(open(os.path.join(repo, path), newline='').read().replace('\r\n', '\n'))
        for suf in SUFFIXES:
            name = "%s_%s" % (prefix, suf)
            if name not in bodies: raise Unrecognised("macro %s not found in %s" % (name, path))
            try:
                loop, A, B, tok = read_kernel(bodies[name])
            except Unrecognised as e:
                raise Unrecognised("%s (%s): %s" % (name, path, e))
            kernels.append((op, suf, tok, loop, A, B))
    std = open(os.path.join(repo, "src/core/src/stdlib.rs"), newline='').read().replace('\r\n', '\n')
    return kernels, read_impl_fxns(std), read_match_arms(std)

def generate(root, repo="/repo"):
    try:
        kernels, rows, arms = extract(repo)
    except (Unrecognised, OSError, ValueError, IndexError) as e:
        return False, "C01 kernel extraction failed: %s" % e
    out = os.path.join(root, 'lean', 'MechVerif', 'Gen', 'Kernels.lean')
    L = ["/- GENERATED by tools/extract_kernels.py from machines/{math,compare,logic} and src/core/src/stdlib.rs — do not edit. -/",
         "import MechVerif.Lemmas.KernelIR", "namespace MechVerif.Gen.Kernels", "open MechVerif.Mat MechVerif.KernelIR", "",
         "/-- (operator, family of the macro suffix, operator token as written, kernel as written) -/",
         "def kernels : List (String × Kernel × String × IR) :=", "  ["]
    L.append(",\n".join('   ("%s", %s, "%s", %s)' % (op, FAMILY[suf], tok, lean_ir(loop, A, B)) for op, suf, tok, loop, A, B in kernels) + "]")
    L += ["", "/-- rows of `impl_fxns!`: (struct suffix, lhs type, rhs type, output type, kernel macro suffix) -/",
          "def fxnRows : List (String × String × String × String × String) :=", "  ["]
    L.append(",\n".join('   ("%s", "%s", "%s", "%s", "%s")' % r for r in rows) + "]")
    L += ["", "/-- arms of `impl_binop_match_arms!`: (lhs storage, rhs storage, struct suffix it builds) -/",
          "def matchArms : List (String × String × String) :=", "  ["]
    L.append(",\n".join('   ("%s", "%s", "%s")' % a for a in arms) + "]")
    L += ["",
          "/-- every kernel macro, as written, is the kernel of its family (operands in source order, or swapped for a",
          "    commutative operator) and applies the operator's own token -/",
          "theorem C01_kernels_as_written_ok : kernels.all (fun e => kernelEntryOk e) = true := by decide",
          "",
          "/-- `impl_fxns!` wires to every pair of operand types the kernel macro of that pair's family, the struct is named",
          "    after the pair, and the output has the matrix operand's type -/",
          "theorem C01_fxn_rows_ok : fxnRows.all (fun r => fxnRowOk r) = true := by decide",
          "",
          "/-- over the storage forms of the default feature set the wiring is the one `Model/Mat.dispatch` assumes -/",
          "theorem C01_dynamic_rows_are_spec : (fxnRows.filter (fun r => isDynamicRow r)).map (fun r => (r.2.1, r.2.2.1, r.2.2.2.2)) = specArms := by decide",
          "",
          "/-- every match arm builds the struct named after the storage forms it matched -/",
          "theorem C01_match_arms_ok : matchArms.all (fun a => matchArmOk a) = true := by decide",
          "", "end MechVerif.Gen.Kernels", ""]
    text = "\n".join(L)
    old = open(out).read() if os.path.exists(out) else None
    if old != text: open(out, 'w').write(text)
    return True, "C01 kernels extracted: %d kernel macros, %d impl_fxns rows, %d match arms" % (len(kernels), len(rows), len(arms))

if __name__ == '__main__':
    root = os.path.dirname(os.path.dirname(os.path.abspath(__file__)))
    if len(sys.argv) > 1 and sys.argv[1] == '--show':
        k, r, a = extract(sys.argv[2] if len(sys.argv) > 2 else "/repo")
        for x in k: print(x)
        for x in r: print(x)
        for x in a: print(x)
    else:
        print(generate(root))
