import MechVerif.Model.Arms
namespace MechVerif.Arms

/-- `s2` returns every value `s1` returns -/
def Ext (s1 s2 : List S → Except Err S) : Prop := ∀ a r, s1 a = .ok r → s2 a = .ok r

theorem Ext.refl (s : List S → Except Err S) : Ext s s := fun _ _ h => h
theorem Ext.trans {s1 s2 s3 : List S → Except Err S} (h1 : Ext s1 s2) (h2 : Ext s2 s3) : Ext s1 s3 :=
  fun a r h => h2 a r (h1 a r h)

/-! inversion of the evaluator -/

theorem evalE_bin_ok {self : List S → Except Err S} {env : Env} {op : Op} {a b : E} {v : V}
    (h : evalE self env (.bin op a b) = .ok v) :
    ∃ x y r, evalE self env a = .ok (.sc x) ∧ evalE self env b = .ok (.sc y) ∧ binop op x y = .ok r ∧ v = .sc r := by
  simp only [evalE] at h
  cases ha : evalE self env a with
  | error e => rw [ha] at h; cases h
  | ok va =>
    rw [ha] at h
    cases hb : evalE self env b with
    | error e => rw [hb] at h; cases h
    | ok vb =>
      rw [hb] at h
      cases va <;> cases vb <;> simp only [asScalar] at h <;> try cases h
      next x y =>
        cases hr : binop op x y with
        | error e => rw [hr] at h; cases h
        | ok r => rw [hr] at h; simp only [Except.ok.injEq] at h; exact ⟨x, y, r, rfl, rfl, hr, h.symm⟩

theorem evalE_call1_ok {self : List S → Except Err S} {env : Env} {a : E} {v : V}
    (h : evalE self env (.call1 a) = .ok v) :
    ∃ x r, evalE self env a = .ok (.sc x) ∧ self [x] = .ok r ∧ v = .sc r := by
  simp only [evalE] at h
  cases ha : evalE self env a with
  | error e => rw [ha] at h; cases h
  | ok va =>
    rw [ha] at h
    cases va <;> simp only [asScalar] at h <;> try cases h
    next x =>
      cases hr : self [x] with
      | error e => rw [hr] at h; cases h
      | ok r => rw [hr] at h; simp only [Except.ok.injEq] at h; exact ⟨x, r, rfl, hr, h.symm⟩

theorem evalE_call2_ok {self : List S → Except Err S} {env : Env} {a b : E} {v : V}
    (h : evalE self env (.call2 a b) = .ok v) :
    ∃ x y r, evalE self env a = .ok (.sc x) ∧ evalE self env b = .ok (.sc y) ∧ self [x, y] = .ok r ∧ v = .sc r := by
  simp only [evalE] at h
  cases ha : evalE self env a with
  | error e => rw [ha] at h; cases h
  | ok va =>
    rw [ha] at h
    cases hb : evalE self env b with
    | error e => rw [hb] at h; cases h
    | ok vb =>
      rw [hb] at h
      cases va <;> cases vb <;> simp only [asScalar] at h <;> try cases h
      next x y =>
        cases hr : self [x, y] with
        | error e => rw [hr] at h; cases h
        | ok r => rw [hr] at h; simp only [Except.ok.injEq] at h; exact ⟨x, y, r, rfl, rfl, hr, h.symm⟩

theorem evalE_bin_intro {self : List S → Except Err S} {env : Env} {op : Op} {a b : E} {x y r : S}
    (ha : evalE self env a = .ok (.sc x)) (hb : evalE self env b = .ok (.sc y)) (hr : binop op x y = .ok r) :
    evalE self env (.bin op a b) = .ok (.sc r) := by
  simp [evalE, ha, hb, asScalar, hr]

theorem evalE_call1_intro {self : List S → Except Err S} {env : Env} {a : E} {x r : S}
    (ha : evalE self env a = .ok (.sc x)) (hr : self [x] = .ok r) :
    evalE self env (.call1 a) = .ok (.sc r) := by
  simp [evalE, ha, asScalar, hr]

theorem evalE_call2_intro {self : List S → Except Err S} {env : Env} {a b : E} {x y r : S}
    (ha : evalE self env a = .ok (.sc x)) (hb : evalE self env b = .ok (.sc y)) (hr : self [x, y] = .ok r) :
    evalE self env (.call2 a b) = .ok (.sc r) := by
  simp [evalE, ha, hb, asScalar, hr]

/-! monotonicity in the meaning of the self call -/

theorem evalE_mono {s1 s2 : List S → Except Err S} (h : Ext s1 s2) (env : Env) :
    ∀ (e : E) (v : V), evalE s1 env e = .ok v → evalE s2 env e = .ok v := by
  intro e
  induction e with
  | lit s => intro v hv; simpa [evalE] using hv
  | var x => intro v hv; simpa [evalE] using hv
  | bin op a b iha ihb =>
    intro v hv
    obtain ⟨x, y, r, ha, hb, hr, rfl⟩ := evalE_bin_ok hv
    exact evalE_bin_intro (iha _ ha) (ihb _ hb) hr
  | call1 a iha =>
    intro v hv
    obtain ⟨x, r, ha, hr, rfl⟩ := evalE_call1_ok hv
    exact evalE_call1_intro (iha _ ha) (h _ _ hr)
  | call2 a b iha ihb =>
    intro v hv
    obtain ⟨x, y, r, ha, hb, hr, rfl⟩ := evalE_call2_ok hv
    exact evalE_call2_intro (iha _ ha) (ihb _ hb) (h _ _ hr)

theorem evalScalar_ok {self : List S → Except Err S} {env : Env} {e : E} {r : S} :
    evalScalar self env e = .ok r ↔ evalE self env e = .ok (.sc r) := by
  simp only [evalScalar]
  cases h : evalE self env e with
  | error e => simp
  | ok v => cases v <;> simp [asScalar]

theorem evalScalar_mono {s1 s2 : List S → Except Err S} (h : Ext s1 s2) (env : Env) (e : E) (r : S)
    (hr : evalScalar s1 env e = .ok r) : evalScalar s2 env e = .ok r :=
  evalScalar_ok.2 (evalE_mono h env e _ (evalScalar_ok.1 hr))

theorem evalArgs_mono {s1 s2 : List S → Except Err S} (h : Ext s1 s2) (env : Env) :
    ∀ (es : List E) (xs : List S), evalArgs s1 env es = .ok xs → evalArgs s2 env es = .ok xs := by
  intro es
  induction es with
  | nil => intro xs hx; simpa [evalArgs] using hx
  | cons e es ih =>
    intro xs hx
    simp only [evalArgs] at hx ⊢
    cases he : evalScalar s1 env e with
    | error err => rw [he] at hx; cases hx
    | ok x =>
      rw [he] at hx
      cases hes : evalArgs s1 env es with
      | error err => rw [hes] at hx; cases hx
      | ok ys =>
        rw [hes] at hx
        rw [evalScalar_mono h env e x he, ih ys hes]
        exact hx

theorem stepArms_mono {s1 s2 : List S → Except Err S} (h : Ext s1 s2) (f : FDef) (args : List S) :
    ∀ (arms : List (P × E)) (st : Step), stepArms s1 f args arms = .ok st → stepArms s2 f args arms = .ok st := by
  intro arms
  induction arms with
  | nil => intro st hs; simp [stepArms] at hs
  | cons arm rest ih =>
    intro st hs
    obtain ⟨p, body⟩ := arm
    simp only [stepArms] at hs ⊢
    cases hm : matchArgs p args [] with
    | none => rw [hm] at hs; exact ih st hs
    | some env =>
      rw [hm] at hs
      simp only at hs ⊢
      cases ht : tailShape f body with
      | some es =>
        rw [ht] at hs
        simp only at hs ⊢
        cases he : evalArgs s1 (env ++ inputsEnv f args) es with
        | error err => rw [he] at hs; cases hs
        | ok xs => rw [he] at hs; rw [evalArgs_mono h (env ++ inputsEnv f args) es xs he]; exact hs
      | none =>
        rw [ht] at hs
        simp only at hs ⊢
        cases he : evalScalar s1 (env ++ inputsEnv f args) body with
        | error err => rw [he] at hs; cases hs
        | ok r => rw [he] at hs; rw [evalScalar_mono h (env ++ inputsEnv f args) body r he]; exact hs

theorem loopArms_mono {s1 s2 : List S → Except Err S} (h : Ext s1 s2) (f : FDef) :
    ∀ (it1 it2 : Nat) (args : List S) (v : S), it1 ≤ it2 →
      loopArms s1 f it1 args = .ok v → loopArms s2 f it2 args = .ok v := by
  intro it1
  induction it1 with
  | zero => intro it2 args v _ hv; simp [loopArms] at hv
  | succ k ih =>
    intro it2 args v hle hv
    obtain ⟨j, rfl⟩ : ∃ j, it2 = j + 1 := ⟨it2 - 1, by omega⟩
    simp only [loopArms] at hv ⊢
    cases hs : stepArms s1 f args f.arms with
    | error e => rw [hs] at hv; cases hv
    | ok st =>
      rw [hs] at hv
      rw [stepArms_mono h f args f.arms st hs]
      cases st with
      | ret r => exact hv
      | tail args' => exact ih j args' v (by omega) hv

theorem runArmsRec_mono {s1 s2 : List S → Except Err S} (h : Ext s1 s2) (f : FDef) (args : List S) :
    ∀ (arms : List (P × E)) (v : S), runArmsRec f s1 args arms = .ok v → runArmsRec f s2 args arms = .ok v := by
  intro arms
  induction arms with
  | nil => intro v hv; simp [runArmsRec] at hv
  | cons arm rest ih =>
    intro v hv
    obtain ⟨p, body⟩ := arm
    simp only [runArmsRec] at hv ⊢
    cases hm : matchArgs p args [] with
    | none => rw [hm] at hv; exact ih v hv
    | some env => rw [hm] at hv; exact evalScalar_mono h (env ++ inputsEnv f args) body v hv

theorem callRec_step (f : FDef) : ∀ n, Ext (callRec f n) (callRec f (n + 1)) := by
  intro n
  induction n with
  | zero => intro a r h; simp [callRec] at h
  | succ n ih =>
    intro a r h
    simp only [callRec] at h ⊢
    split at h
    · cases h
    · next hne => rw [if_neg hne]; exact runArmsRec_mono ih f a f.arms r h

theorem callRec_mono (f : FDef) {n m : Nat} (h : n ≤ m) : Ext (callRec f n) (callRec f m) := by
  induction m with
  | zero => have : n = 0 := by omega
            subst this; exact Ext.refl _
  | succ m ih =>
    by_cases hnm : n ≤ m
    · exact Ext.trans (ih hnm) (callRec_step f m)
    · have : n = m + 1 := by omega
      subst this; exact Ext.refl _

theorem callImpl_mono (f : FDef) : ∀ (d1 d2 it1 it2 : Nat), d1 ≤ d2 → it1 ≤ it2 →
    Ext (callImpl f it1 d1) (callImpl f it2 d2) := by
  intro d1
  induction d1 with
  | zero => intro d2 it1 it2 _ _ a r h; simp [callImpl] at h
  | succ d ih =>
    intro d2 it1 it2 hd hit a r h
    obtain ⟨e, rfl⟩ : ∃ e, d2 = e + 1 := ⟨d2 - 1, by omega⟩
    simp only [callImpl] at h ⊢
    split at h
    · cases h
    · next hne =>
      rw [if_neg hne]
      exact loopArms_mono (ih e it1 it2 (by omega) hit) f it1 it2 a r hit h

/-! the loop returns only what the recursion returns -/

/-- every value `self` returns is returned by the recursion with some fuel -/
def Sound (f : FDef) (self : List S → Except Err S) : Prop :=
  ∀ a r, self a = .ok r → ∃ n, callRec f n a = .ok r

theorem evalE_sound (f : FDef) {self : List S → Except Err S} (hs : Sound f self) (env : Env) :
    ∀ (e : E) (v : V), evalE self env e = .ok v → ∃ n, evalE (callRec f n) env e = .ok v := by
  intro e
  induction e with
  | lit s => intro v hv; exact ⟨0, by simpa [evalE] using hv⟩
  | var x => intro v hv; exact ⟨0, by simpa [evalE] using hv⟩
  | bin op a b iha ihb =>
    intro v hv
    obtain ⟨x, y, r, ha, hb, hr, rfl⟩ := evalE_bin_ok hv
    obtain ⟨n1, h1⟩ := iha _ ha
    obtain ⟨n2, h2⟩ := ihb _ hb
    refine ⟨max n1 n2, evalE_bin_intro ?_ ?_ hr⟩
    · exact evalE_mono (callRec_mono f (Nat.le_max_left ..)) env a _ h1
    · exact evalE_mono (callRec_mono f (Nat.le_max_right ..)) env b _ h2
  | call1 a iha =>
    intro v hv
    obtain ⟨x, r, ha, hr, rfl⟩ := evalE_call1_ok hv
    obtain ⟨n1, h1⟩ := iha _ ha
    obtain ⟨n2, h2⟩ := hs _ _ hr
    refine ⟨max n1 n2, evalE_call1_intro (x := x) ?_ ?_⟩
    · exact evalE_mono (callRec_mono f (Nat.le_max_left ..)) env a _ h1
    · exact callRec_mono f (Nat.le_max_right ..) _ _ h2
  | call2 a b iha ihb =>
    intro v hv
    obtain ⟨x, y, r, ha, hb, hr, rfl⟩ := evalE_call2_ok hv
    obtain ⟨n1, h1⟩ := iha _ ha
    obtain ⟨n2, h2⟩ := ihb _ hb
    obtain ⟨n3, h3⟩ := hs _ _ hr
    refine ⟨max (max n1 n2) n3, evalE_call2_intro (x := x) (y := y) ?_ ?_ ?_⟩
    · exact evalE_mono (callRec_mono f (by omega)) env a _ h1
    · exact evalE_mono (callRec_mono f (by omega)) env b _ h2
    · exact callRec_mono f (by omega) _ _ h3

/-- a tail-shaped body evaluates, under the recursion, to the recursive call on its arguments -/
theorem tail_body_rec (f : FDef) (self : List S → Except Err S) (env : Env) (body : E) (es : List E)
    (xs : List S) (ht : tailShape f body = some es) (he : evalArgs self env es = .ok xs)
    (r : S) (hr : self xs = .ok r) : evalScalar self env body = .ok r := by
  cases body <;> simp only [tailShape] at ht <;> try cases ht
  · next a =>
    split at ht
    · simp only [Option.some.injEq] at ht; subst ht
      simp only [evalArgs] at he
      cases h1 : evalScalar self env a with
      | error e => rw [h1] at he; cases he
      | ok x =>
        rw [h1] at he; simp only [Except.ok.injEq] at he; subst he
        exact evalScalar_ok.2 (evalE_call1_intro (evalScalar_ok.1 h1) hr)
    · cases ht
  · next a b =>
    split at ht
    · simp only [Option.some.injEq] at ht; subst ht
      simp only [evalArgs] at he
      cases h1 : evalScalar self env a with
      | error e => rw [h1] at he; cases he
      | ok x =>
        rw [h1] at he
        cases h2 : evalScalar self env b with
        | error e => rw [h2] at he; cases he
        | ok y =>
          rw [h2] at he; simp only [Except.ok.injEq] at he; subst he
          exact evalScalar_ok.2 (evalE_call2_intro (evalScalar_ok.1 h1) (evalScalar_ok.1 h2) hr)
    · cases ht

theorem evalArgs_sound (f : FDef) {self : List S → Except Err S} (hs : Sound f self) (env : Env) :
    ∀ (es : List E) (xs : List S), evalArgs self env es = .ok xs → ∃ n, evalArgs (callRec f n) env es = .ok xs := by
  intro es
  induction es with
  | nil => intro xs hx; exact ⟨0, by simpa [evalArgs] using hx⟩
  | cons e es ih =>
    intro xs hx
    simp only [evalArgs] at hx
    cases he : evalScalar self env e with
    | error err => rw [he] at hx; cases hx
    | ok x =>
      rw [he] at hx
      cases hes : evalArgs self env es with
      | error err => rw [hes] at hx; cases hx
      | ok ys =>
        rw [hes] at hx
        obtain ⟨n1, h1⟩ := evalE_sound f hs env e _ (evalScalar_ok.1 he)
        obtain ⟨n2, h2⟩ := ih ys hes
        refine ⟨max n1 n2, ?_⟩
        simp only [evalArgs]
        rw [evalScalar_ok.2 (evalE_mono (callRec_mono f (Nat.le_max_left ..)) env e _ h1),
            evalArgs_mono (callRec_mono f (Nat.le_max_right ..)) env es ys h2]
        exact hx

/-- one pass of the arm loop, read as a statement about the recursion -/
theorem stepArms_sound (f : FDef) {self : List S → Except Err S} (hs : Sound f self) (args : List S) :
    ∀ (arms : List (P × E)) (st : Step), stepArms self f args arms = .ok st →
      match st with
      | .ret v => ∃ n, runArmsRec f (callRec f n) args arms = .ok v
      | .tail args' => ∀ m v, callRec f m args' = .ok v → ∃ n, runArmsRec f (callRec f n) args arms = .ok v := by
  intro arms
  induction arms with
  | nil => intro st h; simp [stepArms] at h
  | cons arm rest ih =>
    intro st h
    obtain ⟨p, body⟩ := arm
    simp only [stepArms] at h
    cases hm : matchArgs p args [] with
    | none =>
      rw [hm] at h
      have := ih st h
      cases st with
      | ret v => obtain ⟨n, hn⟩ := this; exact ⟨n, by simp only [runArmsRec, hm]; exact hn⟩
      | tail args' =>
        intro m v hv
        obtain ⟨n, hn⟩ := this m v hv
        exact ⟨n, by simp only [runArmsRec, hm]; exact hn⟩
    | some env =>
      rw [hm] at h
      simp only at h
      cases ht : tailShape f body with
      | some es =>
        rw [ht] at h
        simp only at h
        cases he : evalArgs self (env ++ inputsEnv f args) es with
        | error err => rw [he] at h; cases h
        | ok xs =>
          rw [he] at h
          simp only [Except.ok.injEq] at h; subst h
          intro m v hv
          obtain ⟨n1, h1⟩ := evalArgs_sound f hs (env ++ inputsEnv f args) es xs he
          refine ⟨max n1 m, ?_⟩
          simp only [runArmsRec, hm]
          exact tail_body_rec f _ (env ++ inputsEnv f args) body es xs ht
            (evalArgs_mono (callRec_mono f (Nat.le_max_left ..)) (env ++ inputsEnv f args) es xs h1) v
            (callRec_mono f (Nat.le_max_right ..) _ _ hv)
      | none =>
        rw [ht] at h
        simp only at h
        cases he : evalScalar self (env ++ inputsEnv f args) body with
        | error err => rw [he] at h; cases h
        | ok r =>
          rw [he] at h
          simp only [Except.ok.injEq] at h; subst h
          obtain ⟨n, hn⟩ := evalE_sound f hs (env ++ inputsEnv f args) body _ (evalScalar_ok.1 he)
          exact ⟨n, by simp only [runArmsRec, hm]; exact evalScalar_ok.2 hn⟩

theorem loopArms_sound (f : FDef) {self : List S → Except Err S} (hs : Sound f self) :
    ∀ (it : Nat) (args : List S) (v : S), args.length = f.arity → loopArms self f it args = .ok v →
      (∀ args', (∃ a st, stepArms self f a f.arms = .ok st ∧ st = .tail args') → args'.length = f.arity) →
      ∃ n, callRec f n args = .ok v := by
  intro it
  induction it with
  | zero => intro args v _ h; simp [loopArms] at h
  | succ k ih =>
    intro args v hlen h htl
    simp only [loopArms] at h
    cases hst : stepArms self f args f.arms with
    | error e => rw [hst] at h; cases h
    | ok st =>
      rw [hst] at h
      have hsound := stepArms_sound f hs args f.arms st hst
      cases st with
      | ret r =>
        simp only [Except.ok.injEq] at h; subst h
        obtain ⟨n, hn⟩ := hsound
        exact ⟨n + 1, by simp only [callRec]; rw [if_neg (by omega)]; exact hn⟩
      | tail args' =>
        have hl' : args'.length = f.arity := htl args' ⟨args, _, hst, rfl⟩
        obtain ⟨m, hm⟩ := ih args' v hl' h htl
        obtain ⟨n, hn⟩ := hsound m v hm
        exact ⟨n + 1, by simp only [callRec]; rw [if_neg (by omega)]; exact hn⟩

/-- the arguments of a tail call are as many as the function takes -/
theorem tail_arity (f : FDef) (self : List S → Except Err S) (args : List S) :
    ∀ (arms : List (P × E)) (args' : List S), stepArms self f args arms = .ok (.tail args') → args'.length = f.arity := by
  intro arms
  induction arms with
  | nil => intro a h; simp [stepArms] at h
  | cons arm rest ih =>
    intro args' h
    obtain ⟨p, body⟩ := arm
    simp only [stepArms] at h
    cases hm : matchArgs p args [] with
    | none => rw [hm] at h; exact ih args' h
    | some env =>
      rw [hm] at h
      simp only at h
      cases ht : tailShape f body with
      | none =>
        rw [ht] at h; simp only at h
        cases he : evalScalar self (env ++ inputsEnv f args) body with
        | error e => rw [he] at h; cases h
        | ok r => rw [he] at h; cases h
      | some es =>
        rw [ht] at h; simp only at h
        cases he : evalArgs self (env ++ inputsEnv f args) es with
        | error e => rw [he] at h; cases h
        | ok xs =>
          rw [he] at h
          simp only [Except.ok.injEq, Step.tail.injEq] at h; subst h
          have hlen : ∀ (es : List E) (xs : List S), evalArgs self (env ++ inputsEnv f args) es = .ok xs → xs.length = es.length := by
            intro es
            induction es with
            | nil => intro xs hx; simp only [evalArgs, Except.ok.injEq] at hx; subst hx; rfl
            | cons e es ih2 =>
              intro xs hx
              simp only [evalArgs] at hx
              cases h1 : evalScalar self (env ++ inputsEnv f args) e with
              | error err => rw [h1] at hx; cases hx
              | ok x =>
                rw [h1] at hx
                cases h2 : evalArgs self (env ++ inputsEnv f args) es with
                | error err => rw [h2] at hx; cases hx
                | ok ys => rw [h2] at hx; simp only [Except.ok.injEq] at hx; subst hx; simp [ih2 ys h2]
          rw [hlen es xs he]
          cases body <;> simp only [tailShape] at ht <;> try cases ht
          · split at ht
            · next ha => simp only [Option.some.injEq] at ht; subst ht; simp [ha]
            · cases ht
          · split at ht
            · next ha => simp only [Option.some.injEq] at ht; subst ht; simp [ha]
            · cases ht

theorem callImpl_sound (f : FDef) (it : Nat) : ∀ d, Sound f (callImpl f it d) := by
  intro d
  induction d with
  | zero => intro a r h; simp [callImpl] at h
  | succ d ih =>
    intro a r h
    simp only [callImpl] at h
    split at h
    · cases h
    · next hne =>
      have hlen : a.length = f.arity := by
        cases hd : decide (a.length = f.arity) with
        | true => exact of_decide_eq_true hd
        | false => exact absurd (of_decide_eq_false hd) (by simpa using hne)
      exact loopArms_sound f ih it a r hlen h
        (fun args' ⟨a', st, hst, hst'⟩ => by subst hst'; exact tail_arity f _ a' f.arms args' hst)

/-! the recursion returns only what the loop returns -/

/-- every value the recursion with fuel `n` returns is returned by the loop with some fuel -/
def Complete (f : FDef) (n : Nat) : Prop :=
  ∀ a r, callRec f n a = .ok r → ∃ d it, callImpl f it d a = .ok r

theorem evalE_complete (f : FDef) (n : Nat) (hc : Complete f n) (env : Env) :
    ∀ (e : E) (v : V), evalE (callRec f n) env e = .ok v → ∃ d it, evalE (callImpl f it d) env e = .ok v := by
  intro e
  induction e with
  | lit s => intro v hv; exact ⟨0, 0, by simpa [evalE] using hv⟩
  | var x => intro v hv; exact ⟨0, 0, by simpa [evalE] using hv⟩
  | bin op a b iha ihb =>
    intro v hv
    obtain ⟨x, y, r, ha, hb, hr, rfl⟩ := evalE_bin_ok hv
    obtain ⟨d1, i1, h1⟩ := iha _ ha
    obtain ⟨d2, i2, h2⟩ := ihb _ hb
    refine ⟨max d1 d2, max i1 i2, evalE_bin_intro ?_ ?_ hr⟩
    · exact evalE_mono (callImpl_mono f _ _ _ _ (Nat.le_max_left ..) (Nat.le_max_left ..)) env a _ h1
    · exact evalE_mono (callImpl_mono f _ _ _ _ (Nat.le_max_right ..) (Nat.le_max_right ..)) env b _ h2
  | call1 a iha =>
    intro v hv
    obtain ⟨x, r, ha, hr, rfl⟩ := evalE_call1_ok hv
    obtain ⟨d1, i1, h1⟩ := iha _ ha
    obtain ⟨d2, i2, h2⟩ := hc _ _ hr
    refine ⟨max d1 d2, max i1 i2, evalE_call1_intro (x := x) ?_ ?_⟩
    · exact evalE_mono (callImpl_mono f _ _ _ _ (Nat.le_max_left ..) (Nat.le_max_left ..)) env a _ h1
    · exact callImpl_mono f _ _ _ _ (Nat.le_max_right ..) (Nat.le_max_right ..) _ _ h2
  | call2 a b iha ihb =>
    intro v hv
    obtain ⟨x, y, r, ha, hb, hr, rfl⟩ := evalE_call2_ok hv
    obtain ⟨d1, i1, h1⟩ := iha _ ha
    obtain ⟨d2, i2, h2⟩ := ihb _ hb
    obtain ⟨d3, i3, h3⟩ := hc _ _ hr
    refine ⟨max (max d1 d2) d3, max (max i1 i2) i3, evalE_call2_intro (x := x) (y := y) ?_ ?_ ?_⟩
    · exact evalE_mono (callImpl_mono f _ _ _ _ (by omega) (by omega)) env a _ h1
    · exact evalE_mono (callImpl_mono f _ _ _ _ (by omega) (by omega)) env b _ h2
    · exact callImpl_mono f _ _ _ _ (by omega) (by omega) _ _ h3

/-- a tail-shaped body under the recursion: its arguments evaluate and the recursive call
    on them returns the value -/
theorem tail_body_inv (f : FDef) (self : List S → Except Err S) (env : Env) (body : E) (es : List E)
    (ht : tailShape f body = some es) (r : S) (hr : evalScalar self env body = .ok r) :
    ∃ xs, evalArgs self env es = .ok xs ∧ self xs = .ok r ∧ xs.length = f.arity := by
  have hv := evalScalar_ok.1 hr
  cases body <;> simp only [tailShape] at ht <;> try cases ht
  · next a =>
    split at ht
    · next har =>
      simp only [Option.some.injEq] at ht; subst ht
      obtain ⟨x, r', ha, hr', hrr⟩ := evalE_call1_ok hv
      simp only [V.sc.injEq] at hrr; subst hrr
      exact ⟨[x], by simp [evalArgs, evalScalar_ok.2 ha], hr', by simp [har]⟩
    · cases ht
  · next a b =>
    split at ht
    · next har =>
      simp only [Option.some.injEq] at ht; subst ht
      obtain ⟨x, y, r', ha, hb, hr', hrr⟩ := evalE_call2_ok hv
      simp only [V.sc.injEq] at hrr; subst hrr
      exact ⟨[x, y], by simp [evalArgs, evalScalar_ok.2 ha, evalScalar_ok.2 hb], hr', by simp [har]⟩
    · cases ht

theorem evalArgs_complete (f : FDef) (n : Nat) (hc : Complete f n) (env : Env) :
    ∀ (es : List E) (xs : List S), evalArgs (callRec f n) env es = .ok xs →
      ∃ d it, evalArgs (callImpl f it d) env es = .ok xs := by
  intro es
  induction es with
  | nil => intro xs hx; exact ⟨0, 0, by simpa [evalArgs] using hx⟩
  | cons e es ih =>
    intro xs hx
    simp only [evalArgs] at hx
    cases he : evalScalar (callRec f n) env e with
    | error err => rw [he] at hx; cases hx
    | ok x =>
      rw [he] at hx
      cases hes : evalArgs (callRec f n) env es with
      | error err => rw [hes] at hx; cases hx
      | ok ys =>
        rw [hes] at hx
        obtain ⟨d1, i1, h1⟩ := evalE_complete f n hc env e _ (evalScalar_ok.1 he)
        obtain ⟨d2, i2, h2⟩ := ih ys hes
        refine ⟨max d1 d2, max i1 i2, ?_⟩
        simp only [evalArgs]
        rw [evalScalar_ok.2 (evalE_mono (callImpl_mono f _ _ _ _ (Nat.le_max_left ..) (Nat.le_max_left ..)) env e _ h1),
            evalArgs_mono (callImpl_mono f _ _ _ _ (Nat.le_max_right ..) (Nat.le_max_right ..)) env es ys h2]
        exact hx

/-- one arm pass of the recursion is one pass of the loop, possibly followed by the loop on
    the tail call's arguments -/
theorem runArmsRec_complete (f : FDef) (n : Nat) (hc : Complete f n) (args : List S) :
    ∀ (arms : List (P × E)) (v : S), runArmsRec f (callRec f n) args arms = .ok v →
      ∃ d it, (stepArms (callImpl f it d) f args arms = .ok (.ret v)) ∨
        (∃ args', stepArms (callImpl f it d) f args arms = .ok (.tail args') ∧
          args'.length = f.arity ∧ callImpl f it (d + 1) args' = .ok v) := by
  intro arms
  induction arms with
  | nil => intro v h; simp [runArmsRec] at h
  | cons arm rest ih =>
    intro v h
    obtain ⟨p, body⟩ := arm
    simp only [runArmsRec] at h
    cases hm : matchArgs p args [] with
    | none =>
      rw [hm] at h
      obtain ⟨d, it, hd⟩ := ih v h
      exact ⟨d, it, by simp only [stepArms, hm]; exact hd⟩
    | some env =>
      rw [hm] at h
      simp only at h
      cases ht : tailShape f body with
      | none =>
        obtain ⟨d, it, hd⟩ := evalE_complete f n hc (env ++ inputsEnv f args) body _ (evalScalar_ok.1 h)
        exact ⟨d, it, Or.inl (by simp only [stepArms, hm, ht]; rw [evalScalar_ok.2 hd])⟩
      | some es =>
        obtain ⟨xs, hxs, hself, hlen⟩ := tail_body_inv f _ (env ++ inputsEnv f args) body es ht v h
        obtain ⟨d1, i1, h1⟩ := evalArgs_complete f n hc (env ++ inputsEnv f args) es xs hxs
        obtain ⟨d2, i2, h2⟩ := hc _ _ hself
        refine ⟨max d1 d2, max i1 i2, Or.inr ⟨xs, ?_, hlen, ?_⟩⟩
        · simp only [stepArms, hm, ht]
          rw [evalArgs_mono (callImpl_mono f _ _ _ _ (Nat.le_max_left ..) (Nat.le_max_left ..)) (env ++ inputsEnv f args) es xs h1]
        · exact callImpl_mono f _ _ _ _ (by omega) (Nat.le_max_right ..) _ _ h2

theorem callRec_complete (f : FDef) : ∀ n, Complete f n := by
  intro n
  induction n with
  | zero => intro a r h; simp [callRec] at h
  | succ n ih =>
    intro a r h
    simp only [callRec] at h
    split at h
    · cases h
    · next hne =>
      obtain ⟨d, it, hstep⟩ := runArmsRec_complete f n ih a f.arms r h
      rcases hstep with hret | ⟨args', htail, hlen, hcall⟩
      · refine ⟨d + 1, it + 1, ?_⟩
        simp only [callImpl]; rw [if_neg hne]
        simp only [loopArms]
        rw [stepArms_mono (callImpl_mono f d d it (it + 1) (Nat.le_refl _) (by omega)) f a f.arms _ hret]
      · -- the tail call continues the same loop
        simp only [callImpl] at hcall
        rw [if_neg (by omega)] at hcall
        refine ⟨d + 1, it + 1, ?_⟩
        simp only [callImpl]; rw [if_neg hne]
        simp only [loopArms]
        rw [stepArms_mono (callImpl_mono f d d it (it + 1) (Nat.le_refl _) (by omega)) f a f.arms _ htail]
        exact loopArms_mono (callImpl_mono f d d it (it + 1) (Nat.le_refl _) (by omega)) f it it args' r (Nat.le_refl _) hcall

end MechVerif.Arms
