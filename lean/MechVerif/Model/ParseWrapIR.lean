/-
C09, a tie to the source: the decision at the end of `parser::parse` (src/syntax/src/parser.rs) as it is written.
`tools/extract_parsewrap.py` reads the function into the record below; `outcomeAsWritten` gives the record its meaning and,
for the accepted record, is `Cursor.decide` of `Model/Cursor.lean`.
-/
import MechVerif.Model.Cursor
namespace MechVerif.ParseWrapIR
open MechVerif.Cursor

structure WrapIR where
  /-- `init_source(text)` is what is parsed (the text with the line break appended) -/
  parsesInitSource : Bool
  /-- on `Ok`: the errors logged during recovery are taken over and the tree is kept -/
  okTakesLog : Bool
  okKeepsTree : Bool
  /-- on `Err::Error | Err::Failure`: the log is taken over and the failure's own entry is added -/
  errTakesLog : Bool
  errAddsOwn : Bool
  /-- `if remaining.len() != 0` adds the entry "Inputs since here are not parsed" -/
  leftoverAdds : Bool
  /-- `if error_log.is_empty() { Ok(tree) } else { Err(report) }` -/
  okIffLogEmpty : Bool
  /-- the report has one entry per logged error -/
  reportKeepsAll : Bool
deriving DecidableEq, Repr

def expected : WrapIR := ⟨true, true, true, true, true, true, true, true⟩

/-- the outcome as written: `recovered` errors logged by the recovery combinators, `failed` = the program parser itself
    failed (no tree), `remaining` graphemes left -/
def outcomeAsWritten (ir : WrapIR) (failed : Bool) (recovered remaining : Nat) : Outcome :=
  let log0 := if failed then (if ir.errTakesLog then recovered else 0) + (if ir.errAddsOwn then 1 else 0)
              else (if ir.okTakesLog then recovered else 0)
  let log := log0 + (if ir.leftoverAdds && remaining != 0 then 1 else 0)
  let hasTree := !failed && ir.okKeepsTree
  if ir.okIffLogEmpty then (if log = 0 ∧ hasTree then .tree else .report (if ir.reportKeepsAll then log else 1))
  else (if hasTree then .tree else .report log)

end MechVerif.ParseWrapIR
