/-
Reference semantics for C03: 1-based, column-major selection.  `x[I, J]` is the
|I|×|J| matrix whose (a, b) element is x(I_a, J_b); every index must address an
element (1 ≤ index ≤ extent) and a mask must have exactly the extent's length.
-/
import MechVerif.Model.Index
namespace MechVerif.Index
open MechVerif.Num MechVerif.Mat

/-- 1-based 2-D element of the reference model -/
def at1 {α : Type} (m : Mat α) (i j : Nat) : Option α :=
  if 1 ≤ i ∧ i ≤ m.rows ∧ 1 ≤ j ∧ j ≤ m.cols then m.data[(j - 1) * m.rows + (i - 1)]? else none

/-- 1-based linear (column-major) element -/
def atLin1 {α : Type} (m : Mat α) (k : Nat) : Option α :=
  if 1 ≤ k ∧ k ≤ m.rows * m.cols then m.data[k - 1]? else none

def inRange (ix : List Nat) (n : Nat) : Prop := ∀ i ∈ ix, 1 ≤ i ∧ i ≤ n

instance (ix : List Nat) (n : Nat) : Decidable (inRange ix n) := by unfold inRange; infer_instance

/-- the addressed indices of the reference model -/
def refIxs (s : Sel) (n : Nat) : Option (List Nat) :=
  match s with
  | .scalar i => some [i]
  | .vec ix => some ix
  | .all => some ((List.range n).map (· + 1))
  | .mask b => if b.length = n then some (maskIx b) else none

/-- reference result of `x[s1, s2]` (executable: the oracle) -/
def select2 {α : Type} (m : Mat α) (s1 s2 : Sel) : Option (Operand α) :=
  match refIxs s1 m.rows, refIxs s2 m.cols with
  | some R, some C =>
    if inRange R m.rows ∧ inRange C m.cols then
      match s1, s2 with
      | .scalar i, .scalar j => (at1 m i j).map .scalar
      | _, _ =>
        let cells := (List.range (R.length * C.length)).map
          (fun k => at1 m (R.getD (k % R.length) 0) (C.getD (k / R.length) 0))
        if cells.all Option.isSome then some (.mat ⟨R.length, C.length, cells.filterMap id⟩) else none
    else none
  | _, _ => none

/-- reference result of `x[s]` -/
def select1 {α : Type} (m : Mat α) (s : Sel) : Option (Operand α) :=
  match refIxs s (m.rows * m.cols) with
  | some ix =>
    if inRange ix (m.rows * m.cols) then
      match s with
      | .scalar i => (atLin1 m i).map .scalar
      | _ =>
        let cells := ix.map (atLin1 m)
        if cells.all Option.isSome then some (.mat ⟨ix.length, 1, cells.filterMap id⟩) else none
    else none
  | none => none

end MechVerif.Index
