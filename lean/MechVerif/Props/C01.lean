/-
C01 — Elementwise operators: same result for every shape, kind and broadcast form.
Model: `Model/Mat.lean` (dispatch on storage forms + the kernel families of
machines/{math,compare,logic}), `Model/Scalar.lean` (scalar operations per kind).
Spec: `Spec/Broadcast.lean`.  The theorems are generic in the scalar function `f`, so
they hold for every operator and every element kind at once.
-/
import MechVerif.Lemmas.Broadcast
import MechVerif.Model.Scalar
import MechVerif.Gen.Kernels
import MechVerif.Gen.OperandArms
namespace MechVerif.Mat
open MechVerif.Num

variable {α β : Type}

/-- Whenever an operator accepts its operands, the result has the broadcast shape and
    every element is the scalar operator applied to the elements that meet there —
    for every shape, every storage form and every scalar function. -/
theorem C01_binop_sound (f : α → α → Except Err β) (a b : Operand α) (r : Operand β)
    (h : evalBinop f a b = .ok r) : IsBroadcast f a b r := by
  unfold evalBinop at h
  cases hd : dispatch a b with
  | error e => simp [hd] at h
  | ok k =>
    rw [hd] at h
    cases a with
    | scalar x =>
      cases b with
      | scalar y =>
        have hk : k = .ss := by simp [dispatch] at hd; exact hd.symm
        subst hk
        simp only at h
        obtain ⟨z, hz, hr⟩ := mapE_ok.mp h
        subst hr
        exact ⟨rfl, x, y, rfl, rfl, hz⟩
      | mat n =>
        have hk : k = .sm := by simp [dispatch] at hd; exact hd.symm
        subst hk
        simp only [outShape] at h
        obtain ⟨d, hd2, hr⟩ := mapE_ok.mp h
        subst hr
        obtain ⟨hl, hc⟩ := cellwise_sound f _ _ _ d hd2
        refine ⟨rfl, hl, ?_⟩
        intro i j hi hj
        obtain ⟨x', y, z, hx, hy, hz, hdk⟩ := hc (j * n.rows + i) (lin_lt i j n.rows n.cols hi hj)
        simp only [lhsAt, Except.ok.injEq] at hx
        subst hx
        simp only [rhsAt, getE_ok] at hy
        refine ⟨x, y, z, rfl, ?_, hz, ?_⟩
        · simp only [bAt, and_self, if_true, Mat.get?, hi, hj]; exact hy
        · simp only [Mat.get?, hi, hj, and_self, if_true]; exact hdk
    | mat m =>
      cases b with
      | scalar y =>
        have hk : k = .ms := by simp [dispatch] at hd; exact hd.symm
        subst hk
        simp only [outShape] at h
        obtain ⟨d, hd2, hr⟩ := mapE_ok.mp h
        subst hr
        obtain ⟨hl, hc⟩ := cellwise_sound f _ _ _ d hd2
        refine ⟨rfl, hl, ?_⟩
        intro i j hi hj
        obtain ⟨x, y', z, hx, hy, hz, hdk⟩ := hc (j * m.rows + i) (lin_lt i j m.rows m.cols hi hj)
        simp only [rhsAt, Except.ok.injEq] at hy
        subst hy
        simp only [lhsAt, getE_ok] at hx
        refine ⟨x, y, z, ?_, rfl, hz, ?_⟩
        · simp only [bAt, and_self, if_true, Mat.get?, hi, hj]; exact hx
        · simp only [Mat.get?, hi, hj, and_self, if_true]; exact hdk
      | mat n =>
        have hne : k ≠ .ss := by
          intro hk; subst hk
          rcases dispatch_mat m n _ hd with ⟨h1, _⟩ | ⟨h1, _⟩ | ⟨h1, _⟩ | ⟨h1, _⟩ | ⟨h1, _⟩ <;> cases h1
        have hsh := dispatch_mat_bshape m n k hd
        cases k with
        | ss => exact absurd rfl hne
        | _ =>
          all_goals (
            simp only at h
            obtain ⟨d, hd2, hr⟩ := mapE_ok.mp h
            subst hr
            obtain ⟨hl, hc⟩ := cellwise_sound f _ _ _ d hd2
            refine ⟨hsh, hl, ?_⟩
            intro i j hi hj
            obtain ⟨x, y, z, hx, hy, hz, hdk⟩ := hc (j * _ + i) (lin_lt i j _ _ hi hj)
            refine ⟨x, y, z, lhsAt_bAt m n _ hd i j hi hj x hx, rhsAt_bAt m n _ hd i j hi hj y hy, hz, ?_⟩
            simp only [Mat.get?]
            rw [if_pos ⟨hi, hj⟩]
            exact hdk)

/-- Operands of incompatible shape are rejected with an error rather than a value. -/
theorem C01_binop_rejects_incompatible (f : α → α → Except Err β) (a b : Operand α)
    (h : bshape a.shape b.shape = none) : ∃ e, evalBinop f a b = .error e := by
  cases hd : dispatch a b with
  | error e => exact ⟨e, by simp [evalBinop, hd]⟩
  | ok k =>
    exfalso
    cases a with
    | scalar x => cases b <;> simp [Operand.shape, bshape] at h
    | mat m =>
      cases b with
      | scalar y => simp [Operand.shape, bshape] at h
      | mat n =>
        have := dispatch_mat_bshape m n k hd
        simp only [Operand.shape] at h
        rw [h] at this; cases this

/-- Acceptance is closed under shape: for a scalar function that accepts all element
    pairs, every pair of operands whose shapes the property allows is accepted (in
    particular two matrices of any common shape, and a matrix with a scalar on either
    side). -/
theorem C01_binop_accepts (f : α → α → Except Err β) (hf : ∀ x y, ∃ z, f x y = .ok z)
    (a b : Operand α) (ha : a.wf) (hb : b.wf) (s : Shape) (h : bshape a.shape b.shape = some s) :
    ∃ r, evalBinop f a b = .ok r := by
  cases hd : dispatch a b with
  | error e =>
    exfalso
    cases a with
    | scalar x => cases b <;> simp [dispatch] at hd
    | mat m =>
      cases b with
      | scalar y => simp [dispatch] at hd
      | mat n =>
        have := dispatch_mat_error m n e hd
        simp only [Operand.shape] at h
        rw [h] at this; cases this
  | ok k =>
    unfold evalBinop
    rw [hd]
    cases a with
    | scalar x =>
      cases b with
      | scalar y =>
        have hk : k = .ss := by simp [dispatch] at hd; exact hd.symm
        subst hk
        obtain ⟨z, hz⟩ := hf x y
        exact ⟨.scalar z, by simp [hz, mapE]⟩
      | mat n =>
        have hk : k = .sm := by simp [dispatch] at hd; exact hd.symm
        subst hk
        obtain ⟨hl, _, _⟩ := hb
        obtain ⟨d, hd2⟩ := cellwise_complete f (lhsAt .sm (.scalar x) n.rows) (rhsAt .sm (.mat n) n.rows)
          (n.rows * n.cols) (by
            intro k hk
            have : k < n.data.length := by omega
            obtain ⟨z, hz⟩ := hf x (n.data[k])
            exact ⟨x, n.data[k], z, rfl, by simp [rhsAt, getE, this], hz⟩)
        exact ⟨_, by simp only [outShape]; rw [hd2]; rfl⟩
    | mat m =>
      cases b with
      | scalar y =>
        have hk : k = .ms := by simp [dispatch] at hd; exact hd.symm
        subst hk
        obtain ⟨hl, _, _⟩ := ha
        obtain ⟨d, hd2⟩ := cellwise_complete f (lhsAt .ms (.mat m) m.rows) (rhsAt .ms (.scalar y) m.rows)
          (m.rows * m.cols) (by
            intro k hk
            have : k < m.data.length := by omega
            obtain ⟨z, hz⟩ := hf (m.data[k]) y
            exact ⟨m.data[k], y, z, by simp [lhsAt, getE, this], rfl, hz⟩)
        exact ⟨_, by simp only [outShape]; rw [hd2]; rfl⟩
      | mat n =>
        obtain ⟨hlm, hmr, hmc⟩ := ha
        obtain ⟨hln, hnr, hnc⟩ := hb
        have hget : ∀ (l : List α) (k : Nat), k < l.length → ∃ x, getE l k = .ok x := by
          intro l k hk; exact ⟨l[k], by simp [getE, hk]⟩
        rcases dispatch_mat m n k hd with ⟨hk, h1, h2⟩ | ⟨hk, hm, hn, he⟩ | ⟨hk, hm, hn, he⟩ | ⟨hk, hm, hn, he⟩ | ⟨hk, hm, hn, he⟩
        all_goals subst hk
        all_goals simp only [outShape]
        · obtain ⟨d, hd2⟩ := cellwise_complete f (lhsAt .zip (.mat m) m.rows) (rhsAt .zip (.mat n) m.rows)
            (m.rows * m.cols) (by
              intro k hk
              obtain ⟨x, hx⟩ := hget m.data k (by omega)
              obtain ⟨y, hy⟩ := hget n.data k (by rw [hln, ← h1, ← h2]; exact hk)
              obtain ⟨z, hz⟩ := hf x y
              exact ⟨x, y, z, by simpa [lhsAt] using hx, by simpa [rhsAt] using hy, hz⟩)
          exact ⟨_, by rw [hd2]; rfl⟩
        · unfold isCol at hn
          obtain ⟨d, hd2⟩ := cellwise_complete f (lhsAt .matCol (.mat m) m.rows) (rhsAt .matCol (.mat n) m.rows)
            (m.rows * m.cols) (by
              intro k hk
              obtain ⟨x, hx⟩ := hget m.data k (by omega)
              obtain ⟨y, hy⟩ := hget n.data (k % m.rows) (by
                rw [hln, hn.1, Nat.mul_one, ← he]; exact Nat.mod_lt _ hmr)
              obtain ⟨z, hz⟩ := hf x y
              exact ⟨x, y, z, by simpa [lhsAt] using hx, by simpa [rhsAt] using hy, hz⟩)
          exact ⟨_, by rw [hd2]; rfl⟩
        · unfold isRow at hn
          obtain ⟨d, hd2⟩ := cellwise_complete f (lhsAt .matRow (.mat m) m.rows) (rhsAt .matRow (.mat n) m.rows)
            (m.rows * m.cols) (by
              intro k hk
              obtain ⟨x, hx⟩ := hget m.data k (by omega)
              obtain ⟨y, hy⟩ := hget n.data (k / m.rows) (by
                rw [hln, hn.1, Nat.one_mul, ← he]
                exact (Nat.div_lt_iff_lt_mul hmr).mpr (by rw [Nat.mul_comm]; exact hk))
              obtain ⟨z, hz⟩ := hf x y
              exact ⟨x, y, z, by simpa [lhsAt] using hx, by simpa [rhsAt] using hy, hz⟩)
          exact ⟨_, by rw [hd2]; rfl⟩
        · unfold isCol at hm
          obtain ⟨d, hd2⟩ := cellwise_complete f (lhsAt .colMat (.mat m) n.rows) (rhsAt .colMat (.mat n) n.rows)
            (n.rows * n.cols) (by
              intro k hk
              obtain ⟨x, hx⟩ := hget m.data (k % n.rows) (by
                rw [hlm, hm.1, Nat.mul_one, he]; exact Nat.mod_lt _ hnr)
              obtain ⟨y, hy⟩ := hget n.data k (by omega)
              obtain ⟨z, hz⟩ := hf x y
              exact ⟨x, y, z, by simpa [lhsAt] using hx, by simpa [rhsAt] using hy, hz⟩)
          exact ⟨_, by rw [hd2]; rfl⟩
        · unfold isRow at hm
          obtain ⟨d, hd2⟩ := cellwise_complete f (lhsAt .rowMat (.mat m) n.rows) (rhsAt .rowMat (.mat n) n.rows)
            (n.rows * n.cols) (by
              intro k hk
              obtain ⟨x, hx⟩ := hget m.data (k / n.rows) (by
                rw [hlm, hm.1, Nat.one_mul, he]
                exact (Nat.div_lt_iff_lt_mul hnr).mpr (by rw [Nat.mul_comm]; exact hk))
              obtain ⟨y, hy⟩ := hget n.data k (by omega)
              obtain ⟨z, hz⟩ := hf x y
              exact ⟨x, y, z, by simpa [lhsAt] using hx, by simpa [rhsAt] using hy, hz⟩)
          exact ⟨_, by rw [hd2]; rfl⟩

/-- Unary operators (`-`, `!`): shape kept, applied to every element. -/
theorem C01_unop_sound (f : α → Except Err β) (m : Mat α) (r : Operand β)
    (h : evalUnop f (.mat m) = .ok r) :
    ∃ d, r = .mat ⟨m.rows, m.cols, d⟩ ∧ d.length = m.rows * m.cols ∧
      ∀ k, k < m.rows * m.cols → ∃ x z, m.data[k]? = some x ∧ f x = .ok z ∧ d[k]? = some z := by
  simp only [evalUnop] at h
  obtain ⟨d, hd, hr⟩ := mapE_ok.mp h
  obtain ⟨hl, hk⟩ := tab_sound _ _ 0 d hd
  refine ⟨d, hr, hl, ?_⟩
  intro k hklt
  obtain ⟨z, hz, hdz⟩ := hk k hklt
  simp only [Nat.zero_add] at hz
  obtain ⟨x, hx, hfx⟩ := bindE_ok.mp hz
  exact ⟨x, z, getE_ok.mp hx, hfx, hdz⟩

end MechVerif.Mat

namespace MechVerif.Scalar
open MechVerif.Num

/-- Integer operators agree with exact integer arithmetic whenever the exact result is
    representable in the operand kind (truncating division, remainder with the sign of
    the dividend). -/
theorem C01_int_op_exact (k : IKind) (x y : Int) :
    (k.inR (x + y) = true → intOp k .add x y = .ok (.int (x + y))) ∧
    (k.inR (x - y) = true → intOp k .sub x y = .ok (.int (x - y))) ∧
    (k.inR (x * y) = true → intOp k .mul x y = .ok (.int (x * y))) ∧
    (y ≠ 0 → k.inR (Int.tdiv x y) = true → intOp k .div x y = .ok (.int (Int.tdiv x y))) ∧
    (y ≠ 0 → ¬ (x = k.lo ∧ y = -1 ∧ k.signed = true) → intOp k .mod x y = .ok (.int (Int.tmod x y))) := by
  refine ⟨?_, ?_, ?_, ?_, ?_⟩
  · intro h; simp [intOp, checked, h]
  · intro h; simp [intOp, checked, h]
  · intro h; simp [intOp, checked, h]
  · intro hy h; simp [intOp, checked, h, hy]
  · intro hy h; simp only [intOp, hy, if_false]; rw [if_neg h]

/-- … and an unrepresentable exact result is an error, never a wrapped value. -/
theorem C01_int_overflow_is_error (k : IKind) (x y : Int) :
    (k.inR (x + y) = false → intOp k .add x y = .error .overflow) ∧
    (k.inR (x - y) = false → intOp k .sub x y = .error .overflow) ∧
    (k.inR (x * y) = false → intOp k .mul x y = .error .overflow) ∧
    (intOp k .div x 0 = .error .overflow) ∧ (intOp k .mod x 0 = .error .overflow) := by
  refine ⟨?_, ?_, ?_, ?_, ?_⟩
  · intro h; simp [intOp, checked, h]
  · intro h; simp [intOp, checked, h]
  · intro h; simp [intOp, checked, h]
  · simp [intOp]
  · simp [intOp]

/-- comparisons are the mathematical order on the integers -/
theorem C01_int_compare (k : IKind) (x y : Int) :
    intOp k .lt x y = .ok (.bool (decide (x < y))) ∧ intOp k .le x y = .ok (.bool (decide (x ≤ y))) ∧
    intOp k .gt x y = .ok (.bool (decide (x > y))) ∧ intOp k .ge x y = .ok (.bool (decide (x ≥ y))) ∧
    intOp k .eq x y = .ok (.bool (decide (x = y))) ∧ intOp k .ne x y = .ok (.bool (decide (x ≠ y))) := by
  refine ⟨rfl, ?_, rfl, ?_, rfl, ?_⟩
  · simp only [intOp, cmp]; congr 2; by_cases h : x < y <;> by_cases h2 : x = y <;> simp [h, h2] <;> omega
  · simp only [intOp, cmp]; congr 2; by_cases h : x > y <;> by_cases h2 : x = y <;> simp [h, h2] <;> omega
  · simp only [intOp, cmp]; congr 2; by_cases h2 : x = y <;> simp [h2]

/-- Boolean algebra -/
theorem C01_bool_algebra (x y : Bool) :
    boolOp .and x y = .ok (.bool (x && y)) ∧ boolOp .or x y = .ok (.bool (x || y)) ∧
    boolOp .xor x y = .ok (.bool (xor x y)) ∧
    scalarUnop fi .bool .not (.bool x) = .ok (.bool (!x)) := by
  refine ⟨rfl, rfl, ?_, rfl⟩
  cases x <;> cases y <;> rfl

/-- IEEE-754 clause: on float kinds the model applies exactly the parameter operation
    to the two operands in the order written (nothing else to prove; see trusted base). -/
theorem C01_float_is_parameter (fi : FloatImpl) (x y : UInt64) :
    scalarOp fi .f64 .sub (.f64 x) (.f64 y) = .ok (.f64 (fi.sub64 x y)) ∧
    scalarOp fi .f64 .div (.f64 x) (.f64 y) = .ok (.f64 (fi.div64 x y)) ∧
    scalarOp fi .f64 .lt (.f64 x) (.f64 y) = .ok (.bool (fi.lt64 x y)) := ⟨rfl, rfl, rfl⟩

/-! ### non-vacuity -/
example : intOp .i8 .add 100 27 = .ok (.int 127) := by decide
example : intOp .i8 .add 100 28 = .error .overflow := by decide
example : intOp .i8 .div (-128) (-1) = .error .overflow := by decide
example : intOp .i16 .mod (-7) 3 = .ok (.int (-1)) := by decide
example : ratOp .add 1 2 1 3 = .ok (.rat 5 6) := by decide

end MechVerif.Scalar

namespace MechVerif.Mat
open MechVerif.Num
/-- a 2×3 matrix minus a 2×1 column vector, through the model -/
example : evalBinop (fun x y => Scalar.intOp .i16 .sub x y)
    (.mat ⟨2, 3, [1, 2, 3, 4, 5, 6]⟩) (.mat ⟨2, 1, [10, 20]⟩)
    = .ok (.mat ⟨2, 3, [.int (-9), .int (-18), .int (-7), .int (-16), .int (-5), .int (-14)]⟩) := by decide
example : bshape (.mat 2 3) (.mat 2 1) = some (.mat 2 3) := by decide
example : bshape (.mat 2 3) (.mat 3 2) = none := by decide
end MechVerif.Mat

/-! ### the kernels as they are written in the source

`Gen/Kernels.lean` is regenerated from machines/{math,compare,logic} and src/core/src/stdlib.rs on every run
(`tools/extract_kernels.py`); its own theorems (`C01_kernels_as_written_ok`, `C01_fxn_rows_ok`,
`C01_dynamic_rows_are_spec`, `C01_match_arms_ok`) are `decide` proofs over the extracted tables.  The theorems
here connect them to the model the theorems above are about. -/
namespace MechVerif.KernelIR
open MechVerif.Num MechVerif.Mat

def opNames : List String :=
  ["add", "sub", "mul", "div", "mod", "pow", "eq", "neq", "gt", "gte", "lt", "lte", "and", "or", "xor"]

def allFamilies : List Kernel := [.ss, .ms, .sm, .zip, .matCol, .colMat, .matRow, .rowMat]

/-- the kernel macro extracted for an operator and a family -/
def findKernel (op : String) (k : Kernel) : Option IR :=
  (Gen.Kernels.kernels.find? (fun e => e.1 == op && decide (e.2.1 = k))).map (fun e => e.2.2.2)

/-- Every operator has, for every family, an extracted kernel macro, and it is the kernel of that family. -/
theorem C01_every_kernel_extracted_and_ok :
    opNames.all (fun op => allFamilies.all (fun k =>
      match findKernel op k with
      | some ir => irOk k (commutative op) ir
      | none => false)) = true := by decide

/-- the table of an operator: what was extracted (the default is never used, by the theorem above) -/
def tableOf (op : String) (k : Kernel) : IR := (findKernel op k).getD (expected k)

/-- **The kernels as written compute the model.**  For each of the fifteen binary element-wise operators,
    evaluating two operands with the kernel macros extracted from the source — the loop each macro runs, the way
    it addresses its two operands, the order in which it hands them to the scalar operator — gives exactly
    `evalBinop`, for every scalar function `f` (commutative where the source relies on it), all shapes and all
    element values.  Hence `C01_binop_sound`, `C01_binop_rejects_incompatible` and `C01_binop_accepts` hold for
    the kernels as written. -/
theorem C01_written_kernels_compute_the_model {α β : Type} (op : String) (hop : op ∈ opNames)
    (f : α → α → Except Err β) (hcomm : commutative op = true → ∀ x y, f x y = f y x) (a b : Operand α) :
    evalBinopIR (tableOf op) f a b = evalBinop f a b := by
  apply evalBinopIR_eq (tableOf op) (commutative op) f hcomm
  intro k
  have hall := C01_every_kernel_extracted_and_ok
  rw [List.all_eq_true] at hall
  have h1 := hall op hop
  rw [List.all_eq_true] at h1
  have hk : k ∈ allFamilies := by cases k <;> decide
  have h2 := h1 k hk
  unfold tableOf
  cases hfk : findKernel op k with
  | none => rw [hfk] at h2; cases h2
  | some ir => rw [hfk] at h2; exact h2

/-- the broadcast theorem, restated for the kernels as written -/
theorem C01_written_kernels_sound {α β : Type} (op : String) (hop : op ∈ opNames)
    (f : α → α → Except Err β) (hcomm : commutative op = true → ∀ x y, f x y = f y x) (a b : Operand α)
    (r : Operand β) (h : evalBinopIR (tableOf op) f a b = .ok r) : IsBroadcast f a b r := by
  rw [C01_written_kernels_compute_the_model op hop f hcomm a b] at h
  exact C01_binop_sound f a b r h

/-! non-vacuity: the extracted kernel of `sub` for scalar − matrix, and a swapped operand order is refused -/
example : findKernel "sub" .sm = some ⟨.linear .R, (.L, .whole), (.R, .lin)⟩ := by decide
example : irOk .sm false ⟨.linear .R, (.R, .lin), (.L, .whole)⟩ = false := by decide
example : irOk .sm true ⟨.linear .R, (.R, .lin), (.L, .whole)⟩ = true := by decide
example : evalBinopIR (tableOf "sub") (fun x y => Scalar.intOp .i16 .sub x y)
    (.scalar 10) (.mat ⟨1, 3, [1, 2, 3]⟩) = .ok (.mat ⟨1, 3, [.int 9, .int 8, .int 7]⟩) := by decide

end MechVerif.KernelIR

/-! ### operands that are references to variables (the fallback arms of `impl_mech_binop_fxn!`, as written) -/
namespace MechVerif.RangeArms

/-- **Whichever of its two operands is a variable, a binary element-wise operator's dispatch receives the operands'
    values in the order written** (`Gen/OperandArms.lean` is regenerated from src/core/src/stdlib.rs on every run;
    `C01_fallback_arms_ok` is its `decide` proof). -/
theorem C01_operand_forms_reach_the_dispatch {α : Type} (f : String × Nat × List Arm)
    (hf : f ∈ Gen.OperandArms.binopForms) (a b : Opnd α) (href : a.isRef = true ∨ b.isRef = true) :
    dispatch f.2.2 [a, b] = some [a.value, b.value] := by
  simp only [Gen.OperandArms.binopForms, List.mem_cons, List.mem_nil_iff, or_false] at hf
  rcases hf with rfl <;> cases a <;> cases b <;> simp [Opnd.isRef] at href <;> rfl

end MechVerif.RangeArms
