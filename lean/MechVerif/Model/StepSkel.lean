/-
C19, a tie to the source: the loops of `Interpreter::step` as they are written
(src/interpreter/src/interpreter.rs).  `tools/extract_step.py` reads the branch for `step_id == 0` — in both its
profiling and its plain form — and records the loop nest around `fxn.solve()`: what bounds the outer loop, how the
inner loop walks the plan, how often a function is solved per visit, whether anything leaves the loops early, and
which function's output is returned.  `runSkel` gives that record its meaning; an accepted record is `stepN` of
`Model/Plan.lean`, the function the C19 theorems are about.
-/
import MechVerif.Model.Plan
namespace MechVerif.StepSkel
open MechVerif.Plan

/-- how a `for` loop over a count is bounded -/
inductive Bound where
  | exclusive      -- `0..step_count`
  | inclusive      -- `0..=step_count`
  | other
deriving DecidableEq, Repr

/-- how the inner loop walks the plan -/
inductive Walk where
  | forward        -- `plan.iter_mut()` (optionally `.enumerate()`)
  | reverse        -- `.rev()`
  | other
deriving DecidableEq, Repr

structure Skel where
  /-- the outer loop counts the requested steps, the inner one walks the plan (not the other way round) -/
  stepsOutside : Bool
  bound : Bound
  walk : Walk
  /-- calls of `solve()` per visited function -/
  solves : Nat
  /-- a `break`, `continue` or `return` inside the loops -/
  earlyExit : Bool
  /-- the value returned is the output of the plan's last function -/
  returnsLast : Bool
deriving DecidableEq, Repr

def passes (b : Bound) (n : Nat) : Nat :=
  match b with
  | .exclusive => n
  | .inclusive => n + 1
  | .other => 0

def order (w : Walk) (plan : List PStep) : List PStep :=
  match w with
  | .forward => plan
  | .reverse => plan.reverse
  | .other => []

/-- one visit of a function: `solves` calls of `solve()` -/
def visit (k : Nat) (c : Cells) (s : PStep) : Cells := (List.replicate k s).foldl PStep.run c

/-- the loops as recorded (a record with an early exit or an unknown shape has no meaning here) -/
def runSkel (sk : Skel) (plan : List PStep) (n : Nat) (c : Cells) : Option Cells :=
  if sk.earlyExit || !sk.stepsOutside then none else
  some ((List.range (passes sk.bound n)).foldl (fun c _ => (order sk.walk plan).foldl (visit sk.solves) c) c)

/-- the nest `Model/Plan.stepN` stands for -/
def skelOk (sk : Skel) : Bool :=
  sk.stepsOutside && decide (sk.bound = .exclusive) && decide (sk.walk = .forward) && decide (sk.solves = 1) &&
  !sk.earlyExit && sk.returnsLast

end MechVerif.StepSkel
