#!/usr/bin/env python3
"""Regenerates lean/MechVerif/Gen/BindSkel.lean from src/interpreter/src/statements.rs (`variable_define`,
`variable_assign`, `op_assign`), src/core/src/program/symbol_table.rs and src/interpreter/src/functions.rs
(`bind_function_inputs`).  A shape the reader does not recognise makes `generate` return (False, reason)."""
import os, re, sys
sys.path.insert(0, os.path.dirname(os.path.abspath(__file__)))
from extract_kernels import Unrecognised

def strip(text): return re.sub(r'//[^\n]*', '', text.replace('\r\n', '\n'))
def norm(s): return re.sub(r'\s+', ' ', s).strip()

def fn_body(text, name):
    m = re.search(r'fn\s+%s\s*(<[^>]*>)?\s*\(' % re.escape(name), text)
    if not m: raise Unrecognised("fn %s not found" % name)
    i = text.index('{', m.end()); d = 1; j = i + 1
    while d:
        d += (text[j] == '{') - (text[j] == '}'); j += 1
    return text[i + 1:j - 1]

def lookup_ir(body, fname):
    b = norm(body)
    ev = re.search(r'let (?:mut )?source = expression\(', b)
    lk = re.search(r'\.(get_mutable_symbol|get_mutable|get_symbol|get)\(id\)', b)
    if not ev or not lk: raise Unrecognised(fname + ": source evaluation / target lookup")
    mutable = lk.group(1).startswith('get_mutable')
    # the two errors of the None branch
    m1 = re.search(r'None => \{ match \w+\.contains(?:_symbol)?\(id\) \{ true => return Err\(MechError::new\( (\w+) \{ id \}.*?false => return Err\(MechError::new\( (\w+) \{ id \}', b)
    m2 = re.search(r'None => \{ if !\w+\.contains(?:_symbol)?\(id\) \{ return Err\(MechError::new\( (\w+) \{ id \}.*?\} else \{ return Err\(MechError::new\( (\w+) \{ id \}', b)
    if m1: defined, undefined = m1.group(1), m1.group(2)
    elif m2: undefined, defined = m2.group(1), m2.group(2)
    else: raise Unrecognised(fname + ": the None branch of the target lookup")
    return "⟨%s, %s, \"%s\", \"%s\"⟩" % ("true" if ev.start() < lk.start() else "false", "true" if mutable else "false", defined, undefined)

def define_ir(body):
    b = norm(body)
    ev = re.search(r'let (?:mut )?result = expression\(&var_def\.expression', b)
    if not ev: raise Unrecognised("variable_define: evaluation of the right-hand side")
    t = re.search(r'if \w+\.borrow\(\)\.contains\(var_id\) \{ return Err\(MechError::new\( (\w+) \{ id: var_id \}', b) or \
        re.search(r'if \w+\.contains_symbol\(var_id\) \{ return Err\(MechError::new\( (\w+) \{ id: var_id \}', b)
    saves = [(m.start(), m.group(1)) for m in re.finditer(r'\.save_symbol\(\s*([^;]*?)\)\s*;', b)]
    if not saves: raise Unrecognised("variable_define: no save_symbol")
    flag_ok = all(re.fullmatch(r'var_id\s*,\s*var_name\.clone\(\)\s*,\s*[\w.()]+\s*,\s*var_def\.mutable', a) for _, a in saves)
    after = all(p > ev.start() for p, _ in saves)
    first = t is not None and t.start() < ev.start()
    # a test that is not first must at least dominate every save: here only the leading position is recognised as doing so
    bypass_free = first
    return "⟨%s, \"%s\", %s, %s, %s⟩" % ("true" if first else "false", t.group(1) if t else "-", "true" if flag_ok else "false",
                                        "true" if after else "false", "true" if bypass_free else "false")

def table_ir(text):
    ins = norm(fn_body(text, "insert"))
    a = re.search(r'self\.symbols\.insert\(key,\s*cell\.clone\(\)\)', ins) is not None and not re.search(r'if [^{]*\{[^}]*self\.symbols\.insert', ins)
    b = re.search(r'if mutable \{ self\.mutable_variables\.insert\(key,\s*cell\.clone\(\)\); \}', ins) is not None and len(re.findall(r'mutable_variables\.insert', ins)) == 1
    c = re.fullmatch(r'self\.mutable_variables\.get\(&key\)\.cloned\(\)', norm(fn_body(text, "get_mutable"))) is not None
    d = re.fullmatch(r'self\.symbols\.contains_key\(&key\)', norm(fn_body(text, "contains"))) is not None
    f = lambda x: "true" if x else "false"
    return "⟨%s, %s, %s, %s⟩" % (f(a), f(b), f(c), f(d))

def extract(repo="/repo"):
    st = strip(open(os.path.join(repo, "src/interpreter/src/statements.rs"), newline='').read())
    sy = strip(open(os.path.join(repo, "src/core/src/program/symbol_table.rs"), newline='').read())
    fu = strip(open(os.path.join(repo, "src/interpreter/src/functions.rs"), newline='').read())
    assign = lookup_ir(fn_body(st, "variable_assign"), "variable_assign")
    opassign = lookup_ir(fn_body(st, "op_assign"), "op_assign")
    define = define_ir(fn_body(st, "variable_define"))
    table = table_ir(sy)
    bi = norm(fn_body(fu, "bind_function_inputs"))
    saves = re.findall(r'\.save_symbol\(\s*[^;]*?,\s*(\w+)\s*\)\s*;', bi)
    if not saves: raise Unrecognised("bind_function_inputs: no save_symbol")
    inputs = all(s == 'false' for s in saves)
    return "⟨%s, %s, %s, %s, %s⟩" % (assign, opassign, define, table, "true" if inputs else "false")

def generate(root, repo="/repo"):
    try: sk = extract(repo)
    except (Unrecognised, OSError, ValueError) as e: return False, "C05 binding-skeleton extraction failed: %s" % e
    L = ["/- GENERATED by tools/extract_bind.py from src/interpreter/src/statements.rs, src/core/src/program/symbol_table.rs and",
         "   src/interpreter/src/functions.rs — do not edit. -/", "import MechVerif.Model.BindIR", "namespace MechVerif.Gen.BindSkel", "open MechVerif.BindIR", "",
         "def skel : Skel := " + sk, "", "theorem C05_binding_decisions_as_written : skel = expected := by decide", "", "end MechVerif.Gen.BindSkel", ""]
    text = "\n".join(L)
    out = os.path.join(root, 'lean', 'MechVerif', 'Gen', 'BindSkel.lean')
    old = open(out).read() if os.path.exists(out) else None
    if old != text: open(out, 'w').write(text)
    return True, "C05 binding decisions extracted: " + sk

if __name__ == '__main__':
    root = os.path.dirname(os.path.dirname(os.path.abspath(__file__)))
    if len(sys.argv) > 1 and sys.argv[1] == '--show': print(extract(sys.argv[2] if len(sys.argv) > 2 else "/repo"))
    else: print(generate(root))
