/-
C07 — Bytecode files round-trip exactly and corrupted files are rejected.
Model: `Model/Crc.lean` (CRC-32 register, `verify_crc_trailer_seek`),
`Model/Bytecode.lean` (instruction stream codec).  Helper lemmas: `Lemmas/Crc.lean`,
`Lemmas/Bytecode.lean`.
-/
import MechVerif.Lemmas.Crc
import MechVerif.Lemmas.Bytecode
namespace MechVerif.C07
open MechVerif.Crc MechVerif.Bytecode

/-- Burst detection.  Two files of equal length whose bit difference (in
    transmission order: byte by byte, least significant bit first) is non-zero and
    confined to 32 consecutive bit positions cannot both carry a valid CRC trailer:
    if `f` verifies then `g` is rejected.  This covers every single-bit flip, every
    damage confined to four consecutive bytes, and damage inside the trailer itself,
    for files of every length. -/
theorem C07_crc_detects_window32 (f g : List Byte) (a b : Nat) (w : List Bool)
    (h4 : 4 ≤ f.length) (hlen : f.length = g.length) (hw : w.length ≤ 31)
    (hx : xorBits (bitsOfBytes f) (bitsOfBytes g)
            = List.replicate a false ++ (true :: w) ++ List.replicate b false)
    (hf : verifies f = true) : verifies g = false := by
  cases hg : verifies g with
  | false => rfl
  | true =>
    exfalso
    have h1 := (verifies_iff f h4).mp hf
    have h2 := (verifies_iff g (by omega)).mp hg
    have hl : (bitsOfBytes f).length = (bitsOfBytes g).length := by
      simp [bitsOfBytes_length, hlen]
    have h3 := run_lin (bitsOfBytes f) (bitsOfBytes g) ONES ONES hl
    rw [h1, h2, hx] at h3
    simp only [BitVec.xor_self] at h3
    exact window_nonzero a b w hw h3

/-- A single flipped bit anywhere in a verifying file (payload or trailer) is rejected. -/
theorem C07_verify_rejects_flip (f g : List Byte) (a b : Nat)
    (h4 : 4 ≤ f.length) (hlen : f.length = g.length)
    (hx : xorBits (bitsOfBytes f) (bitsOfBytes g)
            = List.replicate a false ++ [true] ++ List.replicate b false)
    (hf : verifies f = true) : verifies g = false :=
  C07_crc_detects_window32 f g a b [] h4 hlen (by simp) hx hf

/-- Files shorter than the trailer are rejected outright. -/
theorem C07_verify_rejects_short (f : List Byte) (h : f.length < 4) :
    verify f = .error .short := by
  simp [verify, h]

/-- Decision logic of the trailer check, stated outright: a file of at least four
    bytes is accepted iff its last four bytes are the little-endian CRC-32 of the rest. -/
theorem C07_verify_ok_iff (p : List Byte) (b0 b1 b2 b3 : Byte) :
    verifies (p ++ [b0, b1, b2, b3]) = (crc32 p == le32 b0 b1 b2 b3) := by
  unfold verifies verify
  have h1 : ¬ (p ++ [b0, b1, b2, b3]).length < 4 := by simp
  have h2 : (p ++ [b0, b1, b2, b3]).length - 4 = p.length := by simp
  simp only [h1, if_false, h2, List.drop_left, List.take_left]
  cases crc32 p == le32 b0 b1 b2 b3 <;> rfl

/-- The CRC register is linear over message xor (equal lengths). -/
theorem C07_crc_linear (u w : List Bool) (a b : BitVec 32) (h : u.length = w.length) :
    run (a ^^^ b) (xorBits u w) = run a u ^^^ run b w :=
  run_lin u w a b h

/-- Instruction streams round-trip: decoding what `write_to` emitted gives back the
    same instructions — for every list of well-formed instructions that does not end
    in a `Ret` (see the counterexample below), with any sufficient fuel. -/
theorem C07_instr_roundtrip_partial (is : List Instr)
    (hwf : ∀ i ∈ is, i.wf) (hnt : noTrailingRet is = true)
    (fuel : Nat) (hfuel : (encodeInstrs is).length ≤ fuel) :
    decodeInstrs fuel (encodeInstrs is) = .ok is :=
  decode_encode is hwf hnt fuel hfuel

/-- Full statement of the instruction round trip (kept visible; it is false at the
    pinned commit because of the `rem < 8` test, see the counterexample). -/
def C07_instr_roundtrip_statement : Prop :=
  ∀ is : List Instr, (∀ i ∈ is, i.wf) →
    decodeInstrs (encodeInstrs is).length (encodeInstrs is) = .ok is

def isTruncated (r : Except DErr (List Instr)) : Bool :=
  match r with | .error .truncated => true | _ => false

/-- A stream ending in `Ret` (5 bytes) does not decode: `decode_instructions`
    demands 8 remaining bytes before every instruction.  Latent: the compiler at the
    pinned commit never emits `Ret`. -/
theorem C07_counterexample_trailing_ret :
    isTruncated (decodeInstrs 5 (encodeInstrs [.ret 0])) = true := by decide

theorem C07_instr_roundtrip_statement_false : ¬ C07_instr_roundtrip_statement := by
  intro h
  have := h [.ret 0] (by intro i hi; simp at hi; subst hi; simp [Instr.wf, U32])
  have h2 := C07_counterexample_trailing_ret
  simp only [encodeInstrs, List.flatMap_cons, List.flatMap_nil, List.append_nil] at this h2
  rw [show (encodeInstr (.ret 0)).length = 5 by rfl] at this
  rw [this] at h2
  simp [isTruncated] at h2

/-! ### non-vacuity -/

/-- "123456789" followed by its CRC-32 (0xCBF43926) little endian verifies -/
def exFile : List Byte :=
  [0x31, 0x32, 0x33, 0x34, 0x35, 0x36, 0x37, 0x38, 0x39, 0x26, 0x39, 0xF4, 0xCB]

example : verifies exFile = true := by decide +kernel
example : crc32 (exFile.take 9) = 0xCBF43926#32 := by decide +kernel
example : noTrailingRet [.binOp 7 0 1 2, .ret 0, .constLoad 1 2] = true := by decide
example : decodeInstrs 40 (encodeInstrs [.binOp 7 0 1 2, .ret 0, .constLoad 1 2])
    = .ok [.binOp 7 0 1 2, .ret 0, .constLoad 1 2] := by
  apply C07_instr_roundtrip_partial
  · intro i hi; simp at hi; rcases hi with h | h | h <;> subst h <;> simp [Instr.wf, U32, U64]
  · decide
  · decide

end MechVerif.C07
