/-
Lemmas about the compile side (Model/Compile.lean): the context only grows, the register map stays a
bijection between the cells seen and `0 … nextReg-1`, and the emitted stream, run by the model of
`run_program`, keeps every register equal to the value of the cell it belongs to.
-/
import MechVerif.Model.Compile
namespace MechVerif.Compile
open MechVerif.RunProgram

/-! ### the register map -/

theorem regOf_append_some {m : List (Addr × Reg)} {a : Addr} {r : Reg} (e : List (Addr × Reg))
    (h : regOf m a = some r) : regOf (m ++ e) a = some r := by
  induction m with
  | nil => simp [regOf] at h
  | cons p m ih =>
    obtain ⟨k, q⟩ := p
    simp only [List.cons_append, regOf] at h ⊢
    split
    · rename_i hk; simpa [hk] using h
    · rename_i hk; simp only [hk, if_false] at h; exact ih h

theorem regOf_append_none {m : List (Addr × Reg)} {a : Addr} (e : List (Addr × Reg))
    (h : regOf m a = none) : regOf (m ++ e) a = regOf e a := by
  induction m with
  | nil => rfl
  | cons p m ih =>
    obtain ⟨k, q⟩ := p
    simp only [List.cons_append, regOf] at h ⊢
    split
    · rename_i hk; simp [hk] at h
    · rename_i hk; simp only [hk, if_false] at h; exact ih h

theorem regOf_snoc (m : List (Addr × Reg)) (a : Addr) (n : Reg) (b : Addr) :
    regOf (m ++ [(a, n)]) b =
      (match regOf m b with | some r => some r | none => if a = b then some n else none) := by
  cases h : regOf m b with
  | some r => simp [regOf_append_some _ h]
  | none => simp [regOf_append_none _ h, regOf]

/-! ### the context only grows -/

/-- `c'` extends `c`: nothing recorded is changed -/
structure Ext (c c' : Ctx) : Prop where
  regMap : ∃ e, c'.regMap = c.regMap ++ e
  nextReg : c.nextReg ≤ c'.nextReg
  instrs : ∃ i, c'.instrs = c.instrs ++ i
  consts : ∃ k, c'.consts = c.consts ++ k

theorem Ext.refl (c : Ctx) : Ext c c := ⟨⟨[], by simp⟩, Nat.le_refl _, ⟨[], by simp⟩, ⟨[], by simp⟩⟩

theorem Ext.trans {a b c : Ctx} (h1 : Ext a b) (h2 : Ext b c) : Ext a c := by
  obtain ⟨⟨e1, he1⟩, hn1, ⟨i1, hi1⟩, ⟨k1, hk1⟩⟩ := h1
  obtain ⟨⟨e2, he2⟩, hn2, ⟨i2, hi2⟩, ⟨k2, hk2⟩⟩ := h2
  exact ⟨⟨e1 ++ e2, by rw [he2, he1, List.append_assoc]⟩, Nat.le_trans hn1 hn2,
    ⟨i1 ++ i2, by rw [hi2, hi1, List.append_assoc]⟩, ⟨k1 ++ k2, by rw [hk2, hk1, List.append_assoc]⟩⟩

theorem Ext.regOf {c c' : Ctx} (h : Ext c c') {a : Addr} {r : Reg} (ha : regOf c.regMap a = some r) :
    regOf c'.regMap a = some r := by
  obtain ⟨e, he⟩ := h.regMap
  rw [he]; exact regOf_append_some e ha

/-- the register map is a bijection between the cells seen and `0 … nextReg-1` -/
structure Inv (c : Ctx) : Prop where
  lt : ∀ a r, regOf c.regMap a = some r → r < c.nextReg
  inj : ∀ a b r, regOf c.regMap a = some r → regOf c.regMap b = some r → a = b
  surj : ∀ r, r < c.nextReg → ∃ a, regOf c.regMap a = some r

theorem Inv.empty : Inv Ctx.empty :=
  ⟨by intro a r h; simp [Ctx.empty, regOf] at h, by intro a b r h; simp [Ctx.empty, regOf] at h,
   by intro r h; simp [Ctx.empty] at h⟩

theorem allocReg_some {c : Ctx} {a : Addr} {r : Reg} (h : regOf c.regMap a = some r) : allocReg c a = (c, r) := by
  simp [allocReg, h]

theorem allocReg_none {c : Ctx} {a : Addr} (h : regOf c.regMap a = none) :
    allocReg c a = ({ c with regMap := c.regMap ++ [(a, c.nextReg)], nextReg := c.nextReg + 1 }, c.nextReg) := by
  simp [allocReg, h]

theorem allocReg_spec (c : Ctx) (a : Addr) (hi : Inv c) :
    Inv (allocReg c a).1 ∧ regOf (allocReg c a).1.regMap a = some (allocReg c a).2 ∧ Ext c (allocReg c a).1 ∧
    (allocReg c a).1.instrs = c.instrs ∧ (allocReg c a).1.consts = c.consts ∧
    (∀ b r, regOf (allocReg c a).1.regMap b = some r → regOf c.regMap b = some r ∨ (b = a ∧ r = (allocReg c a).2)) := by
  cases h : regOf c.regMap a with
  | some r =>
    rw [allocReg_some h]
    exact ⟨hi, h, Ext.refl c, rfl, rfl, fun b r hb => Or.inl hb⟩
  | none =>
    rw [allocReg_none h]
    refine ⟨⟨?_, ?_, ?_⟩, ?_, ⟨⟨_, rfl⟩, Nat.le_succ _, ⟨[], by simp⟩, ⟨[], by simp⟩⟩, rfl, rfl, ?_⟩
    · intro b r hb
      simp only [regOf_snoc] at hb
      cases hm : regOf c.regMap b with
      | some q => simp only [hm] at hb; cases hb; exact Nat.lt_succ_of_lt (hi.lt b _ hm)
      | none =>
        simp only [hm] at hb
        split at hb
        · cases hb; exact Nat.lt_succ_self _
        · cases hb
    · intro b1 b2 r h1 h2
      simp only [regOf_snoc] at h1 h2
      cases hm1 : regOf c.regMap b1 with
      | some q1 =>
        simp only [hm1] at h1; cases h1
        cases hm2 : regOf c.regMap b2 with
        | some q2 => simp only [hm2] at h2; cases h2; exact hi.inj b1 b2 _ hm1 hm2
        | none =>
          simp only [hm2] at h2
          split at h2
          · cases h2; exact absurd (hi.lt b1 _ hm1) (Nat.lt_irrefl _)
          · cases h2
      | none =>
        simp only [hm1] at h1
        split at h1
        · rename_i e1; cases h1
          cases hm2 : regOf c.regMap b2 with
          | some q2 => simp only [hm2] at h2; cases h2; exact absurd (hi.lt b2 _ hm2) (Nat.lt_irrefl _)
          | none =>
            simp only [hm2] at h2
            split at h2
            · rename_i e2; exact e1.symm.trans e2
            · cases h2
        · cases h1
    · intro r hr
      by_cases hlt : r < c.nextReg
      · obtain ⟨b, hb⟩ := hi.surj r hlt
        exact ⟨b, regOf_append_some _ hb⟩
      · have : r = c.nextReg := by simp only at hr; omega
        subst this
        exact ⟨a, by simp [regOf_snoc, h]⟩
    · simp [regOf_snoc, h]
    · intro b r hb
      simp only [regOf_snoc] at hb
      cases hm : regOf c.regMap b with
      | some q => simp only [hm] at hb; exact Or.inl hb
      | none =>
        simp only [hm] at hb
        split at hb
        · rename_i e; cases hb; exact Or.inr ⟨e.symm, rfl⟩
        · cases hb

/-- `compile_register_brrw!`: one new constant (the cell), one `ConstLoad` of it into the cell's register -/
theorem compileRegister_spec (c : Ctx) (a : Addr) (hi : Inv c) :
    Inv (compileRegister c a).1 ∧ regOf (compileRegister c a).1.regMap a = some (compileRegister c a).2 ∧
    Ext c (compileRegister c a).1 ∧
    (compileRegister c a).1.instrs = c.instrs ++ [.constLoad (compileRegister c a).2 c.consts.length] ∧
    (compileRegister c a).1.consts = c.consts ++ [a] ∧
    (∀ b r, regOf (compileRegister c a).1.regMap b = some r →
      regOf c.regMap b = some r ∨ (b = a ∧ r = (compileRegister c a).2)) := by
  obtain ⟨h1, h2, h3, h4, h5, h6⟩ := allocReg_spec c a hi
  simp only [compileRegister]
  refine ⟨⟨h1.lt, h1.inj, h1.surj⟩, h2, ⟨h3.regMap, h3.nextReg, ⟨_, by simp only [h4]; rfl⟩, ⟨_, by simp only [h5]; rfl⟩⟩,
    by simp only [h4, h5], by simp only [h5], h6⟩

/-- the `ConstLoad`s of registers `rs` with constant ids counting up from `k` -/
def loads (k : Nat) (rs : List Reg) : List Instr := rs.mapIdx (fun i r => Instr.constLoad r (k + i))

theorem loads_cons (k : Nat) (r : Reg) (rs : List Reg) : loads k (r :: rs) = .constLoad r k :: loads (k + 1) rs := by
  simp only [loads, List.mapIdx_cons, Nat.add_zero, List.cons.injEq, true_and]
  congr 1
  funext i q
  simp only [Instr.constLoad.injEq, true_and]; omega

theorem compileRegs_spec (addrs : List Addr) : ∀ (c : Ctx), Inv c →
    Inv (compileRegs c addrs).1 ∧ Ext c (compileRegs c addrs).1 ∧
    addrs.map (regOf (compileRegs c addrs).1.regMap) = (compileRegs c addrs).2.map some ∧
    (compileRegs c addrs).1.instrs = c.instrs ++ loads c.consts.length (compileRegs c addrs).2 ∧
    (compileRegs c addrs).1.consts = c.consts ++ addrs := by
  induction addrs with
  | nil => intro c hi; simp [compileRegs, loads, hi, Ext.refl]
  | cons a rest ih =>
    intro c hi
    obtain ⟨h1, h2, h3, h4, h5, _⟩ := compileRegister_spec c a hi
    obtain ⟨g1, g2, g3, g4, g5⟩ := ih (compileRegister c a).1 h1
    simp only [compileRegs]
    refine ⟨g1, h3.trans g2, ?_, ?_, ?_⟩
    · simp only [List.map_cons, g3, g2.regOf h2]
    · rw [g4, h4, h5, loads_cons]; simp
    · rw [g5, h5]; simp

/-- the shape of one step: `1 + #args` loads with consecutive constant ids, then the operation over exactly those
    registers -/
theorem compileStep_spec (c : Ctx) (s : Step) (hi : Inv c) :
    ∃ (d : Reg) (rs : List Reg),
      Inv (compileStep c s) ∧ Ext c (compileStep c s) ∧
      (s.out :: s.args).map (regOf (compileStep c s).regMap) = (d :: rs).map some ∧
      (compileStep c s).instrs = c.instrs ++ loads c.consts.length (d :: rs) ++ [.op s.cls s.fxnId d rs] ∧
      (compileStep c s).consts = c.consts ++ (s.out :: s.args) ∧
      (compileStep c s).regMap = (compileRegs (compileRegister c s.out).1 s.args).1.regMap ∧
      (compileStep c s).nextReg = (compileRegs (compileRegister c s.out).1 s.args).1.nextReg := by
  obtain ⟨h1, h2, h3, h4, h5, _⟩ := compileRegister_spec c s.out hi
  obtain ⟨g1, g2, g3, g4, g5⟩ := compileRegs_spec s.args (compileRegister c s.out).1 h1
  refine ⟨(compileRegister c s.out).2, (compileRegs (compileRegister c s.out).1 s.args).2, ?_⟩
  simp only [compileStep]
  have hx := h3.trans g2
  refine ⟨⟨g1.lt, g1.inj, g1.surj⟩, ⟨hx.regMap, hx.nextReg, ?_, hx.consts⟩, ?_, ?_, ?_, trivial, trivial⟩
  · obtain ⟨i, hi'⟩ := hx.instrs
    exact ⟨i ++ [.op s.cls s.fxnId (compileRegister c s.out).2 (compileRegs (compileRegister c s.out).1 s.args).2],
      by simp only [hi', List.append_assoc]⟩
  · simp only [List.map_cons, g3, g2.regOf h2]
  · simp only [g4, h4, h5, loads_cons, List.length_append, List.length_cons, List.length_nil]
    simp
  · simp only [g5, h5]; simp

theorem compilePlan_cons (c : Ctx) (s : Step) (plan : List Step) :
    compilePlan c (s :: plan) = compilePlan (compileStep c s) plan := rfl

theorem compilePlan_append (c : Ctx) (p q : List Step) :
    compilePlan c (p ++ q) = compilePlan (compilePlan c p) q := by
  simp [compilePlan, List.foldl_append]

theorem compilePlan_spec (plan : List Step) : ∀ (c : Ctx), Inv c →
    Inv (compilePlan c plan) ∧ Ext c (compilePlan c plan) := by
  induction plan with
  | nil => intro c hi; exact ⟨hi, Ext.refl c⟩
  | cons s plan ih =>
    intro c hi
    obtain ⟨d, rs, h1, h2, _⟩ := compileStep_spec c s hi
    obtain ⟨g1, g2⟩ := ih (compileStep c s) h1
    exact ⟨g1, h2.trans g2⟩

/-- every cell a compiled step mentions has a register afterwards -/
theorem compilePlan_has_reg (plan : List Step) : ∀ (c : Ctx), Inv c → ∀ s ∈ plan, ∀ a ∈ s.out :: s.args,
    ∃ r, regOf (compilePlan c plan).regMap a = some r := by
  induction plan with
  | nil => intro c _ s hs; cases hs
  | cons s0 plan ih =>
    intro c hi s hs a ha
    obtain ⟨d, rs, h1, _, h3, _⟩ := compileStep_spec c s0 hi
    rcases List.mem_cons.mp hs with rfl | hs'
    · have : regOf (compileStep c s).regMap a ∈ (s.out :: s.args).map (regOf (compileStep c s).regMap) :=
        List.mem_map_of_mem ha
      rw [h3] at this
      obtain ⟨r, _, hr⟩ := List.mem_map.mp this
      exact ⟨r, (compilePlan_spec plan _ h1).2.regOf hr.symm⟩
    · exact ih (compileStep c s0) h1 s hs' a ha

/-! ### running the emitted stream -/

theorem runIns_app (consts : List String) : ∀ (pre : List Ins) (st : St) (post : List Ins),
    runIns consts st (pre ++ post) =
      (match runIns consts st pre with | .ok st' => runIns consts st' post | .error e => .error e) := by
  intro pre
  induction pre with
  | nil => intro st post; rfl
  | cons i pre ih =>
    intro st post
    simp only [List.cons_append, runIns]
    cases step consts st i with
    | error e => rfl
    | ok st' => exact ih st' post

/-- the stream of `c`, loaded, runs from `st0` to `st` without an error -/
def Runs (K : List String) (registered : Nat → Bool) (st0 : St) (c : Ctx) (st : St) : Prop :=
  runIns K st0 (c.instrs.map (toIns registered)) = .ok st

/-- every register given to a cell holds that cell's value -/
def Loaded (store : Addr → String) (c : Ctx) (st : St) : Prop :=
  ∀ a r, regOf c.regMap a = some r → st.regs[r]? = some (store a)

/-- the register file and the constant table of the finished program cover `c` -/
def Fits (K : List String) (N : Nat) (store : Addr → String) (c : Ctx) : Prop :=
  c.nextReg ≤ N ∧ ∃ t, K = c.consts.map store ++ t

theorem Fits.of_ext {K : List String} {N : Nat} {store : Addr → String} {c c' : Ctx} (h : Ext c c')
    (hf : Fits K N store c') : Fits K N store c := by
  obtain ⟨hn, t, ht⟩ := hf
  obtain ⟨k, hk⟩ := h.consts
  exact ⟨Nat.le_trans h.nextReg hn, k.map store ++ t, by rw [ht, hk, List.map_append, List.append_assoc]⟩

theorem runs_compileRegister {K : List String} {N : Nat} {store : Addr → String} {registered : Nat → Bool} {st0 : St}
    (c : Ctx) (a : Addr) (st : St) (hi : Inv c) (hr : Runs K registered st0 c st) (hl : Loaded store c st)
    (hN : st.regs.length = N) (hf : Fits K N store (compileRegister c a).1) :
    ∃ st', Runs K registered st0 (compileRegister c a).1 st' ∧ Loaded store (compileRegister c a).1 st' ∧
      st'.regs.length = N ∧ st'.out = st.out := by
  obtain ⟨h1, h2, h3, h4, h5, h6⟩ := compileRegister_spec c a hi
  obtain ⟨hn, t, ht⟩ := hf
  have hrN : (compileRegister c a).2 < st.regs.length := by
    rw [hN]; exact Nat.lt_of_lt_of_le (h1.lt a _ h2) hn
  have hK : K[c.consts.length]? = some (store a) := by
    rw [ht, h5]; simp
  refine ⟨⟨st.regs.set (compileRegister c a).2 (store a), st.out⟩, ?_, ?_, by simpa using hN, rfl⟩
  · unfold Runs at hr ⊢
    rw [h4, List.map_append, runIns_app, hr]
    simp [toIns, runIns, step, hK, setReg, hrN]
  · intro b r hb
    by_cases hrr : r = (compileRegister c a).2
    · subst hrr
      have : b = a := h1.inj b a _ hb h2
      subst this
      simp [hrN]
    · rcases h6 b r hb with hb' | ⟨_, hb'⟩
      · have := hl b r hb'
        simp only [List.getElem?_set]
        rw [if_neg (fun h => hrr h.symm)]
        exact this
      · exact absurd hb' hrr

theorem runs_compileRegs {K : List String} {N : Nat} {store : Addr → String} {registered : Nat → Bool} {st0 : St}
    (addrs : List Addr) : ∀ (c : Ctx) (st : St), Inv c → Runs K registered st0 c st → Loaded store c st →
    st.regs.length = N → Fits K N store (compileRegs c addrs).1 →
    ∃ st', Runs K registered st0 (compileRegs c addrs).1 st' ∧ Loaded store (compileRegs c addrs).1 st' ∧
      st'.regs.length = N ∧ st'.out = st.out := by
  induction addrs with
  | nil => intro c st _ hr hl hN _; exact ⟨st, hr, hl, hN, rfl⟩
  | cons a rest ih =>
    intro c st hi hr hl hN hf
    obtain ⟨h1, _⟩ := compileRegister_spec c a hi
    simp only [compileRegs] at hf ⊢
    have hf1 : Fits K N store (compileRegister c a).1 :=
      Fits.of_ext (compileRegs_spec rest _ h1).2.1 hf
    obtain ⟨st1, r1, l1, n1, o1⟩ := runs_compileRegister c a st hi hr hl hN hf1
    obtain ⟨st2, r2, l2, n2, o2⟩ := ih (compileRegister c a).1 st1 h1 r1 l1 n1 hf
    exact ⟨st2, r2, l2, n2, o2.trans o1⟩

/-- one compiled step runs, and leaves the value of its output cell as the result -/
theorem runs_compileStep {K : List String} {N : Nat} {store : Addr → String} {registered : Nat → Bool} {st0 : St}
    (c : Ctx) (s : Step) (st : St) (hi : Inv c) (hr : Runs K registered st0 c st) (hl : Loaded store c st)
    (hN : st.regs.length = N) (hf : Fits K N store (compileStep c s)) (hreg : registered s.fxnId = true) :
    ∃ st', Runs K registered st0 (compileStep c s) st' ∧ Loaded store (compileStep c s) st' ∧
      st'.regs.length = N ∧ st'.out = store s.out := by
  obtain ⟨h1, h2, h3, h4, h5, _⟩ := compileRegister_spec c s.out hi
  obtain ⟨g1, g2, g3, g4, g5⟩ := compileRegs_spec s.args (compileRegister c s.out).1 h1
  have hf2 : Fits K N store (compileRegs (compileRegister c s.out).1 s.args).1 := by
    obtain ⟨hn, t, ht⟩ := hf
    exact ⟨by simpa [compileStep] using hn, t, by simpa [compileStep] using ht⟩
  have hf1 : Fits K N store (compileRegister c s.out).1 := Fits.of_ext g2 hf2
  obtain ⟨st1, r1, l1, n1, _⟩ := runs_compileRegister c s.out st hi hr hl hN hf1
  obtain ⟨st2, r2, l2, n2, _⟩ := runs_compileRegs s.args (compileRegister c s.out).1 st1 h1 r1 l1 n1 hf2
  have hd : st2.regs[(compileRegister c s.out).2]? = some (store s.out) := l2 _ _ (g2.regOf h2)
  have hargs : ∀ q ∈ (compileRegs (compileRegister c s.out).1 s.args).2, q < st2.regs.length := by
    intro q hq
    have : some q ∈ s.args.map (regOf (compileRegs (compileRegister c s.out).1 s.args).1.regMap) := by
      rw [g3]; exact List.mem_map_of_mem hq
    obtain ⟨b, _, hb⟩ := List.mem_map.mp this
    rw [n2]; exact Nat.lt_of_lt_of_le (g1.lt b q hb) hf2.1
  refine ⟨⟨st2.regs, store s.out⟩, ?_, ?_, n2, rfl⟩
  · unfold Runs at r2 ⊢
    simp only [compileStep, List.map_append, runIns_app, r2, List.map_cons, List.map_nil, toIns, runIns, step, hreg]
    have : ((compileRegs (compileRegister c s.out).1 s.args).2.any fun a => decide (st2.regs.length ≤ a)) = false := by
      rw [List.any_eq_false]
      intro q hq
      simpa using hargs q hq
    simp [this, hd]
  · intro b r hb
    exact l2 b r (by simpa [compileStep] using hb)

/-- a compiled step whose function id the interpreter does not know stops the run with an error, whatever follows -/
theorem run_compileStep_unregistered {K : List String} {N : Nat} {store : Addr → String} {registered : Nat → Bool} {st0 : St}
    (c : Ctx) (s : Step) (st : St) (hi : Inv c) (hr : Runs K registered st0 c st) (hl : Loaded store c st)
    (hN : st.regs.length = N) (hf : Fits K N store (compileStep c s)) (hreg : registered s.fxnId = false)
    (post : List Ins) :
    runIns K st0 ((compileStep c s).instrs.map (toIns registered) ++ post) = .error (.unknownFunction s.cls.arity) := by
  obtain ⟨h1, _⟩ := compileRegister_spec c s.out hi
  obtain ⟨_, g2, _⟩ := compileRegs_spec s.args (compileRegister c s.out).1 h1
  have hf2 : Fits K N store (compileRegs (compileRegister c s.out).1 s.args).1 := by
    obtain ⟨hn, t, ht⟩ := hf
    exact ⟨by simpa [compileStep] using hn, t, by simpa [compileStep] using ht⟩
  have hf1 : Fits K N store (compileRegister c s.out).1 := Fits.of_ext g2 hf2
  obtain ⟨st1, r1, l1, n1, _⟩ := runs_compileRegister c s.out st hi hr hl hN hf1
  obtain ⟨st2, r2, _⟩ := runs_compileRegs s.args (compileRegister c s.out).1 st1 h1 r1 l1 n1 hf2
  unfold Runs at r2
  simp only [compileStep, List.map_append, List.append_assoc, runIns_app, r2, List.map_cons, List.map_nil, toIns,
    List.cons_append, List.nil_append, runIns, step, hreg]
  rfl

theorem runs_compilePlan {K : List String} {N : Nat} {store : Addr → String} {registered : Nat → Bool} {st0 : St}
    (plan : List Step) : ∀ (c : Ctx) (st : St), Inv c → Runs K registered st0 c st → Loaded store c st →
    st.regs.length = N → Fits K N store (compilePlan c plan) → (∀ s ∈ plan, registered s.fxnId = true) →
    ∃ st', Runs K registered st0 (compilePlan c plan) st' ∧ Loaded store (compilePlan c plan) st' ∧
      st'.regs.length = N := by
  induction plan with
  | nil => intro c st _ hr hl hN _ _; exact ⟨st, hr, hl, hN⟩
  | cons s plan ih =>
    intro c st hi hr hl hN hf hreg
    obtain ⟨d, rs, h1, _⟩ := compileStep_spec c s hi
    rw [compilePlan_cons] at hf ⊢
    have hf1 : Fits K N store (compileStep c s) := Fits.of_ext (compilePlan_spec plan _ h1).2 hf
    obtain ⟨st1, r1, l1, n1, _⟩ := runs_compileStep c s st hi hr hl hN hf1 (hreg s (List.mem_cons_self ..))
    exact ih (compileStep c s) st1 h1 r1 l1 n1 hf (fun q hq => hreg q (List.mem_cons_of_mem _ hq))

end MechVerif.Compile
