import MechVerif.Spec.Include
namespace MechVerif.Include

/-! ### fuel is never the reason for stopping -/

theorem expandLines_ne_fuel (rec : Path → Except Err Text) (fs : FS) (dir : Path)
    (hrec : ∀ q, rec q ≠ .error .fuel) :
    ∀ (ls : List Text) (st : Fence), expandLines rec fs dir st ls ≠ .error .fuel := by
  intro ls
  induction ls with
  | nil => intro st; cases st <;> simp [expandLines]
  | cons l ls ih =>
    intro st
    cases st with
    | some mk =>
      obtain ⟨m, k⟩ := mk
      simp only [expandLines]
      split
      · rename_i e he; intro hc; cases hc; exact ih _ he
      · simp
    | none =>
      simp only [expandLines]
      split
      · split
        · rename_i e he; intro hc; cases hc; exact ih _ he
        · simp
      · split
        · split
          · rename_i e he; intro hc; cases hc; exact ih _ he
          · simp
        · split
          · simp
          · split
            · rename_i e he; intro hc; cases hc; exact hrec _ he
            · split
              · rename_i e he; intro hc; cases hc; exact ih _ he
              · simp

theorem read_mem_keys (fs : FS) (p : Path) (src : Text) (h : fs.read p = some src) :
    p ∈ fs.keys := by
  unfold FS.read at h
  cases hf : fs.files.find? (fun e => e.1 == p) with
  | none => simp [hf] at h
  | some e =>
    have hm := List.mem_of_find?_eq_some hf
    have hp := List.find?_some hf
    simp only [beq_iff_eq] at hp
    unfold FS.keys
    exact List.mem_map.mpr ⟨e, hm, hp⟩

theorem fuel_suffices (fs : FS) :
    ∀ (n : Nat) (active : List Path) (p : Path),
      active.Nodup → (∀ a ∈ active, a ∈ fs.keys) →
      fs.keys.length + 1 ≤ n + active.length →
      expandFile fs n active p ≠ .error .fuel := by
  intro n
  induction n with
  | zero =>
    intro active p hnd hsub hlen
    have := List.Nodup.length_le_of_subset hnd (fun a ha => hsub a ha)
    omega
  | succ n ih =>
    intro active p hnd hsub hlen
    simp only [expandFile]
    split
    · simp
    · rename_i hnot
      split
      · simp
      · rename_i src hread
        apply expandLines_ne_fuel
        intro q
        apply ih
        · refine List.nodup_cons.mpr ⟨?_, hnd⟩
          intro hmem
          exact hnot (List.contains_iff_mem.mpr hmem)
        · intro a ha
          cases List.mem_cons.mp ha with
          | inl h => subst h; exact read_mem_keys fs _ src hread
          | inr h => exact hsub a h
        · simp only [List.length_cons]; omega

/-! ### soundness with respect to the relational spec -/

theorem expandLines_sound (rec : Path → Except Err Text) (fs : FS) (dir : Path)
    (hrec : ∀ q s, rec q = .ok s → Expands fs q s) :
    ∀ (ls : List Text) (st : Fence) (out : Text),
      expandLines rec fs dir st ls = .ok out → ExpandsLines fs dir st ls out := by
  intro ls
  induction ls with
  | nil =>
    intro st out h
    cases st <;> simp [expandLines] at h <;> subst h <;> exact ExpandsLines.nil _ _
  | cons l ls ih =>
    intro st out h
    cases st with
    | some mk =>
      obtain ⟨m, k⟩ := mk
      simp only [expandLines] at h
      split at h
      · simp at h
      · rename_i r hr
        simp only [Except.ok.injEq] at h; subst h
        exact ExpandsLines.inFence _ _ _ _ _ _ (ih _ _ hr)
    | none =>
      simp only [expandLines] at h
      split at h
      · rename_i m k a hd
        split at h
        · simp at h
        · rename_i r hr
          simp only [Except.ok.injEq] at h; subst h
          exact ExpandsLines.openFence _ _ _ _ m k a hd (ih _ _ hr)
      · rename_i hd
        split at h
        · rename_i hi
          split at h
          · simp at h
          · rename_i r hr
            simp only [Except.ok.injEq] at h; subst h
            exact ExpandsLines.plain _ _ _ _ hd hi (ih _ _ hr)
        · rename_i raw hi
          split at h
          · simp at h
          · rename_i q hq
            split at h
            · simp at h
            · rename_i s hs
              split at h
              · simp at h
              · rename_i r hr
                simp only [Except.ok.injEq] at h; subst h
                obtain ⟨src, hsrc, hex⟩ := hrec q s hs
                exact ExpandsLines.incl _ _ _ raw q src s r hd hi hq hsrc hex (ih _ _ hr)

theorem expandFile_sound (fs : FS) :
    ∀ (n : Nat) (active : List Path) (p : Path) (s : Text),
      expandFile fs n active p = .ok s → Expands fs p s := by
  intro n
  induction n with
  | zero => intro active p s h; simp [expandFile] at h
  | succ n ih =>
    intro active p s h
    simp only [expandFile] at h
    split at h
    · simp at h
    · split at h
      · simp at h
      · rename_i src hread
        exact ⟨src, hread,
          expandLines_sound _ fs _ (fun q s' hq => ih (p :: active) q s' hq) _ _ _ h⟩

/-! ### an `ok` result forces every target to expand, with the file on the active set -/

theorem expandLines_ok_targets (rec : Path → Except Err Text) (fs : FS) (dir : Path) :
    ∀ (ls : List Text) (st : Fence) (out : Text),
      expandLines rec fs dir st ls = .ok out →
      ∀ q ∈ targetsLines fs dir st ls, ∃ s, rec q = .ok s := by
  intro ls
  induction ls with
  | nil => intro st out _ q hq; cases st <;> simp [targetsLines] at hq
  | cons l ls ih =>
    intro st out h q hq
    cases st with
    | some mk =>
      obtain ⟨m, k⟩ := mk
      simp only [expandLines] at h
      simp only [targetsLines] at hq
      split at h
      · simp at h
      · rename_i r hr
        exact ih _ _ hr q hq
    | none =>
      simp only [expandLines] at h
      simp only [targetsLines] at hq
      split at h
      · rename_i m k a hd
        simp only [hd] at hq
        split at h
        · simp at h
        · rename_i r hr; exact ih _ _ hr q hq
      · rename_i hd
        simp only [hd] at hq
        split at h
        · rename_i hi
          simp only [hi] at hq
          split at h
          · simp at h
          · rename_i r hr; exact ih _ _ hr q hq
        · rename_i raw hi
          simp only [hi] at hq
          split at h
          · simp at h
          · rename_i q' hq'
            simp only [hq'] at hq
            split at h
            · simp at h
            · rename_i s hs
              split at h
              · simp at h
              · rename_i r hr
                cases List.mem_cons.mp hq with
                | inl heq => subst heq; exact ⟨s, hs⟩
                | inr hmem => exact ih _ _ hr q hmem

theorem ok_children (fs : FS) (n : Nat) (active : List Path) (p : Path) (s : Text)
    (h : expandFile fs (n + 1) active p = .ok s) :
    ∀ q, Edge fs p q → ∃ s', expandFile fs n (p :: active) q = .ok s' := by
  intro q hq
  simp only [expandFile] at h
  split at h
  · simp at h
  · split at h
    · simp at h
    · rename_i src hread
      unfold Edge targets at hq
      simp only [hread] at hq
      exact expandLines_ok_targets _ fs _ _ _ _ h q hq

theorem ok_reach (fs : FS) (p q : Path) (hr : Reach fs p q) :
    ∀ (n : Nat) (active : List Path) (s : Text), expandFile fs n active p = .ok s →
      ∃ n' active' s', p ∈ active' ∧ (∀ a ∈ active, a ∈ active') ∧
        expandFile fs n' active' q = .ok s' := by
  induction hr with
  | step he =>
    intro n active s h
    cases n with
    | zero => simp [expandFile] at h
    | succ n =>
      obtain ⟨s', hs'⟩ := ok_children fs n active _ s h _ he
      exact ⟨n, _ :: active, s', List.mem_cons_self, fun a ha => List.mem_cons_of_mem _ ha, hs'⟩
  | trans he _ ih =>
    intro n active s h
    cases n with
    | zero => simp [expandFile] at h
    | succ n =>
      obtain ⟨s', hs'⟩ := ok_children fs n active _ s h _ he
      obtain ⟨n', a', s'', hm, hsub, hok⟩ := ih n (_ :: active) s' hs'
      exact ⟨n', a', s'', hsub _ List.mem_cons_self,
        fun a ha => hsub a (List.mem_cons_of_mem _ ha), hok⟩

theorem active_not_ok (fs : FS) (n : Nat) (active : List Path) (p : Path) (s : Text)
    (hp : p ∈ active) : expandFile fs n active p ≠ .ok s := by
  cases n with
  | zero => simp [expandFile]
  | succ n =>
    simp only [expandFile]
    simp [hp]

/-! ### acyclic graphs never report a cycle -/

theorem expandLines_ne_circular (rec : Path → Except Err Text) (fs : FS) (dir : Path) :
    ∀ (ls : List Text) (st : Fence),
      (∀ q ∈ targetsLines fs dir st ls, rec q ≠ .error .circular) →
      expandLines rec fs dir st ls ≠ .error .circular := by
  intro ls
  induction ls with
  | nil => intro st _; cases st <;> simp [expandLines]
  | cons l ls ih =>
    intro st hq
    cases st with
    | some mk =>
      obtain ⟨m, k⟩ := mk
      simp only [expandLines]
      simp only [targetsLines] at hq
      have := ih _ hq
      split <;> simp_all
    | none =>
      simp only [expandLines]
      simp only [targetsLines] at hq
      split
      · rename_i m k a hd
        simp only [hd] at hq
        have := ih _ hq
        split <;> simp_all
      · rename_i hd
        simp only [hd] at hq
        split
        · rename_i hi
          simp only [hi] at hq
          have := ih _ hq
          split <;> simp_all
        · rename_i raw hi
          simp only [hi] at hq
          split
          · simp
          · rename_i q' hq'
            simp only [hq'] at hq
            have h1 := hq q' List.mem_cons_self
            have h2 := ih none (fun q hm => hq q (List.mem_cons_of_mem _ hm))
            split
            · simp_all
            · split <;> simp_all

theorem acyclic_never_circular (fs : FS) (rank : Path → Nat)
    (hrank : ∀ p q, Edge fs p q → rank q < rank p) :
    ∀ (n : Nat) (active : List Path) (p : Path),
      (∀ a ∈ active, rank p < rank a) →
      expandFile fs n active p ≠ .error .circular := by
  intro n
  induction n with
  | zero => intro active p _; simp [expandFile]
  | succ n ih =>
    intro active p hA
    simp only [expandFile]
    split
    · rename_i hc
      have hm : p ∈ active := List.contains_iff_mem.mp hc
      have := hA p hm
      omega
    · split
      · simp
      · rename_i src hread
        apply expandLines_ne_circular
        intro q hq
        have he : Edge fs p q := by
          unfold Edge targets; simp only [hread]; exact hq
        have hlt := hrank p q he
        apply ih
        intro a ha
        cases List.mem_cons.mp ha with
        | inl h => subst h; exact hlt
        | inr h => have := hA a h; omega

/-! ### files without include lines are returned unchanged -/

theorem splitLinesAux_flatten : ∀ (t acc : Text),
    (splitLinesAux t acc).flatten = acc.reverse ++ t := by
  intro t
  induction t with
  | nil => intro acc; simp only [splitLinesAux]; split <;> simp_all
  | cons c cs ih =>
    intro acc
    simp only [splitLinesAux]
    split
    · rename_i hc
      simp [ih]
    · simp [ih]

theorem splitLines_flatten (t : Text) : (splitLines t).flatten = t := by
  simp [splitLines, splitLinesAux_flatten]

/-- lines that are neither include lines nor change through expansion: the whole
    loop is the identity when no stand-alone include line occurs outside fences -/
def noIncludeLines (fs : FS) (dir : Path) : Fence → List Text → Bool
  | _, [] => true
  | some (m, k), l :: ls => noIncludeLines fs dir (if isFenceClose l m k then none else some (m, k)) ls
  | none, l :: ls =>
    match codeFenceDelimiter l with
    | some (m, k, _) => noIncludeLines fs dir (some (m, k)) ls
    | none =>
      match includeTarget (stripNl l).1 with
      | none => noIncludeLines fs dir none ls
      | some _ => false

theorem expandLines_id (rec : Path → Except Err Text) (fs : FS) (dir : Path) :
    ∀ (ls : List Text) (st : Fence), noIncludeLines fs dir st ls = true →
      expandLines rec fs dir st ls = .ok ls.flatten := by
  intro ls
  induction ls with
  | nil => intro st _; cases st <;> simp [expandLines]
  | cons l ls ih =>
    intro st h
    cases st with
    | some mk =>
      obtain ⟨m, k⟩ := mk
      simp only [noIncludeLines] at h
      simp only [expandLines, ih _ h, List.flatten_cons]
    | none =>
      simp only [noIncludeLines] at h
      simp only [expandLines]
      split
      · rename_i m k a hd
        simp only [hd] at h
        simp only [ih _ h, List.flatten_cons]
      · rename_i hd
        simp only [hd] at h
        split
        · rename_i hi
          simp only [hi] at h
          simp only [ih _ h, List.flatten_cons]
        · rename_i raw hi
          simp [hi] at h

/-! ### the relational spec is functional -/

theorem expandsLines_functional (fs : FS) (dir : Path) (st : Fence) (ls : List Text) (out : Text)
    (h : ExpandsLines fs dir st ls out) :
    ∀ out', ExpandsLines fs dir st ls out' → out = out' := by
  induction h with
  | nil dir st => intro out' h'; cases h'; rfl
  | inFence dir m k l ls r _ ih =>
    intro out' h'
    cases h' with
    | inFence _ _ _ _ _ r' hr' => rw [ih _ hr']
  | openFence dir l ls r m k a hd _ ih =>
    intro out' h'
    cases h' with
    | openFence _ _ _ r' m' k' a' hd' hr' =>
      rw [hd] at hd'; cases hd'
      rw [ih _ hr']
    | plain _ _ _ r' hd' => rw [hd] at hd'; cases hd'
    | incl _ _ _ _ _ _ _ _ hd' => rw [hd] at hd'; cases hd'
  | plain dir l ls r hd hi _ ih =>
    intro out' h'
    cases h' with
    | openFence _ _ _ r' m' k' a' hd' hr' => rw [hd] at hd'; cases hd'
    | plain _ _ _ r' _ _ hr' => rw [ih _ hr']
    | incl _ _ _ _ _ _ _ _ _ hi' => rw [hi] at hi'; cases hi'
  | incl dir l ls raw q src s r hd hi hq hsrc _ _ ihs ihr =>
    intro out' h'
    cases h' with
    | openFence _ _ _ r' m' k' a' hd' hr' => rw [hd] at hd'; cases hd'
    | plain _ _ _ r' _ hi' _ => rw [hi] at hi'; cases hi'
    | incl _ _ _ raw' q' src' s' r' _ hi' hq' hsrc' hs' hr' =>
      rw [hi] at hi'; cases hi'
      rw [hq] at hq'; cases hq'
      rw [hsrc] at hsrc'; cases hsrc'
      rw [ihs _ hs', ihr _ hr']

theorem expands_functional (fs : FS) (p : Path) (s s' : Text)
    (h : Expands fs p s) (h' : Expands fs p s') : s = s' := by
  obtain ⟨src, hr, hl⟩ := h
  obtain ⟨src', hr', hl'⟩ := h'
  rw [hr] at hr'; cases hr'
  exact expandsLines_functional fs _ _ _ _ hl _ hl'

end MechVerif.Include
