/-
The accepted skeletons of Model/ArmsIR.lean, run over the model's leaves, are the functions of Model/Arms.lean:
`runArms … expectedArms` is `stepArms`, `runUser … expectedUser` is `callImpl`, `runMatchExpr … expectedMatch` is `matchExpr`.
-/
import MechVerif.Model.ArmsIR
namespace MechVerif.ArmsIR
open MechVerif.Arms

/-! ### user functions -/

/-- every arm body that is literally a self call has as many arguments as the function has inputs (what the model's
    `tailShape` asks for at once; the code tests it after the arguments are evaluated) -/
def Saturated (f : FDef) (arms : List (P × E)) : Prop :=
  ∀ pb ∈ arms, ∀ es, selfCallArgs pb.2 = some es → es.length = f.arity

theorem tailShape_of_selfCall (f : FDef) (body : E) (es : List E) (h : selfCallArgs body = some es)
    (hl : es.length = f.arity) : tailShape f body = some es := by
  cases body <;> simp [selfCallArgs] at h
  · subst h; simp at hl; simp [tailShape, hl]
  · subst h; simp at hl; simp [tailShape, hl]

theorem tailShape_none_of_selfCall (f : FDef) (body : E) (h : selfCallArgs body = none) : tailShape f body = none := by
  cases body <;> simp [selfCallArgs] at h <;> simp [tailShape]

theorem evalArgs_length (self : List S → Except Err S) (env : Env) : ∀ (es : List E) (xs : List S),
    evalArgs self env es = .ok xs → xs.length = es.length := by
  intro es
  induction es with
  | nil => intro xs h; simp [evalArgs] at h; subst h; rfl
  | cons e es ih =>
    intro xs h
    simp only [evalArgs] at h
    split at h
    · cases h
    · split at h
      · cases h
      · rename_i ys hy
        injection h with h; subst h
        simp [ih _ hy]

/-- what the loop body does with one arm -/
def armBody : FStmt :=
  .seq .newEnv
  (.seq (.matchArgs .orig)
  (.ite (.var .matched)
    (.seq (.ifSelfCall (.seq .evalTailArgs (.ifTailArity .returnTail)))
    (.seq .evalBody
    (.seq .coerce
    .returnValue)))
    .skip))

def finishArms : FOut → FOut
  | .next _ => .ret (.error .noArm)
  | o => o

theorem arms_loop (f : FDef) (self : List S → Except Err S) (left : P → List S → Env → Env)
    (callee : List S → Env → Option (Except Err Step)) (fuel : Nat) (args : List S) :
    ∀ (arms : List (P × E)), Saturated f arms → ∀ (s : FStore), s.orig = args → s.scope = inputsEnv f args →
    finishArms (iter FOut.next? FOut.brk? FOut.next
        (fun arm s => execF (modelFOps f self left) callee fuel armBody { s with arm := some arm }) arms s)
      = .ret (match stepArms self f args arms with | .ok st => .ok (.step st) | .error e => .error e) := by
  intro arms
  induction arms with
  | nil => intro _ s _ _; simp [iter, finishArms, stepArms]
  | cons pb rest ih =>
    intro hsat s ho hs
    obtain ⟨p, body⟩ := pb
    have hrest : Saturated f rest := fun x hx => hsat x (List.mem_cons_of_mem _ hx)
    simp only [iter, stepArms]
    cases hm : Arms.matchArgs p args [] with
    | none =>
      simp [armBody, execF, modelFOps, FStore.args, ho, hm, evalBF, FOut.next?]
      exact ih hrest _ rfl hs
    | some env =>
      cases hsc : selfCallArgs body with
      | none =>
        have hts := tailShape_none_of_selfCall f body hsc
        simp only [hts]
        cases hb : evalScalar self (env ++ inputsEnv f args) body with
        | error e => simp [armBody, execF, modelFOps, FStore.args, ho, hs, hm, evalBF, hsc, hb, FOut.next?, FOut.brk?, finishArms]
        | ok v => simp [armBody, execF, modelFOps, FStore.args, ho, hs, hm, evalBF, hsc, hb, FOut.next?, FOut.brk?, finishArms]
      | some es =>
        have hlen := hsat (p, body) (List.mem_cons_self) es hsc
        have hts := tailShape_of_selfCall f body es hsc hlen
        simp only [hts]
        cases ha : evalArgs self (env ++ inputsEnv f args) es with
        | error e => simp [armBody, execF, modelFOps, FStore.args, ho, hs, hm, evalBF, hsc, ha, FOut.next?, FOut.brk?, finishArms]
        | ok xs =>
          have hx := evalArgs_length self _ es xs ha
          simp [armBody, execF, modelFOps, FStore.args, ho, hs, hm, evalBF, hsc, ha, hx, hlen, FOut.next?, FOut.brk?, finishArms]

theorem seq_failNoArm (ops : FOps) (callee : List S → Env → Option (Except Err Step)) (fuel : Nat) (a : FStmt) (s : FStore) :
    execF ops callee fuel (.seq a .failNoArm) s = finishArms (execF ops callee fuel a s) := by
  simp only [execF]; cases execF ops callee fuel a s <;> rfl

theorem forArms_eq (ops : FOps) (callee : List S → Env → Option (Except Err Step)) (fuel : Nat) (body : FStmt) (s : FStore) :
    execF ops callee fuel (.forArms .forward body) s
      = iter FOut.next? FOut.brk? FOut.next (fun arm s => execF ops callee fuel body { s with arm := some arm }) ops.arms s := by
  simp only [execF, ordered]

/-- `execute_function_match_arms` as written (the accepted skeleton) over the model's leaves is `stepArms` -/
theorem runArms_expected (f : FDef) (self : List S → Except Err S) (left : P → List S → Env → Env) (args : List S)
    (hsat : Saturated f f.arms) :
    runArms (modelFOps f self left) expectedArms args (inputsEnv f args) = some (stepArms self f args f.arms) := by
  have h := arms_loop f self left (fun _ _ => none) 0 args f.arms hsat
    { orig := args, scope := inputsEnv f args } rfl rfl
  have hexp : expectedArms = .seq .enumCheck (.seq (.forArms .forward armBody) .failNoArm) := rfl
  have hseq : ∀ a b s, execF (modelFOps f self left) (fun _ _ => none) 0 (.seq a b) s =
      (match execF (modelFOps f self left) (fun _ _ => none) 0 a s with
       | .next s' => execF (modelFOps f self left) (fun _ _ => none) 0 b s' | o => o) := by
    intro a b s; simp only [execF]; cases execF (modelFOps f self left) (fun _ _ => none) 0 a s <;> rfl
  have henum : ∀ s, execF (modelFOps f self left) (fun _ _ => none) 0 .enumCheck s = .next s := by
    intro s; simp [execF, modelFOps]
  have hops : (modelFOps f self left).arms = f.arms := rfl
  rw [runArms, hexp, hseq, henum]
  simp only []
  rw [seq_failNoArm, forArms_eq, hops, h]
  cases stepArms self f args f.arms <;> rfl

theorem execF_seq (ops : FOps) (callee : List S → Env → Option (Except Err Step)) (fuel : Nat) (a b : FStmt) (s : FStore) :
    execF ops callee fuel (.seq a b) s
      = (match execF ops callee fuel a s with | .next s' => execF ops callee fuel b s' | o => o) := by
  simp only [execF]; cases execF ops callee fuel a s <;> rfl

/-- one turn of the tail-call loop -/
def turnBody : FStmt :=
  .seq .enterScope
  (.seq (.bindInputs .cur)
  (.seq (.callArms .cur)
  (.seq .dropScope
  (.matchStep .breakValue (.setCur .next)))))

def afterLoop : FOut → FOut
  | .next s => (match s.output with
     | none => .stuck
     | some (.ok v) => .ret (.ok (.val v))
     | some (.error e) => .ret (.error e))
  | o => o

theorem seq_returnOutput (ops : FOps) (callee : List S → Env → Option (Except Err Step)) (fuel : Nat) (a : FStmt) (s : FStore) :
    execF ops callee fuel (.seq a .returnOutput) s = afterLoop (execF ops callee fuel a s) := by
  simp only [execF]; cases execF ops callee fuel a s <;> rfl

theorem tail_loop (f : FDef) (self : List S → Except Err S) (left : P → List S → Env → Env) (fuel : Nat)
    (hsat : Saturated f f.arms) :
    ∀ (n : Nat) (s : FStore),
    afterLoop (loopN (execF (modelFOps f self left) (runArms (modelFOps f self left) expectedArms) fuel turnBody) n s)
      = .ret (match loopArms self f n s.cur with | .ok v => .ok (.val v) | .error e => .error e) := by
  intro n
  induction n with
  | zero => intro s; simp [loopN, afterLoop, loopArms]
  | succ n ih =>
    intro s
    simp only [loopN, loopArms]
    have hcall := runArms_expected f self left s.cur hsat
    cases hst : stepArms self f s.cur f.arms with
    | error e =>
      rw [hst] at hcall
      simp [turnBody, execF, modelFOps, FStore.args, hcall, afterLoop] at *
    | ok st =>
      rw [hst] at hcall
      cases st with
      | ret v =>
        simp [turnBody, execF, modelFOps, FStore.args, afterLoop] at *
        simp [hcall]
      | tail xs =>
        simp [turnBody, execF, modelFOps, FStore.args, afterLoop] at *
        simp [hcall]
        exact ih _

/-- `execute_user_function` as written (the accepted skeleton, calling the accepted skeleton of
    `execute_function_match_arms`) over the model's leaves is `callImpl`: arity check, then the tail-call loop -/
theorem runUser_expected (f : FDef) (it d : Nat) (left : P → List S → Env → Env) (args : List S)
    (hsat : Saturated f f.arms) (harms : f.arms ≠ []) :
    runUser (modelFOps f (callImpl f it d) left) expectedArms expectedUser it args = some (callImpl f it (d + 1) args) := by
  have hexp : expectedUser = .seq .arityCheck (.seq (.tryBroadcast .orig)
      (.seq (.ifArms (.seq (.setCur .orig) (.loop turnBody)) .plainBody) .returnOutput)) := rfl
  have hops : (modelFOps f (callImpl f it d) left).arms = f.arms := rfl
  have hempty : f.arms.isEmpty = false := by cases h : f.arms <;> simp_all
  have hloop := tail_loop f (callImpl f it d) left it hsat it { orig := args, cur := args }
  rw [runUser, hexp]
  simp only [callImpl]
  generalize hO : modelFOps f (callImpl f it d) left = ops at *
  have harity : ops.arity = f.arity := by subst hO; rfl
  have hbc : ∀ a, ops.broadcast a = .ok none := by subst hO; intro a; rfl
  generalize hC : runArms ops expectedArms = callee at *
  by_cases hlen : args.length = f.arity
  · have h1 : execF ops callee it .arityCheck { orig := args } = .next { orig := args } := by
      simp [execF, harity, hlen]
    have h2 : execF ops callee it (.tryBroadcast .orig) { orig := args } = .next { orig := args } := by
      simp [execF, hbc]
    have h3 : execF ops callee it (.ifArms (.seq (.setCur .orig) (.loop turnBody)) .plainBody) { orig := args }
        = loopN (execF ops callee it turnBody) it { orig := args, cur := args } := by
      simp [execF, hops, hempty, FStore.args]
    rw [execF_seq, h1]; simp only []
    rw [execF_seq, h2]; simp only []
    rw [seq_returnOutput, h3, hloop]
    simp only [hlen, ne_eq, not_true_eq_false, if_false]
    cases loopArms (callImpl f it d) f it args <;> rfl
  · simp [execF, harity, hlen]

end MechVerif.ArmsIR
