import MechVerif.Model.ConstValue
import MechVerif.Lemmas.Const
namespace MechVerif.ConstValue
open MechVerif.Bytecode MechVerif.Const
open MechVerif.Crc (Byte)

theorem decStr_encStr (s : List Byte) (h : s.length < 256 ^ 4) (rest : List Byte) :
    decStr (encStr s ++ rest) = some (s, rest) := by
  unfold decStr encStr
  rw [List.append_assoc, readLE_leBytes 4 s.length _ h]
  simp

theorem decU32s_enc : ∀ (ds : List Nat), (∀ d ∈ ds, d < 256 ^ 4) → ∀ rest : List Byte,
    decU32s ds.length (ds.flatMap (leBytes 4) ++ rest) = some (ds, rest)
  | [], _, rest => by simp [decU32s]
  | d :: ds, h, rest => by
    have ih := decU32s_enc ds (fun x hx => h x (List.mem_cons_of_mem _ hx)) rest
    simp only [List.flatMap_cons, List.append_assoc, List.length_cons, decU32s,
      readLE_leBytes 4 d _ (h d List.mem_cons_self), ih]

theorem tag_toNat (t : Nat) (h : t < 256) : (BitVec.ofNat 8 t).toNat = t := by
  simp [BitVec.toNat_ofNat]; omega

mutual
def costVK : VK → Nat
  | .simple _ => 1
  | .matrix e _ => 1 + costVK e
  | .enum _ _ => 1
  | .table fields _ => 1 + costFields fields
  | .tuple _ => 1
  | .set e _ => 1 + costVK e
  | .option _ => 1
def costFields : List (List Byte × VK) → Nat
  | [] => 1
  | (_, k) :: fs => 1 + costVK k + costFields fs
end

def isSimple : VK → Prop
  | .simple t => 1 ≤ t ∧ t ≤ 20
  | _ => False

mutual
/-- the kinds the decoder reads back as written -/
def readable : VK → Prop
  | .simple t => 1 ≤ t ∧ t ≤ 20
  | .matrix e dims => isSimple e ∧ dims.length < 256 ^ 4 ∧ ∀ d ∈ dims, d < 256 ^ 4
  | .enum id name => id < 256 ^ 8 ∧ name.length < 256 ^ 4
  | .table fields rows => fields.length < 256 ^ 4 ∧ rows < 256 ^ 4 ∧ fieldsReadable fields
  | .tuple _ => False
  | .set e size => isSimple e ∧ ∀ n, size = some n → n < 256 ^ 4
  | .option _ => False
def fieldsReadable : List (List Byte × VK) → Prop
  | [] => True
  | (n, k) :: fs => n.length < 256 ^ 4 ∧ readable k ∧ fieldsReadable fs
end

theorem decodeVK_simple (t : Nat) (h : 1 ≤ t ∧ t ≤ 20) (fuel : Nat) (rest : List Byte) :
    decodeVK (fuel + 1) (BitVec.ofNat 8 t :: rest) = some (.simple t) := by
  have ht := tag_toNat t (by omega)
  simp only [decodeVK, ht]
  rw [if_neg (by omega), if_pos h.2]


theorem encodeVK_simple_of (e : VK) (h : isSimple e) : ∃ t, e = .simple t ∧ 1 ≤ t ∧ t ≤ 20 := by
  cases e <;> simp [isSimple] at h
  exact ⟨_, rfl, h⟩

mutual
theorem decodeVK_encodeVK : ∀ (vk : VK), readable vk → ∀ fuel, costVK vk ≤ fuel → ∀ rest : List Byte,
    decodeVK fuel (encodeVK vk ++ rest) = some vk
  | .simple t, h, fuel, hf, rest => by
    simp only [readable] at h
    cases fuel with
    | zero => simp [costVK] at hf
    | succ fuel => simpa [encodeVK] using decodeVK_simple t h fuel rest
  | .matrix e dims, h, fuel, hf, rest => by
    simp only [readable] at h
    obtain ⟨t, he, ht⟩ := encodeVK_simple_of e h.1
    subst he
    simp only [costVK] at hf
    cases fuel with
    | zero => omega
    | succ fuel =>
      cases fuel with
      | zero => omega
      | succ fuel =>
        have h1 := decodeVK_simple t ht fuel (leBytes 4 dims.length ++ (dims.flatMap (leBytes 4) ++ rest))
        have h2 := readLE_leBytes 4 dims.length (dims.flatMap (leBytes 4) ++ rest) h.2.1
        have h3 := decU32s_enc dims h.2.2 rest
        simp only [encodeVK, List.cons_append, List.append_assoc, List.nil_append, List.singleton_append]
        rw [decodeVK]
        simp only [show (21#8 : Byte).toNat = 21 from rfl]
        simp only [show ¬ (21 = 0) from by decide, show ¬ (21 ≤ 20) from by decide, if_false, if_true, h1, List.drop_succ_cons, List.drop_zero, h2, h3]
  | .enum id name, h, fuel, hf, rest => by
    simp only [readable] at h
    cases fuel with
    | zero => simp [costVK] at hf
    | succ fuel =>
      have h1 := readLE_leBytes 8 id (encStr name ++ rest) h.1
      have h2 := decStr_encStr name h.2 rest
      simp only [encodeVK, List.cons_append, List.append_assoc]
      rw [decodeVK]
      simp only [show (22#8 : Byte).toNat = 22 from rfl]
      simp only [show ¬ (22 = 0) from by decide, show ¬ (22 ≤ 20) from by decide, show ¬ (22 = 21) from by decide, if_false, if_true, h1, h2]
  | .table fields rows, h, fuel, hf, rest => by
    simp only [readable] at h
    simp only [costVK] at hf
    cases fuel with
    | zero => omega
    | succ fuel =>
      have h1 := readLE_leBytes 4 fields.length (encodeFields fields ++ (leBytes 4 rows ++ rest)) h.1
      have h2 := decodeFields_encodeFields fields h.2.2 fuel (by omega) (leBytes 4 rows ++ rest)
      have h3 := readLE_leBytes 4 rows rest h.2.1
      simp only [encodeVK, List.cons_append, List.append_assoc]
      rw [decodeVK]
      simp only [show (26#8 : Byte).toNat = 26 from rfl]
      simp only [show ¬ (26 = 0) from by decide, show ¬ (26 ≤ 20) from by decide, show ¬ (26 = 21) from by decide,
        show ¬ (26 = 22) from by decide, if_false, if_true, h1, h2, h3]
  | .tuple _, h, _, _, _ => by simp [readable] at h
  | .set e size, h, fuel, hf, rest => by
    simp only [readable] at h
    obtain ⟨t, he, ht⟩ := encodeVK_simple_of e h.1
    subst he
    simp only [costVK] at hf
    cases fuel with
    | zero => omega
    | succ fuel =>
      cases fuel with
      | zero => omega
      | succ fuel =>
        cases size with
        | none =>
          have h1 := decodeVK_simple t ht fuel (0#8 :: rest)
          simp only [encodeVK, List.cons_append, List.append_assoc, List.nil_append, List.singleton_append]
          rw [decodeVK]
          simp only [show (29#8 : Byte).toNat = 29 from rfl]
          simp [h1]
        | some n =>
          have h1 := decodeVK_simple t ht fuel (1#8 :: (leBytes 4 n ++ rest))
          have h2 := readLE_leBytes 4 n rest (h.2 n rfl)
          simp only [encodeVK, List.cons_append, List.append_assoc, List.nil_append, List.singleton_append]
          rw [decodeVK]
          simp only [show (29#8 : Byte).toNat = 29 from rfl]
          simp [h1, h2]
  | .option _, h, _, _, _ => by simp [readable] at h
theorem decodeFields_encodeFields : ∀ (fs : List (List Byte × VK)), fieldsReadable fs → ∀ fuel, costFields fs ≤ fuel →
    ∀ rest : List Byte, decodeFields fuel fs.length (encodeFields fs ++ rest) = some (fs, rest)
  | [], _, fuel, hf, rest => by
    cases fuel with
    | zero => simp [costFields] at hf
    | succ fuel => simp [decodeFields, encodeFields]
  | (n, k) :: fs, h, fuel, hf, rest => by
    simp only [fieldsReadable] at h
    simp only [costFields] at hf
    cases fuel with
    | zero => omega
    | succ fuel =>
      have h1 := decStr_encStr n h.1 (encodeVK k ++ (encodeFields fs ++ rest))
      have h2 := decodeVK_encodeVK k h.2.1 fuel (by omega) (encodeFields fs ++ rest)
      have h3 := decodeFields_encodeFields fs h.2.2 fuel (by omega) rest
      simp only [encodeFields, List.append_assoc, List.length_cons, decodeFields, h1, h2, List.drop_left, h3]
end


theorem ekOfTag_tagOfEk (k : EK) (h : tagOfEk k ≠ 0) : ekOfTag (tagOfEk k) = some k ∧ 1 ≤ tagOfEk k ∧ tagOfEk k ≤ 16 := by
  unfold tagOfEk at h ⊢
  split <;> simp_all [ekOfTag]

def NV.wf : NV → Prop
  | .scalar v => v.wf ∧ tagOfEk v.kind ≠ 0
  | .empty => True

theorem decodeNV_encodeNV (v : NV) (h : v.wf) (rest : List Byte) : decodeNV (encodeNV v ++ rest) = some (v, rest) := by
  cases v with
  | empty =>
    have := decodeVK_simple 19 (by decide) 1 rest
    simp only [encodeNV, List.cons_append, List.nil_append, decodeNV]
    simp only [show (19#8 : Byte) = BitVec.ofNat 8 19 from rfl, this, List.drop_succ_cons, List.drop_zero]
  | scalar cv =>
    obtain ⟨hwf, hs⟩ := h
    obtain ⟨e1, e2, e3⟩ := ekOfTag_tagOfEk cv.kind hs
    have h1 := decodeVK_simple (tagOfEk cv.kind) ⟨e2, by omega⟩ 1 (encode cv ++ rest)
    have h2 := decode_encode cv hwf rest
    have hne : tagOfEk cv.kind ≠ 19 := by omega
    simp only [encodeNV, List.cons_append, decodeNV, h1, List.drop_succ_cons, List.drop_zero]
    rw [e1]
    simp only [h2]

theorem decodeNVs_encode : ∀ (vs : List NV), (∀ v ∈ vs, v.wf) → ∀ rest : List Byte,
    decodeNVs vs.length (vs.flatMap encodeNV ++ rest) = some (vs, rest)
  | [], _, rest => by simp [decodeNVs]
  | v :: vs, h, rest => by
    have h1 := decodeNV_encodeNV v (h v List.mem_cons_self) (vs.flatMap encodeNV ++ rest)
    have ih := decodeNVs_encode vs (fun x hx => h x (List.mem_cons_of_mem _ hx)) rest
    simp only [List.flatMap_cons, List.append_assoc, List.length_cons, decodeNVs, h1, ih]


mutual
theorem costVK_le : ∀ vk : VK, costVK vk ≤ (encodeVK vk).length
  | .simple _ => by simp [costVK, encodeVK]
  | .matrix e dims => by have := costVK_le e; simp only [costVK, encodeVK, List.length_cons, List.length_append, leBytes_length]; omega
  | .enum _ _ => by simp [costVK, encodeVK]
  | .table fields _ => by
    have := costFields_le fields
    simp only [costVK, encodeVK, List.length_cons, List.length_append, leBytes_length]; omega
  | .tuple _ => by simp [costVK, encodeVK]
  | .set e _ => by have := costVK_le e; simp only [costVK, encodeVK, List.length_cons, List.length_append]; omega
  | .option _ => by simp [costVK, encodeVK]
theorem costFields_le : ∀ fs : List (List Byte × VK), costFields fs ≤ (encodeFields fs).length + 1
  | [] => by simp [costFields, encodeFields]
  | (n, k) :: fs => by
    have h1 := costVK_le k
    have h2 := costFields_le fs
    simp only [costFields, encodeFields, encStr, List.length_append, leBytes_length]; omega
end

def SetC.wf (s : SetC) : Prop :=
  readable s.kind ∧ s.count = s.elems.length ∧ s.count < 256 ^ 4 ∧ ∀ v ∈ s.elems, v.wf

/-- a set constant is read back as it was written: element kind, count and the elements in order -/
theorem decodeSet_encodeSet (s : SetC) (h : s.wf) (rest : List Byte) : decodeSet (encodeSet s ++ rest) = some s := by
  obtain ⟨h1, h2, h3, h4⟩ := h
  obtain ⟨kind, count, elems⟩ := s
  simp only at h1 h2 h3 h4
  subst h2
  unfold decodeSet encodeSet
  have hk := decodeVK_encodeVK kind h1 (encodeVK kind ++ leBytes 4 elems.length ++ elems.flatMap encodeNV ++ rest).length
    (by have := costVK_le kind; simp only [List.length_append]; omega) (leBytes 4 elems.length ++ (elems.flatMap encodeNV ++ rest))
  simp only [List.append_assoc] at hk ⊢
  rw [hk]
  simp only [List.drop_left, readLE_leBytes 4 elems.length _ h3, decodeNVs_encode elems h4 rest]

structure ColC.wf (c : ColC) : Prop where
  id : c.id < 256 ^ 8
  kind : readable c.kind
  rows : c.rows < 256 ^ 4
  cols : c.cols < 256 ^ 4
  nonempty : c.rows ≠ 0 ∧ c.cols ≠ 0
  count : c.data.length = c.rows * c.cols
  data : ∀ v ∈ c.data, v.wf
  name : c.name.length < 256 ^ 4

theorem decodeCols_encode : ∀ (cs : List ColC), (∀ c ∈ cs, c.wf) → ∀ rest : List Byte,
    decodeCols cs.length (cs.flatMap encodeCol ++ rest) = some (cs, rest)
  | [], _, rest => by simp [decodeCols]
  | c :: cs, h, rest => by
    have hc := h c List.mem_cons_self
    have ih := decodeCols_encode cs (fun x hx => h x (List.mem_cons_of_mem _ hx)) rest
    obtain ⟨id, kind, rows, cols, data, name⟩ := c
    obtain ⟨w1, w2, w3, w4, w5, w6, w7, w8⟩ := hc
    simp only at w1 w2 w3 w4 w5 w6 w7 w8
    let tail := cs.flatMap encodeCol ++ rest
    have e : (({ id := id, kind := kind, rows := rows, cols := cols, data := data, name := name } : ColC) :: cs).flatMap encodeCol ++ rest =
        leBytes 8 id ++ (encodeVK kind ++ (leBytes 4 rows ++ (leBytes 4 cols ++ (data.flatMap encodeNV ++ (encStr name ++ tail))))) := by
      simp only [List.flatMap_cons, encodeCol, List.append_assoc, tail]
    rw [e]
    have hk := decodeVK_encodeVK kind w2 (encodeVK kind ++ (leBytes 4 rows ++ (leBytes 4 cols ++ (data.flatMap encodeNV ++ (encStr name ++ tail))))).length
      (by have := costVK_le kind; simp only [List.length_append]; omega) (leBytes 4 rows ++ (leBytes 4 cols ++ (data.flatMap encodeNV ++ (encStr name ++ tail))))
    have hd := decodeNVs_encode data w7 (encStr name ++ tail)
    rw [w6] at hd
    have hn := decStr_encStr name w8 tail
    have hne : ¬ (rows = 0 ∨ cols = 0) := by omega
    simp only [List.length_cons, decodeCols, readLE_leBytes 8 id _ w1, hk, List.drop_left, readLE_leBytes 4 rows _ w3,
      readLE_leBytes 4 cols _ w4, hd, if_neg hne, hn, tail, ih]

def TableC.wf (t : TableC) : Prop :=
  readable t.kind ∧ t.rows < 256 ^ 4 ∧ t.cols < 256 ^ 4 ∧ t.cols = t.columns.length ∧ ∀ c ∈ t.columns, c.wf

/-- a table constant is read back as it was written: kind, shape, and per column its id, kind,
    elements in order and name -/
theorem decodeTable_encodeTable (t : TableC) (h : t.wf) (rest : List Byte) : decodeTable (encodeTable t ++ rest) = some t := by
  obtain ⟨h1, h2, h3, h4, h5⟩ := h
  obtain ⟨kind, rows, cols, columns⟩ := t
  simp only at h1 h2 h3 h4 h5
  subst h4
  unfold decodeTable encodeTable
  have hk := decodeVK_encodeVK kind h1 (encodeVK kind ++ leBytes 4 rows ++ leBytes 4 columns.length ++ columns.flatMap encodeCol ++ rest).length
    (by have := costVK_le kind; simp only [List.length_append]; omega) (leBytes 4 rows ++ (leBytes 4 columns.length ++ (columns.flatMap encodeCol ++ rest)))
  simp only [List.append_assoc] at hk ⊢
  rw [hk]
  simp only [List.drop_left, readLE_leBytes 4 rows _ h2, readLE_leBytes 4 columns.length _ h3, decodeCols_encode columns h5 rest]

/-- The kind decoder steps over the element kind of a set kind by one byte: the kind of a set of sets
    — `{{1,2},{3}}` has it — is not read back as written (the inner kind's size flag is taken for the
    outer one's). -/
theorem nested_set_kind_misread :
    decodeVK 8 (encodeVK (.set (.set (.simple 12) none) none)) = none := by
  rfl

end MechVerif.ConstValue
