/-
State machines: src/interpreter/src/state_machines.rs — `execute_fsm_pipe` (argument
count and kind check, start state, the validation passes, output kind check) and
`execute_fsm_pipe_impl` (the loop bounded by `max_steps`: for the current state the first
arm whose pattern matches; in a guarded arm the first guard that holds; `apply_transitions`).
A state is its name and its payload (the tuple `(:Name, v1, …)`); a payload field is a scalar or
an array of scalars (a row vector), matched by a scalar pattern or an array pattern
`[p … q]`.  Expressions, patterns and environments are those of Model/Arms.lean.
-/
import MechVerif.Model.Arms
namespace MechVerif.Fsm
open MechVerif.Arms

structure StateV where
  name : String
  payload : List V
deriving DecidableEq, Repr

/-- an argument of a state: a scalar expression, an array of scalar expressions `[e1 e2 …]`, or a
    variable standing for a whole value -/
inductive AE where
  | sc (e : E)
  | arr (es : List E)
  | whole (x : Nat)
deriving Repr

inductive Target where
  | next (name : String) (args : List AE)     -- `-> :Name(a1, …)`
  | output (e : E)                            -- `=> e`
deriving Repr

structure Guard where
  cond : Option E            -- `none`: the wildcard guard `*`
  target : Target
deriving Repr

inductive Body where
  | direct (t : Target)
  | guarded (gs : List Guard)
deriving Repr

structure Arm where
  name : String
  pats : List P
  body : Body
deriving Repr

/-- kind of an input: a scalar kind or an array of one -/
inductive IK where
  | sc (k : NK)
  | arr (k : NK)
deriving DecidableEq, Repr

structure Machine where
  inputs : List (Nat × IK)                   -- declared inputs: variable, kind
  outKind : Option NK
  declared : List String                      -- the states the specification lists
  start : String × List AE
  arms : List Arm
deriving Repr

inductive FErr where
  | arity | argKind | undefinedState | limit | outKind | guardKind | eval (e : Err)
deriving DecidableEq, Repr

def evalS (env : Env) (e : E) : Except FErr S :=
  match evalScalar noSelf env e with
  | .ok s => .ok s
  | .error err => .error (.eval err)

def evalList (env : Env) : List E → Except FErr (List S)
  | [] => .ok []
  | e :: es =>
    (match evalS env e with
     | .error err => .error err
     | .ok x => match evalList env es with | .error err => .error err | .ok xs => .ok (x :: xs))

def evalA (env : Env) : AE → Except FErr V
  | .sc e => (match evalS env e with | .ok s => .ok (.sc s) | .error err => .error err)
  | .arr es => (match evalList env es with | .ok l => .ok (.arr l) | .error err => .error err)
  | .whole x => (match env.get x with | some v => .ok v | none => .error (.eval .undef))

def evalAs (env : Env) : List AE → Except FErr (List V)
  | [] => .ok []
  | a :: as =>
    (match evalA env a with
     | .error err => .error err
     | .ok x => match evalAs env as with | .error err => .error err | .ok xs => .ok (x :: xs))

inductive StepR where
  | moved (s : StateV) (env : Env)
  | out (v : S) (env : Env)
  | stuck
deriving Repr

/-- `apply_transitions` for one target -/
def applyTarget (env : Env) : Target → Except FErr StepR
  | .next name args => (match evalAs env args with | .ok vs => .ok (.moved ⟨name, vs⟩ env) | .error e => .error e)
  | .output e => (match evalS env e with | .ok v => .ok (.out v env) | .error err => .error err)

def varsOfSP : SP → List Nat
  | .bind x => [x]
  | _ => []

/-- `collect_pattern_variable_ids`: prefix and suffix of an array pattern alike -/
def varsOfP : P → List Nat
  | .sp p => varsOfSP p
  | .tup ps => ps.flatMap varsOfSP
  | .arr pre _ suf => pre.flatMap varsOfSP ++ suf.flatMap varsOfSP
  | .enm _ (some p) => varsOfSP p
  | .enm _ none => []

/-- `clear_pattern_bindings`: the variables of the arm's pattern are rebound afresh -/
def clearVars (pats : List P) (env : Env) : Env :=
  env.filter (fun p => !((pats.flatMap varsOfP).contains p.1))

/-- payload fields left to right, threading the bindings -/
def matchPs : List P → List V → Env → Option Env
  | [], [], env => some env
  | p :: ps, v :: vs, env =>
    (match matchP false p v env with
     | some env' => matchPs ps vs env'
     | none => none)
  | _, _, _ => none

/-- does the arm's pattern `:Name(p1, …)` match the state? -/
def armMatch (arm : Arm) (s : StateV) (env : Env) : Option Env :=
  if arm.name = s.name ∧ arm.pats.length = s.payload.length then matchPs arm.pats s.payload (clearVars arm.pats env) else none

/-- the first guard that holds (a guard must evaluate to a bool) -/
def firstGuard (env : Env) : List Guard → Except FErr (Option Guard)
  | [] => .ok none
  | g :: gs =>
    (match g.cond with
     | none => .ok (some g)
     | some c =>
       match evalS env c with
       | .error e => .error e
       | .ok (.bool true) => .ok (some g)
       | .ok (.bool false) => firstGuard env gs
       | .ok _ => .error .guardKind)

/-- the environment of the machine is the one the arm was entered with: what the arm's pattern bound
    lives in a copy (`arm_env`) that is dropped when the arm has been taken -/
def leave (env : Env) : Except FErr StepR → Except FErr StepR
  | .ok (.moved s _) => .ok (.moved s env)
  | .ok (.out v _) => .ok (.out v env)
  | r => r

/-- one turn of the loop body: the arms in order -/
def stepArms (s : StateV) (env : Env) : List Arm → Except FErr StepR
  | [] => .ok .stuck
  | arm :: rest =>
    (match armMatch arm s env with
     | none => stepArms s env rest
     | some env' =>
       match arm.body with
       | .direct t => leave env (applyTarget env' t)
       | .guarded gs =>
         (match firstGuard env' gs with
          | .error e => .error e
          | .ok (some g) => leave env (applyTarget env' g.target)
          | .ok none => stepArms s env rest))       -- no guard held: later arms are tried

/-- the state as the value the machine returns when nothing applies (halt) -/
inductive Result where
  | value (v : S)
  | halted (s : StateV)
deriving DecidableEq, Repr

/-- `for step in 0..max_steps` -/
def run (arms : List Arm) : Nat → StateV → Env → Except FErr Result
  | 0, _, _ => .error .limit
  | k + 1, s, env =>
    (match stepArms s env arms with
     | .error e => .error e
     | .ok (.out v _) => .ok (.value v)
     | .ok .stuck => .ok (.halted s)
     | .ok (.moved s' env') => run arms k s' env')

/-- the states visited, in order (what the `[trace][fsm][step]` events show) -/
def visited (arms : List Arm) : Nat → StateV → Env → List StateV
  | 0, _, _ => []
  | k + 1, s, env =>
    s :: (match stepArms s env arms with
      | .ok (.moved s' env') => visited arms k s' env'
      | _ => [])

def kindOfS : S → Option NK
  | .num k _ => some k
  | _ => none

def targets (m : Machine) : List String :=
  m.arms.flatMap (fun a => match a.body with
    | .direct (.next n _) => [n]
    | .direct _ => []
    | .guarded gs => gs.filterMap (fun g => match g.target with | .next n _ => some n | _ => none))

/-- `validate_fsm_state_coverage` -/
def validate (m : Machine) : Except FErr Unit :=
  let names := m.arms.map (·.name)
  if names.isEmpty then .ok () else
  if !(m.declared.all names.contains) then .error .undefinedState else
  if !names.contains m.start.1 then .error .undefinedState else
  if !((targets m).all names.contains) then .error .undefinedState else .ok ()

/-- the kind of an argument: a number, or a non-empty array of numbers of one kind -/
def kindOfV : V → Option IK
  | .sc s => (kindOfS s).map .sc
  | .arr (x :: xs) => (match kindOfS x with
      | some k => if xs.all (fun y => kindOfS y == some k) then some (.arr k) else none
      | none => none)
  | _ => none

def bindInputs : List (Nat × IK) → List V → Env → Except FErr Env
  | [], [], env => .ok env
  | (x, k) :: ds, a :: as, env => if kindOfV a = some k then bindInputs ds as ((x, a) :: env) else .error .argKind
  | _, _, _ => .error .arity

/-- `execute_fsm_pipe` -/
def invoke (m : Machine) (maxSteps : Nat) (args : List V) : Except FErr Result :=
  if m.inputs.length ≠ args.length then .error .arity else
  match bindInputs m.inputs args [] with
  | .error e => .error e
  | .ok env =>
    match evalAs env m.start.2 with
    | .error e => .error e
    | .ok vs =>
      match validate m with
      | .error e => .error e
      | .ok _ =>
        match run m.arms maxSteps ⟨m.start.1, vs⟩ env with
        | .error e => .error e
        | .ok r =>
          match m.outKind, r with
          | some k, .value v => if kindOfS v = some k then .ok r else .error .outKind
          | some _, .halted _ => .error .outKind       -- a state tuple is not of the declared kind
          | none, _ => .ok r

end MechVerif.Fsm
