"""Per-property configuration for ./check: evidence wording and case decoders."""

def _unhex(h):
    if h == "-": return ""
    try: return bytes.fromhex(h).decode("utf-8", "replace")
    except Exception: return h

def decode_case(prop, case):
    f = case.split("\t")
    try:
        if f[0] == "include":
            files = {}
            for e in f[2:]:
                p, _, c = e.partition("=")
                files[_unhex(p)] = _unhex(c)
            return {"proto": "include", "root": _unhex(f[1]), "files": files}
    except Exception:
        pass
    return case

CONFIG = {
 "C01": {
  "engine": "core",
  "rule": "15 binary operators x 16 kinds x 6x6 operand shape classes (scalar, 1x1, 1xN, Nx1, NxN, MxN; quick tier: all class pairs for - / % ^ < >=, a seeded third for the others; unaccepted operator/kind pairs sampled 1/12) with compatible and deliberately mismatched sizes, immutable and mutable operands, plus unary - and ! over all kinds/classes; values from per-side pools with kind boundaries so operand order and overflow are observable; distinct = distinct case lines",
  "trusted": ["f32/f64 + - * / comparisons are the hardware IEEE operations (model parameter FloatImpl, instantiated with Lean Float/Float32)",
              "float % is computed exactly in the driver (fmod is always representable); float ^ only on integer base and small non-negative integer exponent",
              "c64 ordering comparisons (by libm hypot) are outside the model and not generated"],
  "assumptions": ["both operands have the same element kind (mixed-kind fallback conversions are outside the property)", "integer magnitudes below 2^53 for 64/128-bit kinds (literal spelling limit)"],
  "level_text": "Machine-checked theorems (Lean 4), generic in the scalar function and hence valid for every operator and element kind: whenever the lifted operator returns a value it has the broadcast shape and every element is the scalar operator applied to the elements that meet there (scalar/matrix, equal shapes, matrix with matching column or row vector), for all shapes and storage forms; incompatible shapes are rejected; acceptance is closed under shape for total scalar functions; integer operators are exact when representable and errors otherwise; comparisons and Boolean algebra stated outright; floats are the IEEE parameter. The model (dispatch over RowDVector/DVector/DMatrix and the eight kernel families) is tied to the code by class-exhaustive differential runs through Interpreter::interpret.",
  "level_note": "Trusted: Lean kernel + propext/Classical.choice/Quot.sound; IEEE float hardware; harness rendering (annotated definitions). Fixed-size storage forms (behind the stdlib feature set, which does not compile) are not covered. A fix: commit added the missing shape checks to the MDMD/RDRD/VDVD arms (C01-D1/D2).",
 },
 "C02": {
  "engine": "syntax",
  "rule": "every sequence of 1-3 binary operators (thorough: 1-4) over {|| && xor == != < <= > >= + - * / % ^} with integer operands (3615 formulas), 800 sampled 4-operator sequences, and 1500 well-typed chains mixing arithmetic, comparison and logic with prefix - and !, and parentheses; per formula the real parse tree (as the left fold `term()` performs) and its fully parenthesised rendering are compared with the model, and interpret(e) is compared bit for bit with the evaluation of the documented grouping one operator at a time; distinct = distinct token sequences",
  "trusted": ["tools/extract_prec.py (regex extraction of the level order l1..l7 and of the fold direction of term())",
              "the parenthesised form is evaluated as a sequence of single-operator definitions because deeply nested parentheses are exponentially slow to parse at this commit (C09-D2)"],
  "assumptions": ["table and set operators (levels 6, 7) are in the proved level structure but are not exercised here (C18/C14 evaluate them)"],
  "level_text": "Machine-checked theorems (Lean 4) over the level-by-level recursive-descent parser and the left fold, for any number of grammar levels, formula lengths and operand/operator semantics: the parse tree's in-order traversal is the text and nothing is left over; it is well grouped (every operator to the right of a node binds strictly tighter, every operator to the left at least as tight); well-grouped trees are unique for a given in-order sequence, so the parser computes the documented grouping and an unparenthesised formula evaluates to the value of that grouping; operators of one level (including ^) associate to the left. The level order of the real grammar and the fold direction of term() are re-extracted from the source on every run and proved equal to the specification by `decide`. Tied to the code by comparing real parse trees and evaluations on all short operator sequences.",
  "level_note": "Trusted: Lean kernel + propext/Classical.choice/Quot.sound; the extractor; atoms (literals, parenthesised formulas, prefixed factors) are opaque in the theorems and handled by recursion in the driver.",
 },
 "C13": {
  "engine": "syntax",
  "rule": "literal spellings generated from the grammar: decimal integers of 1-25 digits, floats with 0-7 integer and 1-20 fraction digits (leading-dot included), scientific forms with integer or fractional mantissa, signed or unsigned exponent up to 330, 0x/0o/0b/0d literals up to 70 digits, every kind suffix with boundary values (min, max, max+1, 2^53+1) of every integer kind, rationals including zero denominators and unreduced fractions, all with and without underscores, prefix-minus forms of all of these, complex literals (re±im i/j, imaginary alone, with prefix minus), kind annotations x<kind> := ±digits at the boundary values of every kind, plus the specification's own examples; each literal is interpreted alone and its value compared bit for bit with the model and with the exact denotation; distinct = distinct spellings",
  "trusted": ["the driver's reader of spellings (parseSpelling) and the hardware instantiation of the two floating-point steps of scientific() (multiply and powf are parameters of the model)"],
  "assumptions": ["literals are evaluated alone (`x := <literal>`)"],
  "level_text": "Machine-checked theorems (Lean 4) over a model of the digit code (interpreter/literals.rs) with exact rational arithmetic and an exact correctly-rounded decimal-to-binary64 conversion: digit strings of any length in any base denote sum d_i*b^i (underscores ignored); based literals evaluate exactly that number or are rejected; a zero denominator is always rejected; a rational evaluates to the reduced fraction with positive denominator; a suffixed or annotated literal always lies in its kind's range (clamped, never wrapped); prefix minus negates exactly and is rejected on unsigned suffixed literals; a complex literal has exactly its two parts' values; rounding an integer of any size to p significant bits is exact when it fits and otherwise within half a unit of the last place (ties to even). The decimal-fraction to binary64 conversion of the model (ratToF64, exact rational arithmetic) is an executable definition whose agreement with the implementation's str::parse is checked bit for bit on every run rather than proved nearest. Tied to the code by interpreting generated spellings of every form and comparing bit for bit with the model and with the exact denotation.",
  "level_note": "Trusted: Lean kernel + propext/Classical.choice/Quot.sound; harness rendering; powf/multiply of scientific() are hardware parameters. Six deviations of the pinned commit are recorded as known findings C13-D1..D6 (`-3+4i` read as -(3+4i), scientific literals with integer mantissa rejected, scientific not correctly rounded, suffixed integers through f64, signed suffixes read as imaginary, underscores in based literals).",
 },
 "C03": {
  "engine": "core",
  "claimed": True,
  "rule": "6 matrix shapes (1x4 RowDVector, 4x1 DVector, 1x1, 3x3, 2x4, 4x3 DMatrix) x 10 selector classes (scalar, row/column index vector, 1-element vector, range, 1-element range, :, row/column mask, 1-element mask, matrix mask) in one position and all 100 class pairs in two positions, x {in range, 0, extent+1, far, negative, short mask, long mask}, element kinds rotated over all 16; the indexed variable is re-read afterwards (frame); distinct = distinct case lines",
  "trusted": ["selector normalisation (Value::as_index: negative literals saturate to 0) is reproduced in the driver"],
  "assumptions": ["fractional indices are not generated"],
  "level_text": "Machine-checked theorems (Lean 4) over a model of the access kernels (loops over nalgebra linear and (row, col) indexing with the 1-based `ix - 1` conversion) for all shapes and index lists: two scalar indices read exactly x(i,j) (iff); every slice that returns a value is the |R|x|C| matrix of x(R_a, C_b) for the rows/columns the selectors address (index vectors with repeats, ranges, `:`, masks), in-range selectors are always served, any index that addresses no element (0, beyond the extent) is an error, a mask selects exactly the true positions and must have the extent's length; the same for one-position (column-major linear) indexing. Tied to the code by enumerating every (storage form, selector class, selector class) cell with in-range and boundary out-of-range indices over all element kinds, re-reading the variable afterwards.",
  "level_note": "Trusted: Lean kernel + propext/Classical.choice/Quot.sound; harness rendering; the support table (which combinations have an arm) is data transcribed from the arm lists and re-enumerated on every run. Combinations without an arm are errors where values exist (known finding C03-D4). A fix: commit added the missing logical-index length checks and the column-major fill of x[mask,:] (C03-D1..D3).",
 },
 "C04": {
  "engine": "core",
  "rule": "table-driven: every (storage form, operator = += -= *= /=, scalar or vector source, temporary or variable source, selector class, selector class, element kind) combination explored at the pinned commit (23273 pairs) is labelled ok / unsupported / deviant in harness/src/c04_cells.txt; a run enumerates the ok pairs (quick: a seeded third) with in-range targets and their error paths (index 0, extent+1, short/long masks, short/long sources, wrong source kind), a sample of the unsupported pairs, and the recorded witnesses of the deviant cells; the variable is read back after every statement; distinct = distinct case lines",
  "trusted": ["the support table is data obtained by enumeration (tools/assign_table.py); it only decides which cells are generated and which clean errors are attributed to finding C04-D7"],
  "assumptions": ["index vectors are duplicate-free (the property speaks of distinct linear indices)", "two-selector targets take scalar sources only (matrix sources have ad-hoc per-column semantics outside the property)"],
  "level_text": "Machine-checked theorems (Lean 4) over the in-place write loop of the assignment kernels, for all matrices, index lists and combining functions (= and op=): frame (shape, element count and every unaddressed element unchanged, on success and on failure), a successful assignment through distinct in-range indices sets the j-th addressed element to f(old, j-th source element), read-back returns what was written, failure is atomic when the selector or the first target fails; the full atomicity statement is refuted by a kernel-checked counterexample (C04-D4). The model is tied to the code by differential runs over every supported cell of the enumerated support table; the implementation is additionally compared with the all-or-nothing reference `update` on every case.",
  "level_note": "Trusted: Lean kernel + propext/Classical.choice/Quot.sound; harness rendering. Partial: only ~19% of the explored (cell, kind) pairs are implemented correctly at the pinned commit; unsupported pairs (C04-D7), wrong-result cells (C04-D8, recorded witnesses) and the non-atomic error path (C04-D4, a decidable behaviour predicate) are known findings.",
 },
 "C05": {
  "engine": "core",
  "rule": "histories of 2-8 statements (define, mutable define, assign, indexed assign with one or two indices, +=, tuple destructure) over names a-d and values (numbers, row vectors, 2x2 matrices, sets, strings, bools, tuples), each statement run by its own interpret() call in one session with the whole symbol table snapshotted after every statement; half the histories are sharing-free (the theorems' domain), half free-form; 3 in 4 statements are valid by construction, the rest hit undefined/immutable/redefined names, failing expressions and out-of-range indices; plus the documented sharing patterns; distinct = distinct case lines",
  "trusted": ["canonical texts of the opaque literals are a fixed table shared by harness and driver", "records and tables are not generated (no deterministic canonical text yet)"],
  "assumptions": ["`x + 0` is the fresh-copy expression for numeric values"],
  "level_text": "Machine-checked theorems (Lean 4) over a model of the interpreter's store (cells, symbols with mutability, statements executed as the interpreter does): redefinition and assignment to undefined or immutable names are rejected without change; a failing statement returns the store unchanged for every statement kind whose kernel cannot fail half-way; the well-formedness invariant (every name owns its own cell) is preserved by every sharing-free statement and so holds for every store reached by a sharing-free history; under it no statement changes what another name reads and no statement changes what an immutable name reads. Kernel-checked counterexamples show the three ways the pinned commit breaks the full statement (C05-D1 definitions from a bare variable share the cell, C05-D2 destructuring binds mutable aliases, C05-D3 multi-index writes are not atomic). The model is tied to the code by differential runs over whole histories; the implementation is also compared with a copy-semantics reference store at every step.",
  "level_note": "Trusted: Lean kernel + propext/Classical.choice/Quot.sound; harness rendering; assignment-compatibility rule (scalar<-scalar, same storage form for matrices, string<-string, bool<-bool) as observed. Partial: the isolation theorems assume sharing-free histories; the other histories are covered by the model/code correspondence and reported as known findings.",
 },
 "C07": {
  "engine": "bytecode",
  "rule": "CRC model vs crc32fast on random byte strings; 14 emitted files x (pristine load, byte-exact re-encode, all single-bit flips and all truncations for 3 files (thorough: all), sampled flips/truncations/bursts<=32 bits incl. bursts reaching the trailer); random byte strings; random instruction lists through write_to/from_bytes; distinct = distinct case lines",
  "trusted": ["crc32fast::hash is checked against the bitwise model on every run, not assumed",
              "header/section/constant decoding is not modelled yet: only the CRC stage and the instruction codec carry theorems; hostile files with a recomputed CRC are outside this check"],
  "assumptions": ["bit order of bursts is transmission order (byte by byte, least significant bit first)"],
  "level_text": "Machine-checked theorems (Lean 4): any non-zero error pattern confined to 32 consecutive bits (every single-bit flip, any damage within 4 consecutive bytes, damage inside the trailer) turns a verifying file of any length into a rejected one; files shorter than the trailer are rejected; the trailer check is exactly crc32(payload)=LE trailer; the instruction codec round-trips for all instruction lists not ending in Ret (counterexample theorem for the Ret case, a latent defect). Tied to the code by differential runs against crc32fast and ParsedProgram::from_bytes/to_bytes. Partial: header, sections and constant decoding and the no-unbounded-allocation clause are not modelled.",
  "level_note": "Trusted: Lean kernel + propext/Classical.choice/Quot.sound; the harness; that the loader calls verify_crc_trailer_seek first (observed: every damaged file is rejected). Truncations are covered by exhaustive per-file sweeps, not by a theorem (a truncated file passes the CRC with probability 2^-32).",
 },
 "C11": {
  "engine": "core",
  "rule": "random tilings of results up to 4x4 (thorough: up to 12x12) by 1-4 block rows of 1-4 blocks, each block a scalar, 1x1, row vector, column vector or matrix, element kinds rotated over all 16; one case in ten has a block of the wrong height, one in ten a wrong width, one in ten a block of another kind; distinct = distinct case lines",
  "trusted": ["blocks are bound to variables and the literal is written over the variables (entries that are literals take the same code path)"],
  "assumptions": ["no empty matrices, no option-typed entries"],
  "level_text": "Machine-checked theorems (Lean 4) over a model of horzcat/vertcat on column-major buffers, for any number of rows and blocks and all block shapes: whenever a literal with block entries evaluates, element (i, j) of the result is the element of the block covering (i, j) when rows are laid side by side and stacked (litGet), the result is well formed, blocks of different heights in a row and rows of different widths are rejected; the two binary kernels are characterised separately. Tied to the code by differential runs over random tilings incl. invalid ones and mixed kinds.",
  "level_note": "Trusted: Lean kernel + propext/Classical.choice/Quot.sound; harness rendering. Kind preservation holds by construction in the model (one element type); mixed kinds are rejected in the driver as in the code and checked by the correspondence.",
 },
 "C12": {
  "engine": "core",
  "rule": "all 16x16 ordered kind pairs x {scalar, 1x3, 3x1, 2x2, 1x1} with values at the boundaries of both kinds (min, max, max+1, min-1, 2^24+1 for f32, fractional and out-of-range floats), every (r,c)->(r',c') reshape with at most 16 elements (equal counts; a sample of unequal counts), scalar-to-matrix fills, matrix-to-set conversions over small universes; distinct = distinct case lines",
  "trusted": ["f64 -> f32 rounding and r64 -> f64 division are hardware operations (model parameter ConvImpl); float -> int, int -> float and f32 -> f64 are computed exactly in the model",
              "number -> string is compared only on integers and short dyadic fractions, where Rust's Display prints the exact decimal expansion"],
  "assumptions": ["integer magnitudes below 2^53 (literal spelling limit)", "complex -> string formatting is not modelled and not generated"],
  "level_text": "Machine-checked theorems (Lean 4): converting an integer to any integer kind that can represent it is the identity (all 100 pairs), widening then narrowing back is the identity (including same-width signed/unsigned pairs that wrap in between), float -> integer is truncation toward zero of the exact value clamped to the target range with NaN -> 0 and always lands in the target kind, matrix conversion is elementwise and shape preserving, reshape keeps every element at its column-major linear position, a different element count is an error, kinds without a conversion are errors, matrix -> set keeps exactly the distinct elements. The exact integer views of binary64/binary32 (decode, truncate, round-to-nearest-even of integers) are part of the model, not parameters. Tied to the code by differential runs over all kind pairs and shapes.",
  "level_note": "Trusted: Lean kernel + propext/Classical.choice/Quot.sound; hardware f64->f32 rounding; harness rendering. Known findings: the matrix converter uses a different kind table than the scalar one (C12-D1), identity annotations on rational/complex scalars are rejected (C12-D2).",
 },
 "C15": {
  "engine": "core",
  "rule": "10 integer kinds x boundary-anchored (min, max, 0, small) start/end x {no step, zero, negative, positive step} x {inclusive, exclusive} x {immutable, mutable operands}; f32/f64 with dyadic operands (exact arithmetic) incl. literal operands; distinct = distinct case lines",
  "trusted": ["f32/f64 +,-,/ ,floor, ceil and `as usize` are the hardware/IEEE operations (driver instantiates the model's float parameter with Lean Float/Float32)",
              "the f64 quotient floor/ceil of the integer increment forms equals exact integer division for |values| < 2^52 (theorems use qFloor/qCeil; the driver uses the f64 computation; both are run against the code)"],
  "assumptions": ["operand magnitudes below 2^53 (larger literals cannot be spelled exactly at this commit, see C13-D3)", "descending ranges with a negative step may be errors (reading of the property recorded in DESIGN.md)"],
  "level_text": "Machine-checked theorems (Lean 4) over a model of machines/range for all integer kinds, bounds and steps: a..b, a..=b, a..s..b, a..s..=b with positive step evaluate to exactly the terms of the progression before/up to b (membership characterised by an iff) whenever the span is representable and the value one step past the last element is representable; zero steps and wrong-order bounds are errors; results are always initial segments of the progression; float kinds get the structural theorem over parametric float operations. Counterexample theorems pin the three places where the pinned commit falls short (C15-D1, D3; D2 is float-only and replayed). Tied to the code by differential runs over all kinds.",
  "level_note": "Trusted: Lean kernel + propext/Classical.choice/Quot.sound; harness rendering of operands (annotated definitions); IEEE float ops. Partial: float ranges are proved only structurally (repeated addition), exactness is checked on dyadic operands by the exact-arithmetic oracle in the driver.",
 },
 "C19": {
  "engine": "core",
  "rule": "programs of 1-6 statements over names a-e (definitions from literals, variables and binary + - * expressions; every second program also has assignments and += on mutable names) x step counts 1-4 (thorough: 1-6); each program runs in two interpreter instances: K single steps with a snapshot after each, and one request for K steps; distinct = distinct case lines",
  "trusted": ["hash-map iteration order differs between interpreter instances within one process (std RandomState), which is what determinism is checked against; separate OS processes are not spawned"],
  "assumptions": ["non-negative literals (a negative literal is a negate plan step of its own)", "values stay below 2^53 so f64 arithmetic is exact"],
  "level_text": "Machine-checked theorems (Lean 4) over a model of the evaluation plan (cells, plan functions, step as repeated passes, and how evaluating a program appends functions and cells): step(m+n) = step(n) after step(m) for every plan, so n single steps equal one request for n steps; a plan every function of which recomputes what its output cell holds is fixed by any number of passes; the plan built by first evaluation of an assignment-free program is single-assignment (every function writes a fresh cell and reads earlier ones) and therefore settled; corollary: for programs without assignment or op-assignment re-evaluation leaves every cell exactly as the first evaluation left it, for any number of steps. The model reproduces the value sequences of programs with assignments (e.g. x = x + 1 grows per step). Tied to the code by differential runs; the implementation's own observations are checked against the three clauses of the property.",
  "level_note": "Trusted: Lean kernel + propext/Classical.choice/Quot.sound; that every built-in plan function is a function of its input cells (checked per run by the correspondence, not provable here); determinism across OS processes is not exercised.",
 },
 "C20": {
  "rule": "every edge subset of the include graph over 3 files (512 graphs, plain and decorated rendering; thorough: all 65536 over 4 files) plus random graphs over 2-5 files in 3 directories with fences, CRLF, whitespace and non-include brace lines; distinct = distinct file-system encodings",
  "trusted": ["std::fs::canonicalize modelled as lexical normalisation with existence checks on a symlink-free tree",
              "line classification (stand-alone include outside fences) is shared by model and executable spec; the relational spec Expands is what the theorems tie it to"],
  "assumptions": ["file contents are valid UTF-8; include targets are not directories; no symlinks"],
  "engine": "fs",
  "level_text": "Machine-checked theorems (Lean 4) over a model of src/mechfs.rs's include expander for all file systems, graph sizes and nesting depths: totality (fuel never binds), soundness and uniqueness w.r.t. the relational substitution spec, cycles reachable from the root always fail, acyclic graphs (diamonds, repeated includes) never report a cycle, fenced lines/non-include files are untouched, missing targets are named. The model is tied to the code on every run by differential execution on all include graphs over 3 files (thorough: 4) and decorated random trees on the real file system.",
  "level_note": "Trusted: Lean kernel + propext/Classical.choice/Quot.sound; the harness and protocol driver; canonicalize modelled lexically on symlink-free trees; UTF-8 contents. The model is hand-written (not extracted): a change in mechfs.rs shows up as a correspondence disagreement.",
 },
}

def _c02_pre(root):
    import extract_prec
    return extract_prec.generate(root)

pre_lean = {"C02": _c02_pre}

NOT_CLAIMED = {}
