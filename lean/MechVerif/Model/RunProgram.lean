/-
`Interpreter::run_program` (src/interpreter/src/interpreter.rs:405-590) as a register
machine over a loaded program: constants are decoded, `ConstLoad` copies a constant into a
register, an operation looks its function id up in the registry and, when it is registered,
builds the function over its registers; the result is `out()` of the last function built —
the value in its destination register (the functions are constructed, not solved).
Values are opaque here (their canonical text); which ids are registered is an input.
-/
namespace MechVerif.RunProgram

inductive Ins where
  | constLoad (dst cid : Nat)
  | op (arity : Option Nat) (registered : Bool) (dst : Nat) (args : List Nat)   -- arity none = variadic
  | ret (src : Nat)
  | unknown (opcode : Nat)
deriving DecidableEq, Repr

inductive RErr where
  | unknownFunction (arity : Option Nat)
  | unknownInstruction
  | badIndex
deriving DecidableEq, Repr

structure St where
  regs : List String
  out : String
deriving DecidableEq, Repr

def setReg (regs : List String) (i : Nat) (v : String) : Option (List String) :=
  if i < regs.length then some (regs.set i v) else none

/-- one instruction -/
def step (consts : List String) (st : St) : Ins → Except RErr St
  | .constLoad dst cid =>
    (match consts[cid]? with
     | none => .error .badIndex
     | some v => match setReg st.regs dst v with | some r => .ok { st with regs := r } | none => .error .badIndex)
  | .op arity registered dst args =>
    if !registered then .error (.unknownFunction arity) else
    if args.any (fun a => decide (st.regs.length ≤ a)) then .error .badIndex else
    (match st.regs[dst]? with
     | none => .error .badIndex
     | some v => .ok { st with out := v })
  | .ret _ => .error .unknownInstruction      -- `todo!()` in the interpreter: never emitted by the compiler
  | .unknown _ => .error .unknownInstruction

def runIns (consts : List String) : St → List Ins → Except RErr St
  | st, [] => .ok st
  | st, i :: rest => (match step consts st i with | .ok st' => runIns consts st' rest | .error e => .error e)

/-- `run_program`: registers start empty; `symOut` is the constant of the last symbol loaded -/
def runProgram (regCount : Nat) (consts : List String) (symOut : Option String) (instrs : List Ins) : Except RErr String :=
  match runIns consts ⟨List.replicate regCount "empty", symOut.getD "empty"⟩ instrs with
  | .ok st => .ok st.out
  | .error e => .error e

end MechVerif.RunProgram
