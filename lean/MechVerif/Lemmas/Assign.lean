import MechVerif.Spec.Assign
import MechVerif.Lemmas.Index
namespace MechVerif.Assign
open MechVerif.Num MechVerif.Mat MechVerif.Index

variable {α : Type}

/-- the write loop never changes the number of elements -/
theorem scatter_length (f : α → α → Except Err α) (src : Nat → Except Err α) :
    ∀ (ts : List (Except Err Nat)) (k : Nat) (d : List α), (scatter f src ts k d).1.length = d.length := by
  intro ts
  induction ts with
  | nil => intro k d; rfl
  | cons t ts ih =>
    intro k d
    simp only [scatter]
    split
    · rfl
    · split
      · rfl
      · split
        · rfl
        · split
          · rfl
          · rw [ih]; simp

/-- frame: a position that is not a target keeps its value, whether or not the loop fails -/
theorem scatter_frame (f : α → α → Except Err α) (src : Nat → Except Err α) :
    ∀ (ts : List (Except Err Nat)) (k : Nat) (d : List α) (q : Nat),
      (∀ p, Except.ok p ∈ ts → p ≠ q) → (scatter f src ts k d).1[q]? = d[q]? := by
  intro ts
  induction ts with
  | nil => intro k d q _; rfl
  | cons t ts ih =>
    intro k d q hq
    simp only [scatter]
    split
    · rfl
    · rename_i p
      split
      · rfl
      · split
        · rfl
        · split
          · rfl
          · rename_i new _
            rw [ih (k + 1) (d.set p new) q (fun p' hp' => hq p' (List.mem_cons_of_mem _ hp'))]
            have : p ≠ q := hq p List.mem_cons_self
            simp [List.getElem?_set, this]

/-- success: with pairwise distinct targets the j-th target holds `f old (src (k+j))`
    and every source / old element was available -/
theorem scatter_writes (f : α → α → Except Err α) (src : Nat → Except Err α) :
    ∀ (ps : List Nat) (k : Nat) (d d' : List α), ps.Nodup →
      scatter f src (ps.map Except.ok) k d = (d', .ok ()) →
      ∀ j q, ps[j]? = some q → ∃ old v new, d[q]? = some old ∧ src (k + j) = .ok v ∧
        f old v = .ok new ∧ d'[q]? = some new := by
  intro ps
  induction ps with
  | nil => intro k d d' _ _ j q hj; simp at hj
  | cons p ps ih =>
    intro k d d' hnd h j q hj
    obtain ⟨hp, hnd'⟩ := List.nodup_cons.mp hnd
    simp only [List.map_cons, scatter] at h
    cases hg : getE d p with
    | error e => simp [hg] at h
    | ok old =>
      simp only [hg] at h
      cases hs : src k with
      | error e => simp [hs] at h
      | ok v =>
        simp only [hs] at h
        cases hf : f old v with
        | error e => simp [hf] at h
        | ok new =>
          simp only [hf] at h
          have hold : d[p]? = some old := getE_ok.mp hg
          cases j with
          | zero =>
            simp only [List.getElem?_cons_zero, Option.some.injEq] at hj
            subst hj
            refine ⟨old, v, new, hold, by simpa using hs, hf, ?_⟩
            have hfr := scatter_frame f src (ps.map Except.ok) (k + 1) (d.set p new) p (by
              intro p' hp' he
              have : p' ∈ ps := by
                obtain ⟨x, hx, hxe⟩ := List.mem_map.mp hp'
                cases hxe; exact hx
              rw [he] at this; exact hp this)
            rw [h] at hfr
            rw [hfr]
            have hlt : p < d.length := (List.getElem?_eq_some_iff.mp hold).1
            simp [List.getElem?_set, hlt]
          | succ j =>
            simp only [List.getElem?_cons_succ] at hj
            obtain ⟨old', v', new', h1, h2, h3, h4⟩ := ih (k + 1) (d.set p new) d' hnd' h j q hj
            have hne : p ≠ q := by
              intro he
              have : q ∈ ps := List.mem_of_getElem? hj
              rw [← he] at this; exact hp this
            refine ⟨old', v', new', ?_, ?_, h3, h4⟩
            · rw [List.getElem?_set] at h1
              simpa [hne] using h1
            · rw [show k + (j + 1) = k + 1 + j by omega]; exact h2

/-- failure at the first target leaves the data untouched -/
theorem scatter_first_failure (f : α → α → Except Err α) (src : Nat → Except Err α)
    (e : Err) (ts : List (Except Err Nat)) (k : Nat) (d : List α) :
    (scatter f src (.error e :: ts) k d).1 = d := rfl

end MechVerif.Assign
