/-
The primitives the definitions of `Gen/IncludeHelpers.lean` are written in.  That file is regenerated from
`src/mechfs.rs` on every `./check C20` by `tools/extract_include.py`, which translates the line-level helpers of the
include expander statement by statement; here is what each Rust construct it emits is taken to mean.

A `&str` is read as its list of chars (`Text`).  `as_bytes()`, `len()`, `bytes[i]`, `&s[a..]`, `&s[a..b]` are read with
char positions; they agree with the byte positions of the real code because every position the helpers form is `0`, the
length, or reached by stepping over characters that were compared equal to an ASCII character (space, backtick, tilde,
`{`, `}`) — this identification is the trusted part of the reading (a non-ASCII character never equals one of those,
neither as a char nor as any of its bytes).  Everything that can panic in Rust (indexing, slicing, `usize` subtraction)
fails with `Panic` here, so a body that can panic where the model returns a value is *not* equal to the model.
-/
import MechVerif.Model.Include
namespace MechVerif.IncludeIR
open MechVerif.Include

inductive Panic where
  | index      -- `v[i]` with `i ≥ v.len()`
  | overflow   -- `a - b` with `a < b` on `usize`
  | slice      -- `&s[a..b]` with `a > b` or `b > s.len()`
deriving DecidableEq, Repr

/-- a computation that may panic -/
abbrev R (α : Type) := Except Panic α

def bindE {α β : Type} (x : R α) (f : α → R β) : R β :=
  match x with
  | .ok a => f a
  | .error e => .error e

@[simp] theorem bindE_ok {α β : Type} (a : α) (f : α → R β) : bindE (.ok a) f = f a := rfl
@[simp] theorem bindE_error {α β : Type} (e : Panic) (f : α → R β) : bindE (.error e) f = .error e := rfl

/-- `s.as_bytes()` (see the header: positions are char positions) -/
abbrev asBytes (s : Text) : Text := s
/-- `b as char` -/
abbrev byteAsChar (c : Char) : Char := c
/-- `s.len()`, `bytes.len()` -/
abbrev len (s : Text) : Nat := s.length
/-- `bytes[i]` -/
def idx (b : Text) (i : Nat) : R Char :=
  match b[i]? with
  | some c => .ok c
  | none => .error .index
/-- `a - b` on `usize` -/
def usub (a b : Nat) : R Nat := if b ≤ a then .ok (a - b) else .error .overflow
/-- `a && b` where evaluating `b` may panic -/
def andE (a : Bool) (b : Unit → R Bool) : R Bool := if a then b () else .ok false
/-- `a || b` where evaluating `b` may panic -/
def orE (a : Bool) (b : Unit → R Bool) : R Bool := if a then .ok true else b ()

/-- `while i < bound && cond(i) { i += 1; }` — the translator accepts a `while` only in this shape (the first conjunct
    of the condition bounds the counter, the body is the increment), which is what makes the loop terminate -/
def whileUp (bound : Nat) (cond : Nat → R Bool) (i : Nat) : R Nat :=
  if i < bound then
    match cond i with
    | .ok true => whileUp bound cond (i + 1)
    | .ok false => .ok i
    | .error e => .error e
  else .ok i
termination_by bound - i

/-- `&s[a..]` -/
def sliceFrom (s : Text) (a : Nat) : R Text := if a ≤ s.length then .ok (s.drop a) else .error .slice
/-- `&s[a..b]` -/
def slice (s : Text) (a b : Nat) : R Text :=
  if a ≤ b ∧ b ≤ s.length then .ok ((s.take b).drop a) else .error .slice

/-- `s.trim()`: both ends, `char::is_whitespace` -/
def trim (s : Text) : Text := trimWs s
/-- `s.trim_matches(p)`: both ends -/
def trimMatches (p : Char → Bool) (s : Text) : Text := ((s.dropWhile p).reverse.dropWhile p).reverse
def isEmpty (s : Text) : Bool := s.isEmpty
/-- `s.starts_with(c)` / `s.ends_with(c)` for a char, `s.starts_with(lit)` / `s.ends_with(lit)` for a string literal -/
def startsWithChar (s : Text) (c : Char) : Bool := s.head? == some c
def endsWithChar (s : Text) (c : Char) : Bool := s.getLast? == some c
def startsWithStr (s lit : Text) : Bool := s.take lit.length == lit
def endsWithStr (s lit : Text) : Bool := endsWith s lit

/-- how `expand_mechdown_include_tokens` uses the two brace helpers on a line without its newline (read by hand until
    the skeleton is generated too): `if let Some(inner) = standalone_braced_content(l) { if looks_like_mech_include(inner)
    { let include_raw = inner.trim(); … } }` -/
def includeTargetOf (sbc : Text → R (Option Text)) (lli : Text → R Bool) (body : Text) : R (Option Text) :=
  bindE (sbc body) (fun r =>
  match r with
  | none => .ok none
  | some inner => bindE (lli inner) (fun b => if b then .ok (some (trim inner)) else .ok none))


/-! ### the control skeleton of the two `expand_*` functions

`tools/extract_include.py` reduces the bodies of `expand_mechdown_includes_recursive` and
`expand_mechdown_include_tokens` to what happens to `active_set` and where the function can be left: the statements in
order, `if` / `if let` / `match` as a two-way branch, `for` as a loop, and only these events (everything else is `skip`).
`p` below stands for the one variable that is inserted (`canonical_path`); an operation on `active_set` with any other
key, or any other use of `active_set`, is `.foreign` and never accepted. -/

inductive Ev where
  | exitErr         -- `return Err(…)` / a final `Err(…)`
  | mayFail         -- `e?` where `e` does not touch `active_set`: goes on, or leaves with an error
  | guardActive     -- `if active_set.contains(&p) { return Err(…); }`
  | insert          -- `active_set.insert(p.clone());`
  | remove          -- `active_set.remove(&p);`
  | callTokens      -- `expand_mechdown_include_tokens(…, &p, active_set)?`
  | callRecursive   -- `expand_mechdown_includes_recursive(&q, active_set)?` for some other path `q`
  | continue_       -- `continue;`
  | returnOk        -- `return Ok(…)` / a final `Ok(…)`
  | foreign         -- any other use of `active_set`
deriving DecidableEq, Repr

inductive Skel where
  | skip
  | ev (e : Ev)
  | seq (a b : Skel)
  | branch (t e : Skel)
  | loop (body : Skel)
deriving DecidableEq, Repr

/-- how a piece of code is left -/
inductive Exit where
  | normal | cont | retOk | err
deriving DecidableEq, Repr

/-- `Exec p sk s k s' log`: started with `active_set = s`, the code `sk` can be left in the way `k` with
    `active_set = s'`, having called `expand_mechdown_include_tokens` with the sets `log`.  Conditions are not
    interpreted (both branches, any number of iterations).  The callees are taken to keep their contract: a call that
    returns `Ok` leaves the set as it found it, and an error is propagated by `?` (that *is* the event). -/
inductive Exec (p : Path) : Skel → List Path → Exit → List Path → List (List Path) → Prop
  | skip (s) : Exec p .skip s .normal s []
  | exitErr (s) : Exec p (.ev .exitErr) s .err s []
  | mayFail_ok (s) : Exec p (.ev .mayFail) s .normal s []
  | mayFail_err (s) : Exec p (.ev .mayFail) s .err s []
  | guard_in (s) : p ∈ s → Exec p (.ev .guardActive) s .err s []
  | guard_out (s) : p ∉ s → Exec p (.ev .guardActive) s .normal s []
  | insert (s) : Exec p (.ev .insert) s .normal (p :: s) []
  | remove (s) : Exec p (.ev .remove) s .normal (s.erase p) []
  | tokens_ok (s) : Exec p (.ev .callTokens) s .normal s [s]
  | tokens_err (s) : Exec p (.ev .callTokens) s .err s [s]
  | recursive_ok (s) : Exec p (.ev .callRecursive) s .normal s []
  | recursive_err (s) : Exec p (.ev .callRecursive) s .err s []
  | continue_ (s) : Exec p (.ev .continue_) s .cont s []
  | returnOk (s) : Exec p (.ev .returnOk) s .retOk s []
  | foreign (s s' k) : Exec p (.ev .foreign) s k s' []
  | seq_normal (a b s s1 k s2 l1 l2) : Exec p a s .normal s1 l1 → Exec p b s1 k s2 l2 → Exec p (.seq a b) s k s2 (l1 ++ l2)
  | seq_abrupt (a b s k s1 l1) : Exec p a s k s1 l1 → k ≠ .normal → Exec p (.seq a b) s k s1 l1
  | branch_then (t e s k s1 l1) : Exec p t s k s1 l1 → Exec p (.branch t e) s k s1 l1
  | branch_else (t e s k s1 l1) : Exec p e s k s1 l1 → Exec p (.branch t e) s k s1 l1
  | loop_done (b s) : Exec p (.loop b) s .normal s []
  | loop_iter (b s k s1 l1 k2 s2 l2) : Exec p b s k s1 l1 → (k = .normal ∨ k = .cont) →
      Exec p (.loop b) s1 k2 s2 l2 → Exec p (.loop b) s k2 s2 (l1 ++ l2)
  | loop_abrupt (b s k s1 l1) : Exec p b s k s1 l1 → (k = .retOk ∨ k = .err) → Exec p (.loop b) s k s1 l1

/-- what is known about `active_set` at a program point, relative to the set `a` the function was entered with -/
inductive Abs where
  | entry      -- the set is `a`
  | guarded    -- the set is `a`, and `p ∉ a`
  | pushed     -- the set is `p :: a`, and `p ∉ a`
deriving DecidableEq, Repr

def joinAbs : Option Abs → Option Abs → Option (Option Abs)
  | none, x => some x
  | x, none => some x
  | some x, some y => if x = y then some (some x) else none

/-- the discipline check: from knowledge `st`, the knowledge on falling through and at a `continue` (`none`: that exit
    does not occur); fails (`none`) when an event happens in a state where it is not allowed -/
def chk : Skel → Abs → Option (Option Abs × Option Abs)
  | .skip, st => some (some st, none)
  | .ev .exitErr, _ => some (none, none)
  | .ev .mayFail, st => some (some st, none)
  | .ev .guardActive, st => if st = .pushed then none else some (some .guarded, none)
  | .ev .insert, st => if st = .guarded then some (some .pushed, none) else none
  | .ev .remove, st => if st = .pushed then some (some .guarded, none) else none
  | .ev .callTokens, st => if st = .pushed then some (some .pushed, none) else none
  | .ev .callRecursive, st => some (some st, none)
  | .ev .continue_, st => some (none, some st)
  | .ev .returnOk, st => if st = .pushed then none else some (none, none)
  | .ev .foreign, _ => none
  | .seq a b, st =>
    match chk a st with
    | none => none
    | some (none, c) => some (none, c)
    | some (some st1, c1) =>
      match chk b st1 with
      | none => none
      | some (n2, c2) =>
        match joinAbs c1 c2 with
        | none => none
        | some c => some (n2, c)
  | .branch t e, st =>
    match chk t st, chk e st with
    | some (n1, c1), some (n2, c2) =>
      (match joinAbs n1 n2, joinAbs c1 c2 with
       | some n, some c => some (n, c)
       | _, _ => none)
    | _, _ => none
  | .loop b, st =>
    match chk b st with
    | none => none
    | some (n, c) =>
      if (n = none ∨ n = some st) ∧ (c = none ∨ c = some st) then some (some st, none) else none

/-- a function body obeys the discipline: checked from the entry state it never falls off its end -/
def disciplineOk (body : Skel) : Bool := chk body .entry == some (none, none)

end MechVerif.IncludeIR
