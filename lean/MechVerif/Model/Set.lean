/-
Sets as `MechSet` stores them (src/core/src/structures/set.rs): an `IndexSet<Value>`,
i.e. an insertion-ordered list without repeats where "repeat" is decided by a hash
lookup followed by `==`.  The model keeps the two ingredients apart:

  eq  : the derived `PartialEq` of `Value` (query first, stored element second)
  key : what the hand-written `Hash` feeds to the hasher

and `lookup` finds a stored element only when both agree — exactly how a hash table can
miss an equal element whose hash differs.  Hash collisions (different keys, same 64-bit
hash) are not modelled.  indexmap 2.x compares a single stored entry directly, without
hashing; `lookup` reproduces that.

The operators are the ones machines/set/src implements with the IndexSet iterators
followed by `.cloned().collect()`.
-/
namespace MechVerif.SetM

section generic
variable {α : Type} {κ : Type} [DecidableEq κ]
variable (eq : α → α → Bool) (key : α → κ)

/-- the hash-table probe: same hash, then `==` -/
def lookupH (S : List α) (x : α) : Bool := S.any (fun y => decide (key x = key y) && eq x y)

/-- `IndexSet::contains` (`get_index_of`: a single stored entry is compared directly) -/
def lookup (S : List α) (x : α) : Bool :=
  match S with
  | [y] => eq x y
  | _ => lookupH eq key S x

/-- `IndexSet::insert` (always hashes) -/
def insert (S : List α) (x : α) : List α := if lookupH eq key S x then S else S ++ [x]

/-- `MechSet::from_vec`, `collect()` -/
def fromList (l : List α) : List α := l.foldl (insert eq key) []

/-- `a.union(b)`: a, then the elements of b that a does not contain -/
def union (A B : List α) : List α := fromList eq key (A ++ B.filter (fun b => !lookup eq key A b))
/-- `a.intersection(b)` -/
def inter (A B : List α) : List α := fromList eq key (A.filter (fun a => lookup eq key B a))
/-- `a.difference(b)` -/
def diff (A B : List α) : List α := fromList eq key (A.filter (fun a => !lookup eq key B a))
/-- `a.symmetric_difference(b)` = a.difference(b) chained with b.difference(a) -/
def symdiff (A B : List α) : List α :=
  fromList eq key (A.filter (fun a => !lookup eq key B a) ++ B.filter (fun b => !lookup eq key A b))

/-- `a.is_subset(b)` -/
def isSubset (A B : List α) : Bool := decide (A.length ≤ B.length) && A.all (fun a => lookup eq key B a)
def isSuperset (A B : List α) : Bool := isSubset eq key B A
/-- machines/set/src/relations/proper_subset.rs -/
def properSubset (A B : List α) : Bool := isSubset eq key A B && decide (A.length < B.length)
def properSuperset (A B : List α) : Bool := isSuperset eq key A B && decide (A.length > B.length)
/-- `IndexSet == IndexSet` -/
def setEq (A B : List α) : Bool := decide (A.length = B.length) && A.all (fun a => lookup eq key B a)

def size (A : List α) : Nat := A.length

/-- membership up to `==` -/
def memE (S : List α) (x : α) : Prop := ∃ y ∈ S, eq x y = true

/-- no two stored elements are equal -/
def NoDup (S : List α) : Prop := S.Pairwise (fun a b => eq a b = false)

end generic

/-- set literal: all elements must have the kind of the first (`SetKindMismatch`) -/
def literal {α K : Type} [DecidableEq K] {κ : Type} [DecidableEq κ]
    (eq : α → α → Bool) (key : α → κ) (kind : α → K) (l : List α) : Option (List α) :=
  match l with
  | [] => some []
  | x :: _ => if l.all (fun y => decide (kind y = kind x)) then some (fromList eq key l) else none

/-- the element kind a set reports: the kind of its first element -/
def kindOf {α K : Type} (kind : α → K) (S : List α) : Option K := S.head?.map kind

/-- element-of (machines/set/src/membership/element_of.rs): false unless the set's kind is
    the element's kind -/
def elementOf {α K : Type} [DecidableEq K] {κ : Type} [DecidableEq κ]
    (eq : α → α → Bool) (key : α → κ) (kind : α → K) (x : α) (S : List α) : Bool :=
  match kindOf kind S with
  | some k => decide (k = kind x) && lookup eq key S x
  | none => false

/-- a set comprehension collects the yielded values in generation order -/
def comprehension {α ε : Type} {κ : Type} [DecidableEq κ] (eq : α → α → Bool) (key : α → κ)
    (envs : List ε) (keep : ε → Bool) (yield : ε → α) : List α :=
  fromList eq key ((envs.filter keep).map yield)

end MechVerif.SetM
