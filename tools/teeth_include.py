#!/usr/bin/env python3
"""Teeth of the C20 translator tie, without touching /repo: copies src/mechfs.rs (`git show HEAD:`) into a temporary
directory, applies one small change, runs tools/extract_include.py on the copy (`repo=` argument) and builds
MechVerif.Props.C20 with the definitions generated from it; reports which Lean proof fails, or that the reader refused
the body, or that the change was absorbed (re-formatting, renaming).  The generated file is regenerated from /repo at
the end.   usage: tools/teeth_include.py [experiment-id …]"""
import os, re, shutil, subprocess, sys, tempfile
ROOT = os.path.dirname(os.path.dirname(os.path.abspath(__file__)))
sys.path.insert(0, os.path.join(ROOT, "tools"))
import extract_include as EI

F = EI.SOURCE

def rename_in_recursive(text):
    i = text.index("fn expand_mechdown_includes_recursive(")
    j = text.index("#[cfg(test)]", i)
    body = text[i:j]
    body = re.sub(r"\bactive_set\b", "open_files", body)
    body = re.sub(r"\bcanonical_path\b", "me", body)
    body = body.replace("open_files.remove(&me);\n  Ok(result)", "let out = result; // done\n  open_files.remove( &me );\n  /* hand it back */ Ok(out)")
    assert "let out = result" in body
    return text[:i] + body + text[j:]
# (id, what, [(old, new), …])       white space in `old` is flexible
EXPERIMENTS = [
 ("close-exact", "is_code_fence_close: closing run must be exactly as long (`count != min_len`)",
  [("if line_marker != marker || count < min_len {", "if line_marker != marker || count != min_len {")]),
 ("close-at-most", "is_code_fence_close: closing run at most as long (`count > min_len`)",
  [("if line_marker != marker || count < min_len {", "if line_marker != marker || count > min_len {")]),
 ("indent-3", "code_fence_delimiter: a fence indented by exactly three spaces not recognised (`i > 2`)",
  [("if i > 3 || i >= bytes.len() {", "if i > 2 || i >= bytes.len() {")]),
 ("indent-loop-3", "code_fence_delimiter: the space loop stops at 3 (`i < 3`)",
  [("bytes[i] == b' ' && i < 4 {", "bytes[i] == b' ' && i < 3 {")]),
 ("indent-loop-5", "code_fence_delimiter: the space loop runs to 5 (`i < 5`) — still `i > 3` after it (same function)",
  [("bytes[i] == b' ' && i < 4 {", "bytes[i] == b' ' && i < 5 {")]),
 ("close-no-cr", "is_code_fence_close: `\\r` after the closing run not allowed",
  [("c == ' ' || c == '\\t' || c == '\\r' || c == '\\n'", "c == ' ' || c == '\\t' || c == '\\n'")]),
 ("close-any-marker", "is_code_fence_close: the marker is not compared",
  [("if line_marker != marker || count < min_len {", "if count < min_len {")]),
 ("min-run-2", "code_fence_delimiter: two backticks open a fence (`count < 2`)", [("if count < 3 {", "if count < 2 {")]),
 ("tilde-dropped", "code_fence_delimiter: only backticks (`marker != '`'`)",
  [("if marker != '`' && marker != '~' {", "if marker != '`' {")]),
 ("bound-check-dropped", "code_fence_delimiter: `i >= bytes.len()` dropped (indexing panics on a line of blanks)",
  [("if i > 3 || i >= bytes.len() {", "if i > 3 {")]),
 ("after-off-by-one", "code_fence_delimiter: returns `j + 1` as the position after the run",
  [("Some((marker, count, j))", "Some((marker, count, j + 1))")]),
 ("count-from-0", "code_fence_delimiter: `count = j` (leading spaces counted)", [("let count = j - i;", "let count = j;")]),
 ("braces-no-trim", "standalone_braced_content: the line is not trimmed",
  [("let trimmed = line_without_newline.trim();", "let trimmed = line_without_newline;")]),
 ("braces-slice", "standalone_braced_content: inner = `trimmed[1..]` (closing brace kept)",
  [("&trimmed[1..trimmed.len() - 1]", "&trimmed[1..]")]),
 ("braces-or", "standalone_braced_content: starts with `{` *or* ends with `}`",
  [("trimmed.starts_with('{') && trimmed.ends_with('}')", "trimmed.starts_with('{') || trimmed.ends_with('}')")]),
 ("suffix-md", "looks_like_mech_include: suffix `.md`", [('trimmed.ends_with(".mec")', 'trimmed.ends_with(".md")')]),
 ("suffix-starts", "looks_like_mech_include: `starts_with` for `ends_with`", [('trimmed.ends_with(".mec")', 'trimmed.starts_with(".mec")')]),
 # the control skeleton
 ("early-return", "recursive: an early `return Ok(…)` for an empty file between insert and remove",
  [("let mut result = String::new();\n  let mut outside_fence_buffer = String::new();",
    "if source.is_empty() { return Ok(source); }\n  let mut result = String::new();\n  let mut outside_fence_buffer = String::new();")]),
 ("remove-dropped", "recursive: `active_set.remove(&canonical_path);` dropped",
  [("active_set.remove(&canonical_path);\n  Ok(result)", "Ok(result)")]),
 ("remove-conditional", "recursive: the remove only when the result is non-empty",
  [("active_set.remove(&canonical_path);\n  Ok(result)", "if !result.is_empty() { active_set.remove(&canonical_path); }\n  Ok(result)")]),
 ("insert-late", "recursive: the insert moved behind the line loop",
  [("active_set.insert(canonical_path.clone());\n\n  let mut source = String::new();", "let mut source = String::new();"),
   ("active_set.remove(&canonical_path);\n  Ok(result)", "active_set.insert(canonical_path.clone());\n  active_set.remove(&canonical_path);\n  Ok(result)")]),
 ("guard-dropped", "recursive: the `contains` guard dropped",
  [("if active_set.contains(&canonical_path) {\n    return Err(\n      MechError::new(\n        GenericError {\n          msg: \"Circular include detected\".to_string(),\n        },\n        None,\n      )\n      .with_compiler_loc(),\n    );\n  }", "")]),
 ("guard-other-key", "recursive: the guard tests `path` (not the variable that is inserted)",
  [("if active_set.contains(&canonical_path) {", "if active_set.contains(path) {")]),
 ("remove-other-key", "recursive: the remove uses `path`", [("active_set.remove(&canonical_path);", "active_set.remove(path);")]),
 ("error-caught", "tokens: an include error is swallowed (`match … { Ok(e) => e, Err(_) => String::new() }`)",
  [("let expanded = expand_mechdown_includes_recursive(&include_canonical, active_set)?;",
    "let expanded = match expand_mechdown_includes_recursive(&include_canonical, active_set) { Ok(e) => e, Err(_) => String::new() };")]),
 ("set-cleared", "tokens: `active_set.clear()` before the recursive call",
  [("let expanded = expand_mechdown_includes_recursive(&include_canonical, active_set)?;",
    "active_set.clear();\n        let expanded = expand_mechdown_includes_recursive(&include_canonical, active_set)?;")]),
 ("tokens-other-dir", "recursive: the final flush calls tokens with `path` instead of `&canonical_path` (same value here, other variable)",
  [("let expanded = expand_mechdown_include_tokens(&outside_fence_buffer, &canonical_path, active_set)?;\n    result.push_str(&expanded);\n  }\n\n  active_set.remove",
    "let expanded = expand_mechdown_include_tokens(&outside_fence_buffer, path, active_set)?;\n    result.push_str(&expanded);\n  }\n\n  active_set.remove")]),
 ("skeleton-renamed", "recursive: the set parameter renamed `open_files`, the key `me`, the result moved to `out` before the remove, comments (same discipline)",
  [rename_in_recursive]),
 ("skeleton-break", "recursive: a `break` out of the line loop (the skeleton has no such exit)",
  [("for line in source.split_inclusive('\\n') {\n    if let Some((marker, min_len)) = active_fence {", "for line in source.split_inclusive('\\n') {\n    if line.is_empty() { break; }\n    if let Some((marker, min_len)) = active_fence {")]),
 # harmless
 ("crlf", "the whole file with CRLF line ends", [lambda t: t.replace("\n", "\r\n")]),
 ("renamed", "every local and parameter of the four helpers renamed, other layout, comments, CRLF (same meaning)",
  [("fn code_fence_delimiter(line: &str) -> Option<(char, usize, usize)> {\n  let bytes = line.as_bytes();\n  let mut i = 0usize;\n  while i < bytes.len() && bytes[i] == b' ' && i < 4 {\n    i += 1;\n  }\n\n  if i > 3 || i >= bytes.len() {\n    return None;\n  }\n\n  let marker = bytes[i] as char;",
    "fn code_fence_delimiter(text: &str) -> Option<(char, usize, usize)> {\r\n    // the raw bytes\r\n    let raw = text.as_bytes();\r\n    let mut pos = 0usize;\r\n    while pos < raw.len()\r\n       && raw[pos] == b' ' /* blank */ && pos < 4 { pos += 1; }\r\n    if pos > 3 || pos >= raw.len() { return None; }\r\n    let marker = raw[pos] as char;\r\n    let bytes = raw; let i = pos;"),
   ("fn is_code_fence_close(line: &str, marker: char, min_len: usize) -> bool {\n  let Some((line_marker, count, after)) = code_fence_delimiter(line) else {\n    return false;\n  };\n\n  if line_marker != marker || count < min_len {\n    return false;\n  }\n\n  line[after..]",
    "fn is_code_fence_close(l: &str, open: char, n: usize) -> bool {\n  let Some((m, k, end)) = code_fence_delimiter(l) else { return false; };\n  if m != open || k < n { return false; }\n  l[end..]"),
   ("let trimmed = content.trim();\n  trimmed.ends_with(\".mec\")", "let t = content.trim(); // name\n  t.ends_with(\".mec\")")]),
 ("tuple-let", "is_code_fence_close: parameters re-bound through a tuple `let` (same meaning)",
  [("fn is_code_fence_close(line: &str, marker: char, min_len: usize) -> bool {\n  let Some((line_marker, count, after)) = code_fence_delimiter(line) else {",
    "fn is_code_fence_close(l: &str, open: char, n: usize) -> bool {\n  let (line, marker, min_len) = (l, open, n);\n  let Some((line_marker, count, after)) = code_fence_delimiter(line) else {")]),
 ("same-meaning", "code_fence_delimiter: `bytes.len() <= i` for `i >= bytes.len()` (same meaning, other text)",
  [("if i > 3 || i >= bytes.len() {", "if i > 3 || bytes.len() <= i {")]),
 ("for-loop", "code_fence_delimiter: the space loop as `for` with `break`",
  [("while i < bytes.len() && bytes[i] == b' ' && i < 4 {\n    i += 1;\n  }", "for k in 0..4 { if k < bytes.len() && bytes[k] == b' ' { i += 1; } else { break; } }")]),
 ("chars-iter", "looks_like_mech_include: written with `rsplit`",
  [('trimmed.ends_with(".mec")', 'trimmed.rsplit(\'.\').next() == Some("mec")')]),
]

def theorem_at(path, line):
    name = "?"
    for n, l in enumerate(open(path), 1):
        m = re.match(r'\s*(?:theorem|example)\s*([\w.\']*)', l)
        if m: name = m.group(1) or "example (line %d)" % n
        if n >= line: break
    return name

def run(exp):
    eid, what, changes = exp
    tmp = tempfile.mkdtemp(prefix="teeth_c20_")
    try:
        os.makedirs(os.path.dirname(os.path.join(tmp, F)), exist_ok=True)
        text = subprocess.run(["git", "-C", "/repo", "show", "HEAD:" + F], stdout=subprocess.PIPE, check=True).stdout.decode("utf-8").replace('\r\n', '\n')
        for ch in changes:
            if callable(ch):
                text = ch(text); continue
            old, new = ch
            pat = re.compile(r'\s+'.join(re.escape(t) for t in old.split()))
            hits = pat.findall(text)
            if len(hits) != 1: return "%s: NOT APPLIED (%d occurrences of %r)" % (eid, len(hits), old[:40])
            text = pat.sub(lambda m: new, text)
        open(os.path.join(tmp, F), "w", newline='', encoding="utf-8").write(text)
        ok, msg = EI.generate(ROOT, repo=tmp)
        if not ok: return "%s — %s: reader refuses → NOTE, committed file stays (%s)" % (eid, what, msg)
        p = subprocess.run(["lake", "build", "MechVerif.Props.C20"], cwd=os.path.join(ROOT, "lean"), stdout=subprocess.PIPE, stderr=subprocess.STDOUT, text=True)
        if p.returncode == 0: return "%s — %s: extracted, all proofs pass" % (eid, what)
        bad = sorted(set(re.findall(r"error: (MechVerif/[\w/]+\.lean):(\d+)", p.stdout)), key=lambda b: (b[0], int(b[1])))
        names = []
        for b in bad:
            n = "%s (%s)" % (theorem_at(os.path.join(ROOT, "lean", b[0]), int(b[1])), os.path.basename(b[0]))
            if n not in names: names.append(n)
        return "%s — %s: proof fails: %s" % (eid, what, ", ".join(names) or p.stdout[-300:])
    finally:
        shutil.rmtree(tmp, ignore_errors=True)

if __name__ == "__main__":
    want = sys.argv[1:]
    try:
        for e in EXPERIMENTS:
            if want and e[0] not in want: continue
            print(run(e), flush=True)
    finally:
        print("restored:", EI.generate(ROOT), flush=True)
        subprocess.run(["lake", "build", "MechVerif.Props.C20"], cwd=os.path.join(ROOT, "lean"), stdout=subprocess.DEVNULL, stderr=subprocess.DEVNULL)
