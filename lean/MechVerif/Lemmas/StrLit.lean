import MechVerif.Model.StrLit
namespace MechVerif.StrLit

theorem scan_escape (gs : List G) (h : ∀ g ∈ gs, okContent g) (rest : List G) :
    scan (escape gs ++ quoteG :: rest) = some (content gs, rest) := by
  induction gs with
  | nil => simp only [escape, content, List.nil_append, List.flatMap_nil, quoteG]; rw [scan.eq_def]
  | cons g gs ih =>
    have hg := h g (List.mem_cons_self)
    have ih' := ih (fun x hx => h x (List.mem_cons_of_mem _ hx))
    obtain ⟨hq, hb, hf⟩ := hg
    simp only [escape]
    by_cases hc : g.cls = .quote ∨ g.cls = .backslash
    · rw [if_pos hc]
      simp only [List.cons_append]
      rw [scan.eq_def]
      simp only [backslashG]
      have : (g.cls = Cls.escapable ∨ g.cls = Cls.quote ∨ g.cls = Cls.backslash) := by
        rcases hc with hc | hc
        · exact Or.inr (Or.inl hc)
        · exact Or.inr (Or.inr hc)
      rw [if_pos this, ih']
      have hu : unesc g = g.chars := by
        rcases hc with hc | hc
        · rw [unesc, hq hc]; rfl
        · rw [unesc, hb hc]; rfl
      simp only [hu, content, List.flatMap_cons]
    · rw [if_neg hc]
      simp only [List.cons_append]
      rw [scan.eq_def]
      simp only
      have h1 : g.cls ≠ .quote := fun e => hc (Or.inl e)
      have h2 : g.cls ≠ .backslash := fun e => hc (Or.inr e)
      cases hcl : g.cls with
      | quote => exact absurd hcl h1
      | backslash => exact absurd hcl h2
      | forbidden => exact absurd hcl hf
      | escapable => simp only [ih', content, List.flatMap_cons]
      | plain => simp only [ih', content, List.flatMap_cons]
      | newline => simp only [ih', content, List.flatMap_cons]

theorem escapeChars_append (a b : List Char) (ha : ∀ c ∈ a, c ≠ '"' ∧ c ≠ '\\') :
    escapeChars (a ++ b) = a ++ escapeChars b := by
  induction a with
  | nil => rfl
  | cons c a ih =>
    have hc := ha c (List.mem_cons_self)
    have : ¬ (c = '"' ∨ c = '\\') := fun h => h.elim hc.1 hc.2
    simp only [List.cons_append, escapeChars, if_neg this]
    rw [ih (fun x hx => ha x (List.mem_cons_of_mem _ hx))]

/-- the grapheme-level emitter of the model and the character-level emitter of the code write the
    same characters -/
theorem content_escape (gs : List G) (h : ∀ g ∈ gs, okContent g ∧ segmented g) :
    content (escape gs) = escapeChars (content gs) := by
  induction gs with
  | nil => rfl
  | cons g gs ih =>
    obtain ⟨⟨hq, hb, _⟩, hs⟩ := h g (List.mem_cons_self)
    have ih' := ih (fun x hx => h x (List.mem_cons_of_mem _ hx))
    simp only [escape]
    by_cases hc : g.cls = .quote ∨ g.cls = .backslash
    · rw [if_pos hc]
      simp only [content, List.flatMap_cons, backslashG] at ih' ⊢
      rcases hc with hc | hc
      · rw [hq hc, ih']; simp [escapeChars]
      · rw [hb hc, ih']; simp [escapeChars]
    · rw [if_neg hc]
      simp only [content, List.flatMap_cons] at ih' ⊢
      rw [ih', escapeChars_append]
      exact hs ⟨fun e => hc (Or.inl e), fun e => hc (Or.inr e)⟩

end MechVerif.StrLit
