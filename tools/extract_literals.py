#!/usr/bin/env python3
"""Regenerates lean/MechVerif/Gen/LitOrder.lean from the number grammar of src/syntax/src/literals.rs:

* `number`: the parsers it tries one after the other (`complex_number`, then `real_number`);
* `real_number` and `untyped_real_number`: whether an optional `dash` comes first, and the alternatives of their
  `alt((…))` in the order written (nom's `alt` returns the first alternative that succeeds);
* every alternative that is itself nothing but an `alt((…))` (`float_literal`, `integer_literal`): its alternatives;
* every other alternative (a leaf): the `RealNumber` variant it returns and the parsers it applies to the input, in the
  order written (`tag("0x")`, `digit_sequence`, `identifier`, …).

A function that is neither a plain `alt` nor ends in `Ok((input, RealNumber::Variant(…)))` makes `generate` return
(False, reason)."""
import os, re, sys
sys.path.insert(0, os.path.dirname(os.path.abspath(__file__)))
from extract_convert import Unrecognised, read, strip_comments, balanced, split_top

def fn_body(src, name):
    m = re.search(r'pub\s+fn\s+%s\s*\(\s*input\s*:\s*ParseString\s*\)\s*->\s*ParseResult\s*<\s*(\w+)\s*>\s*\{' % re.escape(name), src)
    if not m: raise Unrecognised("literals.rs: `pub fn %s(input: ParseString) -> ParseResult<…>` not found" % name)
    return m.group(1), src[m.end():balanced(src, m.end(), '{', '}')]

def alt_list(expr, what):
    """`alt((a, b, c))(input)` with an optional `?` -> [a, b, c]"""
    m = re.match(r'^alt\s*\(\s*\((.*)\)\s*\)\s*\(\s*input\s*\)\s*\??$', expr.strip(), re.S)
    if not m: return None
    names = [x.strip() for x in m.group(1).split(',') if x.strip()]
    if not names or not all(re.match(r'^\w+$', n) for n in names): raise Unrecognised("%s: alternatives `%s`" % (what, m.group(1).strip()[:80]))
    return names

def statements(body):
    return [s.strip() for s in split_top(body, ';') if s.strip()]

def plain_alt(body, what):
    """the body is `alt((…))(input)` or `let (input, x) = alt((…))(input)?; Ok((input, x))`"""
    sts = statements(body)
    if len(sts) == 1: return alt_list(sts[0], what)
    if len(sts) == 2:
        m = re.match(r'^let\s*\(\s*input\s*,\s*(\w+)\s*\)\s*=\s*(.*)$', sts[0], re.S)
        if m and re.match(r'^Ok\s*\(\s*\(\s*input\s*,\s*%s\s*\)\s*\)$' % m.group(1), sts[1]): return alt_list(m.group(2), what)
    return None

def signed_alt(body, what):
    """`let (input, neg) = opt(dash)(input)?; let (input, result) = alt((…))(input)?; … Ok((input, result))`"""
    sts = statements(body)
    if len(sts) < 3: raise Unrecognised(what + ": body not recognised")
    dash = re.match(r'^let\s*\(\s*input\s*,\s*(\w+)\s*\)\s*=\s*opt\s*\(\s*dash\s*\)\s*\(\s*input\s*\)\s*\?$', sts[0]) is not None
    rest = sts[1:] if dash else sts
    m = re.match(r'^let\s*\(\s*input\s*,\s*(\w+)\s*\)\s*=\s*(.*)$', rest[0], re.S)
    names = alt_list(m.group(2), what) if m else None
    if names is None: raise Unrecognised(what + ": no `let (input, result) = alt((…))(input)?`")
    if any('alt' in s and re.search(r'\balt\s*\(', s) for s in rest[1:]): raise Unrecognised(what + ": a second alt")
    if not re.match(r'^Ok\s*\(\s*\(\s*input\s*,\s*\w+\s*\)\s*\)$', rest[-1]): raise Unrecognised(what + ": does not end in Ok((input, result))")
    return dash, names

def leaf(src, name):
    ret, body = fn_body(src, name)
    if ret != 'RealNumber': raise Unrecognised("%s returns %s, not RealNumber" % (name, ret))
    sts = statements(body)
    m = re.match(r'^Ok\s*\(\s*\(\s*input\s*,\s*RealNumber::(\w+)\s*\(', sts[-1]) if sts else None
    if not m: raise Unrecognised("%s does not end in Ok((input, RealNumber::Variant(…)))" % name)
    others = set(re.findall(r'return\s+Ok\s*\(\s*\(\s*input\s*,\s*RealNumber::(\w+)\s*\(', body)) - {m.group(1)}
    if others: raise Unrecognised("%s returns more than one variant: %s" % (name, sorted(others | {m.group(1)})))
    return m.group(1), applied(body)

SCAN = re.compile(r'tag\s*\(\s*"([^"]*)"\s*\)|many1\s*\(\s*alt\s*\(\s*\(([^()]*)\)\s*\)\s*\)|opt\s*\(\s*(\w+)\s*\)|label!\s*\(\s*(\w+)\s*,|'
                  r'\b(\w+)\s*\(\s*input(?:\s*\.\s*clone\s*\(\s*\))?\s*\)')
def applied(body):
    """the parsers a function applies to the input, in the order written: `name`, `tag:text`, `opt:name`, `many1:a|b|c`"""
    out = []
    for m in SCAN.finditer(body):
        if m.group(1) is not None: out.append("tag:" + m.group(1))
        elif m.group(2) is not None: out.append("many1:" + "|".join(x.strip() for x in m.group(2).split(',')))
        elif m.group(3) is not None: out.append("opt:" + m.group(3))
        elif m.group(4) is not None: out.append(m.group(4))
        elif m.group(5) not in ('Ok', 'Err', 'Some'): out.append(m.group(5))
    return out

def extract(repo="/repo"):
    src = strip_comments(read(repo, 'src/syntax/src/literals.rs'))
    # number: complex first, then real
    ret, nb = fn_body(src, 'number')
    order = re.findall(r'match\s+(\w+)\s*\(\s*input\s*\.\s*clone\s*\(\s*\)\s*\)', nb)
    if len(order) != 2 or ret != 'Number': raise Unrecognised("number: expected two nested `match parser(input.clone())`, found %s" % order)
    if not re.search(r'Ok\s*\(\s*\(\s*input\s*,\s*\w+\s*\)\s*\)\s*=>\s*Ok\s*\(\s*\(\s*input\s*,\s*Number::Complex', nb) or \
       nb.index(order[0]) > nb.index('Number::Complex') or nb.index('Number::Complex') > nb.index(order[1]):
        raise Unrecognised("number: the first parser's result is not returned as Number::Complex before the second is tried")
    _, rb = fn_body(src, 'real_number')
    dash, real = signed_alt(rb, 'real_number')
    _, ub = fn_body(src, 'untyped_real_number')
    udash, ureal = signed_alt(ub, 'untyped_real_number')
    alt_fns, leaves, todo, seen = [], [], list(real) + [n for n in ureal if n not in real], set()
    while todo:
        n = todo.pop(0)
        if n in seen: continue
        seen.add(n)
        _, b = fn_body(src, n)
        a = plain_alt(b, n)
        if a is not None:
            alt_fns.append((n, a)); todo += a
        else:
            leaves.append((n,) + leaf(src, n))
    return order, (dash, real), (udash, ureal), alt_fns, leaves

def L_strs(xs): return "[" + ", ".join('"%s"' % x for x in xs) + "]"

def generate(root, repo="/repo"):
    try:
        order, (dash, real), (udash, ureal), alt_fns, leaves = extract(repo)
    except (Unrecognised, OSError, ValueError, IndexError) as e:
        return False, "C13 literal-grammar extraction failed: %s" % e
    out = os.path.join(root, 'lean', 'MechVerif', 'Gen', 'LitOrder.lean')
    b = lambda x: "true" if x else "false"
    L = ["/- GENERATED by tools/extract_literals.py from src/syntax/src/literals.rs — do not edit. -/",
         "import MechVerif.Model.LitOrder", "namespace MechVerif.Gen.LitOrder", "open MechVerif.Lit", "",
         "/-- the parsers `number` tries, in order -/", "def numberOrder : List String := " + L_strs(order),
         "/-- `real_number`: is an optional `dash` read first, and the alternatives of its `alt` as written -/",
         "def realNumberLeadingDash : Bool := " + b(dash), "def realNumberAlts : List String :=\n  " + L_strs(real),
         "/-- `untyped_real_number` (the parts of a complex literal) -/",
         "def untypedRealNumberLeadingDash : Bool := " + b(udash), "def untypedRealNumberAlts : List String :=\n  " + L_strs(ureal),
         "/-- alternatives that are themselves an `alt` -/",
         "def altFunctions : List (String × List String) :=\n  [" + ", ".join('("%s", %s)' % (n, L_strs(a)) for n, a in alt_fns) + "]",
         "/-- the other alternatives: (parser, `RealNumber` variant it returns, the parsers it applies to the input in the order written) -/",
         "def leaves : List (String × String × List String) :=\n  [" + ",\n   ".join('("%s", "%s", %s)' % (n, v, L_strs(c)) for n, v, c in leaves) + "]", "",
         "/-- the order in which the grammar tries the forms of a real number is the model's, form by form -/",
         "theorem C13_real_number_alternatives_are_model :",
         "    formsOf altFunctions leaves realNumberAlts = realNumberOrder.map some ∧",
         "    formsOf altFunctions leaves untypedRealNumberAlts = untypedRealNumberOrder.map some ∧",
         "    numberOrder = [\"complex_number\", \"real_number\"] ∧ realNumberLeadingDash = true ∧ untypedRealNumberLeadingDash = true :=",
         "  ⟨by decide, by decide, by decide, by decide, by decide⟩", "",
         "/-- every form whose spellings begin with a complete spelling of another form is tried before that form (first",
         "    match wins), in the order as written -/",
         "theorem C13_alternatives_respect_prefixes :",
         "    respects ((formsOf altFunctions leaves realNumberAlts).filterMap id) = true ∧",
         "    respects ((formsOf altFunctions leaves untypedRealNumberAlts).filterMap id) = true := ⟨by decide, by decide⟩", "",
         "/-- the based literals start with the prefixes the model reads (`0x 0d 0o 0b`), and a typed integer is digits followed",
         "    by an identifier -/",
         "theorem C13_leaf_shapes_are_model : leaves.all (fun l => leafShapeOk l) = true := by decide", "",
         "end MechVerif.Gen.LitOrder", ""]
    text = "\n".join(L)
    old = open(out).read() if os.path.exists(out) else None
    if old != text: open(out, 'w').write(text)
    return True, "C13 number grammar extracted: number = %s ; real_number = %s%s ; %s" % (
        " | ".join(order), "?dash, " if dash else "", " | ".join(real), " ; ".join("%s = %s" % (n, " | ".join(a)) for n, a in alt_fns))

if __name__ == '__main__':
    root = os.path.dirname(os.path.dirname(os.path.abspath(__file__)))
    if len(sys.argv) > 1 and sys.argv[1] == '--show':
        for part in extract(sys.argv[2] if len(sys.argv) > 2 else "/repo"): print(part)
    else:
        print(generate(root, sys.argv[1] if len(sys.argv) > 1 else "/repo"))
