import MechVerif.Model.Emit
import MechVerif.Lemmas.Bytecode
import MechVerif.Lemmas.Crc
namespace MechVerif.Loader
open MechVerif.Bytecode
open MechVerif.Crc (Byte)

def Header.wf (h : Header) : Prop :=
  h.magic.length = 4 ∧ h.version < 256 ^ 1 ∧ h.mechVer < 256 ^ 2 ∧ h.flags < 256 ^ 2 ∧ h.regCount < 256 ^ 4 ∧ h.instrCount < 256 ^ 4 ∧
  h.featureCount < 256 ^ 4 ∧ h.featureOff < 256 ^ 8 ∧ h.typesCount < 256 ^ 4 ∧ h.typesOff < 256 ^ 8 ∧ h.constCount < 256 ^ 4 ∧
  h.constTblOff < 256 ^ 8 ∧ h.constTblLen < 256 ^ 8 ∧ h.constBlobOff < 256 ^ 8 ∧ h.constBlobLen < 256 ^ 8 ∧ h.symbolsLen < 256 ^ 8 ∧
  h.symbolsOff < 256 ^ 8 ∧ h.instrOff < 256 ^ 8 ∧ h.instrLen < 256 ^ 8 ∧ h.dictOff < 256 ^ 8 ∧ h.dictLen < 256 ^ 8 ∧ h.reserved < 256 ^ 4

theorem bind_readLE {α} (k v : Nat) (rest : List Byte) (h : v < 256 ^ k) (f : Nat × List Byte → Option α) :
    (readLE k (leBytes k v ++ rest)) >>= f = f (v, rest) := by
  rw [readLE_leBytes k v rest h]; rfl

theorem readHeaderSeq_writeHeader (h : Header) (hw : h.wf) (rest : List Byte) :
    readHeaderSeq (writeHeader h ++ rest) = some (h, rest) := by
  obtain ⟨h0, h1, h2, h3, h4, h5, h6, h7, h8, h9, h10, h11, h12, h13, h14, h15, h16, h17, h18, h19, h20, h21⟩ := hw
  cases h with
  | mk magic version mechVer flags regCount instrCount featureCount featureOff typesCount typesOff constCount constTblOff constTblLen constBlobOff constBlobLen symbolsLen symbolsOff instrOff instrLen dictOff dictLen reserved =>
  simp only at h0 h1 h2 h3 h4 h5 h6 h7 h8 h9 h10 h11 h12 h13 h14 h15 h16 h17 h18 h19 h20 h21
  unfold writeHeader
  simp only [List.append_assoc]
  have hlen : ∀ t : List Byte, ¬ (magic ++ t).length < 4 := by intro t; rw [List.length_append]; omega
  have htake : ∀ t : List Byte, (magic ++ t).take 4 = magic := fun t => List.take_left' h0
  have hdrop : ∀ t : List Byte, (magic ++ t).drop 4 = t := fun t => List.drop_left' h0
  unfold readHeaderSeq
  rw [if_neg (hlen _), htake, hdrop]
  simp only [bind_readLE _ _ _ h1, bind_readLE _ _ _ h2, bind_readLE _ _ _ h3, bind_readLE _ _ _ h4,bind_readLE _ _ _ h5,bind_readLE _ _ _ h6,bind_readLE _ _ _ h7,bind_readLE _ _ _ h8,bind_readLE _ _ _ h9,bind_readLE _ _ _ h10,bind_readLE _ _ _ h11,bind_readLE _ _ _ h12,bind_readLE _ _ _ h13,bind_readLE _ _ _ h14,bind_readLE _ _ _ h15,bind_readLE _ _ _ h16,bind_readLE _ _ _ h17,bind_readLE _ _ _ h18,bind_readLE _ _ _ h19,bind_readLE _ _ _ h20,bind_readLE _ _ _ h21]

theorem writeHeader_length (h : Header) (h0 : h.magic.length = 4) : (writeHeader h).length = HEADER_SIZE := by
  unfold writeHeader HEADER_SIZE
  simp only [List.length_append, leBytes_length, h0]

/-- the file's header is the first 129 bytes: what was written is what is read -/
theorem readHeader_writeHeader (h : Header) (hw : h.wf) (rest : List Byte) :
    readHeader (writeHeader h ++ rest) = some h := by
  have hl := writeHeader_length h hw.1
  unfold readHeader
  have h1 : ¬ (writeHeader h ++ rest).length < HEADER_SIZE := by rw [List.length_append, hl]; omega
  rw [if_neg h1, List.take_left' hl]
  have := readHeaderSeq_writeHeader h hw []
  rw [List.append_nil] at this
  rw [this]; rfl

theorem sectionIn_iff (off len total : Nat) : sectionIn off len total = true ↔ off + len ≤ total ∧ off + len < 2 ^ 64 := by
  unfold sectionIn; exact decide_eq_true_iff

theorem sliceAt_some (bs : List Byte) (pos k : Nat) (s : List Byte) (h : sliceAt bs pos k = some s) :
    pos + k ≤ bs.length ∧ s = (bs.drop pos).take k := by
  unfold sliceAt at h
  split at h
  · next hle => simp only [Option.some.injEq] at h; exact ⟨hle, h.symm⟩
  · cases h

/-- A section that was read lies inside the file, and is exactly the bytes the header names. -/
theorem optSection_inside (bs : List Byte) (off len : Nat) (s : List Byte) (h : optSection bs off len = .ok s) :
    (off ≠ 0 ∧ len > 0 → off + len ≤ bs.length ∧ s = (bs.drop off).take len) ∧ (¬(off ≠ 0 ∧ len > 0) → s = []) := by
  unfold optSection at h
  split at h
  · next hc =>
    split at h
    · cases h
    · split at h
      · next s' hs =>
        simp only [Except.ok.injEq] at h; subst h
        exact ⟨fun _ => sliceAt_some bs off len _ hs, fun hn => absurd hc hn⟩
      · cases h
  · next hc =>
    simp only [Except.ok.injEq] at h
    exact ⟨fun hh => absurd hh hc, fun _ => h.symm⟩

/-- A header whose section lies outside the file is rejected (FileTooShort), never sliced. -/
theorem optSection_outside (bs : List Byte) (off len : Nat) (h0 : off ≠ 0 ∧ len > 0) (hout : bs.length < off + len) :
    optSection bs off len = .error .short := by
  unfold optSection
  rw [if_pos h0]
  have : sectionIn off len bs.length = false := by
    unfold sectionIn; apply decide_eq_false; omega
  rw [this]; rfl

/-- what a successful load has established, read off the loader's decision chain -/
theorem load_ok_inv (valid : List Byte → Bool) (bs : List Byte) (L : Loaded) (h : load valid bs = .ok L) :
    Crc.verify bs = .ok () ∧ readHeader bs = some L.header ∧ L.header.magic = MECH ∧
    (∃ tbl, optSection bs L.header.constTblOff L.header.constTblLen = .ok tbl) ∧
    optSection bs L.header.constBlobOff L.header.constBlobLen = .ok L.blob ∧
    (∃ sy, optSection bs L.header.symbolsOff L.header.symbolsLen = .ok sy ∧
      (if L.header.symbolsOff ≠ 0 ∧ L.header.symbolsLen > 0 then readSymbols sy (L.header.symbolsLen / 13) 0 else .ok []) = .ok L.symbols) ∧
    (∃ ib, optSection bs L.header.instrOff L.header.instrLen = .ok ib ∧ decodeInstrs ib.length ib = .ok L.instrs) ∧
    (∃ db, optSection bs L.header.dictOff L.header.dictLen = .ok db ∧ readDict db valid db.length 0 = .ok L.dict) := by
  unfold load at h
  split at h
  · cases h
  · cases h
  · next hv =>
    split at h
    · cases h
    · next hd hh =>
      split at h
      · cases h
      · next hm =>
        simp only at h
        split at h
        · cases h
        · split at h
          · cases h
          · split at h
            · cases h
            · next tbl ht =>
              split at h
              · cases h
              · split at h
                · cases h
                · next blob hb =>
                  split at h
                  · cases h
                  · next sy hs =>
                    split at h
                    · cases h
                    · next syms hsy =>
                      split at h
                      · cases h
                      · next ib hi =>
                        split at h
                        · cases h
                        · next db hdb =>
                          split at h
                          · cases h
                          · next dict hdict =>
                            split at h
                            · cases h
                            · next instrs hins =>
                              simp only [Except.ok.injEq] at h
                              subst h
                              exact ⟨hv, hh, Decidable.not_not.mp hm, ⟨tbl, ht⟩, hb, ⟨sy, hs, hsy⟩, ⟨ib, hi, hins⟩, ⟨db, hdb, hdict⟩⟩

/-- a file whose trailer does not verify is not loaded -/
theorem load_crc_error (valid : List Byte → Bool) (bs : List Byte) (e : Crc.VErr) (h : Crc.verify bs = .error e) :
    load valid bs = .error (match e with | .short => .short | .crc => .crc) := by
  unfold load
  split
  · next h' => rw [h] at h'; cases h'; rfl
  · next h' => rw [h] at h'; cases h'; rfl
  · next h' => rw [h] at h'; cases h'

/-! ### the symbol table -/

def symWf (s : Nat × Bool × Nat) : Prop := s.1 < 256 ^ 8 ∧ s.2.2 < 256 ^ 4

theorem writeSymbol_length (s : Nat × Bool × Nat) : (writeSymbol s).length = 13 := by
  unfold writeSymbol; simp only [List.length_append, leBytes_length]

theorem writeSymbols_length (ss : List (Nat × Bool × Nat)) : (writeSymbols ss).length = 13 * ss.length := by
  induction ss with
  | nil => rfl
  | cons s ss ih =>
    simp only [writeSymbols, List.flatMap_cons, List.length_append, writeSymbol_length, List.length_cons] at ih ⊢
    omega

theorem rdAt_mid (pre post : List Byte) (k v : Nat) (h : v < 256 ^ k) :
    rdAt (pre ++ (leBytes k v ++ post)) pre.length k = some v := by
  unfold rdAt
  have hl := leBytes_length k v
  have h1 : pre.length + k ≤ (pre ++ (leBytes k v ++ post)).length := by
    simp only [List.length_append, hl]; omega
  rw [if_pos h1, List.drop_left, List.take_left' hl, unle_leBytes k v h]

/-- reading `n` symbol entries needs `13 n` bytes: an over-count runs off the end -/
theorem readSymbols_needs (sy : List Byte) : ∀ (n pos : Nat) (r : List (Nat × Bool × Nat)),
    readSymbols sy n pos = .ok r → r.length = n ∧ (n = 0 ∨ pos + 13 * n ≤ sy.length) := by
  intro n
  induction n with
  | zero => intro pos r h; simp only [readSymbols, Except.ok.injEq] at h; subst h; exact ⟨rfl, Or.inl rfl⟩
  | succ n ih =>
    intro pos r h
    simp only [readSymbols] at h
    split at h
    · next id m rg h1 h2 h3 =>
      split at h
      · next ss hss =>
        simp only [Except.ok.injEq] at h; subst h
        obtain ⟨hl, hb⟩ := ih _ _ hss
        refine ⟨by simp only [List.length_cons, hl], Or.inr ?_⟩
        unfold rdAt at h3
        split at h3
        · next hle => rcases hb with hb | hb
                      · subst hb; omega
                      · omega
        · cases h3
      · cases h
    · cases h

/-- the symbol table the writer emits is read back entry for entry, wherever it lies in the file -/
theorem readSymbols_write (ss : List (Nat × Bool × Nat)) (hw : ∀ s ∈ ss, symWf s) : ∀ (pre post : List Byte),
    readSymbols (pre ++ (writeSymbols ss ++ post)) ss.length pre.length = .ok ss := by
  induction ss with
  | nil => intro pre post; rfl
  | cons s ss ih =>
    intro pre post
    obtain ⟨id, m, r⟩ := s
    have hs : symWf (id, m, r) := hw _ (List.mem_cons_self)
    obtain ⟨hid, hr⟩ := hs
    simp only at hid hr
    have hm : (if m then 1 else 0 : Nat) < 256 ^ 1 := by cases m <;> decide
    have e1 : pre ++ (writeSymbols ((id, m, r) :: ss) ++ post) =
        pre ++ (leBytes 8 id ++ (leBytes 1 (if m then 1 else 0) ++ (leBytes 4 r ++ (writeSymbols ss ++ post)))) := by
      simp only [writeSymbols, List.flatMap_cons, writeSymbol, List.append_assoc]
    have e2 : pre ++ (leBytes 8 id ++ (leBytes 1 (if m then 1 else 0) ++ (leBytes 4 r ++ (writeSymbols ss ++ post)))) =
        (pre ++ leBytes 8 id) ++ (leBytes 1 (if m then 1 else 0) ++ (leBytes 4 r ++ (writeSymbols ss ++ post))) := by
      simp only [List.append_assoc]
    have e3 : pre ++ (leBytes 8 id ++ (leBytes 1 (if m then 1 else 0) ++ (leBytes 4 r ++ (writeSymbols ss ++ post)))) =
        (pre ++ leBytes 8 id ++ leBytes 1 (if m then 1 else 0)) ++ (leBytes 4 r ++ (writeSymbols ss ++ post)) := by
      simp only [List.append_assoc]
    have e4 : pre ++ (leBytes 8 id ++ (leBytes 1 (if m then 1 else 0) ++ (leBytes 4 r ++ (writeSymbols ss ++ post)))) =
        (pre ++ leBytes 8 id ++ leBytes 1 (if m then 1 else 0) ++ leBytes 4 r) ++ (writeSymbols ss ++ post) := by
      simp only [List.append_assoc]
    have l2 : (pre ++ leBytes 8 id).length = pre.length + 8 := by simp only [List.length_append, leBytes_length]
    have l3 : (pre ++ leBytes 8 id ++ leBytes 1 (if m then 1 else 0)).length = pre.length + 9 := by
      simp only [List.length_append, leBytes_length]
    have l4 : (pre ++ leBytes 8 id ++ leBytes 1 (if m then 1 else 0) ++ leBytes 4 r).length = pre.length + 13 := by
      simp only [List.length_append, leBytes_length]
    have r1 := rdAt_mid pre (leBytes 1 (if m then 1 else 0) ++ (leBytes 4 r ++ (writeSymbols ss ++ post))) 8 id hid
    have r2 := rdAt_mid (pre ++ leBytes 8 id) (leBytes 4 r ++ (writeSymbols ss ++ post)) 1 _ hm
    have r3 := rdAt_mid (pre ++ leBytes 8 id ++ leBytes 1 (if m then 1 else 0)) (writeSymbols ss ++ post) 4 r hr
    rw [← e2, l2] at r2
    rw [← e3, l3] at r3
    have ih' := ih (fun s h => hw s (List.mem_cons_of_mem _ h)) (pre ++ leBytes 8 id ++ leBytes 1 (if m then 1 else 0) ++ leBytes 4 r) post
    rw [← e4, l4] at ih'
    rw [e1]
    simp only [List.length_cons, readSymbols, r1, r2, r3, ih']
    cases m <;> rfl

/-- the dictionary loop: each entry moves at least 12 bytes on, so as many turns as the section has
    bytes is enough — more fuel never changes the result -/
theorem readDict_fuel (d : List Byte) (valid : List Byte → Bool) : ∀ (fuel pos : Nat), d.length - pos ≤ fuel →
    readDict d valid (fuel + 1) pos = readDict d valid fuel pos := by
  intro fuel
  induction fuel with
  | zero =>
    intro pos h
    have : pos ≥ d.length := by omega
    simp only [readDict, if_pos this]
  | succ fuel ih =>
    intro pos h
    rw [readDict]
    conv => rhs; rw [readDict]
    by_cases hp : pos ≥ d.length
    · rw [if_pos hp, if_pos hp]
    · rw [if_neg hp, if_neg hp]
      cases h1 : rdAt d pos 8 with
      | none => rfl
      | some id =>
        cases h2 : rdAt d (pos + 8) 4 with
        | none => rfl
        | some len =>
          simp only
          rw [ih (pos + 12 + len) (by omega)]

theorem readDict_fuel_enough (d : List Byte) (valid : List Byte → Bool) (k : Nat) :
    readDict d valid (d.length + k) 0 = readDict d valid d.length 0 := by
  induction k with
  | zero => rfl
  | succ k ih => rw [← Nat.add_assoc, readDict_fuel d valid (d.length + k) 0 (by omega), ih]

end MechVerif.Loader
