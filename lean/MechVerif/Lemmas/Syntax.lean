/-
Round trip of the token-level expression and statement grammar (Model/Syntax.lean).
Part 1: whatever the parser accepts is the rendering of the tree it returns (no hypothesis on
the text).  Part 2: the rendering of a canonical tree is read back as that tree.
-/
import MechVerif.Model.Syntax
import MechVerif.Lemmas.Prec
namespace MechVerif.Syntax
open MechVerif.Prec

/-! ### lists with separators -/

theorem rSep_cons {α : Type} (r : α → List Tok) (sep : Tok) (a : α) (as : List α) (h : as ≠ []) :
    rSep r sep (a :: as) = r a ++ sep :: rSep r sep as := by
  cases as with
  | nil => exact absurd rfl h
  | cons b bs => rfl

/-- what `sepBy` accepts is its elements' renderings with the separator between them -/
theorem sepBy_sound {α : Type} (p : List Tok → Option (α × List Tok)) (r : α → List Tok) (sep : Tok)
    (hp : ∀ ts a r', p ts = some (a, r') → ts = r a ++ r') :
    ∀ k ts as r', sepBy p sep k ts = some (as, r') → ts = rSep r sep as ++ r' ∧ as ≠ [] := by
  intro k
  induction k with
  | zero => intro ts as r' h; simp [sepBy] at h
  | succ k ih =>
    intro ts as r' h
    simp only [sepBy] at h
    split at h
    · cases h
    · next a r0 hpa =>
      have e0 := hp _ _ _ hpa
      split at h
      · next t r1 =>
        split at h
        · next hts =>
          split at h
          · next as' r'' hrec =>
            obtain ⟨h1, h2⟩ := Prod.mk.inj (Option.some.inj h); subst h1; subst h2
            obtain ⟨e1, hne⟩ := ih _ _ _ hrec
            refine ⟨?_, by simp⟩
            rw [rSep_cons r sep a as' hne, e0, e1, hts]; simp
          · cases h
        · obtain ⟨h1, h2⟩ := Prod.mk.inj (Option.some.inj h); subst h1; subst h2
          exact ⟨by simpa [rSep] using e0, by simp⟩
      · obtain ⟨h1, h2⟩ := Prod.mk.inj (Option.some.inj h); subst h1; subst h2
        exact ⟨by simpa [rSep] using e0, by simp⟩

theorem listTill_sound {α : Type} (p : List Tok → Option (α × List Tok)) (r : α → List Tok) (sep close : Tok)
    (hp : ∀ ts a r', p ts = some (a, r') → ts = r a ++ r') (ts : List Tok) (as : List α) (r' : List Tok)
    (h : listTill p sep close ts = some (as, r')) : ts = rSep r sep as ++ close :: r' := by
  unfold listTill at h
  split at h
  · next t r0 =>
    split at h
    · next htc =>
      obtain ⟨h1, h2⟩ := Prod.mk.inj (Option.some.inj h); subst h1; subst h2
      simp [rSep, htc]
    · split at h
      · next as' c r'' hs =>
        split at h
        · next hc =>
          obtain ⟨h1, h2⟩ := Prod.mk.inj (Option.some.inj h); subst h1; subst h2
          have := (sepBy_sound p r sep hp _ _ _ _ hs).1
          rw [this, hc]
        · cases h
      · cases h
  · cases h

/-- renderings one after the other -/
def rCat {α : Type} (r : α → List Tok) : List α → List Tok
  | [] => []
  | a :: as => r a ++ rCat r as

/-- what `many` accepts is its elements' renderings one after the other -/
theorem many_sound {α : Type} (p : List Tok → Option (α × List Tok)) (r : α → List Tok)
    (hp : ∀ ts a r', p ts = some (a, r') → ts = r a ++ r') :
    ∀ k ts as r', many p k ts = (as, r') → ts = rCat r as ++ r' := by
  intro k
  induction k with
  | zero =>
    intro ts as r' h
    simp only [many, Prod.mk.injEq] at h
    obtain ⟨h1, h2⟩ := h; subst h1; subst h2; rfl
  | succ k ih =>
    intro ts as r' h
    simp only [many] at h
    split at h
    · simp only [Prod.mk.injEq] at h
      obtain ⟨h1, h2⟩ := h; subst h1; subst h2; rfl
    · next a r0 hpa =>
      simp only [Prod.mk.injEq] at h
      obtain ⟨h1, h2⟩ := h; subst h1; subst h2
      have e0 := hp _ _ _ hpa
      have e1 := ih r0 _ _ rfl
      simp only [rCat, List.append_assoc]
      rw [← e1, ← e0]

theorem many_none {α : Type} (p : List Tok → Option (α × List Tok)) (k : Nat) (ts : List Tok) (h : p ts = none) :
    many p k ts = ([], ts) := by
  cases k <;> simp [many, h]

/-- `many` reads back renderings put one after the other, when each element is read back before whatever may
    follow it (`Q`), and the parser does not accept what follows the last -/
theorem many_complete {α : Type} (p : List Tok → Option (α × List Tok)) (r : α → List Tok) (rest : List Tok)
    (Q : List Tok → Prop) (hQ : Q rest) (hnone : p rest = none) : ∀ (as : List α),
    (∀ a ∈ as, ∀ tail, Q tail → p (r a ++ tail) = some (a, tail) ∧ Q (r a ++ tail)) →
    Q (rCat r as ++ rest) ∧ ∀ k, as.length ≤ k → many p k (rCat r as ++ rest) = (as, rest) := by
  intro as
  induction as with
  | nil =>
    intro _
    refine ⟨hQ, ?_⟩
    intro k _
    exact many_none p k _ hnone
  | cons a as ih =>
    intro hp
    obtain ⟨hq, hm⟩ := ih (fun x hx => hp x (List.mem_cons_of_mem _ hx))
    have h1 := hp a (by simp) _ hq
    refine ⟨by simpa [rCat] using h1.2, ?_⟩
    intro k hk
    cases k with
    | zero => simp at hk
    | succ k =>
      have h2 := hm k (by simp at hk; omega)
      simp only [rCat, List.append_assoc, many, h1.1, h2]

theorem rCat_length_ge {α : Type} (r : α → List Tok) : ∀ as : List α, (∀ a ∈ as, 1 ≤ (r a).length) →
    as.length ≤ (rCat r as).length
  | [], _ => by simp [rCat]
  | a :: as, h => by
    have ih := rCat_length_ge r as (fun x hx => h x (List.mem_cons_of_mem _ hx))
    have := h a (by simp)
    simp only [rCat, List.length_append, List.length_cons]
    omega

/-! ### the mutual renderers are `rSep` of their element renderers -/

theorem rExs_eq (g : Gram) : ∀ es : List Exp, rExs g es = rSep (rEx g) .comma es
  | [] => by simp [rExs, rSep]
  | [e] => by simp [rExs, rSep]
  | e :: e' :: es => by
    have := rExs_eq g (e' :: es)
    simp only [rExs, rSep, this]

theorem rRow_eq (g : Gram) : ∀ es : List Exp, rRow g es = rSep (rEx g) .sp es
  | [] => by simp [rRow, rSep]
  | [e] => by simp [rRow, rSep]
  | e :: e' :: es => by
    have := rRow_eq g (e' :: es)
    simp only [rRow, rSep, this]

theorem rRows_eq (g : Gram) : ∀ rs : List (List Exp), rRows g rs = rSep (rRow g) .semi rs
  | [] => by simp [rRows, rSep]
  | [e] => by simp [rRows, rSep]
  | e :: e' :: es => by
    have := rRows_eq g (e' :: es)
    simp only [rRows, rSep, this]

theorem rSubs_eq (g : Gram) : ∀ ss : List (Sub Fac), rSubs g ss = rSep (rSub g) .comma ss
  | [] => by simp [rSubs, rSep]
  | [e] => by simp [rSubs, rSep]
  | e :: e' :: es => by
    have := rSubs_eq g (e' :: es)
    simp only [rSubs, rSep, this]

theorem rSels_eq (g : Gram) : ∀ ss : List (Sel Fac), rSels g ss = rCat (rSel g) ss
  | [] => by simp [rSels, rCat]
  | s :: ss => by simp only [rSels, rCat, rSels_eq g ss]

theorem rTRows_eq (g : Gram) : ∀ rs : List (List Exp), rTRows g rs = rCat (fun row => rRow g row ++ [.bar]) rs
  | [] => by simp [rTRows, rCat]
  | r :: rs => by simp only [rTRows, rCat, rTRows_eq g rs, List.append_assoc, List.cons_append, List.nil_append]

theorem rArgs_eq (g : Gram) : ∀ ss : List (Arg Fac), rArgs g ss = rSep (rArg g) .comma ss
  | [] => by simp [rArgs, rSep]
  | [e] => by simp [rArgs, rSep]
  | e :: e' :: es => by
    have := rArgs_eq g (e' :: es)
    simp only [rArgs, rSep, this]

theorem rBinds_eq (g : Gram) : ∀ ss : List (Bind Fac), rBinds g ss = rSep (rBind g) .comma ss
  | [] => by simp [rBinds, rSep]
  | [e] => by simp [rBinds, rSep]
  | e :: e' :: es => by
    have := rBinds_eq g (e' :: es)
    simp only [rBinds, rSep, this]

theorem rMaps_eq (g : Gram) : ∀ ss : List (Mapping Fac), rMaps g ss = rSep (rMapping g) .comma ss
  | [] => by simp [rMaps, rSep]
  | [e] => by simp [rMaps, rSep]
  | e :: e' :: es => by
    have := rMaps_eq g (e' :: es)
    simp only [rMaps, rSep, this]

inductive Fa2 {α β : Type} (R : α → β → Prop) : List α → List β → Prop where
  | nil : Fa2 R [] []
  | cons {a b as bs} : R a b → Fa2 R as bs → Fa2 R (a :: as) (b :: bs)

/-- separated renderings of two lists whose elements render alike -/
theorem rSep_rel {α β : Type} (r : α → List Tok) (r' : β → List Tok) (sep : Tok) :
    ∀ (as : List α) (bs : List β), Fa2 (fun a b => r a = r' b) as bs → rSep r sep as = rSep r' sep bs := by
  intro as bs h
  induction h with
  | nil => rfl
  | cons hab hrest ih =>
    rename_i a b as' bs'
    cases hrest with
    | nil => simp [rSep, hab]
    | cons hab' hrest' =>
      simp only [rSep] at ih ⊢
      rw [hab, ih]

/-! ### the classification of the entries between braces -/

def entB : Bind Fac → Ent Fac
  | .mk x k e => .bind x k e

def entM : Mapping Fac → Ent Fac
  | .mk (.form (.leaf (.var x))) v => .bind x none v
  | .mk k v => .keyed k v

theorem rEnt_entB (g : Gram) (b : Bind Fac) : rEnt g (entB b) = rBind g b := by
  cases b; simp [entB, rEnt, rBind]

theorem rEnt_entM (g : Gram) (m : Mapping Fac) : rEnt g (entM m) = rMapping g m := by
  unfold entM
  split <;> simp [rEnt, rMapping, rEx, rTrm, rFac]

theorem allBind_spec : ∀ (ents : List (Ent Fac)) (bs : List (Bind Fac)), allBind ents = some bs → ents = bs.map entB
  | [], bs, h => by simp only [allBind, Option.some.injEq] at h; subst h; rfl
  | .bind x k e :: es, bs, h => by
    simp only [allBind] at h
    split at h
    · next bs' hb =>
      have := allBind_spec es bs' hb
      cases h
      simp [entB, this]
    · cases h
  | .plain _ :: _, _, h => by simp [allBind] at h
  | .keyed _ _ :: _, _, h => by simp [allBind] at h

theorem allPlain_spec : ∀ (ents : List (Ent Fac)) (xs : List Exp), allPlain ents = some xs → ents = xs.map .plain
  | [], bs, h => by simp only [allPlain, Option.some.injEq] at h; subst h; rfl
  | .plain e :: es, bs, h => by
    simp only [allPlain] at h
    split at h
    · next bs' hb =>
      have := allPlain_spec es bs' hb
      cases h
      simp [this]
    · cases h
  | .bind _ _ _ :: _, _, h => by simp [allPlain] at h
  | .keyed _ _ :: _, _, h => by simp [allPlain] at h

/-- the entries a map was classified from render as its elements -/
theorem allKeyed_spec (g : Gram) : ∀ (ents : List (Ent Fac)) (ms : List (Mapping Fac)), allKeyed ents = some ms →
    Fa2 (fun m a => rMapping g m = rEnt g a) ms ents
  | [], bs, h => by simp only [allKeyed, Option.some.injEq] at h; subst h; exact .nil
  | .keyed k v :: es, bs, h => by
    simp only [allKeyed] at h
    split at h
    · next bs' hb =>
      have := allKeyed_spec g es bs' hb
      cases h
      exact .cons (by simp [rMapping, rEnt]) this
    · cases h
  | .bind x none v :: es, bs, h => by
    simp only [allKeyed] at h
    split at h
    · next bs' hb =>
      have := allKeyed_spec g es bs' hb
      cases h
      exact .cons (by simp [rMapping, rEnt, rEx, rTrm, rFac]) this
    · cases h
  | .bind _ (some _) _ :: _, _, h => by simp [allKeyed] at h
  | .plain _ :: _, _, h => by simp [allKeyed] at h

theorem rSep_map {α β : Type} (r : β → List Tok) (f : α → β) (sep : Tok) (as : List α) :
    rSep r sep (as.map f) = rSep (fun a => r (f a)) sep as := by
  apply rSep_rel
  induction as with
  | nil => exact .nil
  | cons a as ih => exact .cons rfl ih

/-- whatever the entries are classified as renders as the entries between braces -/
theorem classify_render (g : Gram) (ents : List (Ent Fac)) (f : Fac) (h : classify ents = some f) :
    rFac g f = .lc :: rSep (rEnt g) .comma ents ++ [.rc] := by
  unfold classify at h
  split at h
  · cases h; simp [rFac, rExs, rSep]
  · next hne =>
    split at h
    · next bs hb =>
      cases h
      have := allBind_spec ents bs hb
      subst this
      rw [rSep_map]
      simp only [rFac, rBinds_eq, rEnt_entB]
    · split at h
      · next ms hm =>
        cases h
        have hrel := allKeyed_spec g ents ms hm
        have hne' : ms.isEmpty = false := by
          cases hrel with
          | nil => exact absurd rfl (hne)
          | cons _ _ => rfl
        simp only [rFac, hne', Bool.false_eq_true, if_false, rMaps_eq]
        rw [rSep_rel (rMapping g) (rEnt g) .comma ms ents hrel]
      · split at h
        · next es he =>
          cases h
          have := allPlain_spec ents es he
          subst this
          rw [rSep_map]
          simp only [rFac, rExs_eq, rEnt]
        · cases h

/-! ### part 1: what the parser accepts is the rendering of what it returns -/

theorem rRest_append (g : Gram) (a b : Rest Fac) : rRest g (a ++ b) = rRest g a ++ rRest g b := by
  induction a with
  | nil => simp [rRest]
  | cons x a ih => obtain ⟨o, f⟩ := x; simp [rRest, ih]

theorem rTrm_flat (g : Gram) : ∀ t : Trm, rTrm g t = rFac g t.first ++ rRest g t.tail
  | .leaf f => by simp [rTrm, Tree.first, Tree.tail, rRest]
  | .node l o r => by
    have hl := rTrm_flat g l
    have hr := rTrm_flat g r
    simp only [rTrm, Tree.first, Tree.tail, rRest_append, rRest, hl, hr, List.append_assoc, List.cons_append]

theorem post_render (g : Gram) (f0 f : Fac) (r0 r : List Tok) (h : post f0 r0 = (f, r)) :
    rFac g f0 ++ r0 = rFac g f ++ r := by
  cases r0 with
  | nil => simp only [post] at h; obtain ⟨h1, h2⟩ := Prod.mk.inj h; subst h1; subst h2; rfl
  | cons t r1 =>
    cases t <;> simp only [post] at h <;> obtain ⟨h1, h2⟩ := Prod.mk.inj h <;> subst h1 <;> subst h2 <;>
      simp [rFac]

theorem binOp_some (g : Gram) (t : Tok) (o : Op) (h : g.binOp? t = some o) :
    t = g.opTok o ∧ 1 ≤ o.lvl ∧ o.lvl ≤ g.N := by
  cases t with
  | op o' =>
    simp only [Gram.binOp?] at h
    split at h
    · next hc =>
      simp only [Bool.and_eq_true, decide_eq_true_eq, Gram.lvlOk] at hc
      have : o' = o := Option.some.inj h
      subst this
      refine ⟨by simp [Gram.opTok, hc.2], hc.1.1, hc.1.2⟩
    · cases h
  | dash =>
    simp only [Gram.binOp?] at h
    split at h
    · next hc =>
      simp only [Bool.and_eq_true, decide_eq_true_eq, Gram.lvlOk] at hc
      have : g.sub = o := Option.some.inj h
      subst this
      refine ⟨by simp [Gram.opTok], hc.1, hc.2⟩
    · cases h
  | _ => simp [Gram.binOp?] at h

/-- the eight claims for fuel `n` -/
def PR (g : Gram) (n : Nat) : Prop :=
  (∀ ts f r, pFac g n ts = some (f, r) → ts = rFac g f ++ r) ∧
  (∀ ts ps r, pChain g n ts = some (ps, r) → ts = rRest g ps ++ r ∧ OpsIn g.N ps) ∧
  (∀ ts t r, pForm g n ts = some (t, r) → ts = rTrm g t ++ r) ∧
  (∀ ts e r, pEx g n ts = some (e, r) → ts = rEx g e ++ r) ∧
  (∀ ts s r, pSub g n ts = some (s, r) → ts = rSub g s ++ r) ∧
  (∀ ts a r, pArg g n ts = some (a, r) → ts = rArg g a ++ r) ∧
  (∀ ts a r, pEnt g n ts = some (a, r) → ts = rEnt g a ++ r) ∧
  (∀ ts s r, pSel g n ts = some (s, r) → ts = rSel g s ++ r)

theorem pName_sound : ∀ ts a r', pName ts = some (a, r') → ts = (fun z => [Tok.id z]) a ++ r' := by
  intro ts a r' h
  unfold pName at h
  split at h
  · obtain ⟨h1, h2⟩ := Prod.mk.inj (Option.some.inj h); subst h1; subst h2; rfl
  · cases h

theorem pField_sound : ∀ ts a r', pField ts = some (a, r') → ts = (fun f : Nat × Nat => [Tok.id f.1, Tok.kind f.2]) a ++ r' := by
  intro ts a r' h
  unfold pField at h
  split at h
  · obtain ⟨h1, h2⟩ := Prod.mk.inj (Option.some.inj h); subst h1; subst h2; rfl
  · cases h

theorem rowOf_sound (g : Gram) (p : List Tok → Option (Exp × List Tok)) (hp : ∀ ts e r, p ts = some (e, r) → ts = rEx g e ++ r) :
    ∀ ts row r', rowOf p ts = some (row, r') → ts = (fun row => rRow g row ++ [Tok.bar]) row ++ r' := by
  intro ts row r' h
  unfold rowOf at h
  split at h
  · next cells r0 hs =>
    obtain ⟨h1, h2⟩ := Prod.mk.inj (Option.some.inj h); subst h1; subst h2
    have := (sepBy_sound p (rEx g) .sp hp _ _ _ _ hs).1
    rw [this]; simp [rRow_eq]
  · cases h

theorem post_eq {f0 f : Fac} {r0 r : List Tok} (h : some (post f0 r0) = some (f, r)) : post f0 r0 = (f, r) :=
  Option.some.inj h

theorem pr_step (g : Gram) (n : Nat) (ih : PR g n) : PR g (n + 1) := by
  obtain ⟨ihF, ihC, ihT, ihE, ihS, ihA, ihN, ihL⟩ := ih
  have hRow : ∀ ts (row : List Exp) r', (fun ts => sepBy (pEx g n) .sp ts.length ts) ts = some (row, r') → ts = rRow g row ++ r' := by
    intro ts row r' h
    rw [rRow_eq]
    exact (sepBy_sound (pEx g n) (rEx g) .sp ihE _ _ _ _ h).1
  refine ⟨?_, ?_, ?_, ?_, ?_, ?_, ?_, ?_⟩
  · intro ts f r h
    simp only [pFac] at h
    split at h
    · -- literal
      have := post_render g _ _ _ _ (post_eq h)
      simpa [rFac] using this
    · -- call
      split at h
      · next args r' hl =>
        have e1 := listTill_sound (pArg g n) (rArg g) .comma .rp ihA _ _ _ hl
        have := post_render g _ _ _ _ (post_eq h)
        rw [e1, ← rArgs_eq]
        simpa [rFac] using this
      · cases h
    · -- a name, with or without subscripts
      next x r0 _ =>
      split at h
      · next r' heq =>
        have e1 := many_sound (pSel g n) (rSel g) ihL _ _ _ _ heq
        have := post_render g _ _ _ _ (post_eq h)
        rw [e1]
        simpa [rFac, rCat] using this
      · next sels r' _ heq =>
        have e1 := many_sound (pSel g n) (rSel g) ihL _ _ _ _ heq
        have := post_render g _ _ _ _ (post_eq h)
        rw [e1, ← rSels_eq]
        simpa [rFac] using this
    · -- matrix
      split at h
      · next rows r' hl =>
        have e1 := listTill_sound _ (rRow g) .semi .rb hRow _ _ _ hl
        have := post_render g _ _ _ _ (post_eq h)
        rw [e1, ← rRows_eq]
        simpa [rFac] using this
      · cases h
    · -- table
      split at h
      · next hdr r1 hh =>
        have e1 := (sepBy_sound pField (fun f : Nat × Nat => [Tok.id f.1, Tok.kind f.2]) .sp pField_sound _ _ _ _ hh).1
        split at h
        · cases h
        · next rows r2 _ hm =>
          have e2 := many_sound (rowOf (pEx g n)) (fun row => rRow g row ++ [Tok.bar]) (rowOf_sound g (pEx g n) ihE) _ _ _ _ hm
          have := post_render g _ _ _ _ (post_eq h)
          rw [e1, e2, ← rTRows_eq]
          simpa [rFac] using this
      · cases h
    · -- the empty map
      have := post_render g _ _ _ _ (post_eq h)
      simpa [rFac] using this
    · -- record, map or set
      split at h
      · next ents r' hl =>
        have e1 := listTill_sound (pEnt g n) (rEnt g) .comma .rc ihN _ _ _ hl
        split at h
        · next f0 hcl =>
          have e2 := classify_render g ents f0 hcl
          have := post_render g _ _ _ _ (post_eq h)
          rw [e1, ← this, e2]
          simp
        · cases h
      · cases h
    · -- parenthetical term or tuple
      split at h
      · next t r' hl =>
        have e1 := listTill_sound (pEx g n) (rEx g) .comma .rp ihE _ _ _ hl
        have := post_render g _ _ _ _ (post_eq h)
        rw [e1]
        simpa [rFac, rSep, rEx] using this
      · next es r' _ hl =>
        have e1 := listTill_sound (pEx g n) (rEx g) .comma .rp ihE _ _ _ hl
        have := post_render g _ _ _ _ (post_eq h)
        rw [e1, ← rExs_eq]
        simpa [rFac] using this
      · cases h
    · -- negation
      split at h
      · next f0 r' hp =>
        have e1 := ihF _ _ _ hp
        have := post_render g _ _ _ _ (post_eq h)
        rw [e1]
        simpa [rFac] using this
      · cases h
    · split at h
      · next f0 r' hp =>
        have e1 := ihF _ _ _ hp
        have := post_render g _ _ _ _ (post_eq h)
        rw [e1]
        simpa [rFac] using this
      · cases h
    · cases h
  · intro ts ps r h
    simp only [pChain] at h
    split at h
    · obtain ⟨h1, h2⟩ := Prod.mk.inj (Option.some.inj h); subst h1; subst h2
      exact ⟨rfl, fun x hx => by cases hx⟩
    · next t r0 =>
      split at h
      · obtain ⟨h1, h2⟩ := Prod.mk.inj (Option.some.inj h); subst h1; subst h2
        exact ⟨rfl, fun x hx => by cases hx⟩
      · next o hb =>
        split at h
        · cases h
        · next f r1 hp =>
          split at h
          · cases h
          · next ps' r2 hc =>
            obtain ⟨h1, h2⟩ := Prod.mk.inj (Option.some.inj h); subst h1; subst h2
            have e1 := ihF _ _ _ hp
            have e2 := ihC _ _ _ hc
            have e3 := binOp_some g t o hb
            refine ⟨?_, ?_⟩
            · rw [e1, e2.1, e3.1]; simp [rRest]
            · intro x hx
              cases hx with
              | head => exact e3.2
              | tail _ hx => exact e2.2 x hx
  · intro ts t r h
    simp only [pForm] at h
    split at h
    · cases h
    · next a r0 hp =>
      split at h
      · cases h
      · next ps r' hc =>
        split at h
        · next he =>
          obtain ⟨h1, h2⟩ := Prod.mk.inj (Option.some.inj h); subst h1; subst h2
          have e1 := ihF _ _ _ hp
          have e2 := ihC _ _ _ hc
          have hin := parse_inorder g.N a ps e2.2
          have hnil : (parseFormula g.N a ps).2 = [] := List.isEmpty_iff.mp he
          have htail : (parseFormula g.N a ps).1.tail = ps := by
            have := hin.2; rw [hnil, List.append_nil] at this; exact this.symm
          rw [rTrm_flat, hin.1, htail, e1, e2.1, List.append_assoc]
        · cases h
  · intro ts e r h
    simp only [pEx] at h
    split at h
    · cases h
    · next a i1 r0 hp =>
      have e1 := ihT _ _ _ hp
      split at h
      · cases h
      · next b i2 r1 hp2 =>
        have e2 := ihT _ _ _ hp2
        split at h
        · cases h
        · next c r2 hp3 =>
          have e3 := ihT _ _ _ hp3
          obtain ⟨h1, h2⟩ := Prod.mk.inj (Option.some.inj h); subst h1; subst h2
          rw [e1, e2, e3]; simp [rEx]
      · next b r1 _ hp2 =>
        have e2 := ihT _ _ _ hp2
        obtain ⟨h1, h2⟩ := Prod.mk.inj (Option.some.inj h); subst h1; subst h2
        rw [e1, e2]; simp [rEx]
    · next a r0 _ hp =>
      have e1 := ihT _ _ _ hp
      obtain ⟨h1, h2⟩ := Prod.mk.inj (Option.some.inj h); subst h1; subst h2
      rw [e1]; simp [rEx]
  · intro ts s r h
    simp only [pSub] at h
    split at h
    · obtain ⟨h1, h2⟩ := Prod.mk.inj (Option.some.inj h); subst h1; subst h2
      simp [rSub]
    · split at h
      · next e r0 hp =>
        have e1 := ihE _ _ _ hp
        obtain ⟨h1, h2⟩ := Prod.mk.inj (Option.some.inj h); subst h1; subst h2
        rw [e1]; simp [rSub]
      · cases h
  · intro ts a r h
    simp only [pArg] at h
    split at h
    · split at h
      · next e r0 hp =>
        have e1 := ihE _ _ _ hp
        obtain ⟨h1, h2⟩ := Prod.mk.inj (Option.some.inj h); subst h1; subst h2
        rw [e1]; simp [rArg]
      · cases h
    · split at h
      · next e r0 hp =>
        have e1 := ihE _ _ _ hp
        obtain ⟨h1, h2⟩ := Prod.mk.inj (Option.some.inj h); subst h1; subst h2
        rw [e1]; simp [rArg]
      · cases h
  · intro ts a r h
    simp only [pEnt] at h
    split at h
    · split at h
      · next e r0 hp =>
        have e1 := ihE _ _ _ hp
        obtain ⟨h1, h2⟩ := Prod.mk.inj (Option.some.inj h); subst h1; subst h2
        rw [e1]; simp [rEnt]
      · cases h
    · split at h
      · next e r0 hp =>
        have e1 := ihE _ _ _ hp
        obtain ⟨h1, h2⟩ := Prod.mk.inj (Option.some.inj h); subst h1; subst h2
        rw [e1]; simp [rEnt]
      · cases h
    · split at h
      · next a0 r0 hp =>
        have e1 := ihE _ _ _ hp
        split at h
        · next b r1 hp2 =>
          have e2 := ihE _ _ _ hp2
          obtain ⟨h1, h2⟩ := Prod.mk.inj (Option.some.inj h); subst h1; subst h2
          rw [e1, e2]; simp [rEnt]
        · cases h
      · next a0 r0 _ hp =>
        have e1 := ihE _ _ _ hp
        obtain ⟨h1, h2⟩ := Prod.mk.inj (Option.some.inj h); subst h1; subst h2
        rw [e1]; simp [rEnt]
      · cases h
  · intro ts s r h
    simp only [pSel] at h
    split at h
    · split at h
      · next subs r' hl =>
        have e1 := (sepBy_sound (pSub g n) (rSub g) .comma ihS _ _ _ _ hl).1
        obtain ⟨h1, h2⟩ := Prod.mk.inj (Option.some.inj h); subst h1; subst h2
        rw [e1, ← rSubs_eq]; simp [rSel]
      · cases h
    · split at h
      · next subs r' hl =>
        have e1 := (sepBy_sound (pSub g n) (rSub g) .comma ihS _ _ _ _ hl).1
        obtain ⟨h1, h2⟩ := Prod.mk.inj (Option.some.inj h); subst h1; subst h2
        rw [e1, ← rSubs_eq]; simp [rSel]
      · cases h
    · split at h
      · next ys r' hl =>
        have e1 := (sepBy_sound pName (fun z => [Tok.id z]) .swz pName_sound _ _ _ _ hl).1
        obtain ⟨h1, h2⟩ := Prod.mk.inj (Option.some.inj h); subst h1; subst h2
        rw [e1]; simp [rSel]
      · cases h
    · obtain ⟨h1, h2⟩ := Prod.mk.inj (Option.some.inj h); subst h1; subst h2
      simp [rSel]
    · obtain ⟨h1, h2⟩ := Prod.mk.inj (Option.some.inj h); subst h1; subst h2
      simp [rSel]
    · cases h

theorem pr_all (g : Gram) : ∀ n, PR g n
  | 0 => ⟨fun _ _ _ h => by simp [pFac] at h, fun _ _ _ h => by simp [pChain] at h, fun _ _ _ h => by simp [pForm] at h,
          fun _ _ _ h => by simp [pEx] at h, fun _ _ _ h => by simp [pSub] at h, fun _ _ _ h => by simp [pArg] at h,
          fun _ _ _ h => by simp [pEnt] at h, fun _ _ _ h => by simp [pSel] at h⟩
  | n + 1 => pr_step g n (pr_all g n)

/-- whatever its operands are, the tree `formula` returns is the documented grouping of the flat
    sequence of operands and operators it read -/
theorem pForm_wellgrouped (g : Gram) (n : Nat) (ts : List Tok) (t : Trm) (r : List Tok)
    (h : pForm g n ts = some (t, r)) : WellGrouped t ∧ OpsIn g.N t.tail := by
  cases n with
  | zero => simp [pForm] at h
  | succ n =>
    simp only [pForm] at h
    split at h
    · cases h
    · next a r0 hp =>
      split at h
      · cases h
      · next ps r' hc =>
        split at h
        · next he =>
          obtain ⟨h1, h2⟩ := Prod.mk.inj (Option.some.inj h); subst h1; subst h2
          have hops := ((pr_all g n).2.1 _ _ _ hc).2
          have hwg := parse_wellgrouped g.N a ps hops
          have hin := parse_inorder g.N a ps hops
          have hnil : (parseFormula g.N a ps).2 = [] := List.isEmpty_iff.mp he
          have htail : (parseFormula g.N a ps).1.tail = ps := by
            have := hin.2; rw [hnil, List.append_nil] at this; exact this.symm
          exact ⟨hwg, by rw [htail]; exact hops⟩
        · cases h

/-! statements and programs -/

theorem pTarget_sound (g : Gram) (n : Nat) (ts : List Tok) (x : Nat) (sels : List (Sel Fac)) (r : List Tok)
    (h : pTarget g n ts = some (x, sels, r)) : ts = rTarget g x sels ++ r := by
  unfold pTarget at h
  split at h
  · next x' r0 =>
    simp only [Option.some.injEq, Prod.mk.injEq] at h
    obtain ⟨h1, h2, h3⟩ := h; subst h1
    have e1 := many_sound (pSel g n) (rSel g) (pr_all g n).2.2.2.2.2.2.2 r0.length r0 sels r (by rw [← h2, ← h3])
    rw [e1, rTarget, rSels_eq]; rfl
  · cases h

theorem pDefine_sound (g : Gram) (n : Nat) (mu : Bool) (ts : List Tok) (s : Stmt) (r : List Tok)
    (h : pDefine g n mu ts = some (s, r)) : (if mu then [Tok.tilde] else []) ++ ts = rStmt g s ++ r := by
  unfold pDefine at h
  split at h
  · split at h
    · next e r' hp =>
      have e1 := (pr_all g n).2.2.2.1 _ _ _ hp
      obtain ⟨h1, h2⟩ := Prod.mk.inj (Option.some.inj h); subst h1; subst h2
      rw [e1]; simp [rStmt]
    · cases h
  · split at h
    · next e r' hp =>
      have e1 := (pr_all g n).2.2.2.1 _ _ _ hp
      obtain ⟨h1, h2⟩ := Prod.mk.inj (Option.some.inj h); subst h1; subst h2
      rw [e1]; simp [rStmt]
    · cases h
  · cases h

theorem pStmt_sound (g : Gram) (n : Nat) (ts : List Tok) (s : Stmt) (r : List Tok)
    (h : pStmt g n ts = some (s, r)) : ts = rStmt g s ++ r := by
  unfold pStmt at h
  split at h
  · next r0 => simpa using pDefine_sound g n true _ _ _ h
  · split at h
    · next res hd =>
      obtain ⟨s', r'⟩ := res
      obtain ⟨h1, h2⟩ := Prod.mk.inj (Option.some.inj h); subst h1; subst h2
      simpa using pDefine_sound g n false _ _ _ hd
    · split at h
      · next x subs r0 ht =>
        have e0 := pTarget_sound g n _ _ _ _ ht
        split at h
        · next e r' hp =>
          have e1 := (pr_all g n).2.2.2.1 _ _ _ hp
          obtain ⟨h1, h2⟩ := Prod.mk.inj (Option.some.inj h); subst h1; subst h2
          rw [e0, e1]; simp [rStmt]
        · cases h
      · next x subs k r0 ht =>
        have e0 := pTarget_sound g n _ _ _ _ ht
        split at h
        · next e r' hp =>
          have e1 := (pr_all g n).2.2.2.1 _ _ _ hp
          obtain ⟨h1, h2⟩ := Prod.mk.inj (Option.some.inj h); subst h1; subst h2
          rw [e0, e1]; simp [rStmt]
        · cases h
      · cases h

theorem pProg_sound (g : Gram) (n : Nat) (ts : List Tok) (ss : List Stmt) (h : pProg g n ts = some ss) : ts = rProg g ss := by
  unfold pProg at h
  split at h
  · next ss' hs =>
    have := (sepBy_sound (pStmt g n) (rStmt g) .nl (pStmt_sound g n) _ _ _ _ hs).1
    cases h
    simpa [rProg] using this
  · cases h

/-! ### part 2: the rendering of a canonical tree is read back as that tree -/

def Fac.isBase : Fac → Bool
  | .neg _ => false
  | .not _ => false
  | .tr _ => false
  | _ => true

/-- operands that end with a table literal: what follows them must not start another row -/
def Fac.open : Fac → Bool
  | .tbl _ _ => true
  | .neg f => f.open
  | .not f => f.open
  | _ => false

/-- the last operand of a flat formula -/
def lastOp : Fac → Rest Fac → Fac
  | f, [] => f
  | _, (_, f') :: ps => lastOp f' ps

def Ex.lastOpen : Exp → Bool
  | .form t => (lastOp t.first t.tail).open
  | .range _ _ b => (lastOp b.first b.tail).open
  | .range3 _ _ _ _ b => (lastOp b.first b.tail).open

mutual
/-- canonical factors: inside parentheses and list elements the documented grouping; rows of a
    matrix and subscript lists are not empty; a one-element tuple is not a single formula (that is a
    parenthetical term); a transposed factor is not itself prefixed or transposed; a record has a binding, not
    every key of a map is a bare name; a table has a field and a row, a row has a cell and no cell ends with a
    table; an operand that ends with a table is not followed by the subtraction sign -/
def okF (g : Gram) : Fac → Prop
  | .lit _ => True
  | .var _ => True
  | .call _ args => okArgs g args
  | .mat rows => okRows g rows
  | .tup es => okEs g es ∧ (∀ t, es ≠ [.form t])
  | .set es => okEs g es
  | .recd bs => bs ≠ [] ∧ okBinds g bs
  | .map ms => okMaps g ms ∧ (ms ≠ [] → allBind (ms.map entM) = none)
  | .tbl hdr rows => hdr ≠ [] ∧ rows ≠ [] ∧ okTRows g rows
  | .slice _ sels => sels ≠ [] ∧ okSels g sels
  | .paren t => WellGrouped t ∧ OpsIn g.N t.tail ∧ okL g t
  | .neg f => okF g f
  | .not f => okF g f
  | .tr f => f.isBase = true ∧ okF g f
def okL (g : Gram) : Trm → Prop
  | .leaf f => okF g f
  | .node l o r => okL g l ∧ okL g r ∧ ((lastOp l.first l.tail).open = true → o ≠ g.sub)
def okE (g : Gram) : Exp → Prop
  | .form t => WellGrouped t ∧ OpsIn g.N t.tail ∧ okL g t
  | .range a _ b => (WellGrouped a ∧ OpsIn g.N a.tail ∧ okL g a) ∧ (WellGrouped b ∧ OpsIn g.N b.tail ∧ okL g b)
  | .range3 a _ s _ b => (WellGrouped a ∧ OpsIn g.N a.tail ∧ okL g a) ∧ (WellGrouped s ∧ OpsIn g.N s.tail ∧ okL g s) ∧
      (WellGrouped b ∧ OpsIn g.N b.tail ∧ okL g b)
def okEs (g : Gram) : List Exp → Prop
  | [] => True
  | e :: es => okE g e ∧ okEs g es
def okRows (g : Gram) : List (List Exp) → Prop
  | [] => True
  | r :: rs => (r ≠ [] ∧ okEs g r) ∧ okRows g rs
def okTRows (g : Gram) : List (List Exp) → Prop
  | [] => True
  | r :: rs => (r ≠ [] ∧ okEs g r ∧ ∀ e ∈ r, e.lastOpen = false) ∧ okTRows g rs
def okSub (g : Gram) : Sub Fac → Prop
  | .all => True
  | .ex e => okE g e
def okSubs (g : Gram) : List (Sub Fac) → Prop
  | [] => True
  | s :: ss => okSub g s ∧ okSubs g ss
def okSel (g : Gram) : Sel Fac → Prop
  | .bracket ss => ss ≠ [] ∧ okSubs g ss
  | .brace ss => ss ≠ [] ∧ okSubs g ss
  | .dot _ => True
  | .dotInt _ => True
  | .swizzle _ ys => ys ≠ []
def okSels (g : Gram) : List (Sel Fac) → Prop
  | [] => True
  | s :: ss => okSel g s ∧ okSels g ss
def okArg (g : Gram) : Arg Fac → Prop
  | .pos e => okE g e
  | .named _ e => okE g e
def okArgs (g : Gram) : List (Arg Fac) → Prop
  | [] => True
  | a :: as => okArg g a ∧ okArgs g as
def okBind (g : Gram) : Bind Fac → Prop
  | .mk _ _ e => okE g e
def okBinds (g : Gram) : List (Bind Fac) → Prop
  | [] => True
  | b :: bs => okBind g b ∧ okBinds g bs
def okMapping (g : Gram) : Mapping Fac → Prop
  | .mk k v => okE g k ∧ okE g v
def okMaps (g : Gram) : List (Mapping Fac) → Prop
  | [] => True
  | m :: ms => okMapping g m ∧ okMaps g ms
end

def okT (g : Gram) (t : Trm) : Prop := WellGrouped t ∧ OpsIn g.N t.tail ∧ okL g t

mutual
/-- fuel that suffices to read the rendering back -/
def costF : Fac → Nat
  | .lit _ => 1
  | .var _ => 1
  | .call _ args => 1 + costArgs args
  | .mat rows => 1 + costRows rows
  | .tup es => 1 + costEs es
  | .set es => 2 + costEs es
  | .recd bs => 1 + costBinds bs
  | .map ms => 1 + costMaps ms
  | .tbl _ rows => 1 + costRows rows
  | .slice _ sels => 1 + costSels sels
  | .paren t => 4 + costT t
  | .neg f => 1 + costF f
  | .not f => 1 + costF f
  | .tr f => 1 + costF f
def costT : Trm → Nat
  | .leaf f => 1 + costF f
  | .node l _ r => 1 + costT l + costT r
def costE : Exp → Nat
  | .form t => 3 + costT t
  | .range a _ b => 3 + costT a + costT b
  | .range3 a _ s _ b => 3 + costT a + costT s + costT b
def costEs : List Exp → Nat
  | [] => 0
  | e :: es => costE e + costEs es
def costRows : List (List Exp) → Nat
  | [] => 0
  | r :: rs => costEs r + costRows rs
def costSub : Sub Fac → Nat
  | .all => 1
  | .ex e => 1 + costE e
def costSubs : List (Sub Fac) → Nat
  | [] => 0
  | s :: ss => costSub s + costSubs ss
def costSel : Sel Fac → Nat
  | .bracket ss => 1 + costSubs ss
  | .brace ss => 1 + costSubs ss
  | .dot _ => 1
  | .dotInt _ => 1
  | .swizzle _ _ => 1
def costSels : List (Sel Fac) → Nat
  | [] => 0
  | s :: ss => costSel s + costSels ss
def costArg : Arg Fac → Nat
  | .pos e => 1 + costE e
  | .named _ e => 1 + costE e
def costArgs : List (Arg Fac) → Nat
  | [] => 0
  | a :: as => costArg a + costArgs as
def costBind : Bind Fac → Nat
  | .mk _ _ e => 1 + costE e
def costBinds : List (Bind Fac) → Nat
  | [] => 0
  | b :: bs => costBind b + costBinds bs
def costMapping : Mapping Fac → Nat
  | .mk k v => 1 + costE k + costE v
def costMaps : List (Mapping Fac) → Nat
  | [] => 0
  | m :: ms => costMapping m + costMaps ms
end

def okEnt (g : Gram) : Ent Fac → Prop
  | .plain e => okE g e
  | .keyed k v => okE g k ∧ okE g v ∧ ∀ x, k ≠ .form (.leaf (.var x))
  | .bind _ _ e => okE g e

def costEnt : Ent Fac → Nat
  | .plain e => 1 + costE e
  | .keyed k v => 1 + costE k + costE v
  | .bind _ _ e => 1 + costE e

def costR : Rest Fac → Nat
  | [] => 0
  | (_, f) :: ps => 1 + costF f + costR ps

/-! generic completeness of the list readers -/

theorem rSep_length_ge {α : Type} (r : α → List Tok) (sep : Tok) : ∀ as : List α, (∀ a ∈ as, 1 ≤ (r a).length) →
    as.length ≤ (rSep r sep as).length
  | [], _ => by simp [rSep]
  | [a], h => by have := h a (by simp); simp [rSep]; omega
  | a :: b :: as, h => by
    have ih := rSep_length_ge r sep (b :: as) (fun x hx => h x (List.mem_cons_of_mem _ hx))
    simp only [rSep, List.length_append, List.length_cons] at ih ⊢
    omega

theorem sepBy_complete {α : Type} (p : List Tok → Option (α × List Tok)) (r : α → List Tok) (sep : Tok) (rest : List Tok)
    (hrest : ∀ t r', rest = t :: r' → t ≠ sep) : ∀ (as : List α), as ≠ [] →
    (∀ a ∈ as, ∀ tail, (tail = rest ∨ ∃ x, tail = sep :: x) → p (r a ++ tail) = some (a, tail)) →
    ∀ k, as.length ≤ k → sepBy p sep k (rSep r sep as ++ rest) = some (as, rest) := by
  intro as
  induction as with
  | nil => intro h; exact absurd rfl h
  | cons a as ih =>
    intro _ hp k hk
    cases k with
    | zero => simp at hk
    | succ k =>
      cases as with
      | nil =>
        have h1 := hp a (by simp) rest (Or.inl rfl)
        simp only [rSep, sepBy, h1]
        cases rest with
        | nil => rfl
        | cons t r' => simp [hrest t r' rfl]
      | cons b bs =>
        have h1 := hp a (by simp) (sep :: (rSep r sep (b :: bs) ++ rest)) (Or.inr ⟨_, rfl⟩)
        have h2 := ih (by simp) (fun x hx => hp x (List.mem_cons_of_mem _ hx)) k (by simp at hk ⊢; omega)
        simp only [rSep, List.append_assoc, List.cons_append, sepBy, h1, if_true, h2]

theorem listTill_complete {α : Type} (p : List Tok → Option (α × List Tok)) (r : α → List Tok) (sep close : Tok) (rest : List Tok)
    (hsc : close ≠ sep) (as : List α)
    (hhead : ∀ a ∈ as, ∃ t r', r a = t :: r' ∧ t ≠ close)
    (hp : ∀ a ∈ as, ∀ tail, (tail = close :: rest ∨ ∃ x, tail = sep :: x) → p (r a ++ tail) = some (a, tail)) :
    listTill p sep close (rSep r sep as ++ close :: rest) = some (as, rest) := by
  cases as with
  | nil => simp [rSep, listTill]
  | cons a as =>
    have hne : ∀ b ∈ a :: as, 1 ≤ (r b).length := by
      intro b hb
      obtain ⟨t, r', e, _⟩ := hhead b hb
      rw [e]; simp
    have hlen := rSep_length_ge r sep (a :: as) hne
    have hc := sepBy_complete p r sep (close :: rest) (by intro t r' e; cases e; exact hsc) (a :: as) (by simp) hp
      (rSep r sep (a :: as) ++ close :: rest).length (by simp only [List.length_append]; omega)
    -- the first token is not the closing bracket
    obtain ⟨t, r', e, htc⟩ := hhead a (by simp)
    have hfirst : ∃ r'', rSep r sep (a :: as) ++ close :: rest = t :: r'' := by
      cases as with
      | nil => exact ⟨r' ++ close :: rest, by simp [rSep, e]⟩
      | cons b bs => exact ⟨r' ++ sep :: (rSep r sep (b :: bs) ++ close :: rest), by simp [rSep, e]⟩
    obtain ⟨r'', e2⟩ := hfirst
    unfold listTill
    rw [e2] at hc ⊢
    simp only [if_neg htc, hc, if_true]

/-! first tokens, lengths, membership forms of the list predicates -/

def Tok.isStart : Tok → Bool
  | .lit _ => true | .id _ => true | .lb => true | .lc => true | .lp => true | .dash => true | .bang => true | .bar => true
  | _ => false

theorem rFac_head (g : Gram) : ∀ f : Fac, ∃ t r, rFac g f = t :: r ∧ t.isStart = true
  | .lit _ => ⟨_, _, rfl, rfl⟩
  | .var _ => ⟨_, _, rfl, rfl⟩
  | .call f args => ⟨.id f, .lp :: (rArgs g args ++ [.rp]), by simp [rFac], rfl⟩
  | .mat rows => ⟨.lb, rRows g rows ++ [.rb], by simp [rFac], rfl⟩
  | .tup es => ⟨.lp, rExs g es ++ [.rp], by simp [rFac], rfl⟩
  | .set es => ⟨.lc, rExs g es ++ [.rc], by simp [rFac], rfl⟩
  | .recd bs => ⟨.lc, rBinds g bs ++ [.rc], by simp [rFac], rfl⟩
  | .map ms => ⟨.lc, (if ms.isEmpty then [.colon] else rMaps g ms) ++ [.rc], by simp [rFac], rfl⟩
  | .tbl hdr rows => ⟨.bar, rSep (fun f => [.id f.1, .kind f.2]) .sp hdr ++ .bar :: rTRows g rows, by simp [rFac], rfl⟩
  | .slice x sels => ⟨.id x, rSels g sels, by simp [rFac], rfl⟩
  | .paren t => ⟨.lp, rTrm g t ++ [.rp], by simp [rFac], rfl⟩
  | .neg f => ⟨.dash, rFac g f, by simp [rFac], rfl⟩
  | .not f => ⟨.bang, rFac g f, by simp [rFac], rfl⟩
  | .tr f => by
    obtain ⟨t, r, e, h⟩ := rFac_head g f
    exact ⟨t, r ++ [.quote], by simp [rFac, e], h⟩

theorem rTrm_head (g : Gram) (t : Trm) : ∃ x r, rTrm g t = x :: r ∧ x.isStart = true := by
  obtain ⟨x, r, e, h⟩ := rFac_head g t.first
  exact ⟨x, r ++ rRest g t.tail, by rw [rTrm_flat, e]; rfl, h⟩

theorem rEx_head (g : Gram) (e : Exp) : ∃ x r, rEx g e = x :: r ∧ x.isStart = true := by
  cases e with
  | form t => simpa [rEx] using rTrm_head g t
  | range a i b =>
    obtain ⟨x, r, e1, h⟩ := rTrm_head g a
    exact ⟨x, r ++ .dots i :: rTrm g b, by simp [rEx, e1], h⟩
  | range3 a i1 s i2 b =>
    obtain ⟨x, r, e1, h⟩ := rTrm_head g a
    exact ⟨x, r ++ .dots i1 :: (rTrm g s ++ .dots i2 :: rTrm g b), by simp [rEx, e1], h⟩

theorem rRow_head (g : Gram) (row : List Exp) (h : row ≠ []) : ∃ x r, rRow g row = x :: r ∧ x.isStart = true := by
  cases row with
  | nil => exact absurd rfl h
  | cons e es =>
    obtain ⟨x, r, e1, hs⟩ := rEx_head g e
    cases es with
    | nil => exact ⟨x, r, by simp [rRow, e1], hs⟩
    | cons e' es' => exact ⟨x, r ++ .sp :: rRow g (e' :: es'), by simp [rRow, e1], hs⟩

theorem okEs_mem (g : Gram) : ∀ es : List Exp, okEs g es → ∀ e ∈ es, okE g e
  | [], _, _, h => by cases h
  | e :: es, h, x, hx => by
    simp only [okEs] at h
    rcases List.mem_cons.mp hx with hx | hx
    · subst hx; exact h.1
    · exact okEs_mem g es h.2 x hx

theorem costEs_mem : ∀ es : List Exp, ∀ e ∈ es, costE e ≤ costEs es
  | [], _, h => by cases h
  | e :: es, x, hx => by
    simp only [costEs]
    rcases List.mem_cons.mp hx with hx | hx
    · subst hx; omega
    · have := costEs_mem es x hx; omega

theorem okRows_mem (g : Gram) : ∀ rs : List (List Exp), okRows g rs → ∀ r ∈ rs, r ≠ [] ∧ okEs g r
  | [], _, _, h => by cases h
  | r :: rs, h, x, hx => by
    simp only [okRows] at h
    rcases List.mem_cons.mp hx with hx | hx
    · subst hx; exact h.1
    · exact okRows_mem g rs h.2 x hx

theorem costRows_mem : ∀ rs : List (List Exp), ∀ r ∈ rs, costEs r ≤ costRows rs
  | [], _, h => by cases h
  | r :: rs, x, hx => by
    simp only [costRows]
    rcases List.mem_cons.mp hx with hx | hx
    · subst hx; omega
    · have := costRows_mem rs x hx; omega

theorem okTRows_mem (g : Gram) : ∀ rs : List (List Exp), okTRows g rs → ∀ r ∈ rs, r ≠ [] ∧ okEs g r ∧ ∀ e ∈ r, e.lastOpen = false
  | [], _, _, h => by cases h
  | r :: rs, h, x, hx => by
    simp only [okTRows] at h
    rcases List.mem_cons.mp hx with hx | hx
    · subst hx; exact h.1
    · exact okTRows_mem g rs h.2 x hx

theorem okSubs_mem (g : Gram) : ∀ ss : List (Sub Fac), okSubs g ss → ∀ s ∈ ss, okSub g s
  | [], _, _, h => by cases h
  | s :: ss, h, x, hx => by
    simp only [okSubs] at h
    rcases List.mem_cons.mp hx with hx | hx
    · subst hx; exact h.1
    · exact okSubs_mem g ss h.2 x hx

theorem costSubs_mem : ∀ ss : List (Sub Fac), ∀ s ∈ ss, costSub s ≤ costSubs ss
  | [], _, h => by cases h
  | s :: ss, x, hx => by
    simp only [costSubs]
    rcases List.mem_cons.mp hx with hx | hx
    · subst hx; omega
    · have := costSubs_mem ss x hx; omega

theorem okSels_mem (g : Gram) : ∀ ss : List (Sel Fac), okSels g ss → ∀ s ∈ ss, okSel g s
  | [], _, _, h => by cases h
  | s :: ss, h, x, hx => by
    simp only [okSels] at h
    rcases List.mem_cons.mp hx with hx | hx
    · subst hx; exact h.1
    · exact okSels_mem g ss h.2 x hx

theorem costSels_mem : ∀ ss : List (Sel Fac), ∀ s ∈ ss, costSel s ≤ costSels ss
  | [], _, h => by cases h
  | s :: ss, x, hx => by
    simp only [costSels]
    rcases List.mem_cons.mp hx with hx | hx
    · subst hx; omega
    · have := costSels_mem ss x hx; omega

theorem okArgs_mem (g : Gram) : ∀ ss : List (Arg Fac), okArgs g ss → ∀ s ∈ ss, okArg g s
  | [], _, _, h => by cases h
  | s :: ss, h, x, hx => by
    simp only [okArgs] at h
    rcases List.mem_cons.mp hx with hx | hx
    · subst hx; exact h.1
    · exact okArgs_mem g ss h.2 x hx

theorem costArgs_mem : ∀ ss : List (Arg Fac), ∀ s ∈ ss, costArg s ≤ costArgs ss
  | [], _, h => by cases h
  | s :: ss, x, hx => by
    simp only [costArgs]
    rcases List.mem_cons.mp hx with hx | hx
    · subst hx; omega
    · have := costArgs_mem ss x hx; omega

theorem okBinds_mem (g : Gram) : ∀ ss : List (Bind Fac), okBinds g ss → ∀ s ∈ ss, okBind g s
  | [], _, _, h => by cases h
  | s :: ss, h, x, hx => by
    simp only [okBinds] at h
    rcases List.mem_cons.mp hx with hx | hx
    · subst hx; exact h.1
    · exact okBinds_mem g ss h.2 x hx

theorem costBinds_mem : ∀ ss : List (Bind Fac), ∀ s ∈ ss, costBind s ≤ costBinds ss
  | [], _, h => by cases h
  | s :: ss, x, hx => by
    simp only [costBinds]
    rcases List.mem_cons.mp hx with hx | hx
    · subst hx; omega
    · have := costBinds_mem ss x hx; omega

theorem okMaps_mem (g : Gram) : ∀ ss : List (Mapping Fac), okMaps g ss → ∀ s ∈ ss, okMapping g s
  | [], _, _, h => by cases h
  | s :: ss, h, x, hx => by
    simp only [okMaps] at h
    rcases List.mem_cons.mp hx with hx | hx
    · subst hx; exact h.1
    · exact okMaps_mem g ss h.2 x hx

theorem costMaps_mem : ∀ ss : List (Mapping Fac), ∀ s ∈ ss, costMapping s ≤ costMaps ss
  | [], _, h => by cases h
  | s :: ss, x, hx => by
    simp only [costMaps]
    rcases List.mem_cons.mp hx with hx | hx
    · subst hx; omega
    · have := costMaps_mem ss x hx; omega

theorem costR_append (a b : Rest Fac) : costR (a ++ b) = costR a + costR b := by
  induction a with
  | nil => simp [costR]
  | cons x a ih => obtain ⟨o, f⟩ := x; simp only [List.cons_append, costR, ih]; omega

theorem cost_first_tail : ∀ t : Trm, costF t.first + costR t.tail ≤ costT t
  | .leaf f => by simp [Tree.first, Tree.tail, costR, costT]
  | .node l o r => by
    have hl := cost_first_tail l
    have hr := cost_first_tail r
    simp only [Tree.first, Tree.tail, costR_append, costR, costT]
    omega

theorem okL_parts (g : Gram) : ∀ t : Trm, okL g t → okF g t.first ∧ ∀ p ∈ t.tail, okF g p.2
  | .leaf f, h => by
    refine ⟨by simpa [okL, Tree.first] using h, ?_⟩
    intro p hp; simp [Tree.tail] at hp
  | .node l o r, h => by
    simp only [okL] at h
    have hl := okL_parts g l h.1
    have hr := okL_parts g r h.2.1
    refine ⟨hl.1, ?_⟩
    intro p hp
    simp only [Tree.tail, List.mem_append, List.mem_cons] at hp
    rcases hp with hp | hp | hp
    · exact hl.2 p hp
    · subst hp; exact hr.1
    · exact hr.2 p hp

/-- in a flat formula no operand that ends with a table is followed by the subtraction sign -/
def chainOk (g : Gram) : Fac → Rest Fac → Prop
  | _, [] => True
  | f, (o, f') :: ps => (f.open = true → o ≠ g.sub) ∧ chainOk g f' ps

theorem lastOp_append : ∀ (ps : Rest Fac) (f : Fac) (o : Op) (f' : Fac) (qs : Rest Fac),
    lastOp f (ps ++ (o, f') :: qs) = lastOp f' qs
  | [], f, o, f', qs => by simp [lastOp]
  | (o1, f1) :: ps, f, o, f', qs => by simp only [List.cons_append, lastOp]; exact lastOp_append ps f1 o f' qs

theorem chainOk_append (g : Gram) : ∀ (ps : Rest Fac) (f : Fac) (o : Op) (f' : Fac) (qs : Rest Fac),
    chainOk g f ps → ((lastOp f ps).open = true → o ≠ g.sub) → chainOk g f' qs → chainOk g f (ps ++ (o, f') :: qs)
  | [], f, o, f', qs, _, h2, h3 => by simp only [List.nil_append, chainOk]; exact ⟨by simpa [lastOp] using h2, h3⟩
  | (o1, f1) :: ps, f, o, f', qs, h1, h2, h3 => by
    simp only [List.cons_append, chainOk] at h1 ⊢
    exact ⟨h1.1, chainOk_append g ps f1 o f' qs h1.2 (by simpa [lastOp] using h2) h3⟩

theorem okL_chain (g : Gram) : ∀ t : Trm, okL g t → chainOk g t.first t.tail
  | .leaf f, _ => by simp [Tree.tail, chainOk]
  | .node l o r, h => by
    simp only [okL] at h
    simp only [Tree.first, Tree.tail]
    exact chainOk_append g l.tail l.first o r.first r.tail (okL_chain g l h.1) h.2.2 (okL_chain g r h.2.1)

theorem lastOp_node (l : Trm) (o : Op) (r : Trm) :
    lastOp (Tree.node l o r).first (Tree.node l o r).tail = lastOp r.first r.tail := by
  simp only [Tree.first, Tree.tail, lastOp_append]

/-- what may follow an operand that ends with a table: not a token that starts an operand -/
def NoStart (rest : List Tok) : Prop := ∀ t r, rest = t :: r → t.isStart = false

/-- the tokens that apply to the name before them: the bracket of a call, a subscript bracket or brace, the dot of a
    field access, the comma of a swizzle -/
def Tok.isApp : Tok → Bool
  | .lp => true | .lb => true | .lc => true | .dot => true | .swz => true
  | _ => false

/-- what may follow a formula: nothing, or a token that continues neither an operand (transpose
    mark, call bracket, subscript) nor the chain of operators -/
def NoCont (g : Gram) (rest : List Tok) : Prop :=
  ∀ t r, rest = t :: r → g.binOp? t = none ∧ t ≠ .quote ∧ t.isApp = false

/-- what may follow an expression that does not end with a table: as for a formula, and not a range operator -/
def NoContW (g : Gram) (rest : List Tok) : Prop :=
  ∀ t r, rest = t :: r → g.binOp? t = none ∧ t ≠ .quote ∧ t.isApp = false ∧ ∀ i, t ≠ .dots i

/-- what may follow any expression: moreover not a token that starts an operand -/
def NoContE (g : Gram) (rest : List Tok) : Prop := NoContW g rest ∧ NoStart rest

/-- what may follow an operand -/
def NoApp (rest : List Tok) : Prop := ∀ t r, rest = t :: r → t.isApp = false

theorem NoContW.noCont {g : Gram} {rest : List Tok} (h : NoContW g rest) : NoCont g rest :=
  fun t r e => let ⟨a, b, c, _⟩ := h t r e; ⟨a, b, c⟩

theorem binOp_opTok (g : Gram) (o : Op) (ho : 1 ≤ o.lvl ∧ o.lvl ≤ g.N) : g.binOp? (g.opTok o) = some o := by
  have hl : g.lvlOk o = true := by simp [Gram.lvlOk, ho.1, ho.2]
  unfold Gram.opTok
  split
  · next h => subst h; simp [Gram.binOp?, hl]
  · next h => simp [Gram.binOp?, hl, h]

theorem opTok_cases (g : Gram) (o : Op) : g.opTok o = .dash ∨ g.opTok o = .op o := by
  unfold Gram.opTok; split <;> simp

/-- what follows an operand inside a rendering neither transposes nor applies it -/
theorem head_rRest (g : Gram) (ps : Rest Fac) (rest : List Tok) (h : NoCont g rest) :
    ∀ t r, rRest g ps ++ rest = t :: r → t ≠ .quote ∧ t.isApp = false := by
  intro t r e
  cases ps with
  | nil => simp only [rRest, List.nil_append] at e; exact (h t r e).2
  | cons x ps =>
    obtain ⟨o, f⟩ := x
    simp only [rRest, List.cons_append] at e
    have : t = g.opTok o := (List.cons.inj e).1.symm
    rw [this]
    rcases opTok_cases g o with h' | h' <;> rw [h'] <;> simp [Tok.isApp]

theorem post_noquote (f : Fac) (rest : List Tok) (h : ∀ t r, rest = t :: r → t ≠ .quote) : post f rest = (f, rest) := by
  cases rest with
  | nil => rfl
  | cons t r =>
    cases t <;> first | rfl | exact absurd rfl (h _ _ rfl)

def Tok.isStop : Tok → Bool
  | .rp => true | .rb => true | .rc => true | .comma => true | .semi => true | .sp => true | .nl => true
  | _ => false

theorem noContE_stop (g : Gram) (c : Tok) (x : List Tok) (h : c.isStop = true) : NoContE g (c :: x) := by
  constructor
  · intro t r e
    have : t = c := (List.cons.inj e).1.symm
    subst this
    cases t <;> simp [Tok.isStop] at h <;> simp [Gram.binOp?, Tok.isApp]
  · intro t r e
    have : t = c := (List.cons.inj e).1.symm
    subst this
    cases t <;> simp [Tok.isStop] at h <;> rfl

theorem noContE_nil (g : Gram) : NoContE g [] := by
  constructor <;> (intro t r e; cases e)

theorem noContW_bar (g : Gram) (x : List Tok) : NoContW g (.bar :: x) := by
  intro t r e
  have : t = .bar := (List.cons.inj e).1.symm
  subst this
  simp [Gram.binOp?, Tok.isApp]

theorem isStart_ne (t : Tok) (h : t.isStart = true) : t ≠ .rp ∧ t ≠ .rb ∧ t ≠ .rc ∧ t ≠ .colon := by
  cases t <;> simp [Tok.isStart] at h <;> simp

/-- the first token of a subscript -/
theorem rSel_head (g : Gram) (s : Sel Fac) : ∃ t r, rSel g s = t :: r ∧ (t = .lb ∨ t = .lc ∨ t = .dot) := by
  cases s with
  | bracket ss => exact ⟨.lb, rSubs g ss ++ [.rb], by simp [rSel], Or.inl rfl⟩
  | brace ss => exact ⟨.lc, rSubs g ss ++ [.rc], by simp [rSel], Or.inr (Or.inl rfl)⟩
  | dot y => exact ⟨.dot, [.id y], by simp [rSel], Or.inr (Or.inr rfl)⟩
  | dotInt k => exact ⟨.dot, [.lit k], by simp [rSel], Or.inr (Or.inr rfl)⟩
  | swizzle y ys => exact ⟨.dot, .id y :: .swz :: rSep (fun z => [.id z]) .swz ys, by simp [rSel], Or.inr (Or.inr rfl)⟩

theorem rSels_head (g : Gram) (s : Sel Fac) (ss : List (Sel Fac)) (rest : List Tok) :
    ∃ t r, rSels g (s :: ss) ++ rest = t :: r ∧ (t = .lb ∨ t = .lc ∨ t = .dot) := by
  obtain ⟨t, r, e, h⟩ := rSel_head g s
  exact ⟨t, r ++ (rSels g ss ++ rest), by simp [rSels, e], h⟩

/-! names followed by a colon or a kind annotation: only a bare name renders like that -/

def Tok.isKey : Tok → Bool
  | .colon => true | .kind _ => true | _ => false

theorem opTok_notKey (g : Gram) (o : Op) : (g.opTok o).isKey = false := by
  rcases opTok_cases g o with h | h <;> rw [h] <;> rfl

/-- a canonical operand whose rendering, followed by `rest`, starts with a name and then a colon or a kind
    annotation is that bare name (the colon or annotation belongs to `rest`) -/
theorem rFac_key (g : Gram) : ∀ (f : Fac) (rest : List Tok) (x : Nat) (t : Tok) (r' : List Tok), okF g f →
    rFac g f ++ rest = .id x :: t :: r' → t.isKey = true → f = .var x ∧ rest = t :: r'
  | .lit _, rest, x, t, r', _, h, _ => by simp [rFac] at h
  | .var y, rest, x, t, r', _, h, _ => by
    simp only [rFac, List.cons_append, List.nil_append, List.cons.injEq, Tok.id.injEq] at h
    exact ⟨by rw [h.1], h.2⟩
  | .call _ _, rest, x, t, r', _, h, hk => by
    simp only [rFac, List.cons_append, List.cons.injEq] at h
    obtain ⟨_, h2, _⟩ := h; subst h2; simp [Tok.isKey] at hk
  | .slice _ sels, rest, x, t, r', hok, h, hk => by
    simp only [okF] at hok
    cases sels with
    | nil => exact absurd rfl hok.1
    | cons s ss =>
      obtain ⟨t0, r0, e0, ht0⟩ := rSels_head g s ss rest
      simp only [rFac, List.cons_append, e0, List.cons.injEq] at h
      obtain ⟨_, h2, _⟩ := h; subst h2
      rcases ht0 with h' | h' | h' <;> subst h' <;> simp [Tok.isKey] at hk
  | .mat _, rest, x, t, r', _, h, _ => by simp [rFac] at h
  | .tup _, rest, x, t, r', _, h, _ => by simp [rFac] at h
  | .set _, rest, x, t, r', _, h, _ => by simp [rFac] at h
  | .recd _, rest, x, t, r', _, h, _ => by simp [rFac] at h
  | .map _, rest, x, t, r', _, h, _ => by simp [rFac] at h
  | .paren _, rest, x, t, r', _, h, _ => by simp [rFac] at h
  | .neg _, rest, x, t, r', _, h, _ => by simp [rFac] at h
  | .not _, rest, x, t, r', _, h, _ => by simp [rFac] at h
  | .tr f, rest, x, t, r', hok, h, hk => by
    simp only [okF] at hok
    have h' : rFac g f ++ (.quote :: rest) = .id x :: t :: r' := by simpa [rFac] using h
    obtain ⟨_, h2⟩ := rFac_key g f (.quote :: rest) x t r' hok.2 h' hk
    have : t = .quote := (List.cons.inj h2).1.symm
    subst this; simp [Tok.isKey] at hk

theorem tail_nil_leaf : ∀ t : Trm, t.tail = [] → t = .leaf t.first
  | .leaf f, _ => rfl
  | .node l o r, h => by simp [Tree.tail] at h

theorem rTrm_key (g : Gram) (t : Trm) (rest : List Tok) (x : Nat) (tk : Tok) (r' : List Tok) (hok : okL g t)
    (h : rTrm g t ++ rest = .id x :: tk :: r') (hk : tk.isKey = true) : t = .leaf (.var x) ∧ rest = tk :: r' := by
  rw [rTrm_flat, List.append_assoc] at h
  obtain ⟨h1, h2⟩ := rFac_key g t.first _ x tk r' (okL_parts g t hok).1 h hk
  cases htl : t.tail with
  | nil =>
    rw [htl] at h2; simp only [rRest, List.nil_append] at h2
    exact ⟨by rw [tail_nil_leaf t htl, h1], h2⟩
  | cons p ps =>
    obtain ⟨o, f⟩ := p
    rw [htl] at h2; simp only [rRest, List.cons_append] at h2
    have : tk = g.opTok o := (List.cons.inj h2).1.symm
    rw [this, opTok_notKey] at hk; cases hk

theorem rEx_key (g : Gram) (e : Exp) (rest : List Tok) (x : Nat) (tk : Tok) (r' : List Tok) (hok : okE g e)
    (h : rEx g e ++ rest = .id x :: tk :: r') (hk : tk.isKey = true) : e = .form (.leaf (.var x)) ∧ rest = tk :: r' := by
  cases e with
  | form t =>
    simp only [rEx] at h; simp only [okE] at hok
    obtain ⟨h1, h2⟩ := rTrm_key g t rest x tk r' hok.2.2 h hk
    exact ⟨by rw [h1], h2⟩
  | range a i b =>
    simp only [rEx, List.append_assoc, List.cons_append] at h; simp only [okE] at hok
    obtain ⟨_, h2⟩ := rTrm_key g a _ x tk r' hok.1.2.2 h hk
    have : tk = .dots i := (List.cons.inj h2).1.symm
    subst this; simp [Tok.isKey] at hk
  | range3 a i1 s i2 b =>
    simp only [rEx, List.append_assoc, List.cons_append] at h; simp only [okE] at hok
    obtain ⟨_, h2⟩ := rTrm_key g a _ x tk r' hok.1.2.2 h hk
    have : tk = .dots i1 := (List.cons.inj h2).1.symm
    subst this; simp [Tok.isKey] at hk

/-- what may follow a subscript: not the comma of a swizzle -/
def NoSwz (rest : List Tok) : Prop := ∀ t r, rest = t :: r → t ≠ .swz

/-- what follows an element of a list: a separator or a closing bracket -/
def StopHead (rest : List Tok) : Prop := ∃ c x, rest = c :: x ∧ c.isStop = true

theorem noContE_colon (g : Gram) (x : List Tok) : NoContE g (.colon :: x) := by
  constructor
  · intro t r e
    have : t = .colon := (List.cons.inj e).1.symm
    subst this
    simp [Gram.binOp?, Tok.isApp]
  · intro t r e
    have : t = .colon := (List.cons.inj e).1.symm
    subst this
    rfl

/-- the chain after an operand: the condition of `chainOk` from its first operand on -/
def chainOkR (g : Gram) : Rest Fac → Prop
  | [] => True
  | (_, f) :: ps => chainOk g f ps

def lastOpenR : Rest Fac → Bool
  | [] => false
  | (_, f) :: ps => (lastOp f ps).open

/-- an expression is read back before anything that does not continue it; when it ends with a table, what follows
    must moreover not start an operand (it would be read as another row) -/
def EClaim (g : Gram) (n : Nat) : Prop :=
  ∀ e, costE e ≤ n → okE g e → ∀ rest, NoContW g rest → (e.lastOpen = true → NoStart rest) →
    pEx g n (rEx g e ++ rest) = some (e, rest)

theorem EClaim.strong {g : Gram} {n : Nat} (h : EClaim g n) :
    ∀ e, costE e ≤ n → okE g e → ∀ rest, NoContE g rest → pEx g n (rEx g e ++ rest) = some (e, rest) :=
  fun e hc hok rest hr => h e hc hok rest hr.1 (fun _ => hr.2)

/-- what follows an operand inside a flat formula is acceptable after a table -/
theorem follow_open (g : Gram) (f : Fac) (ps : Rest Fac) (rest : List Tok) (hch : chainOk g f ps)
    (hlast : (lastOp f ps).open = true → NoStart rest) : f.open = true → NoStart (rRest g ps ++ rest) := by
  intro ho
  cases ps with
  | nil => simpa [rRest, lastOp] using hlast ho
  | cons p ps =>
    obtain ⟨o, f'⟩ := p
    simp only [chainOk] at hch
    have hne := hch.1 ho
    intro t r e
    simp only [rRest, List.cons_append] at e
    have : t = g.opTok o := (List.cons.inj e).1.symm
    subst this
    simp [Gram.opTok, hne, Tok.isStart]

theorem chainOkR_of (g : Gram) (f : Fac) (ps : Rest Fac) (h : chainOk g f ps) : chainOkR g ps := by
  cases ps with
  | nil => trivial
  | cons p ps => obtain ⟨o, f'⟩ := p; exact h.2

theorem lastOpenR_of (f : Fac) (ps : Rest Fac) (h : lastOpenR ps = true) : (lastOp f ps).open = true := by
  cases ps with
  | nil => simp [lastOpenR] at h
  | cons p ps => obtain ⟨o, f'⟩ := p; simpa [lastOpenR, lastOp] using h

/-- the eight claims for fuel `n` -/
def RT (g : Gram) (n : Nat) : Prop :=
  (∀ f, costF f ≤ n → okF g f → ∀ rest, (∀ t r, rest = t :: r → t ≠ .quote ∧ t.isApp = false) →
      (f.open = true → NoStart rest) → pFac g n (rFac g f ++ rest) = some (f, rest)) ∧
  (∀ ps, costR ps + 1 ≤ n → OpsIn g.N ps → (∀ p ∈ ps, okF g p.2) → chainOkR g ps → ∀ rest, NoCont g rest →
      (lastOpenR ps = true → NoStart rest) → pChain g n (rRest g ps ++ rest) = some (ps, rest)) ∧
  (∀ t, costT t + 2 ≤ n → okT g t → ∀ rest, NoCont g rest → ((lastOp t.first t.tail).open = true → NoStart rest) →
      pForm g n (rTrm g t ++ rest) = some (t, rest)) ∧
  EClaim g n ∧
  (∀ s, costSub s ≤ n → okSub g s → ∀ rest, NoContE g rest → pSub g n (rSub g s ++ rest) = some (s, rest)) ∧
  (∀ a, costArg a ≤ n → okArg g a → ∀ rest, StopHead rest → pArg g n (rArg g a ++ rest) = some (a, rest)) ∧
  (∀ a, costEnt a ≤ n → okEnt g a → ∀ rest, StopHead rest → pEnt g n (rEnt g a ++ rest) = some (a, rest)) ∧
  (∀ s, costSel s ≤ n → okSel g s → ∀ rest, NoSwz rest → pSel g n (rSel g s ++ rest) = some (s, rest))

/-- a list of expressions between brackets is read back -/
theorem exList_complete (g : Gram) (n : Nat)
    (ihE : ∀ e, costE e ≤ n → okE g e → ∀ rest, NoContE g rest → pEx g n (rEx g e ++ rest) = some (e, rest))
    (close : Tok) (hc : close = .rp ∨ close = .rc) (es : List Exp) (hcost : costEs es ≤ n) (hok : okEs g es) (rest : List Tok) :
    listTill (pEx g n) .comma close (rExs g es ++ close :: rest) = some (es, rest) := by
  rw [rExs_eq]
  apply listTill_complete
  · rcases hc with h | h <;> subst h <;> decide
  · intro a ha
    obtain ⟨t, r', e, hs⟩ := rEx_head g a
    have := isStart_ne t hs
    exact ⟨t, r', e, by rcases hc with h | h <;> subst h <;> simp [this]⟩
  · intro a ha tail htail
    apply ihE a (Nat.le_trans (costEs_mem es a ha) hcost) (okEs_mem g es hok a ha)
    rcases htail with h | ⟨x, h⟩
    · subst h; exact noContE_stop g _ _ (by rcases hc with h | h <;> subst h <;> rfl)
    · subst h; exact noContE_stop g _ _ rfl

/-- the arguments of a call are read back -/
theorem argList_complete (g : Gram) (n : Nat)
    (ihA : ∀ a, costArg a ≤ n → okArg g a → ∀ rest, StopHead rest → pArg g n (rArg g a ++ rest) = some (a, rest))
    (args : List (Arg Fac)) (hcost : costArgs args ≤ n) (hok : okArgs g args) (rest : List Tok) :
    listTill (pArg g n) .comma .rp (rArgs g args ++ .rp :: rest) = some (args, rest) := by
  rw [rArgs_eq]
  apply listTill_complete
  · decide
  · intro a ha
    cases a with
    | pos e =>
      obtain ⟨t, r', e1, hs⟩ := rEx_head g e
      exact ⟨t, r', by simp [rArg, e1], (isStart_ne t hs).1⟩
    | named x e => exact ⟨.id x, .colon :: rEx g e, by simp only [rArg], by simp⟩
  · intro a ha tail htail
    apply ihA a (Nat.le_trans (costArgs_mem args a ha) hcost) (okArgs_mem g args hok a ha)
    rcases htail with h | ⟨x, h⟩ <;> subst h <;> exact ⟨_, _, rfl, rfl⟩

theorem rEnt_head (g : Gram) (a : Ent Fac) : ∃ t r, rEnt g a = t :: r ∧ t.isStart = true := by
  cases a with
  | plain e => simpa [rEnt] using rEx_head g e
  | keyed k v =>
    obtain ⟨t, r', e1, hs⟩ := rEx_head g k
    exact ⟨t, r' ++ .colon :: rEx g v, by simp [rEnt, e1], hs⟩
  | bind x k e => exact ⟨.id x, (match k with | some k => [.kind k] | none => []) ++ .colon :: rEx g e, rfl, rfl⟩

/-- the entries between braces are read back -/
theorem entList_complete (g : Gram) (n : Nat)
    (ihN : ∀ a, costEnt a ≤ n → okEnt g a → ∀ rest, StopHead rest → pEnt g n (rEnt g a ++ rest) = some (a, rest))
    (ents : List (Ent Fac)) (h : ∀ a ∈ ents, costEnt a ≤ n ∧ okEnt g a) (rest : List Tok) :
    listTill (pEnt g n) .comma .rc (rSep (rEnt g) .comma ents ++ .rc :: rest) = some (ents, rest) := by
  apply listTill_complete
  · decide
  · intro a ha
    obtain ⟨t, r', e1, hs⟩ := rEnt_head g a
    exact ⟨t, r', e1, (isStart_ne t hs).2.2.1⟩
  · intro a ha tail htail
    apply ihN a (h a ha).1 (h a ha).2
    rcases htail with h | ⟨x, h⟩ <;> subst h <;> exact ⟨_, _, rfl, rfl⟩

theorem pFac_brace (g : Gram) (n : Nat) (r : List Tok) (h : ∀ r', r ≠ .colon :: .rc :: r') :
    pFac g (n + 1) (.lc :: r) = (match listTill (pEnt g n) .comma .rc r with
       | some (ents, r') => (match classify ents with | some f => some (post f r') | none => none)
       | none => none) := by
  simp only [pFac] <;> rfl

/-- a literal between braces whose entries are classified as `f` is read back as `f` -/
theorem brace_complete (g : Gram) (n : Nat)
    (ihN : ∀ a, costEnt a ≤ n → okEnt g a → ∀ rest, StopHead rest → pEnt g n (rEnt g a ++ rest) = some (a, rest))
    (ents : List (Ent Fac)) (hne : ents ≠ []) (h : ∀ a ∈ ents, costEnt a ≤ n ∧ okEnt g a) (f : Fac)
    (hcl : classify ents = some f) (rest : List Tok) :
    pFac g (n + 1) (.lc :: (rSep (rEnt g) .comma ents ++ .rc :: rest)) = some (post f rest) := by
  have hl := entList_complete g n ihN ents h rest
  rw [pFac_brace, hl]
  · simp only [hcl]
  · intro r' he
    cases ents with
    | nil => exact hne rfl
    | cons a as =>
      obtain ⟨t, r0, e1, hs⟩ := rEnt_head g a
      have : ∃ r1, rSep (rEnt g) .comma (a :: as) ++ .rc :: rest = t :: r1 := by
        cases as with
        | nil => exact ⟨r0 ++ .rc :: rest, by simp [rSep, e1]⟩
        | cons b bs => exact ⟨r0 ++ .comma :: (rSep (rEnt g) .comma (b :: bs) ++ .rc :: rest), by simp [rSep, e1]⟩
      obtain ⟨r1, e2⟩ := this
      rw [e2] at he
      have : t = .colon := (List.cons.inj he).1
      exact (isStart_ne t hs).2.2.2 this

theorem allBind_entB : ∀ bs : List (Bind Fac), allBind (bs.map entB) = some bs
  | [] => rfl
  | .mk x k e :: bs => by simp [entB, allBind, allBind_entB bs]

/-- the entry of a mapping: a binding without a kind when its key is a bare name -/
theorem entM_cases (m : Mapping Fac) :
    (∃ x v, m = .mk (.form (.leaf (.var x))) v ∧ entM m = .bind x none v) ∨
    (∃ k v, m = .mk k v ∧ entM m = .keyed k v ∧ ∀ x, k ≠ .form (.leaf (.var x))) := by
  unfold entM
  split
  · next x v => exact Or.inl ⟨x, v, rfl, rfl⟩
  · next k v hnb => exact Or.inr ⟨k, v, rfl, rfl, fun x hx => hnb x hx⟩

/-- the condition on canonical maps, spelled out: some key is not a bare name -/
theorem allBind_entM_none : ∀ ms : List (Mapping Fac),
    (∃ m ∈ ms, ∀ x v, m ≠ .mk (.form (.leaf (.var x))) v) → allBind (ms.map entM) = none
  | [], h => by obtain ⟨m, hm, _⟩ := h; cases hm
  | m :: ms, h => by
    simp only [List.map_cons]
    rcases entM_cases m with ⟨x, v, hm, he⟩ | ⟨k, v, hm, he, _⟩
    · rw [he]
      obtain ⟨m', hm', hne⟩ := h
      rcases List.mem_cons.mp hm' with h1 | h1
      · subst h1; exact absurd hm (hne x v)
      · simp only [allBind, allBind_entM_none ms ⟨m', h1, hne⟩]
    · rw [he]; simp [allBind]

theorem allKeyed_entM : ∀ ms : List (Mapping Fac), allKeyed (ms.map entM) = some ms
  | [] => rfl
  | m :: ms => by
    have ih := allKeyed_entM ms
    simp only [List.map_cons]
    rcases entM_cases m with ⟨x, v, hm, he⟩ | ⟨k, v, hm, he, _⟩ <;> rw [he, hm] <;> simp only [allKeyed, ih]

theorem allPlain_plain : ∀ es : List Exp, allPlain (es.map .plain) = some es
  | [] => rfl
  | e :: es => by simp [allPlain, allPlain_plain es]

theorem classify_plain (e : Exp) (es : List Exp) : classify ((e :: es).map .plain) = some (.set (e :: es)) := by
  have h3 := allPlain_plain (e :: es)
  simp only [List.map_cons] at h3 ⊢
  simp only [classify, allBind, allKeyed, h3]

theorem classify_entB (b : Bind Fac) (bs : List (Bind Fac)) : classify ((b :: bs).map entB) = some (.recd (b :: bs)) := by
  have h3 := allBind_entB (b :: bs)
  simp only [List.map_cons] at h3 ⊢
  simp only [classify, h3]

theorem classify_entM (m : Mapping Fac) (ms : List (Mapping Fac)) (h : allBind ((m :: ms).map entM) = none) :
    classify ((m :: ms).map entM) = some (.map (m :: ms)) := by
  have h3 := allKeyed_entM (m :: ms)
  simp only [List.map_cons] at h3 h ⊢
  simp only [classify, h3, h]

/-- a row of a matrix is read back -/
theorem row_complete (g : Gram) (n : Nat)
    (ihE : ∀ e, costE e ≤ n → okE g e → ∀ rest, NoContE g rest → pEx g n (rEx g e ++ rest) = some (e, rest))
    (row : List Exp) (hne : row ≠ []) (hcost : costEs row ≤ n) (hok : okEs g row) (c : Tok) (hc : c = .rb ∨ c = .semi) (x : List Tok) :
    sepBy (pEx g n) .sp (rRow g row ++ c :: x).length (rRow g row ++ c :: x) = some (row, c :: x) := by
  rw [rRow_eq]
  apply sepBy_complete (pEx g n) (rEx g) .sp (c :: x)
  · intro t r' e; cases e; rcases hc with h | h <;> subst h <;> decide
  · exact hne
  · intro a ha tail htail
    apply ihE a (Nat.le_trans (costEs_mem row a ha) hcost) (okEs_mem g row hok a ha)
    rcases htail with h | ⟨y, h⟩
    · subst h; exact noContE_stop g _ _ (by rcases hc with h | h <;> subst h <;> rfl)
    · subst h; exact noContE_stop g _ _ rfl
  · have := rSep_length_ge (rEx g) .sp row (fun a _ => by obtain ⟨t, r', e, _⟩ := rEx_head g a; rw [e]; simp)
    simp only [List.length_append]; omega

theorem noApp_of (rest : List Tok) (h : ∀ t r, rest = t :: r → t ≠ .quote ∧ t.isApp = false) : NoApp rest :=
  fun t r e => (h t r e).2

theorem pSel_none (g : Gram) (n : Nat) (rest : List Tok) (h : NoApp rest) : pSel g n rest = none := by
  cases n with
  | zero => simp [pSel]
  | succ n =>
    cases rest with
    | nil => simp [pSel]
    | cons t r =>
      have := h t r rfl
      cases t <;> simp [Tok.isApp] at this <;> simp [pSel]

theorem pFac_name (g : Gram) (n : Nat) (x : Nat) (r : List Tok) (h : ∀ r', r ≠ .lp :: r') :
    pFac g (n + 1) (.id x :: r) = (match many (pSel g n) r.length r with
       | ([], r') => some (post (.var x) r')
       | (sels, r') => some (post (.slice x sels) r')) := by
  simp only [pFac] <;> rfl

/-- a list of subscripts between brackets or braces is read back -/
theorem subs_complete (g : Gram) (n : Nat)
    (ihS : ∀ s, costSub s ≤ n → okSub g s → ∀ rest, NoContE g rest → pSub g n (rSub g s ++ rest) = some (s, rest))
    (subs : List (Sub Fac)) (hne : subs ≠ []) (hc : costSubs subs ≤ n) (hok : okSubs g subs)
    (c : Tok) (hcl : c = .rb ∨ c = .rc) (rest : List Tok) :
    sepBy (pSub g n) .comma (rSubs g subs ++ c :: rest).length (rSubs g subs ++ c :: rest) = some (subs, c :: rest) := by
  rw [rSubs_eq]
  apply sepBy_complete (pSub g n) (rSub g) .comma (c :: rest)
  · intro t r' e; cases e; rcases hcl with h | h <;> subst h <;> decide
  · exact hne
  · intro s hs tail htail
    apply ihS s (Nat.le_trans (costSubs_mem subs s hs) hc) (okSubs_mem g subs hok s hs)
    rcases htail with h | ⟨y, h⟩
    · subst h; exact noContE_stop g _ _ (by rcases hcl with h | h <;> subst h <;> rfl)
    · subst h; exact noContE_stop g _ _ rfl
  · have := rSep_length_ge (rSub g) .comma subs (fun s _ => by
      cases s with
      | all => simp [rSub]
      | ex e => obtain ⟨t, r', e1, _⟩ := rEx_head g e; simp [rSub, e1])
    simp only [List.length_append]; omega

/-- the subscripts after a name are read back -/
theorem sels_complete (g : Gram) (n : Nat)
    (ihL : ∀ s, costSel s ≤ n → okSel g s → ∀ rest, NoSwz rest → pSel g n (rSel g s ++ rest) = some (s, rest))
    (sels : List (Sel Fac)) (hc : costSels sels ≤ n) (hok : okSels g sels) (rest : List Tok) (hna : NoApp rest) :
    many (pSel g n) (rSels g sels ++ rest).length (rSels g sels ++ rest) = (sels, rest) := by
  rw [rSels_eq]
  have := many_complete (pSel g n) (rSel g) rest NoSwz
    (by intro t r e; have := hna t r e; intro h; subst h; simp [Tok.isApp] at this)
    (pSel_none g n rest hna) sels
    (by
      intro s hs tail hq
      refine ⟨ihL s (Nat.le_trans (costSels_mem sels s hs) hc) (okSels_mem g sels hok s hs) tail hq, ?_⟩
      obtain ⟨t, r, e, ht⟩ := rSel_head g s
      intro t' r' e'
      rw [e] at e'
      have : t' = t := (List.cons.inj e').1.symm
      subst this
      rcases ht with h | h | h <;> subst h <;> simp)
  apply this.2
  have hl := rCat_length_ge (rSel g) sels (fun s _ => by obtain ⟨t, r, e, _⟩ := rSel_head g s; rw [e]; simp)
  simp only [List.length_append]; omega

/-! table literals -/

theorem pFac_nonstart (g : Gram) (n : Nat) (ts : List Tok) (h : NoStart ts) : pFac g n ts = none := by
  cases n with
  | zero => simp [pFac]
  | succ n =>
    cases ts with
    | nil => simp [pFac]
    | cons t r =>
      have := h t r rfl
      cases t <;> simp [Tok.isStart] at this <;> simp [pFac]

theorem pEx_nonstart (g : Gram) (n : Nat) (ts : List Tok) (h : NoStart ts) : pEx g n ts = none := by
  cases n with
  | zero => simp [pEx]
  | succ n =>
    have : pForm g n ts = none := by
      cases n with
      | zero => simp [pForm]
      | succ n => simp [pForm, pFac_nonstart g n ts h]
    simp [pEx, this]

theorem sepBy_none {α : Type} (p : List Tok → Option (α × List Tok)) (sep : Tok) (k : Nat) (ts : List Tok) (h : p ts = none) :
    sepBy p sep k ts = none := by
  cases k <;> simp [sepBy, h]

theorem rowOf_nonstart (g : Gram) (n : Nat) (ts : List Tok) (h : NoStart ts) : rowOf (pEx g n) ts = none := by
  simp [rowOf, sepBy_none _ _ _ _ (pEx_nonstart g n ts h)]

/-- a row of a table is read back: its cells do not end with a table, so the bar after the last is the end of the row -/
theorem trow_complete (g : Gram) (n : Nat) (ihE : EClaim g n)
    (row : List Exp) (hne : row ≠ []) (hcost : costEs row ≤ n) (hok : okEs g row) (hcl : ∀ e ∈ row, e.lastOpen = false) (x : List Tok) :
    rowOf (pEx g n) ((rRow g row ++ [.bar]) ++ x) = some (row, x) := by
  have hs : sepBy (pEx g n) .sp (rRow g row ++ .bar :: x).length (rRow g row ++ .bar :: x) = some (row, .bar :: x) := by
    rw [rRow_eq]
    apply sepBy_complete (pEx g n) (rEx g) .sp (.bar :: x)
    · intro t r' e; cases e; decide
    · exact hne
    · intro a ha tail htail
      apply ihE a (Nat.le_trans (costEs_mem row a ha) hcost) (okEs_mem g row hok a ha)
      · rcases htail with h | ⟨y, h⟩
        · subst h; exact noContW_bar g _
        · subst h; exact (noContE_stop g _ _ rfl).1
      · intro ho; rw [hcl a ha] at ho; cases ho
    · have := rSep_length_ge (rEx g) .sp row (fun a _ => by obtain ⟨t, r', e, _⟩ := rEx_head g a; rw [e]; simp)
      simp only [List.length_append]; omega
  simp only [List.append_assoc, List.cons_append, List.nil_append, rowOf, hs]

theorem pFac_bar (g : Gram) (n : Nat) (r : List Tok) :
    pFac g (n + 1) (.bar :: r) = (match sepBy pField .sp r.length r with
       | some (hdr, .bar :: r1) =>
         (match many (rowOf (pEx g n)) r1.length r1 with
          | ([], _) => none
          | (rows, r2) => some (post (.tbl hdr rows) r2))
       | _ => none) := by
  simp only [pFac] <;> rfl

theorem tbl_complete (g : Gram) (n : Nat) (ihE : EClaim g n) (hdr : List (Nat × Nat)) (rows : List (List Exp))
    (hc : costRows rows ≤ n) (hok : hdr ≠ [] ∧ rows ≠ [] ∧ okTRows g rows) (rest : List Tok) (hns : NoStart rest) :
    pFac g (n + 1) (rFac g (.tbl hdr rows) ++ rest) = some (post (.tbl hdr rows) rest) := by
  have hh : sepBy pField .sp (rSep (fun f : Nat × Nat => [Tok.id f.1, Tok.kind f.2]) .sp hdr ++ .bar :: (rTRows g rows ++ rest)).length
      (rSep (fun f : Nat × Nat => [Tok.id f.1, Tok.kind f.2]) .sp hdr ++ .bar :: (rTRows g rows ++ rest)) = some (hdr, .bar :: (rTRows g rows ++ rest)) := by
    apply sepBy_complete pField (fun f : Nat × Nat => [Tok.id f.1, Tok.kind f.2]) .sp (.bar :: (rTRows g rows ++ rest))
    · intro t r' e; cases e; decide
    · exact hok.1
    · intro f _ tail _; rfl
    · have := rSep_length_ge (fun f : Nat × Nat => [Tok.id f.1, Tok.kind f.2]) .sp hdr (fun _ _ => by simp)
      simp only [List.length_append]; omega
  have hm : many (rowOf (pEx g n)) (rTRows g rows ++ rest).length (rTRows g rows ++ rest) = (rows, rest) := by
    rw [rTRows_eq]
    have := many_complete (rowOf (pEx g n)) (fun row => rRow g row ++ [Tok.bar]) rest (fun _ => True) trivial
      (rowOf_nonstart g n rest hns) rows
      (by
        intro row hrow tail _
        obtain ⟨hne, hokr, hcl⟩ := okTRows_mem g rows hok.2.2 row hrow
        have hcr := costRows_mem rows row hrow
        exact ⟨trow_complete g n ihE row hne (by omega) hokr hcl tail, trivial⟩)
    apply this.2
    have hl := rCat_length_ge (fun row => rRow g row ++ [Tok.bar]) rows (fun _ _ => by simp)
    simp only [List.length_append]; omega
  simp only [rFac, List.cons_append, List.append_assoc]
  rw [pFac_bar, hh]
  simp only [hm]
  cases rows with
  | nil => exact absurd rfl hok.2.1
  | cons r rs => rfl

/-- the operands that are not prefixed or transposed: what `factor` reads before the optional
    transpose mark -/
theorem rt_base (g : Gram) (n : Nat)
    (ihE0 : EClaim g n)
    (ihE : ∀ e, costE e ≤ n → okE g e → ∀ rest, NoContE g rest → pEx g n (rEx g e ++ rest) = some (e, rest))
    (ihS : ∀ s, costSub s ≤ n → okSub g s → ∀ rest, NoContE g rest → pSub g n (rSub g s ++ rest) = some (s, rest))
    (ihA : ∀ a, costArg a ≤ n → okArg g a → ∀ rest, StopHead rest → pArg g n (rArg g a ++ rest) = some (a, rest))
    (ihN : ∀ a, costEnt a ≤ n → okEnt g a → ∀ rest, StopHead rest → pEnt g n (rEnt g a ++ rest) = some (a, rest))
    (ihL : ∀ s, costSel s ≤ n → okSel g s → ∀ rest, NoSwz rest → pSel g n (rSel g s ++ rest) = some (s, rest)) :
    ∀ f, f.isBase = true → costF f ≤ n + 1 → okF g f → ∀ rest, NoApp rest → (f.open = true → NoStart rest) →
      pFac g (n + 1) (rFac g f ++ rest) = some (post f rest) := by
  intro f hb hc hok rest hna ho
  cases f with
  | lit a => simp [rFac, pFac]
  | tbl hdr rows =>
    simp only [costF] at hc
    simp only [okF] at hok
    exact tbl_complete g n ihE0 hdr rows (by omega) hok rest (ho rfl)
  | var x =>
    have hnlp : ∀ r', rest ≠ .lp :: r' := by
      intro r' e; have := hna _ _ e; simp [Tok.isApp] at this
    simp only [rFac, List.cons_append, List.nil_append]
    rw [pFac_name g n x rest hnlp, many_none _ _ _ (pSel_none g n rest hna)]
  | call x args =>
    simp only [costF] at hc
    simp only [okF] at hok
    have hl := argList_complete g n ihA args (by omega) hok rest
    simp only [rFac, List.cons_append, List.append_assoc, List.nil_append, pFac, hl]
  | mat rows =>
    simp only [costF] at hc
    simp only [okF] at hok
    have hl : listTill (fun ts => sepBy (pEx g n) .sp ts.length ts) .semi .rb (rRows g rows ++ .rb :: rest) = some (rows, rest) := by
      rw [rRows_eq]
      apply listTill_complete
      · decide
      · intro row hrow
        obtain ⟨hne, _⟩ := okRows_mem g rows hok row hrow
        obtain ⟨t, r', e, hs⟩ := rRow_head g row hne
        exact ⟨t, r', e, (isStart_ne t hs).2.1⟩
      · intro row hrow tail htail
        obtain ⟨hne, hokr⟩ := okRows_mem g rows hok row hrow
        have hcr := costRows_mem rows row hrow
        rcases htail with h | ⟨x, h⟩
        · subst h; exact row_complete g n ihE row hne (by omega) hokr .rb (Or.inl rfl) rest
        · subst h; exact row_complete g n ihE row hne (by omega) hokr .semi (Or.inr rfl) x
    simp only [rFac, List.cons_append, List.append_assoc, List.nil_append, pFac, hl]
  | tup es =>
    simp only [costF] at hc
    simp only [okF] at hok
    have hl := exList_complete g n ihE .rp (Or.inl rfl) es (by omega) hok.1 rest
    simp only [rFac, List.cons_append, List.append_assoc, List.nil_append, pFac, hl]
    split
    · next t r' heq =>
      simp only [Option.some.injEq, Prod.mk.injEq] at heq
      exact absurd heq.1 (hok.2 t)
    · next es' r' _ heq =>
      simp only [Option.some.injEq, Prod.mk.injEq] at heq
      obtain ⟨h1, h2⟩ := heq; subst h1; subst h2; rfl
    · next heq => cases heq
  | set es =>
    simp only [costF] at hc
    simp only [okF] at hok
    cases es with
    | nil => simp [rFac, rExs, pFac, listTill, classify]
    | cons e es' =>
      have hb := brace_complete g n ihN ((e :: es').map .plain) (by simp)
        (by
          intro a ha
          obtain ⟨x, hx, rfl⟩ := List.mem_map.mp ha
          have := costEs_mem (e :: es') x hx
          exact ⟨by simp only [costEnt]; omega, okEs_mem g _ hok x hx⟩)
        (.set (e :: es'))
        (classify_plain e es')
        rest
      rw [rSep_map] at hb
      simpa [rFac, rExs_eq, rEnt] using hb
  | recd bs =>
    simp only [costF] at hc
    simp only [okF] at hok
    have hb := brace_complete g n ihN (bs.map entB) (by simpa using hok.1)
      (by
        intro a ha
        obtain ⟨b, hb, rfl⟩ := List.mem_map.mp ha
        have h1 := costBinds_mem bs b hb
        have h2 := okBinds_mem g bs hok.2 b hb
        cases b with
        | mk x k e => exact ⟨by simp only [entB, costEnt, costBind] at h1 ⊢; omega, by simpa [entB, okEnt, okBind] using h2⟩)
      (.recd bs)
      (by
        cases bs with
        | nil => exact absurd rfl hok.1
        | cons b bs' => exact classify_entB b bs')
      rest
    rw [rSep_map] at hb
    simpa [rFac, rBinds_eq, rEnt_entB] using hb
  | map ms =>
    simp only [costF] at hc
    simp only [okF] at hok
    cases ms with
    | nil => simp [rFac, pFac]
    | cons m ms' =>
      have hb := brace_complete g n ihN ((m :: ms').map entM) (by simp)
        (by
          intro a ha
          obtain ⟨b, hb, rfl⟩ := List.mem_map.mp ha
          have h1 := costMaps_mem (m :: ms') b hb
          have h2 := okMaps_mem g (m :: ms') hok.1 b hb
          rcases entM_cases b with ⟨x, v, hm, he⟩ | ⟨k, v, hm, he, hnb⟩
          · subst hm; rw [he]
            simp only [okMapping, costMapping] at h1 h2
            exact ⟨by simp only [costEnt]; omega, by simpa [okEnt] using h2.2⟩
          · subst hm; rw [he]
            simp only [okMapping, costMapping] at h1 h2
            exact ⟨by simp only [costEnt]; omega, by simp only [okEnt]; exact ⟨h2.1, h2.2, hnb⟩⟩)
        (.map (m :: ms'))
        (classify_entM m ms' (hok.2 (by simp)))
        rest
      rw [rSep_map] at hb
      simpa [rFac, rMaps_eq, rEnt_entM] using hb
  | slice x sels =>
    simp only [costF] at hc
    simp only [okF] at hok
    have hm := sels_complete g n ihL sels (by omega) hok.2 rest hna
    cases sels with
    | nil => exact absurd rfl hok.1
    | cons s ss =>
      have hnlp : ∀ r', rSels g (s :: ss) ++ rest ≠ .lp :: r' := by
        intro r' e
        obtain ⟨t0, r0, e0, ht0⟩ := rSels_head g s ss rest
        rw [e0] at e
        have : t0 = .lp := (List.cons.inj e).1
        subst this
        rcases ht0 with h | h | h <;> cases h
      simp only [rFac, List.cons_append]
      rw [pFac_name g n x _ hnlp, hm]
  | paren t =>
    simp only [costF] at hc
    simp only [okF] at hok
    have hl : listTill (pEx g n) .comma .rp (rTrm g t ++ .rp :: rest) = some ([.form t], rest) := by
      have := exList_complete g n ihE .rp (Or.inl rfl) [.form t] (by simp only [costEs, costE]; omega)
        (by simp only [okEs, okE]; exact ⟨hok, trivial⟩) rest
      simpa [rExs, rEx] using this
    simp only [rFac, List.cons_append, List.append_assoc, List.nil_append, pFac, hl]
  | neg f => simp [Fac.isBase] at hb
  | not f => simp [Fac.isBase] at hb
  | tr f => simp [Fac.isBase] at hb

theorem pArg_other (g : Gram) (n : Nat) (ts : List Tok) (h : ∀ x r, ts ≠ .id x :: .colon :: r) :
    pArg g (n + 1) ts = (match pEx g n ts with | some (e, r) => some (.pos e, r) | none => none) := by
  simp only [pArg] <;> rfl

theorem pEnt_other (g : Gram) (n : Nat) (ts : List Tok) (h1 : ∀ x k r, ts ≠ .id x :: .kind k :: .colon :: r)
    (h2 : ∀ x r, ts ≠ .id x :: .colon :: r) :
    pEnt g (n + 1) ts = (match pEx g n ts with
       | some (a, .colon :: r) => (match pEx g n r with | some (b, r') => some (.keyed a b, r') | none => none)
       | some (a, r) => some (.plain a, r)
       | none => none) := by
  simp only [pEnt] <;> rfl

theorem pSub_noColon (g : Gram) (n : Nat) (ts : List Tok) (h : ∀ r, ts ≠ .colon :: r) :
    pSub g (n + 1) ts = (pEx g n ts).map (fun p => (Sub.ex p.1, p.2)) := by
  cases ts with
  | nil => simp only [pSub]; cases pEx g n [] <;> rfl
  | cons t r =>
    cases t <;> first | exact absurd rfl (h r) | (simp only [pSub]; cases pEx g n _ <;> rfl)

/-- after a formula that is not followed by a range operator, `expression` returns it as it is -/
theorem pEx_form_of (g : Gram) (n : Nat) (ts : List Tok) (a : Trm) (rest : List Tok)
    (h : pForm g n ts = some (a, rest)) (hd : ∀ i r, rest ≠ .dots i :: r) : pEx g (n + 1) ts = some (.form a, rest) := by
  simp only [pEx, h]

theorem pEx_range_of (g : Gram) (n : Nat) (ts : List Tok) (a b : Trm) (i : Bool) (r1 rest : List Tok)
    (h1 : pForm g n ts = some (a, .dots i :: r1)) (h2 : pForm g n r1 = some (b, rest)) (hd : ∀ i r, rest ≠ .dots i :: r) :
    pEx g (n + 1) ts = some (.range a i b, rest) := by
  simp only [pEx, h1, h2]

theorem noCont_dots (g : Gram) (i : Bool) (r : List Tok) : NoCont g (.dots i :: r) := by
  intro t r' e
  have : t = .dots i := (List.cons.inj e).1.symm
  subst this
  simp [Gram.binOp?, Tok.isApp]

theorem rt_step (g : Gram) (n : Nat) (ih : RT g n) : RT g (n + 1) := by
  obtain ⟨ihF, ihC, ihT, ihE0, ihS, ihA, ihN, ihL⟩ := ih
  have ihE := ihE0.strong
  have hbase := rt_base g n ihE0 ihE ihS ihA ihN ihL
  refine ⟨?_, ?_, ?_, ?_, ?_, ?_, ?_, ?_⟩
  · -- factors
    intro f hc hok rest hq ho
    have hnq : ∀ t r, rest = t :: r → t ≠ .quote := fun t r e => (hq t r e).1
    by_cases hb : f.isBase = true
    · rw [hbase f hb hc hok rest (noApp_of rest hq) ho, post_noquote _ _ hnq]
    · cases f with
      | neg f =>
        simp only [costF] at hc
        simp only [okF] at hok
        have := ihF f (by omega) hok rest hq (fun h => ho (by simpa [Fac.open] using h))
        simp only [rFac, List.cons_append, pFac, this]
        rw [post_noquote _ _ hnq]
      | not f =>
        simp only [costF] at hc
        simp only [okF] at hok
        have := ihF f (by omega) hok rest hq (fun h => ho (by simpa [Fac.open] using h))
        simp only [rFac, List.cons_append, pFac, this]
        rw [post_noquote _ _ hnq]
      | tr f =>
        simp only [costF] at hc
        simp only [okF] at hok
        have := hbase f hok.1 (by omega) hok.2 (.quote :: rest) (by intro t r e; cases e; rfl) (by intro _ t r e; cases e; rfl)
        simp only [rFac, List.append_assoc, List.cons_append, List.nil_append, this, post]
      | lit _ => simp [Fac.isBase] at hb
      | var _ => simp [Fac.isBase] at hb
      | call _ _ => simp [Fac.isBase] at hb
      | mat _ => simp [Fac.isBase] at hb
      | tup _ => simp [Fac.isBase] at hb
      | set _ => simp [Fac.isBase] at hb
      | recd _ => simp [Fac.isBase] at hb
      | map _ => simp [Fac.isBase] at hb
      | tbl _ _ => simp [Fac.isBase] at hb
      | slice _ _ => simp [Fac.isBase] at hb
      | paren _ => simp [Fac.isBase] at hb
  · -- chains
    intro ps hc hops hok hch rest hnc hlast
    cases ps with
    | nil =>
      simp only [rRest, List.nil_append]
      cases rest with
      | nil => simp [pChain]
      | cons t r =>
        have := (hnc t r rfl).1
        simp [pChain, this]
    | cons x ps =>
      obtain ⟨o, f⟩ := x
      simp only [costR] at hc
      simp only [chainOkR] at hch
      simp only [lastOpenR] at hlast
      have hf : okF g f := hok (o, f) List.mem_cons_self
      have hps : ∀ p ∈ ps, okF g p.2 := fun p hp => hok p (List.mem_cons_of_mem _ hp)
      have h1 := ihF f (by omega) hf (rRest g ps ++ rest) (head_rRest g ps rest hnc) (follow_open g f ps rest hch hlast)
      have h2 := ihC ps (by omega) (fun x hx => hops x (List.mem_cons_of_mem _ hx)) hps (chainOkR_of g f ps hch) rest hnc
        (fun h => hlast (lastOpenR_of f ps h))
      simp only [rRest, List.cons_append, List.append_assoc, pChain, binOp_opTok g o (hops (o, f) List.mem_cons_self), h1, h2]
  · -- formulas
    intro t hc hok rest hnc hlast
    obtain ⟨hwg, hops, hl⟩ := hok
    have hparts := okL_parts g t hl
    have hch := okL_chain g t hl
    have hcost := cost_first_tail t
    have h1 := ihF t.first (by omega) hparts.1 (rRest g t.tail ++ rest) (head_rRest g t.tail rest hnc)
      (follow_open g t.first t.tail rest hch hlast)
    have h2 := ihC t.tail (by omega) hops hparts.2 (chainOkR_of g t.first t.tail hch) rest hnc
      (fun h => hlast (lastOpenR_of t.first t.tail h))
    have h3 : parseFormula g.N t.first t.tail = (t, []) := by
      have ha := grouping_unique g.N t.first t.tail hops t hwg rfl rfl
      have hb := (parse_consumes_all g.N t.first t.tail hops).1
      exact Prod.ext ha hb
    simp only [rTrm_flat, List.append_assoc, pForm, h1, h2, h3, List.isEmpty_nil, if_true]
  · -- expressions
    intro e hc hok rest hnc hlast
    have hd : ∀ i r, rest ≠ .dots i :: r := fun i r e => (hnc _ _ e).2.2.2 i rfl
    have hdots : ∀ (P : Prop) i r, P → NoStart (.dots i :: r) := by
      intro P i r _ t r' e; cases e; rfl
    cases e with
    | form t =>
      simp only [costE] at hc
      simp only [okE] at hok
      exact pEx_form_of g n _ t rest (ihT t (by omega) hok rest hnc.noCont hlast) hd
    | range a i b =>
      simp only [costE] at hc
      simp only [okE] at hok
      have h1 := ihT a (by omega) hok.1 (.dots i :: (rTrm g b ++ rest)) (noCont_dots g _ _) (hdots _ _ _)
      have h2 := ihT b (by omega) hok.2 rest hnc.noCont hlast
      have := pEx_range_of g n (rTrm g a ++ .dots i :: (rTrm g b ++ rest)) a b i _ rest h1 h2 hd
      simpa [rEx] using this
    | range3 a i1 s i2 b =>
      simp only [costE] at hc
      simp only [okE] at hok
      have h1 := ihT a (by omega) hok.1 (.dots i1 :: (rTrm g s ++ .dots i2 :: (rTrm g b ++ rest))) (noCont_dots g _ _) (hdots _ _ _)
      have h2 := ihT s (by omega) hok.2.1 (.dots i2 :: (rTrm g b ++ rest)) (noCont_dots g _ _) (hdots _ _ _)
      have h3 := ihT b (by omega) hok.2.2 rest hnc.noCont hlast
      simp only [rEx, List.append_assoc, List.cons_append, pEx, h1, h2, h3]
  · -- subscripts
    intro s hc hok rest hnc
    cases s with
    | all => simp [rSub, pSub]
    | ex e =>
      simp only [costSub] at hc
      simp only [okSub] at hok
      have h1 := ihE e (by omega) hok rest hnc
      have hne : ∀ r, rEx g e ++ rest ≠ .colon :: r := by
        intro r he
        obtain ⟨t, r', e1, hs⟩ := rEx_head g e
        rw [e1] at he
        have : t = .colon := (List.cons.inj he).1
        exact (isStart_ne t hs).2.2.2 this
      rw [rSub, pSub_noColon g n _ hne, h1]; rfl
  · -- arguments
    intro a hc hok rest hst
    obtain ⟨c, y, hr, hcs⟩ := hst
    subst hr
    have hnc : NoContE g (c :: y) := noContE_stop g c y hcs
    cases a with
    | pos e =>
      simp only [costArg] at hc; simp only [okArg] at hok
      have h1 := ihE e (by omega) hok _ hnc
      have hne : ∀ x r, rEx g e ++ c :: y ≠ .id x :: .colon :: r := by
        intro x r he
        obtain ⟨_, h2⟩ := rEx_key g e _ x .colon r hok he rfl
        have : c = .colon := (List.cons.inj h2).1
        subst this; simp [Tok.isStop] at hcs
      rw [rArg, pArg_other g n _ hne, h1]
    | named x e =>
      simp only [costArg] at hc; simp only [okArg] at hok
      have h1 := ihE e (by omega) hok _ hnc
      simp only [rArg, List.cons_append, pArg, h1]
  · -- entries between braces
    intro a hc hok rest hst
    obtain ⟨c, y, hr, hcs⟩ := hst
    subst hr
    have hnc : NoContE g (c :: y) := noContE_stop g c y hcs
    cases a with
    | plain e =>
      simp only [costEnt] at hc; simp only [okEnt] at hok
      have h1 := ihE e (by omega) hok _ hnc
      have hn1 : ∀ x k r, rEx g e ++ c :: y ≠ .id x :: .kind k :: .colon :: r := by
        intro x k r he
        obtain ⟨_, h2⟩ := rEx_key g e _ x (.kind k) _ hok he rfl
        have : c = .kind k := (List.cons.inj h2).1
        subst this; simp [Tok.isStop] at hcs
      have hn2 : ∀ x r, rEx g e ++ c :: y ≠ .id x :: .colon :: r := by
        intro x r he
        obtain ⟨_, h2⟩ := rEx_key g e _ x .colon r hok he rfl
        have : c = .colon := (List.cons.inj h2).1
        subst this; simp [Tok.isStop] at hcs
      rw [rEnt, pEnt_other g n _ hn1 hn2, h1]
      cases c <;> simp [Tok.isStop] at hcs <;> rfl
    | keyed k v =>
      simp only [costEnt] at hc; simp only [okEnt] at hok
      have hk := ihE k (by omega) hok.1 (.colon :: (rEx g v ++ c :: y)) (noContE_colon g _)
      have hv := ihE v (by omega) hok.2.1 _ hnc
      have hn1 : ∀ x k' r, rEx g k ++ .colon :: (rEx g v ++ c :: y) ≠ .id x :: .kind k' :: .colon :: r := by
        intro x k' r he
        exact hok.2.2 x (rEx_key g k _ x (.kind k') _ hok.1 he rfl).1
      have hn2 : ∀ x r, rEx g k ++ .colon :: (rEx g v ++ c :: y) ≠ .id x :: .colon :: r := by
        intro x r he
        exact hok.2.2 x (rEx_key g k _ x .colon _ hok.1 he rfl).1
      simp only [rEnt, List.append_assoc, List.cons_append]
      rw [pEnt_other g n _ hn1 hn2, hk]
      simp only [hv]
    | bind x k e =>
      simp only [costEnt] at hc; simp only [okEnt] at hok
      have h1 := ihE e (by omega) hok _ hnc
      cases k <;> simp only [rEnt, List.cons_append, List.nil_append, pEnt, h1]
  · -- subscripts after a name
    intro s hc hok rest hq
    cases s with
    | bracket ss =>
      simp only [costSel] at hc; simp only [okSel] at hok
      have hl := subs_complete g n ihS ss hok.1 (by omega) hok.2 .rb (Or.inl rfl) rest
      simp only [rSel, List.cons_append, List.append_assoc, List.nil_append, pSel, hl]
    | brace ss =>
      simp only [costSel] at hc; simp only [okSel] at hok
      have hl := subs_complete g n ihS ss hok.1 (by omega) hok.2 .rc (Or.inr rfl) rest
      simp only [rSel, List.cons_append, List.append_assoc, List.nil_append, pSel, hl]
    | dot y =>
      cases rest with
      | nil => simp [rSel, pSel]
      | cons t r =>
        have := hq t r rfl
        cases t <;> simp [rSel, pSel] <;> simp at this
    | dotInt k => simp [rSel, pSel]
    | swizzle y ys =>
      simp only [okSel] at hok
      have hl : sepBy pName .swz (rSep (fun z => [Tok.id z]) .swz ys ++ rest).length (rSep (fun z => [Tok.id z]) .swz ys ++ rest) = some (ys, rest) := by
        apply sepBy_complete pName (fun z => [Tok.id z]) .swz rest hq ys hok
        · intro z _ tail _; rfl
        · have := rSep_length_ge (fun z => [Tok.id z]) .swz ys (fun _ _ => by simp)
          simp only [List.length_append]; omega
      simp only [rSel, List.cons_append, pSel, hl]

theorem rt_all (g : Gram) : ∀ n, RT g n
  | 0 => by
    refine ⟨?_, ?_, ?_, ?_, ?_, ?_, ?_, ?_⟩
    · intro f hc; cases f <;> simp [costF] at hc
    · intro ps hc; omega
    · intro t hc; omega
    · intro e hc; cases e <;> simp [costE] at hc
    · intro s hc; cases s <;> simp [costSub] at hc
    · intro a hc; cases a <;> simp [costArg] at hc
    · intro a hc; cases a <;> simp [costEnt] at hc
    · intro s hc; cases s <;> simp [costSel] at hc
  | n + 1 => rt_step g n (rt_all g n)

/-! statements and programs -/

def okStmt (g : Gram) : Stmt → Prop
  | .define _ _ _ e => okE g e
  | .assign _ sels e => okSels g sels ∧ okE g e
  | .opAssign _ sels _ e => okSels g sels ∧ okE g e

def costStmt : Stmt → Nat
  | .define _ _ _ e => costE e
  | .assign _ sels e => costSels sels + costE e
  | .opAssign _ sels _ e => costSels sels + costE e

theorem pTarget_complete (g : Gram) (n : Nat) (x : Nat) (sels : List (Sel Fac)) (hc : costSels sels ≤ n) (hok : okSels g sels)
    (rest : List Tok) (hrest : NoApp rest) :
    pTarget g n (rTarget g x sels ++ rest) = some (x, sels, rest) := by
  have hm := sels_complete g n (rt_all g n).2.2.2.2.2.2.2 sels hc hok rest hrest
  simp only [rTarget, List.cons_append, pTarget, hm]

theorem rTarget_noDefine (g : Gram) (n : Nat) (x : Nat) (sels : List (Sel Fac)) (t : Tok) (r : List Tok)
    (ht : ∀ k, t ≠ .kind k) (ht' : t ≠ .define) : pDefine g n false (rTarget g x sels ++ t :: r) = none := by
  cases sels with
  | nil =>
    cases t <;> first | exact absurd rfl (ht _) | exact absurd rfl ht' | simp [rTarget, rSels, pDefine]
  | cons s ss =>
    obtain ⟨t0, r0, e0, ht0⟩ := rSels_head g s ss (t :: r)
    simp only [rTarget, List.cons_append, e0]
    rcases ht0 with h | h | h <;> subst h <;> simp [pDefine]

theorem pStmt_complete (g : Gram) (n : Nat) (s : Stmt) (hc : costStmt s ≤ n) (hok : okStmt g s) (rest : List Tok) (hnc : NoContE g rest) :
    pStmt g n (rStmt g s ++ rest) = some (s, rest) := by
  cases s with
  | define mu x k e =>
    simp only [costStmt] at hc
    simp only [okStmt] at hok
    have he := EClaim.strong (rt_all g n).2.2.2.1 e hc hok rest hnc
    cases mu <;> cases k <;> simp [rStmt, pStmt, pDefine, he]
  | assign x sels e =>
    simp only [costStmt] at hc
    simp only [okStmt] at hok
    have he := EClaim.strong (rt_all g n).2.2.2.1 e (by omega) hok.2 rest hnc
    have ht := pTarget_complete g n x sels (by omega) hok.1 (.assign :: (rEx g e ++ rest)) (by intro t r h; cases h; rfl)
    have hd := rTarget_noDefine g n x sels .assign (rEx g e ++ rest) (by intro k h; cases h) (by intro h; cases h)
    have hnt : ∀ r, rTarget g x sels ++ .assign :: (rEx g e ++ rest) ≠ .tilde :: r := by
      intro r h; simp [rTarget] at h
    simp only [rStmt, List.append_assoc, List.cons_append]
    unfold pStmt
    split
    · next r heq => exact absurd heq (hnt r)
    · simp only [hd, ht, he]
  | opAssign x sels k e =>
    simp only [costStmt] at hc
    simp only [okStmt] at hok
    have he := EClaim.strong (rt_all g n).2.2.2.1 e (by omega) hok.2 rest hnc
    have ht := pTarget_complete g n x sels (by omega) hok.1 (.opAssign k :: (rEx g e ++ rest)) (by intro t r h; cases h; rfl)
    have hd := rTarget_noDefine g n x sels (.opAssign k) (rEx g e ++ rest) (by intro k h; cases h) (by intro h; cases h)
    have hnt : ∀ r, rTarget g x sels ++ .opAssign k :: (rEx g e ++ rest) ≠ .tilde :: r := by
      intro r h; simp [rTarget] at h
    simp only [rStmt, List.append_assoc, List.cons_append]
    unfold pStmt
    split
    · next r heq => exact absurd heq (hnt r)
    · simp only [hd, ht, he]

theorem rStmt_nonempty (g : Gram) (s : Stmt) : 1 ≤ (rStmt g s).length := by
  cases s with
  | define mu x k e => cases mu <;> simp [rStmt]
  | assign x subs e => simp [rStmt, rTarget]
  | opAssign x subs k e => simp [rStmt, rTarget]

theorem pProg_complete (g : Gram) (n : Nat) (ss : List Stmt) (hne : ss ≠ []) (h : ∀ s ∈ ss, costStmt s ≤ n ∧ okStmt g s) :
    pProg g n (rProg g ss) = some ss := by
  have := sepBy_complete (pStmt g n) (rStmt g) .nl [] (by intro t r e; cases e) ss hne
    (by
      intro s hs tail htail
      apply pStmt_complete g n s (h s hs).1 (h s hs).2
      rcases htail with h' | ⟨x, h'⟩
      · subst h'; exact noContE_nil g
      · subst h'; exact noContE_stop g _ _ rfl)
    (rProg g ss).length
    (by
      have := rSep_length_ge (rStmt g) .nl ss (fun s _ => rStmt_nonempty g s)
      simpa [rProg] using this)
  simp only [List.append_nil] at this
  unfold pProg
  simp only [rProg] at this ⊢
  rw [this]

end MechVerif.Syntax
