/-
C06, a tie to the source for the compile side: the macros `compile_register_brrw!`, `compile_nullop!` …
`compile_varop!` (src/core/src/stdlib.rs) and `CompileCtx::alloc_register_for_ptr` / `compile_const` / `emit_*`
(src/core/src/program/compiler/context.rs) as they are written.  `tools/extract_compile.py` reads them into the records
below; `runMacro` gives a record its meaning on the context of `Model/Compile.lean`, and an accepted record is
`compileStep`.
-/
import MechVerif.Model.Compile
namespace MechVerif.CompileIR
open MechVerif.Compile

/-- a macro operand: the output cell, the k-th argument (1-based), or every argument in order (`compile_varop!`) -/
inductive Opnd where
  | out
  | arg (k : Nat)
  | allArgs
deriving DecidableEq, Repr

/-- one `compile_*op!` macro: the operands whose registers it allocates, in order, and for the emitted operation which
    of those registers (by position in that order) is the destination and which are the sources, in order; `restAsSources`
    = `(&registers[1..]).to_vec()` -/
structure MacroIR where
  cls : OpClass
  allocs : List Opnd
  emitDst : Nat
  emitSrcs : List Nat
  restAsSources : Bool
deriving DecidableEq, Repr

/-- `compile_register_brrw!` and the context methods it calls, as a list of facts -/
structure RegisterIR where
  /-- the steps of the macro in order: address, register for the address, constant, load -/
  order : List String
  /-- the load is emitted with (the register just allocated, the constant just written) -/
  loadUsesBoth : Bool
  /-- `alloc_register_for_ptr`: an address already in the map keeps its register -/
  reusesKnown : Bool
  /-- otherwise the register is `next_reg`, which is incremented and recorded for the address -/
  freshIsNext : Bool
  /-- `compile_const`: the id is the number of entries before the push -/
  constIdIsCount : Bool
  /-- every `emit_*` appends to the instruction list -/
  emitAppends : Bool
deriving DecidableEq, Repr

def operandAddrs (s : Step) : Opnd → List Addr
  | .out => [s.out]
  | .arg k => (s.args[k - 1]?).toList
  | .allArgs => s.args

/-- a macro run on a step: allocate (and load) the operands in the recorded order, then emit one operation -/
def runMacro (m : MacroIR) (c : Ctx) (s : Step) : Ctx :=
  let addrs := m.allocs.flatMap (operandAddrs s)
  let (c1, regs) := compileRegs c addrs
  let srcs := if m.restAsSources then regs.drop 1 else m.emitSrcs.filterMap (fun i => regs[i]?)
  { c1 with instrs := c1.instrs ++ [.op m.cls s.fxnId (regs.getD m.emitDst 0) srcs] }

/-- the macro of a class as `Model/Compile.compileStep` reads it: output first, the arguments in order, destination the
    first register, sources the others in order -/
def expectedMacro : OpClass → MacroIR
  | .null => ⟨.null, [.out], 0, [], false⟩
  | .un => ⟨.un, [.out, .arg 1], 0, [1], false⟩
  | .bin => ⟨.bin, [.out, .arg 1, .arg 2], 0, [1, 2], false⟩
  | .tern => ⟨.tern, [.out, .arg 1, .arg 2, .arg 3], 0, [1, 2, 3], false⟩
  | .quad => ⟨.quad, [.out, .arg 1, .arg 2, .arg 3, .arg 4], 0, [1, 2, 3, 4], false⟩
  | .var => ⟨.var, [.out, .allArgs], 0, [], true⟩

def macrosOk (ms : List MacroIR) : Bool :=
  ms == [expectedMacro .null, expectedMacro .un, expectedMacro .bin, expectedMacro .tern, expectedMacro .quad, expectedMacro .var]

def registerOk (r : RegisterIR) : Bool :=
  r == ⟨["addr", "alloc", "const", "load"], true, true, true, true, true⟩

end MechVerif.CompileIR
