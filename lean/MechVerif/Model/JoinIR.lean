/-
The vocabulary of the table-join kernel of src/interpreter/src/stdlib/table_ops.rs as regenerated from the source
(`tools/extract_join.py` → `Gen/JoinKernel.lean`): what the library types and calls the kernel uses mean.

* `HashMap<K,V>`, `IndexMap<K,V>`: association lists.  `get` returns the first binding of the key; `HashMap.insert`
  puts the new binding in front (so it shadows an older one); `IndexMap.insert` replaces the value of a key that is
  present in place and appends otherwise (insertion order is iteration order); `.iter()` / `for … in &map` visit the list
  in its order — for a `HashMap` that is an input (`col_names`) this order is arbitrary, which the theorems express by
  holding for every list.  `collect()` into a `HashMap` inserts the pairs one after the other; into a `HashSet`, the
  elements.
* `Value`: a table cell (`Tbl.Cell`; `Value::Empty` is `none`); `==` on values is `cellEq`.
* `ValueKind`: a base kind or `Option` of a kind.
* `Matrix<Value>` (a column, `Matrix::DVector`): the list of its cells; `index1d(i)` is the cell at the 1-based
  position `i` (the source panics outside `1..=len`; here the empty value).
* `MechTable`: the four fields of src/core/src/structures/table.rs.
* `a..=b`: `rangeIncl a b`.  `v[i]` on a `Vec<bool>`: `vecGet` (the source panics out of range; here `false`).
-/
import MechVerif.Model.Table
namespace MechVerif.JoinIR
open MechVerif.Tbl MechVerif.SetM MechVerif.Num

structure Value where
  cell : Cell
deriving Repr

instance : BEq Value := ⟨fun a b => cellEq a.cell b.cell⟩
instance : Inhabited Value := ⟨⟨none⟩⟩
def Value.Empty : Value := ⟨none⟩

inductive ValueKind where
  | base (k : AKind)
  | Option (k : ValueKind)
deriving DecidableEq, Repr

/-- the kind without its `Option` wrappers -/
def ValueKind.scalar : ValueKind → AKind
  | .base k => k
  | .Option k => k.scalar
/-- `k?` -/
def ValueKind.isOpt : ValueKind → Bool
  | .base _ => false
  | .Option _ => true

abbrev AList (κ ν : Type) := List (κ × ν)
abbrev HashMap (κ ν : Type) := AList κ ν
abbrev IndexMap (κ ν : Type) := AList κ ν
abbrev HashSet (κ : Type) := List κ
abbrev Matrix (α : Type) := List α

def AList.get {κ ν : Type} [BEq κ] (m : AList κ ν) (k : κ) : Option ν := List.lookup k m

def HashMap.new {κ ν : Type} : HashMap κ ν := []
def HashMap.insert {κ ν : Type} (m : HashMap κ ν) (k : κ) (v : ν) : HashMap κ ν := (k, v) :: m
def HashMap.collect {κ ν : Type} (l : List (κ × ν)) : HashMap κ ν := l.foldl (fun m p => HashMap.insert m p.1 p.2) []

def IndexMap.new {κ ν : Type} : IndexMap κ ν := []
def IndexMap.insert {κ ν : Type} [BEq κ] : IndexMap κ ν → κ → ν → IndexMap κ ν
  | [], k, v => [(k, v)]
  | (k', v') :: m, k, v => if k' == k then (k', v) :: m else (k', v') :: IndexMap.insert m k v

/-- `.iter()`: the elements of a `Vec`, the (key, value) pairs of a map, in iteration order -/
abbrev iter {α : Type} (l : List α) : List α := l

def HashSet.collect {κ : Type} (l : List κ) : HashSet κ := l
def HashSet.contains {κ : Type} [BEq κ] (s : HashSet κ) (k : κ) : Bool := List.elem k s

def index1d (col : Matrix Value) (i : Nat) : Value := if i = 0 then Value.Empty else (col[i - 1]?).getD Value.Empty
def vecGet (v : List Bool) (i : Nat) : Bool := (v[i]?).getD false
def rangeIncl (a b : Nat) : List Nat := List.range' a (b + 1 - a)
def u64_to_string (n : Nat) : String := toString n

structure MechTable where
  rows : Nat
  cols : Nat
  data : IndexMap Nat (ValueKind × Matrix Value)
  col_names : HashMap Nat String

end MechVerif.JoinIR
