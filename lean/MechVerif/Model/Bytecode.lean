/-
Instruction stream codec of `src/core/src/program/program.rs`
(`DecodedInstr::write_to`, `decode_instructions`), opcode numbers as in
`compiler/sections.rs`.  Fields are naturals; `Instr.wf` says they fit their
on-disk width (u32 registers / counts, u64 function ids).
-/
import MechVerif.Model.Crc
namespace MechVerif.Bytecode
open MechVerif.Crc (Byte)

/-- `k` little-endian bytes of `v` -/
def leBytes : Nat → Nat → List Byte
  | 0, _ => []
  | k + 1, v => BitVec.ofNat 8 v :: leBytes k (v / 256)

def unle : List Byte → Nat
  | [] => 0
  | b :: bs => b.toNat + 256 * unle bs

inductive Instr where
  | constLoad (dst constId : Nat)
  | nullOp (fxn dst : Nat)
  | unOp (fxn dst src : Nat)
  | binOp (fxn dst lhs rhs : Nat)
  | ternOp (fxn dst a b c : Nat)
  | quadOp (fxn dst a b c d : Nat)
  | varArg (fxn dst : Nat) (args : List Nat)
  | ret (src : Nat)
deriving DecidableEq, Repr

def U32 : Nat := 2 ^ 32
def U64 : Nat := 2 ^ 64

def Instr.wf : Instr → Prop
  | .constLoad d c => d < U32 ∧ c < U32
  | .nullOp f d => f < U64 ∧ d < U32
  | .unOp f d s => f < U64 ∧ d < U32 ∧ s < U32
  | .binOp f d l r => f < U64 ∧ d < U32 ∧ l < U32 ∧ r < U32
  | .ternOp f d a b c => f < U64 ∧ d < U32 ∧ a < U32 ∧ b < U32 ∧ c < U32
  | .quadOp f d a b c e => f < U64 ∧ d < U32 ∧ a < U32 ∧ b < U32 ∧ c < U32 ∧ e < U32
  | .varArg f d args => f < U64 ∧ d < U32 ∧ args.length < U32 ∧ ∀ a ∈ args, a < U32
  | .ret s => s < U32

def u32s (xs : List Nat) : List Byte := xs.flatMap (leBytes 4)

/-- `DecodedInstr::write_to` -/
def encodeInstr : Instr → List Byte
  | .constLoad d c => 0x01#8 :: (leBytes 4 d ++ leBytes 4 c)
  | .nullOp f d => 0x10#8 :: (leBytes 8 f ++ leBytes 4 d)
  | .unOp f d s => 0x20#8 :: (leBytes 8 f ++ leBytes 4 d ++ leBytes 4 s)
  | .binOp f d l r => 0x30#8 :: (leBytes 8 f ++ leBytes 4 d ++ leBytes 4 l ++ leBytes 4 r)
  | .ternOp f d a b c => 0x40#8 :: (leBytes 8 f ++ leBytes 4 d ++ leBytes 4 a ++ leBytes 4 b ++ leBytes 4 c)
  | .quadOp f d a b c e =>
    0x50#8 :: (leBytes 8 f ++ leBytes 4 d ++ leBytes 4 a ++ leBytes 4 b ++ leBytes 4 c ++ leBytes 4 e)
  | .varArg f d args => 0x60#8 :: (leBytes 8 f ++ leBytes 4 d ++ leBytes 4 args.length ++ u32s args)
  | .ret s => 0xFF#8 :: leBytes 4 s

def encodeInstrs (is : List Instr) : List Byte := is.flatMap encodeInstr

inductive DErr where
  | truncated        -- fewer than 8 bytes left at an instruction boundary
  | eof              -- a field read ran past the end (`UnexpectedEof` from `read_exact`)
  | invalidOpcode (op : Nat)
  | fuel
deriving DecidableEq, Repr

/-- read `k` bytes as a little-endian natural -/
def readLE (k : Nat) (bs : List Byte) : Option (Nat × List Byte) :=
  if bs.length < k then none else some (unle (bs.take k), bs.drop k)

/-- read `n` u32 values -/
def readU32s : Nat → List Byte → Option (List Nat × List Byte)
  | 0, bs => some ([], bs)
  | n + 1, bs =>
    match readLE 4 bs with
    | none => none
    | some (a, rest) =>
      match readU32s n rest with
      | none => none
      | some (as, rest') => some (a :: as, rest')

/-- read the fields `widths` (in bytes) one after another -/
def readFields : List Nat → List Byte → Option (List Nat × List Byte)
  | [], bs => some ([], bs)
  | k :: ks, bs =>
    match readLE k bs with
    | none => none
    | some (a, rest) =>
      match readFields ks rest with
      | none => none
      | some (as, rest') => some (a :: as, rest')

/-- one instruction after the opcode byte -/
def decodeBody (op : Byte) (bs : List Byte) : Except DErr (Instr × List Byte) :=
  if op == 0x01#8 then
    match readFields [4, 4] bs with
    | some ([d, c], r) => .ok (.constLoad d c, r) | _ => .error .eof
  else if op == 0xFF#8 then
    match readFields [4] bs with
    | some ([s], r) => .ok (.ret s, r) | _ => .error .eof
  else if op == 0x10#8 then
    match readFields [8, 4] bs with
    | some ([f, d], r) => .ok (.nullOp f d, r) | _ => .error .eof
  else if op == 0x20#8 then
    match readFields [8, 4, 4] bs with
    | some ([f, d, s], r) => .ok (.unOp f d s, r) | _ => .error .eof
  else if op == 0x30#8 then
    match readFields [8, 4, 4, 4] bs with
    | some ([f, d, l, rr], r) => .ok (.binOp f d l rr, r) | _ => .error .eof
  else if op == 0x40#8 then
    match readFields [8, 4, 4, 4, 4] bs with
    | some ([f, d, a, b, c], r) => .ok (.ternOp f d a b c, r) | _ => .error .eof
  else if op == 0x50#8 then
    match readFields [8, 4, 4, 4, 4, 4] bs with
    | some ([f, d, a, b, c, e], r) => .ok (.quadOp f d a b c e, r) | _ => .error .eof
  else if op == 0x60#8 then
    match readFields [8, 4, 4] bs with
    | some ([f, d, n], r) =>
      (match readU32s n r with
       | some (args, r') => .ok (.varArg f d args, r')
       | none => .error .eof)
    | _ => .error .eof
  else .error (.invalidOpcode op.toNat)

/-- `decode_instructions`: note the `rem < 8` test before every instruction -/
def decodeInstrs : Nat → List Byte → Except DErr (List Instr)
  | _, [] => .ok []
  | 0, _ :: _ => .error .fuel
  | fuel + 1, op :: bs =>
    if (op :: bs).length < 8 then .error .truncated else
    match decodeBody op bs with
    | .error e => .error e
    | .ok (i, rest) =>
      match decodeInstrs fuel rest with
      | .error e => .error e
      | .ok is => .ok (i :: is)

def isRet : Instr → Bool
  | .ret _ => true
  | _ => false

/-- region predicate of finding C07-D4: the stream does not end in `Ret` -/
def noTrailingRet : List Instr → Bool
  | [] => true
  | [i] => !isRet i
  | _ :: is => noTrailingRet is

end MechVerif.Bytecode
