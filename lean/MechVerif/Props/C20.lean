/-
C20 — Source includes expand to the spliced text, and cycles are detected.
Property statements only; proofs of the helper lemmas are in `Lemmas/Include.lean`.
Model: `Model/Include.lean` (mirrors `src/mechfs.rs`), spec: `Spec/Include.lean`.
-/
import MechVerif.Lemmas.Include
import MechVerif.Lemmas.IncludeHelpers
namespace MechVerif.Include

/-- Loading always terminates with a result that is not "out of fuel": the fuel the
    loader model is started with is never the reason it stops. -/
theorem C20_expand_total (fs : FS) (p : Path) :
    expandFile fs (fs.files.length + 1) [] p ≠ .error .fuel := by
  apply fuel_suffices
  · exact List.nodup_nil
  · intro a ha; cases ha
  · simp [FS.keys]

/-- Whatever the loader returns is the textual substitution defined by the include
    graph (the relational spec `Expands`), for every file system, fuel and active set. -/
theorem C20_expand_sound (fs : FS) (n : Nat) (active : List Path) (p : Path) (s : Text)
    (h : expandFile fs n active p = .ok s) : Expands fs p s :=
  expandFile_sound fs n active p s h

/-- The substitution is unique: the loader's result is *the* expansion. -/
theorem C20_expansion_unique (fs : FS) (p : Path) (s s' : Text)
    (h : Expands fs p s) (h' : Expands fs p s') : s = s' :=
  expands_functional fs p s s' h h'

/-- If the include graph reachable from `p` contains a cycle, loading fails
    (with any fuel and any active set it never returns a text). -/
theorem C20_cycle_is_error (fs : FS) (p q : Path)
    (hpq : p = q ∨ Reach fs p q) (hcyc : Reach fs q q) :
    ∀ (n : Nat) (active : List Path) (s : Text), expandFile fs n active p ≠ .ok s := by
  intro n active s h
  have hq : ∃ n' a' s', expandFile fs n' a' q = .ok s' := by
    cases hpq with
    | inl e => subst e; exact ⟨n, active, s, h⟩
    | inr r =>
      obtain ⟨n', a', s', _, _, hok⟩ := ok_reach fs p q r n active s h
      exact ⟨n', a', s', hok⟩
  obtain ⟨n', a', s', hok⟩ := hq
  obtain ⟨n'', a'', s'', hmem, _, hok'⟩ := ok_reach fs q q hcyc n' a' s' hok
  exact active_not_ok fs n'' a'' q s'' hmem hok'

/-- ... and with the fuel `load` uses, the failure is a circular-include or
    include (missing) error, never a give-up. -/
theorem C20_cycle_error_kind (fs : FS) (p q : Path)
    (hpq : p = q ∨ Reach fs p q) (hcyc : Reach fs q q) :
    expandFile fs (fs.files.length + 1) [] p = .error .circular ∨
    ∃ name, expandFile fs (fs.files.length + 1) [] p = .error (.missing name) := by
  have h1 := C20_cycle_is_error fs p q hpq hcyc (fs.files.length + 1) []
  have h2 := C20_expand_total fs p
  cases h : expandFile fs (fs.files.length + 1) [] p with
  | ok s => exact absurd h (h1 s)
  | error e =>
    cases e with
    | circular => exact Or.inl rfl
    | missing name => exact Or.inr ⟨name, rfl⟩
    | fuel => exact absurd h h2

/-- The same file may be included several times: in an acyclic include graph
    (witnessed by a rank that decreases along every include edge) a circular-include
    error is never reported — diamonds and repeated includes are fine. -/
theorem C20_diamond_ok (fs : FS) (rank : Path → Nat)
    (hrank : ∀ p q, Edge fs p q → rank q < rank p) (n : Nat) (p : Path) :
    expandFile fs n [] p ≠ .error .circular :=
  acyclic_never_circular fs rank hrank n [] p (by intro a ha; cases ha)

/-- A file with no stand-alone include line outside code fences is returned
    unchanged, byte for byte: lines inside fences and other brace expressions are
    left untouched. -/
theorem C20_no_include_identity (fs : FS) (n : Nat) (active : List Path) (p : Path) (src : Text)
    (hread : fs.read p = some src) (hp : active.contains p = false)
    (hno : noIncludeLines fs p.dropLast none (splitLines src) = true) :
    expandFile fs (n + 1) active p = .ok src := by
  simp only [expandFile, hp, hread]
  rw [expandLines_id _ fs _ _ _ hno, splitLines_flatten]
  simp

/-- Inside an open code fence a line is copied verbatim, whatever it contains. -/
theorem C20_fenced_line_verbatim (rec : Path → Except Err Text) (fs : FS) (dir : Path)
    (m : Char) (k : Nat) (l : Text) (ls : List Text) (out : Text)
    (h : expandLines rec fs dir (some (m, k)) (l :: ls) = .ok out) :
    ∃ r, out = l ++ r := by
  simp only [expandLines] at h
  split at h
  · simp at h
  · rename_i r _; exact ⟨r, by simp only [Except.ok.injEq] at h; exact h.symm⟩

/-- A missing include target is an include error that names it. -/
theorem C20_missing_names_target (rec : Path → Except Err Text) (fs : FS) (dir : Path)
    (l : Text) (ls : List Text) (raw : Text)
    (hd : codeFenceDelimiter l = none) (hi : includeTarget (stripNl l).1 = some raw)
    (hr : resolve fs dir raw = none) :
    expandLines rec fs dir none (l :: ls) = .error (.missing raw) := by
  simp [expandLines, hd, hi, hr]

/-! ### non-vacuity: concrete file systems meeting the hypotheses -/

def exDiamond : FS := { files := [
  ([ "a.mec".toList ], "{b.mec}\n{c.mec}\n".toList),
  ([ "b.mec".toList ], "B\n{d.mec}\n".toList),
  ([ "c.mec".toList ], "C\n{d.mec}\n".toList),
  ([ "d.mec".toList ], "D\n".toList) ] }

def exCycle : FS := { files := [
  ([ "a.mec".toList ], "{b.mec}\n".toList),
  ([ "b.mec".toList ], "x\n```\n{a.mec}\n```\n{a.mec}\n".toList) ] }

def okEq (r : Except Err Text) (t : Text) : Bool :=
  match r with | .ok s => s == t | .error _ => false
def isCircular (r : Except Err Text) : Bool :=
  match r with | .error .circular => true | _ => false

example : okEq (load exDiamond "a.mec".toList) "B\nD\n\n\nC\nD\n\n\n".toList = true := by decide
example : isCircular (load exCycle "a.mec".toList) = true := by decide
example : Reach exCycle ["a.mec".toList] ["a.mec".toList] :=
  .trans (m := ["b.mec".toList]) (show _ ∈ targets _ _ by decide) (.step (show _ ∈ targets _ _ by decide))
example : noIncludeLines exCycle [] none (splitLines "x\n```\n{a.mec}\n```\n".toList) = true := by decide

/-! ### the line-level helpers as written

`Gen/IncludeHelpers.lean` is regenerated from `src/mechfs.rs` by `tools/extract_include.py` on every run: the four
helpers of the include expander as Lean definitions over `Model/IncludeIR.lean` (indexing, slicing and `usize`
subtraction can panic).  Each of them computes the model's function for every line and never panics. -/
section AsWritten
open MechVerif.IncludeIR MechVerif.Gen.IncludeHelpers

/-- `code_fence_delimiter` of the source = `codeFenceDelimiter` of the model: up to three leading spaces, a run of at
    least three backticks or tildes; (marker, run length, position after the run). -/
theorem C20_code_fence_delimiter_as_written (line : Text) :
    code_fence_delimiter line = .ok (codeFenceDelimiter line) :=
  code_fence_delimiter_eq line

/-- `is_code_fence_close` of the source = `isFenceClose` of the model: same marker, at least the opening length,
    nothing but blanks, tabs, `\r`, `\n` after the run. -/
theorem C20_is_code_fence_close_as_written (line : Text) (marker : Char) (minLen : Nat) :
    is_code_fence_close line marker minLen = .ok (isFenceClose line marker minLen) :=
  is_code_fence_close_eq line marker minLen

/-- `standalone_braced_content` of the source: the trimmed line starts with `{` and ends with `}` (then it has at least
    two characters and the slice does not panic); returns what is between. -/
theorem C20_standalone_braced_content_as_written (l : Text) :
    standalone_braced_content l = .ok (standaloneBraced l) :=
  standalone_braced_content_eq l

/-- `looks_like_mech_include` of the source: the trimmed text ends in `.mec`. -/
theorem C20_looks_like_mech_include_as_written (c : Text) :
    looks_like_mech_include c = .ok (endsWith (trimWs c) ".mec".toList) :=
  looks_like_mech_include_eq c

/-- the two brace helpers composed as `expand_mechdown_include_tokens` composes them = `includeTarget` of the model. -/
theorem C20_include_target_as_written (body : Text) :
    includeTargetOf standalone_braced_content looks_like_mech_include body = .ok (includeTarget body) :=
  includeTarget_eq body

/-- consequences for the functions as written, on the cases that were seeded changes in this project: a closing fence
    may be longer than the opening one but not shorter; three leading spaces are a fence, four are not; a `\r` after
    the closing run is allowed; text after it is not. -/
theorem C20_fence_cases_as_written :
    is_code_fence_close "`````\n".toList '`' 3 = .ok true ∧
    is_code_fence_close "```\n".toList '`' 4 = .ok false ∧
    is_code_fence_close "```\r\n".toList '`' 3 = .ok true ∧
    is_code_fence_close "``` x\n".toList '`' 3 = .ok false ∧
    is_code_fence_close "~~~\n".toList '`' 3 = .ok false ∧
    code_fence_delimiter "   ```mech\n".toList = .ok (some ('`', 3, 6)) ∧
    code_fence_delimiter "    ```\n".toList = .ok none ∧
    code_fence_delimiter "``\n".toList = .ok none := by
  simp only [C20_is_code_fence_close_as_written, C20_code_fence_delimiter_as_written, Except.ok.injEq]
  decide

/-! #### the `active_set` discipline of the two `expand_*` functions as written

`recursive_skeleton` / `tokens_skeleton` (generated) are the bodies of `expand_mechdown_includes_recursive` and
`expand_mechdown_include_tokens` reduced to the events on `active_set` and the exits; `Exec` (Model/IncludeIR.lean) runs
a skeleton without interpreting conditions, the callees keeping the contract proved here for the other function. -/

/-- `expand_mechdown_includes_recursive` as written, entered with `active_set = a`: it never falls off its end, every
    `Ok` return hands the set back as `a` (every exit after the insert that is not an error removes the file again),
    and `expand_mechdown_include_tokens` is only ever called with the set `p :: a` — which is the model's
    `expandFile fs n (p :: active)` for the children and `active` again for the siblings (the stack discipline behind
    `C20_diamond_ok`).  Errors are not caught anywhere: they are `?`-propagated to `expand_mechdown_includes`, whose set
    is dropped. -/
theorem C20_recursive_restores_active_set (p : Path) (a : List Path) (k : Exit) (s' : List Path)
    (log : List (List Path)) (h : Exec p recursive_skeleton a k s' log) :
    k ≠ .normal ∧ k ≠ .cont ∧ (k = .retOk → s' = a) ∧ (∀ x ∈ log, x = p :: a) :=
  discipline_sound p a recursive_skeleton C20_active_set_discipline_as_written.1 h

/-- `expand_mechdown_include_tokens` as written: every `Ok` return leaves the set as it was (the contract
    `Exec.tokens_ok` assumes), and it never calls itself. -/
theorem C20_tokens_restores_active_set (p : Path) (a : List Path) (k : Exit) (s' : List Path)
    (log : List (List Path)) (h : Exec p tokens_skeleton a k s' log) :
    k ≠ .normal ∧ k ≠ .cont ∧ (k = .retOk → s' = a) ∧ log = [] := by
  have := discipline_sound p a tokens_skeleton C20_active_set_discipline_as_written.2 h
  exact ⟨this.1, this.2.1, this.2.2.1, noTokensCalls_log p (sk := tokens_skeleton) (by decide) h⟩

/-- the check has teeth: an early `return Ok(…)` between the insert and the remove is rejected, and such a body really
    can return with the file still in the set (the seeded change that made diamonds "circular"). -/
theorem C20_discipline_rejects_early_return (p : Path) (a : List Path) (hp : p ∉ a) :
    let bad : Skel := .seq (.ev .guardActive) (.seq (.ev .insert)
      (.seq (.branch (.ev .returnOk) .skip) (.seq (.ev .remove) (.ev .returnOk))))
    disciplineOk bad = false ∧ Exec p bad a .retOk (p :: a) [] := by
  refine ⟨by decide, ?_⟩
  exact Exec.seq_normal _ _ _ _ _ _ [] [] (Exec.guard_out a hp)
    (Exec.seq_normal _ _ _ _ _ _ [] [] (Exec.insert a)
      (Exec.seq_abrupt _ _ _ _ _ _ (Exec.branch_then _ _ _ _ _ _ (Exec.returnOk _)) (by decide)))

/-- … and so are a missing guard, a missing remove, an insert after the expansion, and a call whose error is caught. -/
theorem C20_discipline_rejects_other_changes :
    disciplineOk (.seq (.ev .insert) (.seq (.ev .callTokens) (.seq (.ev .remove) (.ev .returnOk)))) = false ∧
    disciplineOk (.seq (.ev .guardActive) (.seq (.ev .insert) (.seq (.ev .callTokens) (.ev .returnOk)))) = false ∧
    disciplineOk (.seq (.ev .guardActive) (.seq (.ev .callTokens) (.seq (.ev .insert) (.seq (.ev .remove) (.ev .returnOk))))) = false ∧
    disciplineOk (.seq (.ev .guardActive) (.seq (.ev .insert) (.seq (.ev .foreign) (.seq (.ev .remove) (.ev .returnOk))))) = false ∧
    disciplineOk (.seq (.ev .guardActive) (.seq (.ev .insert) (.seq (.loop (.branch (.ev .remove) .skip)) (.seq (.ev .remove) (.ev .returnOk))))) = false := by
  decide

end AsWritten

end MechVerif.Include
