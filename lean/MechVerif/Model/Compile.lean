/-
The compile side of the bytecode: `Interpreter::compile()` (src/interpreter/src/interpreter.rs:592-603)
runs `step.compile(&mut ctx)` over the plan in order; every generated function struct compiles through
one of `compile_nullop!/unop!/binop!/ternop!/quadop!/varop!` (src/core/src/stdlib.rs:27-199), which call
`compile_register_brrw!` for the output cell first, then for each argument cell in order, and then emit
one operation.  `CompileCtx` (src/core/src/program/compiler/context.rs) keeps one register per cell
address (`alloc_register_for_ptr`), a constant table that grows by one entry per `compile_const`, and
the instruction list.

A cell is its address.  A constant is the cell it was read from (compilation runs after the interpreter
has finished, nothing writes a cell between two `compile_const` calls, so the payload is a function of
the address: `store`).  A function id is an opaque number.
-/
import MechVerif.Model.RunProgram
namespace MechVerif.Compile

abbrev Addr := Nat
abbrev Reg := Nat

/-- which macro the struct's `MechFunctionCompiler::compile` goes through -/
inductive OpClass where
  | null | un | bin | tern | quad | var
deriving DecidableEq, Repr

inductive Instr where
  | constLoad (dst : Reg) (constId : Nat)
  | op (cls : OpClass) (fxnId : Nat) (dst : Reg) (args : List Reg)
deriving DecidableEq, Repr

/-- `CompileCtx`: `reg_map` (entries in insertion order), `next_reg`, `instrs`, and the constant
    table as the list of cells whose value was written (`const_entries.len()` is its length) -/
structure Ctx where
  regMap : List (Addr × Reg)
  nextReg : Nat
  instrs : List Instr
  consts : List Addr
deriving DecidableEq, Repr

/-- `CompileCtx::new()` -/
def Ctx.empty : Ctx := ⟨[], 0, [], []⟩

/-- `reg_map.get(&ptr)` -/
def regOf : List (Addr × Reg) → Addr → Option Reg
  | [], _ => none
  | (k, r) :: rest, a => if k = a then some r else regOf rest a

/-- `alloc_register_for_ptr`: the register the address already has, else `next_reg`, which is then
    incremented and recorded -/
def allocReg (c : Ctx) (a : Addr) : Ctx × Reg :=
  match regOf c.regMap a with
  | some r => (c, r)
  | none => ({ c with regMap := c.regMap ++ [(a, c.nextReg)], nextReg := c.nextReg + 1 }, c.nextReg)

/-- `compile_register_brrw!`: allocate, write the cell's value as a new constant (its id is the number
    of constants before it), emit `ConstLoad reg const_id` -/
def compileRegister (c : Ctx) (a : Addr) : Ctx × Reg :=
  let (c1, r) := allocReg c a
  ({ c1 with consts := c1.consts ++ [a], instrs := c1.instrs ++ [.constLoad r c1.consts.length] }, r)

/-- the argument registers of a step, left to right -/
def compileRegs (c : Ctx) : List Addr → Ctx × List Reg
  | [] => (c, [])
  | a :: rest =>
    let (c1, r) := compileRegister c a
    let (c2, rs) := compileRegs c1 rest
    (c2, r :: rs)

/-- one plan step: a generated function struct with its output cell and its argument cells, and the
    macro its `compile` goes through (a two-argument struct compiled with `compile_varop!` emits `VarArg`) -/
structure Step where
  cls : OpClass
  fxnId : Nat
  out : Addr
  args : List Addr
deriving DecidableEq, Repr

/-- `compile_*op!`: the output cell, the arguments in order, one operation -/
def compileStep (c : Ctx) (s : Step) : Ctx :=
  let (c1, d) := compileRegister c s.out
  let (c2, rs) := compileRegs c1 s.args
  { c2 with instrs := c2.instrs ++ [.op s.cls s.fxnId d rs] }

/-- `Interpreter::compile`: every plan step in order, into one context -/
def compilePlan (c : Ctx) (plan : List Step) : Ctx := plan.foldl compileStep c

/-- the arity `run_program` expects of a function of this class (`none` = variadic) -/
def OpClass.arity : OpClass → Option Nat
  | .null => some 0 | .un => some 1 | .bin => some 2 | .tern => some 3 | .quad => some 4 | .var => none

/-- a step's argument count fits the instruction form of its class -/
def Step.wf (s : Step) : Prop :=
  match s.cls.arity with
  | some n => s.args.length = n
  | none => True

/-- the emitted instruction as `run_program` sees it after loading (Model/RunProgram.lean);
    `registered` says which function ids the fresh interpreter knows -/
def toIns (registered : Nat → Bool) : Instr → RunProgram.Ins
  | .constLoad d c => .constLoad d c
  | .op cls f d args => .op cls.arity (registered f) d args

/-- the loaded program: register count of the header (`next_reg`), the constants (the value each cell
    held when it was written), the instructions -/
def run (registered : Nat → Bool) (store : Addr → String) (c : Ctx) : Except RunProgram.RErr String :=
  RunProgram.runProgram c.nextReg (c.consts.map store) none (c.instrs.map (toIns registered))

end MechVerif.Compile
