/-
What `Model/Lit.lean` assumes about the grammar of number literals (src/syntax/src/literals.rs): which form a spelling is
read as.  `real_number` is a nom `alt`: the first alternative that succeeds wins, on whatever prefix it consumes.  The
spellings of `Spelling` are told apart by their longest reading (`0x1F` is a hexadecimal literal and not the integer `0`,
`1.5e3` is scientific and not the float `1.5`, `1/2` is a rational and not the integer `1`, `255u8` is a typed integer and
not `255`); a first-match `alt` computes that reading exactly when every form whose spellings begin with a complete
spelling of another form is tried before that other form (`mustPrecede`).  `Gen/LitOrder.lean`, regenerated from /repo on
every run, proves that the order written in the source is `realNumberOrder` and respects `mustPrecede`.
-/
import MechVerif.Model.Lit
namespace MechVerif.Lit

/-- the forms of a real-number spelling: the constructors of `Spelling` -/
inductive Form where
  | based (base : Nat) | scientific | rational | float | typed | integer
deriving DecidableEq, Repr

def Spelling.form : Spelling → Form
  | .integer _ => .integer
  | .float _ _ => .float
  | .scientific _ _ _ _ => .scientific
  | .based b _ _ => .based b
  | .typed _ _ => .typed
  | .rational _ _ => .rational

/-- the order in which `real_number` tries the forms (`float_literal` has two alternatives, leading dot and full;
    `integer_literal` tries the typed integer before the untyped one) -/
def realNumberOrder : List Form :=
  [.based 16, .based 10, .based 8, .based 2, .scientific, .rational, .float, .float, .typed, .integer]

/-- `untyped_real_number`, the parts of a complex literal: the same without typed integers -/
def untypedRealNumberOrder : List Form :=
  [.based 16, .based 10, .based 8, .based 2, .scientific, .rational, .float, .float, .integer]

/-- the form a `RealNumber` variant of the syntax tree is evaluated as -/
def formOfVariant : String → Option Form
  | "Hexadecimal" => some (.based 16) | "Decimal" => some (.based 10) | "Octal" => some (.based 8) | "Binary" => some (.based 2)
  | "Scientific" => some .scientific | "Rational" => some .rational | "Float" => some .float
  | "TypedInteger" => some .typed | "Integer" => some .integer
  | _ => none

/-- (A, B, a spelling of A that begins with a complete spelling of B): `alt` must try A before B -/
def mustPrecede : List (Form × Form × String) :=
  [(.based 16, .integer, "0x1F"), (.based 10, .integer, "0d19"), (.based 8, .integer, "0o17"), (.based 2, .integer, "0b11"),
   (.based 16, .typed, "0x1F"), (.based 10, .typed, "0d19"), (.based 8, .typed, "0o17"), (.based 2, .typed, "0b11"),
   (.scientific, .float, "1.5e3"), (.scientific, .integer, "1.5e3"),
   (.rational, .integer, "1/2"), (.float, .integer, "1.5"),
   (.typed, .integer, "255u8")]

/-- in `order`, no occurrence of A comes after an occurrence of B, for every (A, B) of `mustPrecede` -/
def respects (order : List Form) : Bool :=
  mustPrecede.all (fun c => (order.dropWhile (fun f => f != c.2.1)).all (fun f => f != c.1))

/-- the alternatives of a parser, with those that are themselves a plain `alt` replaced by their alternatives -/
def expandAlts (altFns : List (String × List String)) (names : List String) : List String :=
  names.flatMap (fun n => match altFns.find? (fun a => a.1 == n) with | some a => a.2 | none => [n])

/-- the form each alternative produces, read off the `RealNumber` variant its parser returns -/
def formsOf (altFns : List (String × List String)) (leaves : List (String × String × List String)) (names : List String) :
    List (Option Form) :=
  (expandAlts altFns names).map (fun n => match leaves.find? (fun l => l.1 == n) with | some l => formOfVariant l.2.1 | none => none)

/-- the prefix of a based literal and whether its digit lexer keeps underscores in the token (`valueOf` lets the 0x/0o/0b
    tokens fail on an underscore, and not the 0d token, for that reason) -/
def basedShape : Nat → Option (String × Bool)
  | 16 => some ("tag:0x", true) | 10 => some ("tag:0d", false) | 8 => some ("tag:0o", true) | 2 => some ("tag:0b", true)
  | _ => none

/-- the parsers a leaf applies to the input are those the corresponding `Spelling` is made of -/
def leafShapeOk (l : String × String × List String) : Bool :=
  match formOfVariant l.2.1 with
  | some (.based b) =>
    (match basedShape b with
     | some (tag, keepsUnderscore) =>
       l.2.2 == [tag, if keepsUnderscore then "many1:digit_token|underscore|alpha_token" else "digit_sequence"]
     | none => false)
  | some .typed => l.2.2 == ["digit_sequence", "identifier"]
  | some .integer => l.2.2 == ["digit_sequence"]
  | some .float => l.2.2 == ["period", "digit_sequence"] || l.2.2 == ["digit_sequence", "period", "digit_sequence"]
  | some .rational => l.2.2 == ["integer_literal", "slash", "integer_literal"]
  | some .scientific =>
    l.2.2 == ["float_literal", "integer_literal", "tag:e", "tag:E", "opt:plus", "opt:dash", "float_literal", "integer_literal"]
  | none => false

/-- the model's order respects the prefix constraints, and so does no order that swaps one of the constrained pairs -/
theorem realNumberOrder_respects : respects realNumberOrder = true ∧ respects untypedRealNumberOrder = true := by decide

end MechVerif.Lit
