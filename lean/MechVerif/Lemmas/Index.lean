import MechVerif.Spec.Index
import MechVerif.Lemmas.Broadcast
namespace MechVerif.Index
open MechVerif.Num MechVerif.Mat

variable {α : Type}

theorem pred1_ok {i k : Nat} : pred1 i = .ok k ↔ (1 ≤ i ∧ k = i - 1) := by
  unfold pred1
  by_cases h : i = 0
  · simp [h]
  · simp [h]; constructor
    · intro e; exact ⟨by omega, e.symm⟩
    · intro ⟨_, e⟩; exact e.symm

theorem getRC_ok (m : Mat α) (r c : Nat) (z : α) :
    getRC m r c = .ok z ↔ (r < m.rows ∧ c < m.cols ∧ m.data[c * m.rows + r]? = some z) := by
  unfold getRC
  by_cases h : r < m.rows ∧ c < m.cols
  · simp [h, getE_ok]
  · simp only [h, if_false]
    constructor
    · intro e; cases e
    · intro ⟨h1, h2, _⟩; exact absurd ⟨h1, h2⟩ h

theorem getLin_ok (m : Mat α) (k : Nat) (z : α) :
    getLin m k = .ok z ↔ (k < m.rows * m.cols ∧ m.data[k]? = some z) := by
  unfold getLin
  by_cases h : k < m.rows * m.cols
  · simp [h, getE_ok]
  · simp [h]

/-- the 2-D gather loop: size, and every cell is the addressed element of the source -/
theorem gather2_sound (m : Mat α) (R C : List Nat) (d : List α) (h : gather2 m R C = .ok d) :
    d.length = R.length * C.length ∧
    ∀ a b, a < R.length → b < C.length →
      ∃ r c z, R[a]? = some r ∧ C[b]? = some c ∧ at1 m r c = some z ∧ d[b * R.length + a]? = some z := by
  obtain ⟨hl, hk⟩ := tab_sound _ _ 0 d h
  refine ⟨hl, ?_⟩
  intro a b ha hb
  obtain ⟨z, hz, hd⟩ := hk (b * R.length + a) (lin_lt a b R.length C.length ha hb)
  simp only [Nat.zero_add, lin_mod a b R.length ha, lin_div a b R.length ha] at hz
  obtain ⟨r, hr, hz⟩ := bindE_ok.mp hz
  obtain ⟨c, hc, hz⟩ := bindE_ok.mp hz
  obtain ⟨r0, hr0, hz⟩ := bindE_ok.mp hz
  obtain ⟨c0, hc0, hz⟩ := bindE_ok.mp hz
  obtain ⟨hr1, hr2⟩ := pred1_ok.mp hr0
  obtain ⟨hc1, hc2⟩ := pred1_ok.mp hc0
  obtain ⟨h1, h2, h3⟩ := (getRC_ok m r0 c0 z).mp hz
  refine ⟨r, c, z, getE_ok.mp hr, getE_ok.mp hc, ?_, hd⟩
  unfold at1
  have : 1 ≤ r ∧ r ≤ m.rows ∧ 1 ≤ c ∧ c ≤ m.cols := by omega
  rw [if_pos this, ← hr2, ← hc2]
  exact h3

/-- the gather loop succeeds when every addressed index is in range -/
theorem gather2_complete (m : Mat α) (hm : m.data.length = m.rows * m.cols) (R C : List Nat)
    (hR : inRange R m.rows) (hC : inRange C m.cols) : ∃ d, gather2 m R C = .ok d := by
  apply tab_complete
  intro k hk
  simp only [Nat.zero_add]
  have hRpos : 0 < R.length := by
    cases hR0 : R.length with
    | zero => simp [hR0] at hk
    | succ n => omega
  have ha : k % R.length < R.length := Nat.mod_lt _ hRpos
  have hb : k / R.length < C.length := (Nat.div_lt_iff_lt_mul hRpos).mpr (by rw [Nat.mul_comm]; exact hk)
  have hr := hR (R[k % R.length]) (List.getElem_mem ha)
  have hc := hC (C[k / R.length]) (List.getElem_mem hb)
  have hlin : (C[k / R.length] - 1) * m.rows + (R[k % R.length] - 1) < m.data.length := by
    rw [hm]; exact lin_lt _ _ _ _ (by omega) (by omega)
  refine ⟨m.data[(C[k / R.length] - 1) * m.rows + (R[k % R.length] - 1)], ?_⟩
  have e1 : getE R (k % R.length) = .ok (R[k % R.length]) := by simp [getE, ha]
  have e2 : getE C (k / R.length) = .ok (C[k / R.length]) := by simp [getE, hb]
  have e3 : pred1 (R[k % R.length]) = .ok (R[k % R.length] - 1) := pred1_ok.mpr ⟨hr.1, rfl⟩
  have e4 : pred1 (C[k / R.length]) = .ok (C[k / R.length] - 1) := pred1_ok.mpr ⟨hc.1, rfl⟩
  rw [e1]; simp only [bindE]; rw [e2]; simp only [bindE]; rw [e3]; simp only [bindE]; rw [e4]; simp only [bindE]
  apply (getRC_ok m _ _ _).mpr
  refine ⟨by omega, by omega, ?_⟩
  simp [hlin]

/-- an index that addresses no element makes the loop fail -/
theorem gather2_rejects (m : Mat α) (R C : List Nat) (hRne : R ≠ []) (hCne : C ≠ [])
    (hbad : ¬ (inRange R m.rows ∧ inRange C m.cols)) : ∃ e, gather2 m R C = .error e := by
  cases hg : gather2 m R C with
  | error e => exact ⟨e, rfl⟩
  | ok d =>
    exfalso
    apply hbad
    obtain ⟨_, hcell⟩ := gather2_sound m R C d hg
    have hRpos : 0 < R.length := List.length_pos_iff.mpr hRne
    have hCpos : 0 < C.length := List.length_pos_iff.mpr hCne
    constructor
    · intro i hi
      obtain ⟨a, ha, hai⟩ := List.getElem_of_mem hi
      obtain ⟨r, c, z, hr, _, hat, _⟩ := hcell a 0 ha hCpos
      have : r = i := by rw [List.getElem?_eq_getElem ha] at hr; cases hr; exact hai
      subst this
      unfold at1 at hat
      by_cases hc : 1 ≤ r ∧ r ≤ m.rows ∧ 1 ≤ c ∧ c ≤ m.cols
      · exact ⟨hc.1, hc.2.1⟩
      · rw [if_neg hc] at hat; cases hat
    · intro j hj
      obtain ⟨b, hb, hbj⟩ := List.getElem_of_mem hj
      obtain ⟨r, c, z, _, hc', hat, _⟩ := hcell 0 b hRpos hb
      have : c = j := by rw [List.getElem?_eq_getElem hb] at hc'; cases hc'; exact hbj
      subst this
      unfold at1 at hat
      by_cases hc : 1 ≤ r ∧ r ≤ m.rows ∧ 1 ≤ c ∧ c ≤ m.cols
      · exact ⟨hc.2.2.1, hc.2.2.2⟩
      · rw [if_neg hc] at hat; cases hat

/-- the 1-D gather loop -/
theorem gather1_sound (m : Mat α) (ix : List Nat) (d : List α) (h : gather1 m ix = .ok d) :
    d.length = ix.length ∧
    ∀ k, k < ix.length → ∃ i z, ix[k]? = some i ∧ atLin1 m i = some z ∧ d[k]? = some z := by
  obtain ⟨hl, hk⟩ := tab_sound _ _ 0 d h
  refine ⟨hl, ?_⟩
  intro k hklt
  obtain ⟨z, hz, hd⟩ := hk k hklt
  simp only [Nat.zero_add] at hz
  obtain ⟨i, hi, hz⟩ := bindE_ok.mp hz
  obtain ⟨i0, hi0, hz⟩ := bindE_ok.mp hz
  obtain ⟨h1, h2⟩ := pred1_ok.mp hi0
  obtain ⟨h3, h4⟩ := (getLin_ok m i0 z).mp hz
  refine ⟨i, z, getE_ok.mp hi, ?_, hd⟩
  unfold atLin1
  rw [if_pos (by omega), ← h2]; exact h4

theorem gather1_complete (m : Mat α) (hm : m.data.length = m.rows * m.cols) (ix : List Nat)
    (h : inRange ix (m.rows * m.cols)) : ∃ d, gather1 m ix = .ok d := by
  apply tab_complete
  intro k hk
  simp only [Nat.zero_add]
  have hi := h (ix[k]) (List.getElem_mem hk)
  have hlt : ix[k] - 1 < m.data.length := by omega
  refine ⟨m.data[ix[k] - 1], ?_⟩
  have e1 : getE ix k = .ok (ix[k]) := by simp [getE, hk]
  have e2 : pred1 (ix[k]) = .ok (ix[k] - 1) := pred1_ok.mpr ⟨hi.1, rfl⟩
  rw [e1]; simp only [bindE]; rw [e2]; simp only [bindE]
  apply (getLin_ok m _ _).mpr
  exact ⟨by omega, by simp [hlt]⟩

end MechVerif.Index
