"""Per-property configuration for ./check: evidence wording and case decoders."""

def _unhex(h):
    if h == "-": return ""
    try: return bytes.fromhex(h).decode("utf-8", "replace")
    except Exception: return h

def decode_case(prop, case):
    f = case.split("\t")
    try:
        if f[0] == "include":
            files = {}
            for e in f[2:]:
                p, _, c = e.partition("=")
                files[_unhex(p)] = _unhex(c)
            return {"proto": "include", "root": _unhex(f[1]), "files": files}
    except Exception:
        pass
    return case

CONFIG = {
 "C20": {
  "rule": "every edge subset of the include graph over 3 files (512 graphs, plain and decorated rendering; thorough: all 65536 over 4 files) plus random graphs over 2-5 files in 3 directories with fences, CRLF, whitespace and non-include brace lines; distinct = distinct file-system encodings",
  "trusted": ["std::fs::canonicalize modelled as lexical normalisation with existence checks on a symlink-free tree",
              "line classification (stand-alone include outside fences) is shared by model and executable spec; the relational spec Expands is what the theorems tie it to"],
  "assumptions": ["file contents are valid UTF-8; include targets are not directories; no symlinks"],
  "engine": "fs",
  "level_text": "Machine-checked theorems (Lean 4) over a model of src/mechfs.rs's include expander for all file systems, graph sizes and nesting depths: totality (fuel never binds), soundness and uniqueness w.r.t. the relational substitution spec, cycles reachable from the root always fail, acyclic graphs (diamonds, repeated includes) never report a cycle, fenced lines/non-include files are untouched, missing targets are named. The model is tied to the code on every run by differential execution on all include graphs over 3 files (thorough: 4) and decorated random trees on the real file system.",
  "level_note": "Trusted: Lean kernel + propext/Classical.choice/Quot.sound; the harness and protocol driver; canonicalize modelled lexically on symlink-free trees; UTF-8 contents. The model is hand-written (not extracted): a change in mechfs.rs shows up as a correspondence disagreement.",
 },
}

pre_lean = {}

NOT_CLAIMED = {}
