/-
C01, second tie to the source: the element-wise kernels as they are *written*.

Every operator of machines/{math,compare,logic} comes with eight macros
(`<op>_op`, `<op>_vec_op`, `<op>_scalar_lhs_op`, `<op>_scalar_rhs_op`, `<op>_mat_vec_op`,
`<op>_vec_mat_op`, `<op>_mat_row_op`, `<op>_row_mat_op`) and `impl_fxns!` in
src/core/src/stdlib.rs wires one of them to every pair of storage forms.  `tools/extract_kernels.py`
reads each macro body and writes what it says as a value of `IR` (which loop, how each of the two
operands of the scalar operator is addressed inside it, in which order they are written); the
file it generates (`Gen/Kernels.lean`) ends in `decide` proofs that every extracted kernel is
`irOk` for its family.  `irOk` is proved sound below: a table of `irOk` kernels evaluates exactly as
`evalBinop` of `Model/Mat.lean`, the function the C01 theorems are about.
-/
import MechVerif.Model.Mat
namespace MechVerif.KernelIR
open MechVerif.Num MechVerif.Mat

/-- which macro argument -/
inductive Side where
  | L | R
deriving DecidableEq, Repr

/-- how an operand is addressed in the statement that computes one output element -/
inductive Acc where
  | whole   -- `*$x`: the operand is a scalar
  | lin     -- `x[i]` / `x.iter()` under a loop over the linear (column-major) index
  | outer   -- `x_col[i]` / `x_row[i]`: the column (row) of `x` that is zipped with the output's
  | inner   -- `x[i]` inside a column (row) loop: a vector indexed by the inner index
deriving DecidableEq, Repr

/-- the loop around that statement; the `Side` is the operand whose length or whose columns /
    rows drive the loop together with the output -/
inductive LoopK where
  | none
  | linear (over : Side)
  | cols (zip : Side)
  | rows (zip : Side)
deriving DecidableEq, Repr

structure IR where
  loop : LoopK
  /-- the operand written on the left of the scalar operator (or the receiver of `.pow(…)`) -/
  a : Side × Acc
  /-- the operand written on the right -/
  b : Side × Acc
deriving DecidableEq, Repr

/-- the element an access reads when the output's linear index is `i` (`R` rows in the output) -/
def accAt {α : Type} (loop : LoopK) (acc : Acc) (x : Operand α) (R i : Nat) : Except Err α :=
  match acc, x with
  | .whole, .scalar v => .ok v
  | .whole, .mat _ => .error .other
  | _, .scalar _ => .error .other
  | .lin, .mat m => getE m.data i
  | .outer, .mat m => getE m.data i            -- element (i % R, i / R) of a matrix shaped like the output
  | .inner, .mat m =>
    match loop with
    | .cols _ => getE m.data (i % R)           -- a column vector, indexed by the row of the output
    | .rows _ => getE m.data (i / R)           -- a row vector, indexed by the column of the output
    | _ => .error .other

def pick {α : Type} (s : Side) (a b : Operand α) : Operand α :=
  match s with
  | .L => a
  | .R => b

/-- what an extracted kernel computes for the output element `i`: `f` applied to the two accesses in
    the order they are written -/
def irCell {α β : Type} (ir : IR) (f : α → α → Except Err β) (a b : Operand α) (R i : Nat) : Except Err β :=
  bindE (accAt ir.loop ir.a.2 (pick ir.a.1 a b) R i) (fun u =>
    bindE (accAt ir.loop ir.b.2 (pick ir.b.1 a b) R i) (f u))

/-- the shape that drives the loop; the match arm allocated the output with the same shape -/
def irShape {α : Type} (ir : IR) (k : Kernel) (a b : Operand α) : Nat × Nat := outShape k a b

/-- a binary operator evaluated with a table of extracted kernels -/
def evalBinopIR {α β : Type} (tbl : Kernel → IR) (f : α → α → Except Err β) (a b : Operand α) :
    Except Err (Operand β) :=
  match dispatch a b with
  | .error e => .error e
  | .ok .ss =>
    (match a, b with
     | .scalar _, .scalar _ => mapE (irCell (tbl .ss) f a b 1 0) .scalar
     | _, _ => .error .other)
  | .ok k =>
    let sh := outShape k a b
    mapE (tabulateM (irCell (tbl k) f a b sh.1) 0 (sh.1 * sh.2)) (fun d => .mat ⟨sh.1, sh.2, d⟩)

/-- the kernel a family must have, operands in source order `lhs ∘ rhs` -/
def expected : Kernel → IR
  | .ss => ⟨.none, (.L, .whole), (.R, .whole)⟩
  | .ms => ⟨.linear .L, (.L, .lin), (.R, .whole)⟩
  | .sm => ⟨.linear .R, (.L, .whole), (.R, .lin)⟩
  | .zip => ⟨.linear .L, (.L, .lin), (.R, .lin)⟩
  | .matCol => ⟨.cols .L, (.L, .outer), (.R, .inner)⟩
  | .colMat => ⟨.cols .R, (.L, .inner), (.R, .outer)⟩
  | .matRow => ⟨.rows .L, (.L, .outer), (.R, .inner)⟩
  | .rowMat => ⟨.rows .R, (.L, .inner), (.R, .outer)⟩

def swapAB (ir : IR) : IR := { ir with a := ir.b, b := ir.a }

/-- the same loop up to what cannot matter: a `zip` loop may be driven by either operand (the arm
    has checked that their shapes are equal) -/
def loopOk (k : Kernel) (l : LoopK) : Bool :=
  match k, l with
  | .zip, .linear _ => true
  | k, l => decide (l = (expected k).loop)

/-- An extracted kernel is accepted for a family when it is the expected one, or — for an operator
    whose scalar function is commutative — the expected one with the two operands written in the
    other order (`add_scalar_rhs_op` is `rhs.add_scalar(lhs)`). -/
def irOk (k : Kernel) (comm : Bool) (ir : IR) : Bool :=
  loopOk k ir.loop &&
  (decide (ir.a = (expected k).a ∧ ir.b = (expected k).b) ||
   (comm && decide (ir.a = (expected k).b ∧ ir.b = (expected k).a)))

/-- operators whose scalar function does not depend on the order of its operands -/
def commutative (op : String) : Bool :=
  op = "add" || op = "mul" || op = "eq" || op = "neq" || op = "and" || op = "or" || op = "xor"

/-- the macro suffix `impl_fxns!` wires to a pair of storage forms (`S` = scalar) -/
def suffixOf : Kernel → String
  | .ss => "op"
  | .ms => "scalar_lhs_op"
  | .sm => "scalar_rhs_op"
  | .zip => "vec_op"
  | .matCol => "mat_vec_op"
  | .colMat => "vec_mat_op"
  | .matRow => "mat_row_op"
  | .rowMat => "row_mat_op"

/-- the wiring the dispatch of `Model/Mat.lean` assumes, over the three storage forms of the
    default feature set: (lhs form, rhs form, macro suffix) -/
def specArms : List (String × String × String) :=
  [("S", "S", "op"),
   ("S", "MD", "scalar_rhs_op"), ("S", "RD", "scalar_rhs_op"), ("S", "VD", "scalar_rhs_op"),
   ("MD", "S", "scalar_lhs_op"), ("RD", "S", "scalar_lhs_op"), ("VD", "S", "scalar_lhs_op"),
   ("MD", "MD", "vec_op"), ("MD", "VD", "mat_vec_op"), ("VD", "MD", "vec_mat_op"),
   ("MD", "RD", "mat_row_op"), ("RD", "MD", "row_mat_op"), ("RD", "RD", "vec_op"), ("VD", "VD", "vec_op")]

/-- the token each operator must apply (`pow` is the method call `.pow(…)`) -/
def tokOf : String → String
  | "add" => "+" | "sub" => "-" | "mul" => "*" | "div" => "/" | "mod" => "%" | "pow" => "pow"
  | "eq" => "==" | "neq" => "!=" | "gt" => ">" | "gte" => ">=" | "lt" => "<" | "lte" => "<="
  | "and" => "&&" | "or" => "||" | "xor" => "^" | _ => "?"

/-- one extracted kernel macro: its token is the operator's and its body is the kernel of its family -/
def kernelEntryOk (e : String × Kernel × String × IR) : Bool :=
  e.2.2.1 == tokOf e.1 && irOk e.2.1 (commutative e.1) e.2.2.2

/-- scalar, matrix, row vector or column vector: the first letter of the short type name -/
def classOf (t : String) : Char := t.front

/-- the macro suffix for a pair of operand classes, `none` when there is no element-wise kernel for it -/
def familySuffix (l r : Char) : Option String :=
  if l = 'S' ∧ r = 'S' then some "op"
  else if l = 'S' then some "scalar_rhs_op"
  else if r = 'S' then some "scalar_lhs_op"
  else if l = r then some "vec_op"
  else if l = 'M' ∧ r = 'V' then some "mat_vec_op"
  else if l = 'V' ∧ r = 'M' then some "vec_mat_op"
  else if l = 'M' ∧ r = 'R' then some "mat_row_op"
  else if l = 'R' ∧ r = 'M' then some "row_mat_op"
  else none

/-- the type of the output buffer: the matrix operand's (the lhs when both are of one class) -/
def outType (l r : String) : String :=
  if classOf l = 'S' then r
  else if classOf r = 'S' then l
  else if classOf r = 'M' then r
  else l

/-- a row of `impl_fxns!`: (struct suffix, lhs type, rhs type, output type, kernel macro suffix) -/
def fxnRowOk (r : String × String × String × String × String) : Bool :=
  r.1 == r.2.1 ++ r.2.2.1 &&
  familySuffix (classOf r.2.1) (classOf r.2.2.1) == some r.2.2.2.2 &&
  r.2.2.2.1 == outType r.2.1 r.2.2.1

def isDynamic (t : String) : Bool := t == "S" || t == "MD" || t == "RD" || t == "VD"

def isDynamicRow (r : String × String × String × String × String) : Bool :=
  isDynamic r.2.1 && isDynamic r.2.2.1

/-- an arm of `impl_binop_match_arms!` builds the struct named after the storages it matched -/
def matchArmOk (a : String × String × String) : Bool := a.2.2 == a.1 ++ a.2.1

end MechVerif.KernelIR
