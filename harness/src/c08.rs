//! C08: formatter round trip. Case: `fmt <class> <hex of the source>`.
//! Observation: `skip` (the source does not parse) or
//!   `F=<hex formatted text>|R=<same|differs|noparse|panic:…>|I=<same|differs|panic>` followed, for formulas, by
//!   `|T=<tree of the source, fully parenthesised>|U=<tree of the formatted text>`.
use crate::common::*;
use crate::interp::*;
use mech_core::*;
use mech_syntax::*;
use mech_syntax::formatter::Formatter;

/// the syntax tree with source positions erased
pub fn tree_text(t: &Program) -> String {
  let d = format!("{:?}", t);
  // a token prints as `Kind:"chars":[1:7, 1:8)`: erase the `[row:col, row:col)` part
  let b = d.as_bytes();
  let mut out = String::with_capacity(d.len());
  let mut i = 0;
  while i < b.len() {
    if b[i] == b'[' {
      // try to match [d+:d+, d+:d+)
      let mut j = i + 1; let mut ok = true;
      let digits = |j: &mut usize| -> bool { let s = *j; while *j < b.len() && b[*j].is_ascii_digit() { *j += 1; } *j > s };
      ok &= digits(&mut j); ok &= j < b.len() && b[j] == b':'; j += 1; ok &= digits(&mut j);
      ok &= j + 1 < b.len() && b[j] == b',' && b[j + 1] == b' '; j += 2;
      ok &= digits(&mut j); ok &= j < b.len() && b[j] == b':'; j += 1; ok &= digits(&mut j);
      ok &= j < b.len() && b[j] == b')';
      if ok { out.push('_'); i = j + 1; continue; }
    }
    // copy one UTF-8 character
    let ch_len = match b[i] { x if x < 0x80 => 1, x if x >= 0xf0 => 4, x if x >= 0xe0 => 3, _ => 2 };
    out.push_str(&d[i..i + ch_len]); i += ch_len;
  }
  out
}

pub fn run(src: &str, formula: bool) -> String {
  let t1 = match std::panic::catch_unwind(|| parser::parse(src)) { Ok(Ok(t)) => t, _ => return "skip".into() };
  let f1 = match std::panic::catch_unwind(std::panic::AssertUnwindSafe(|| Formatter::new().format(&t1))) { Ok(s) => s, Err(_) => return "F=|R=panic:format|I=-".into() };
  let (r, f2) = match std::panic::catch_unwind(|| parser::parse(&f1)) {
    Ok(Ok(t2)) => {
      let same = tree_text(&t1) == tree_text(&t2);
      if !same && std::env::var("MVH_LOUD").is_ok() { eprintln!("T1 {}\nT2 {}", tree_text(&t1), tree_text(&t2)); }
      let f2 = std::panic::catch_unwind(std::panic::AssertUnwindSafe(|| Formatter::new().format(&t2))).ok();
      (if same { "same" } else { "differs" }, f2)
    }
    Ok(Err(_)) => ("noparse", None),
    Err(_) => ("panic:parse", None),
  };
  let i = match f2 { Some(s) => if s == f1 { "same" } else { "differs" }, None => "-" };
  let mut out = format!("F={}|R={}|I={}", hexs(&f1), r, i);
  if formula {
    out.push_str(&format!("|T={}", crate::c02::tree_of(src)));
    out.push_str(&format!("|U={}", crate::c02::tree_of(&f1)));
  }
  out
}

/// class `syntax`: the whole program as an s-expression, before and after formatting
pub fn run_syntax(src: &str) -> String {
  let mut out = run(src, false);
  if out == "skip" { return out; }
  let f1 = String::from_utf8(crate::c07::unhex(out.split('|').next().unwrap_or("").trim_start_matches("F="))).unwrap_or_default();
  out.push_str(&format!("|T={}", crate::c08s::tree_of(src)));
  out.push_str(&format!("|U={}", crate::c08s::tree_of(&f1)));
  out
}

pub fn exec(case: &str) -> String {
  let f: Vec<&str> = case.split('\t').collect();
  let src = String::from_utf8(crate::c07::unhex(f[2])).unwrap();
  if f[1] == "syntax" { return run_syntax(&src); }
  let mut o = run(&src, f[1] == "formula");
  if f[1] == "string" && o != "skip" {
    // the content of the literal as the parser read it: the value the program evaluates to
    let c = match eval(&src) { Ok(Value::String(s)) => hexs(&s.borrow()), Ok(_) => "other".to_string(), Err(_) => "err".to_string() };
    o.push_str(&format!("|S={}", c));
  }
  o
}

/// the graphemes a string body is generated from: class letter (of Model/StrLit.lean) and text
const STR_TOKENS: &[(&str, &str)] = &[("e", "a"), ("e", "n"), ("e", "t"), ("e", "r"), ("e", "z"), ("e", "é"), ("e", "."), ("e", "!"), ("e", "+"), ("e", "$"), ("e", "_"), ("e", "'"), ("e", "/"),
  ("p", "1"), ("p", "0"), ("p", " "), ("p", "\t"), ("p", "😀"), ("p", "("), ("p", "]"), ("p", "<"), ("n", "\n"), ("q", "\""), ("b", "\\")];

const SAMPLES: &[&str] = &[
  "x := 1 + 2 * (3 - 4)", "x := [1 2 3]", "x := [1 2; 3 4]", "x := [1; 2; 3]", "x := []", "x := 1..10", "x := 1..2..10", "x := 1..=2..=9", "x := 1.5e3", "x := 2e-3", "x := 1.25e+10",
  "x<u8> := 7", "~y := 3", "~y := 3\ny += 2", "~y := 3\ny = 4", "x := \"a\\\"b\"", "x := \"a\\\\b\"", "x := \"plain\"", "x := {1, 2, 3}", "x := {}", "x := (1, \"a\")", "x := math/sin(1.5)",
  "x := f(a: 1, b: 2)", "x := [1 2 3]\ny := x[2]", "a := [1 2; 3 4]\nx := a[1..=2, :]", "x := -3", "x := !true", "a := [1 2]\nx := a'", "x := 1 -- comment", "-- a comment alone",
  "x := {a: 1, b: \"s\"}", "x := |a<u8> b<f64>| 1 2.0 | 3 4.0 |", "x := :atom", "x := 1/2", "x := 3+4i", "x := 0xff", "x := 0b101", "x := 0o17", "x := 7u8", "x := true && false || true",
  "a := [1 2; 3 4]\nb := a ** a", "x := {y * 2 | y <- {1,2,3}}", "x := [y * 2 | y <- [1 2 3]]", "<color> := :red<f64> | :green<f64> | :blue", "x := 5\ny := x? | 1 => 10 | v, v > 3 => 20 | * => 0.",
  "f(n<u64>) => <u64>\n  ├ 0u64 => 1u64\n  └ n => n * f(n - 1u64).\nf(3u64)", "(a, b) := (1, 2)", "<color> := :red<f64> | :green<f64> | :blue\nsrc<color> := :green(2)\nsrc", "x := [1 2 3]\nx[2]", "~x := [1 2 3]\nx[2] = 9", "~x := [1 2 3]\nx[1..=2] += 1",
  "x := {1,2} ∪ {3}", "x := 2 ∈ {1,2}", "x := {\"k\": 1}", "x := 1.5", "x := .5", "x := 1_000", "x := \"\"", "x := [\"a\" \"b\"]", "x := [true false]", "x<[u8]> := [1 2]", "x<[f64]:2,2> := [1 2 3 4]",
  "x := {:}", "x<{a<u8>,b<string>}> := {a: 1, b: \"s\"}", "x<|a<u8> b<f64>|> := |a<u8> b<f64>| 1 2.0 |",
  // witnesses of repaired formatter defects (known_findings.json, fixed): swizzle dots, comma and space in subscripts and tuples,
  // `!` for not, the cross-product sign, strict not-equal
  "x := a.b,c", "x := q[a.b, c]", "x := (a.b, c)", "x := {!2: 1}", "x := [1 2 3] ⨯ [4 5 6]", "x := 5 ≤ 7 ⨯ 3", "x := 2 =!= 3", "x := 2 =:= 3"];

pub fn generate(seed: u64, thorough: bool, sink: &mut Sink) -> Vec<String> {
  let mut out: Vec<String> = vec![];
  let mut scratch = Sink::new();
  let take = |cases: Vec<String>, n: usize| -> Vec<String> { let k = cases.len(); if k <= n { cases } else { let step = k / n; cases.into_iter().step_by(step.max(1)).take(n).collect() } };
  let per = if thorough { 3000 } else { 300 };
  // formulas: the class the theorems speak about; the token list is kept for the model
  for c in take(crate::c02::generate(seed, thorough, &mut scratch), per * 4) {
    let toks = c.split('\t').nth(1).unwrap().to_string();
    out.push(format!("fmt\tformula\t{}\t{}", hexs(&crate::c02::source(&c)), toks)); sink.hit("class:formula");
  }
  // programs over the sublanguage of Model/Syntax.lean: the model parses the tokens, renders them and predicts the
  // formatted text and both trees
  for c in crate::c08s::generate(seed, per * 3, sink) { out.push(c); sink.hit("class:syntax"); }
  let mut push = |class: &str, srcs: Vec<String>, sink: &mut Sink| { for s in srcs { sink.hit(&format!("class:{}", class)); out.push(format!("fmt\t{}\t{}", class, hexs(&s))); } };
  push("operators", take(crate::c01::generate(seed, thorough, &mut scratch), per).iter().map(|c| crate::c01::source(c)).collect(), sink);
  push("indexing", take(crate::c03::generate(seed, thorough, &mut scratch), per).iter().map(|c| crate::c03::source(c)).collect(), sink);
  push("assignment", take(crate::c04::generate(seed, thorough, &mut scratch), per).iter().map(|c| { let (d, s) = crate::c04::sources(c); format!("{}{}", d, s) }).collect(), sink);
  push("ranges", take(crate::c15::generate(seed, thorough, &mut scratch), per).iter().map(|c| { let f: Vec<&str> = c.split('\t').collect(); crate::c15::source(&f) }).collect(), sink);
  push("matrix-literals", take(crate::c11::generate(seed, thorough, &mut scratch), per).iter().map(|c| crate::c11::source(c)).collect(), sink);
  push("conversions", take(crate::c12::generate(seed, thorough, &mut scratch), per / 2).iter().map(|c| crate::c12::source(c)).collect(), sink);
  push("literals", take(crate::c13::generate(seed, thorough, &mut scratch), per).iter().map(|c| { let f: Vec<&str> = c.split('\t').collect(); let lit = String::from_utf8(crate::c07::unhex(f[1])).unwrap(); if f.len() > 2 { format!("x<{}> := {}", f[2], lit) } else { format!("x := {}", lit) } }).collect(), sink);
  push("sets", take(crate::c14::generate(seed, thorough, &mut scratch), per).iter().map(|c| crate::c14::source(c)).collect(), sink);
  push("tables", take(crate::c18::generate(seed, thorough, &mut scratch), per / 2).iter().map(|c| crate::c18::source(c)).collect(), sink);
  push("functions-and-matches", take(crate::c16::generate(seed, thorough, &mut scratch), per).iter().map(|c| crate::c16::source(c)).collect(), sink);
  push("state-machines", take(crate::c17::generate(seed, thorough, &mut scratch), per / 2).iter().map(|c| crate::c17::source(c)).collect(), sink);
  push("documents", take(crate::c10::generate(seed, thorough, &mut scratch), per / 2).iter().map(|c| crate::c10::source(c)).collect(), sink);
  push("samples", SAMPLES.iter().map(|s| s.to_string()).collect(), sink);
  // comprehensions: set and matrix comprehensions whose qualifiers (generators, filters, lets, in every order) draw on
  // literals, variables, field accesses, subscripted names and calls, so that every kind of expression end meets every
  // kind of qualifier start across the separating comma
  {
    let mut rng = Rng::new(seed ^ 0xC0A9);
    let sources = ["{1, 2, 3}", "[1 2 3]", "s", "d.v", "d.v.w", "m[1,:]", "m[1..=2]", "t.k", "f(2)", "1..=4", "r.a[2]", "x'"];
    let vars = ["y", "z", "k"];
    let mut v: Vec<String> = vec![];
    for _ in 0..(per / 2).max(120) {
      let set = rng.chance(1, 2);
      let nq = 1 + rng.below(3) as usize;
      let mut quals: Vec<String> = vec![format!("{} <- {}", vars[0], rng.pick(&sources))];
      for qi in 1..=nq {
        quals.push(match rng.below(4) {
          0 => format!("{} <- {}", vars[qi % 3], rng.pick(&sources)),
          1 => format!("{} > {}", vars[0], rng.below(4)),
          2 => format!("{} := {}", vars[(qi + 1) % 3], rng.pick(&["2", "d.v", "y + 1", "m[1]"])),
          _ => format!("{} != {}", vars[0], rng.pick(&["z", "d.w", "3"])) });
      }
      let head = *rng.pick(&["y * 2", "y", "(y, z)", "y + k", "f(y)", "d.v + y"]);
      let body = format!("{} | {}", head, quals.join(", "));
      v.push(if set { format!("x := {{{}}}", body) } else { format!("x := [{}]", body) });
    }
    for s in ["d := {v: [1 2 3 4]}\nx := [y * y | y <- d.v, y > 2]", "d := {v: [1 2 3 4]}\nx := [y * k | y <- d.v, k := 2]", "d := {v: {1, 2, 3}}\nx := {y * y | y <- d.v, y > 1}"] { v.push(s.to_string()); }
    push("comprehensions", v, sink);
  }
  // chained subscripts on the reading side: x.a.b, t.1.2, r.a[2], x[2,:][3], in every order and of length 1-4
  {
    let mut rng = Rng::new(seed ^ 0xC8A1);
    let subs = [".1", ".2", ".a", ".b", "[2]", "[1,:]", "[:,2]", "[1,2]", "[1..=2]", "{1}"];
    let mut v: Vec<String> = vec![];
    for _ in 0..per {
      let k = 1 + rng.below(4) as usize;
      let chain: String = (0..k).map(|_| *rng.pick(&subs)).collect();
      match rng.below(3) { 0 => v.push(format!("q := x{}", chain)), 1 => v.push(format!("x{}", chain)), _ => v.push(format!("q := x{} + y{}", chain, rng.pick(&subs))) }
    }
    for s in ["t := ((1, 2), (3, 4))\nt.1.2", "r := {a: [1 2 3], b: 2}\nr.a[2]", "x := [1 2 3; 4 5 6]\nx[2,:][3]", "a := {b: {c: 1}}\na.b.c", "t := |a<f64> b<f64>| 1 2 | 3 4 |\nt.a[2]"] { v.push(s.to_string()); }
    push("chained-subscripts", v, sink);
  }
  // kind annotations of every form (scalar, option, matrix with fixed / open / no dimensions, set with and without a
  // size, map, record, table, tuple, function, atom, empty, any, nested) in a typed definition, a kind definition, a
  // function signature, a record field and a table header
  {
    let mut rng = Rng::new(seed ^ 0x61AD);
    fn kind(rng: &mut Rng, depth: u32) -> String {
      let scalars = ["u8", "u16", "u32", "u64", "u128", "i8", "i16", "i32", "i64", "i128", "f32", "f64", "string", "bool", "r64", "c64", "index"];
      let leaf = |rng: &mut Rng| -> String { (*rng.pick(&scalars)).to_string() };
      if depth == 0 { return leaf(rng); }
      let dim = |rng: &mut Rng| -> String { match rng.below(3) { 0 => "_".to_string(), _ => format!("{}", 1 + rng.below(9)) } };
      match rng.below(16) {
        0 | 1 => leaf(rng),
        2 => format!("{}?", leaf(rng)),
        3 => format!("[{}]", kind(rng, depth - 1)),
        4 => format!("[{}]:{},{}", leaf(rng), dim(rng), dim(rng)),
        5 => format!("[{}]:{}", leaf(rng), dim(rng)),
        6 => format!("{{{}}}", kind(rng, depth - 1)),
        7 => format!("{{{}}}:{}", leaf(rng), dim(rng)),
        8 => format!("{{{}:{}}}", leaf(rng), kind(rng, depth - 1)),
        9 => format!("{{a<{}>,b<{}>}}", kind(rng, depth - 1), leaf(rng)),
        10 => format!("|a<{}> b<{}>|", leaf(rng), leaf(rng)),
        11 => format!("|a<{}> b<{}>|:{}", leaf(rng), leaf(rng), dim(rng)),
        12 => format!("({}, {})", kind(rng, depth - 1), leaf(rng)),
        13 => format!("({})=({})", leaf(rng), leaf(rng)),
        14 => (*rng.pick(&[":red", "_", "*", ":ok"])).to_string(),
        _ => format!("({}, {}, {})", leaf(rng), kind(rng, depth - 1), leaf(rng)),
      }
    }
    let mut v: Vec<String> = vec![];
    for _ in 0..per * 2 {
      let k = kind(&mut rng, 2);
      match rng.below(6) {
        0 | 1 => v.push(format!("x<{}> := 1", k)),
        2 => v.push(format!("<t> := <{}>", k)),
        3 => v.push(format!("f(a<{}>) => <{}>\n  └ a => a.\nf(1)", k, kind(&mut rng, 1))),
        4 => v.push(format!("x := {{a<{}>: 1, b: 2}}", k)),
        _ => v.push(format!("~x<{}> := 1\nx = 2", k)),
      }
    }
    for k in ["{u8}:_", "{u8}:3", "{u8}", "[f64]:_,3", "[f64]:2,_", "[u8]:3", "[u8]", "u8?", "{string:u8}", "{a<u8>,b<string>}", "|a<u8> b<f64>|", "|a<u8> b<f64>|:3", "(u8, string)", "(u8)=(u8)", ":red", "_", "*", "[[u8]]", "{{u8}}", "[u8?]"] {
      v.push(format!("x<{}> := 1", k)); v.push(format!("<t> := <{}>", k));
    }
    push("kind-annotations", v, sink);
  }
  // array patterns of every form (elements, wildcards, `|` rest, `…` spread with and without a capture, elements
  // after the spread) in function arms and in match arms, with and without a guard
  {
    let mut rng = Rng::new(seed ^ 0xA77A);
    let names = ["a", "b", "h", "m", "t", "z", "q"];
    let mut v: Vec<String> = vec![];
    for _ in 0..per {
      let mut nm = |rng: &mut Rng| -> String { if rng.chance(1, 5) { "*".to_string() } else if rng.chance(1, 6) { format!("{}", rng.below(9)) } else { (*rng.pick(&names)).to_string() } };
      let pat = match rng.below(9) {
        0 => format!("[{} {}]", nm(&mut rng), nm(&mut rng)),
        1 => format!("[{}, {} | {}]", nm(&mut rng), nm(&mut rng), rng.pick(&names)),
        2 => format!("[{} | {}]", nm(&mut rng), rng.pick(&names)),
        3 => format!("[{} …]", nm(&mut rng)),
        4 => format!("[… {}]", nm(&mut rng)),
        5 => format!("[{} … {}]", nm(&mut rng), nm(&mut rng)),
        6 => format!("[* … {}]", rng.pick(&names)),
        7 => format!("[* … {} {}]", rng.pick(&names), nm(&mut rng)),
        _ => format!("[{} {} … {} {}]", nm(&mut rng), nm(&mut rng), nm(&mut rng), nm(&mut rng)),
      };
      let guard = if rng.chance(1, 3) { ", 1 > 0" } else { "" };
      if rng.chance(1, 2) {
        v.push(format!("f(x<[u64]>) => <u64>\n  ├ {}{} => 1\n  └ * => 0.\nf([1 2 3])", pat, guard));
      } else {
        v.push(format!("x := [1 2 3]\ny := x? | {}{} => 1 | * => 0.", pat, guard));
      }
    }
    push("array-patterns", v, sink);
  }
  // string literals: the body is a sequence of graphemes of known class; a quote in the body is always
  // preceded by a backslash, a backslash may stand before anything (an escape where one is defined)
  {
    let mut rng = Rng::new(seed ^ 0x57A);
    for _ in 0..per * 2 {
      let len = rng.below(9) as usize;
      let mut toks: Vec<(&str, &str)> = vec![];
      for _ in 0..len {
        let t = *rng.pick(STR_TOKENS);
        // a backslash is always followed by one more grapheme of any class (an escape where one is defined,
        // otherwise a plain backslash); a quote never stands without a backslash before it
        if t.0 == "b" { toks.push(t); toks.push(*rng.pick(STR_TOKENS)); }
        else if t.0 == "q" { toks.push(("b", "\\")); toks.push(t); }
        else { toks.push(t); }
      }
      let body: String = toks.iter().map(|t| t.1).collect();
      let spec: Vec<String> = toks.iter().map(|t| format!("{}:{}", t.0, hexs(t.1))).collect();
      sink.hit("class:string");
      out.push(format!("fmt\tstring\t{}\t{}", hexs(&format!("x := \"{}\"", body)), if spec.is_empty() { "-".to_string() } else { spec.join(",") }));
    }
  }
  // the repository's own Mech files
  if let Ok(rd) = std::fs::read_dir("/repo/docs") {
    let mut files: Vec<std::path::PathBuf> = vec![];
    let mut stack = vec![std::path::PathBuf::from("/repo/docs")]; let _ = rd;
    while let Some(d) = stack.pop() { if let Ok(rd) = std::fs::read_dir(&d) { for e in rd.flatten() { let p = e.path(); if p.is_dir() { stack.push(p); } else if p.extension().map(|x| x == "mec").unwrap_or(false) { files.push(p); } } } }
    files.sort();
    let limit = if thorough { files.len() } else { 25 };
    for p in files.into_iter().take(limit) { if let Ok(t) = std::fs::read_to_string(&p) { if t.len() < 40000 { sink.hit("class:repository-files"); out.push(format!("fmt\tfile\t{}", hexs(&t.replace("\r\n", "\n")))); } } }
  }
  out
}
