//! C13: numeric literals. Case: `lit <hex of the spelling>`; observation: canonical value,
//! `err` (evaluation error), `notcode` (the text did not parse as code), `parseerr`.
use crate::common::*;
use crate::interp::*;

pub fn exec(case: &str) -> String {
  let f: Vec<&str> = case.split('\t').collect();
  let lit = String::from_utf8(crate::c07::unhex(f[1])).unwrap();
  let src = if f.len() > 2 { format!("x<{}> := {}", f[2], lit) } else { lit.clone() };
  match eval(&src) {
    Ok(v) => canon(&v),
    Err(e) => match e.as_str() { "notcode" => "notcode".into(), "parseerr" | "parsepanic" => "parseerr".into(), "hostpanic" => "hostpanic".into(), _ => "err".into() },
  }
}

fn digits(rng: &mut Rng, len: usize, base: u64, underscores: bool) -> String {
  let mut s = String::new();
  for i in 0..len {
    let d = if i == 0 && len > 1 && base == 10 { 1 + rng.below(base - 1) } else { rng.below(base) };
    s.push(std::char::from_digit(d as u32, base as u32).unwrap());
    if underscores && i + 1 < len && rng.chance(1, 4) { s.push('_'); }
  }
  s
}

pub fn generate(seed: u64, thorough: bool, sink: &mut Sink) -> Vec<String> {
  let mut rng = Rng::new(seed);
  let mut sp: Vec<(String, &str)> = vec![];
  let n = if thorough { 40000 } else { 1200 };
  for _ in 0..n {
    match rng.below(12) {
      0 | 1 => { let long = rng.chance(1, 5); let l = 1 + rng.below(if long { 25 } else { 9 }) as usize; let us = rng.chance(1, 5); sp.push((digits(&mut rng, l, 10, us), "integer")); }
      2 | 3 => { let a = rng.below(8) as usize; let long = rng.chance(1, 6); let b = 1 + rng.below(if long { 20 } else { 6 }) as usize;
                 let ip = if a == 0 { String::new() } else { digits(&mut rng, a, 10, false) };
                 let us = rng.chance(1, 8);
                 sp.push((format!("{}.{}", ip, digits(&mut rng, b, 10, us)), if a == 0 { "leading-dot-float" } else { "float" })); }
      4 | 5 => { let a = 1 + rng.below(4) as usize; let b = rng.below(5) as usize; let big = rng.chance(1, 6); let e = rng.below(if big { 330 } else { 25 });
                 let sign = *rng.pick(&["", "+", "-"]);
                 let m = if b == 0 { digits(&mut rng, a, 10, false) } else { format!("{}.{}", digits(&mut rng, a, 10, false), digits(&mut rng, b, 10, false)) };
                 sp.push((format!("{}e{}{}", m, sign, e), if b == 0 { "scientific-int-mantissa" } else { "scientific" })); }
      6 => { let (p, base) = *rng.pick(&[("0x", 16u64), ("0o", 8), ("0b", 2), ("0d", 10)]);
             let l = 1 + rng.below(if base == 2 { 70 } else { 18 }) as usize;
             let us = rng.chance(1, 6);
             sp.push((format!("{}{}", p, digits(&mut rng, l, base, us)), "based")); }
      7 | 8 => { let k = *rng.pick(&["u8", "u16", "u32", "u64", "u128", "i8", "i16", "i32", "i64", "i128", "f32", "f64"]);
                 // boundary values of the kind, or random digits
                 let v: String = match rng.below(4) {
                   0 => match k { "u8" => "255", "u16" => "65535", "u32" => "4294967295", "u64" => "18446744073709551615", "i8" => "127", "i16" => "32767", "i32" => "2147483647", _ => "9007199254740993" }.to_string(),
                   1 => match k { "u8" => "256", "u16" => "65536", "u32" => "4294967296", "i8" => "128", _ => "9007199254740992" }.to_string(),
                   _ => { let l = 1 + rng.below(6) as usize; digits(&mut rng, l, 10, false) } };
                 sp.push((format!("{}{}", v, k), "typed")); }
      9 | 10 => { // numerators and denominators of every length an i64 holds (one in three beyond 2^53, where a
                  // detour through a double would lose digits), with and without digit groups
                  let long = rng.chance(1, 3);
                  let a = if long { 16 + rng.below(3) as usize } else { 1 + rng.below(4) as usize };
                  let b = if long && rng.chance(1, 2) { 16 + rng.below(3) as usize } else { 1 + rng.below(3) as usize };
                  let us = rng.chance(1, 6);
                  let d = if rng.chance(1, 8) { "0".to_string() } else { digits(&mut rng, b, 10, us) };
                  let nn = digits(&mut rng, a, 10, us);
                  sp.push((format!("{}/{}", nn, d), if long { "rational-long" } else { "rational" })); }
      _ => { sp.push((format!("{}", rng.below(1000)), "integer")); }
    }
  }
  // negative forms, complex literals, annotated literals
  let plain_num = |rng: &mut Rng| -> String {
    if rng.chance(1, 2) { let l = 1 + rng.below(6) as usize; digits(rng, l, 10, false) }
    else { let a = rng.below(4) as usize; let b = 1 + rng.below(4) as usize; let ip = if a == 0 { String::new() } else { digits(rng, a, 10, false) }; format!("{}.{}", ip, digits(rng, b, 10, false)) } };
  let mut ann: Vec<(String, String, &str)> = vec![];
  for _ in 0..n / 3 {
    match rng.below(10) {
      0 | 1 => { let base = sp[rng.below(n as u64) as usize].0.clone(); sp.push((format!("-{}", base), "negative")); }
      2 | 3 | 4 => { let re = plain_num(&mut rng); let im = plain_num(&mut rng); let sgn = *rng.pick(&["+", "-"]); let u = *rng.pick(&["i", "i", "j"]);
                     let neg = if rng.chance(1, 6) { "-" } else { "" };
                     if rng.chance(1, 4) { sp.push((format!("{}{}{}", neg, im, u), "imaginary")); } else { sp.push((format!("{}{}{}{}{}", neg, re, sgn, im, u), "complex")); } }
      _ => { let k = *rng.pick(&["u8", "u16", "u32", "u64", "u128", "i8", "i16", "i32", "i64", "i128", "f32", "f64"]);
             let neg = if rng.chance(1, 3) { "-" } else { "" };
             let v: String = match rng.below(5) {
               0 => match k { "u8" => "255", "u16" => "65535", "u32" => "4294967295", "u64" => "18446744073709551615", "u128" => "340282366920938463463374607431768211455",
                              "i8" => if neg == "-" { "128" } else { "127" }, "i16" => if neg == "-" { "32768" } else { "32767" }, "i32" => if neg == "-" { "2147483648" } else { "2147483647" },
                              "i64" => if neg == "-" { "9223372036854775808" } else { "9223372036854775807" }, "f32" => "16777217", _ => "9007199254740993" }.to_string(),
               1 => match k { "u8" => "256", "u16" => "65536", "u32" => "4294967296", "u64" => "18446744073709551616", "i8" => if neg == "-" { "129" } else { "128" },
                              "i16" => if neg == "-" { "32769" } else { "32768" }, "i32" => if neg == "-" { "2147483649" } else { "2147483648" }, _ => "9007199254740992" }.to_string(),
               _ => { let l = 1 + rng.below(7) as usize; digits(&mut rng, l, 10, false) } };
             if k == "f64" && rng.chance(1, 2) { let f = plain_num(&mut rng); ann.push((format!("{}{}", neg, f), k.to_string(), "annotated")); }
             else { ann.push((format!("{}{}", neg, v), k.to_string(), "annotated")); } }
    }
  }
  for s in ["3+4i", "3.5-2.25i", "4i", "1.5j", ".5+.5i", "-3+4i", "-5", "-0.5", "-0x10", "-1/2", "-2/4", "-7u8", "-3f32", "-0x8000000000000000", "-1/0"] {
    sp.push((s.to_string(), "specified-example"));
  }
  // the spellings the specification and the reference page give as examples
  for s in ["123", "1_000", "1.5", ".5", "1e3", "1e-3", "3e2", "1.5e3", "1.5e+3", "1.5e-3", "1.1e2", "6.022e23", "0xff", "0xFF", "0o17", "0b1011", "0d99",
            "255u8", "256u8", "7i8", "3f32", "1/2", "2/4", "10/4", "1/0", "0/5", "9007199254740993/2", "1/9007199254740993", "1234567890123456789/10", "9223372036854775807/3", "9007199254740993u64", "0xff_ff", "0x7fffffffffffffff", "0x8000000000000000",
            "4.9e-324", "1.7976931348623157e308", "0.30000000000000004", "12345678901234567890"] {
    sp.push((s.to_string(), "specified-example"));
  }
  let mut cases = vec![];
  for (s, class) in sp { cases.push(format!("lit\t{}", hexs(&s))); sink.hit(class); if cases.len() < 4 { sink.sample(s); } }
  for (s, k, class) in ann { cases.push(format!("lit\t{}\t{}", hexs(&s), k)); sink.hit(class); }
  cases
}
