/-
The acceptance functions of `Model/ConvertTable.lean` are the acceptance of the conversion functions of
`Model/Convert.lean`: a conversion answers the kind error (`UnsupportedConversion`) exactly on the pairs outside the table.
-/
import MechVerif.Model.ConvertTable
namespace MechVerif.Convert
open MechVerif.Num MechVerif.Scalar

theorem allKinds_complete (k : Kind) : k ∈ allKinds := by
  cases k with
  | int i => cases i <;> decide
  | _ => decide

theorem tableAgrees_iff (f g : Kind → Kind → Bool) : tableAgrees f g = true ↔ ∀ a b, f a b = g a b := by
  simp only [tableAgrees, List.all_eq_true, beq_iff_eq]
  exact ⟨fun h a b => h a (allKinds_complete a) b (allKinds_complete b), fun h a _ b _ => h a b⟩

/-- `convertScalar` refuses a value of the source kind with the kind error exactly outside `convertAccepts` -/
theorem convertScalar_kind_error_iff (ci : ConvImpl) (k1 k2 : Kind) (v : Val) (hv : valOfKind k1 v = true) :
    convertScalar ci k1 k2 v = .error .kind ↔ convertAccepts k1 k2 = false := by
  cases k1 <;> cases k2 <;> cases v <;> simp_all [valOfKind, convertScalar, convertAccepts, isNumeric] <;>
    (split <;> simp)

theorem convertScalarImpl_kind_error_iff (ci : ConvImpl) (k1 k2 : Kind) (v : Val) (hv : valOfKind k1 v = true) :
    convertScalarImpl ci k1 k2 v = .error .kind ↔ scalarAccepts k1 k2 = false := by
  unfold convertScalarImpl scalarAccepts
  by_cases hg : scalarIdentityGap k1 k2 = true
  · simp [hg]
  · simp [hg, convertScalar_kind_error_iff ci k1 k2 v hv]

theorem convertElemImpl_kind_error_iff (ci : ConvImpl) (k1 k2 : Kind) (v : Val) (hv : valOfKind k1 v = true) :
    convertElemImpl ci k1 k2 v = .error .kind ↔ matAccepts k1 k2 = false := by
  cases k1 <;> cases k2 <;> cases v <;>
    simp_all [valOfKind, convertElemImpl, convertScalar, matAccepts, convertAccepts, matExtra, matMissing, isNumeric] <;>
    (split <;> simp)

/-- whatever `is_convertible_to` lets through, other than a kind onto itself, the kind annotation accepts as well -/
theorem implicit_within_annotation (k1 k2 : Kind) (h : implicitlyConvertible k1 k2 = true) (hne : k1 ≠ k2) :
    scalarAccepts k1 k2 = true := by
  cases k1 <;> cases k2 <;> simp_all [implicitlyConvertible, scalarAccepts, convertAccepts, scalarIdentityGap, isNumeric]

end MechVerif.Convert
