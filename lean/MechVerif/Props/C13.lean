/-
C13 — Numeric literals denote the number they spell.
Model: `Model/Lit.lean` (value functions per literal form; exact decimal→binary
rounding), `Model/Float.lean` (integer rounding used by conversions); `Lemmas/Round.lean`
(the rounding step of `ratToF64`).
-/
import MechVerif.Model.Lit
import MechVerif.Lemmas.Round
import MechVerif.Gen.LitOrder
namespace MechVerif.Lit
open MechVerif.FloatX MechVerif.Num

theorem digitsVal_append (base : Nat) (ds : List Nat) (d : Nat) :
    digitsVal base (ds ++ [d]) = digitsVal base ds * base + d := by
  simp [digitsVal, List.foldl_append]

theorem foldl_horner (base : Nat) : ∀ (ds : List Nat) (acc : Nat),
    ds.foldl (fun a d => a * base + d) acc = acc * base ^ ds.length + denote base ds := by
  intro ds
  induction ds with
  | nil => intro acc; simp [denote]
  | cons d ds ih =>
    intro acc
    simp only [List.foldl_cons, ih, denote, List.length_cons, Nat.pow_succ]
    rw [Nat.add_mul, Nat.mul_assoc, Nat.mul_comm base (base ^ ds.length)]
    omega

/-- Horner evaluation computes the positional value: digit strings of every length and
    every base denote Σ dᵢ·baseⁱ. -/
theorem C13_digits_denote (base : Nat) (ds : List Nat) : digitsVal base ds = denote base ds := by
  unfold digitsVal
  rw [foldl_horner base ds 0]
  simp

/-- Based literals (0x…, 0o…, 0b…, 0d…) evaluate exactly to the integer their digits
    spell (kind i64), for all lengths that fit. -/
theorem C13_based_exact (si : SciImpl) (base : Nat) (ds : List Nat) (h : denote base ds ≤ I64MAX) :
    valueOf si (.based base ds false) = .ok (.int .i64 (denote base ds)) := by
  simp only [valueOf, Bool.false_eq_true, if_false, C13_digits_denote]
  have : ¬ denote base ds > I64MAX := by omega
  simp [this]

/-- A rational literal with zero denominator is rejected. -/
theorem C13_zero_denominator_rejected (si : SciImpl) (n d : List Nat) (hn : denote 10 n ≤ I64MAX)
    (hd : denote 10 d = 0) : valueOf si (.rational n d) = .error .panic := by
  simp only [valueOf, C13_digits_denote, hd]
  have : ¬ denote 10 n > I64MAX := by omega
  simp [this, I64MAX]

/-- A rational literal evaluates to the reduced fraction equal to n/d. -/
theorem C13_rational_reduced (si : SciImpl) (n d : List Nat) (a b : Int)
    (h : valueOf si (.rational n d) = .ok (.rat a b)) :
    a * (denote 10 d : Int) = (denote 10 n : Int) * b ∧ Int.gcd a b = 1 ∧ 0 < b := by
  simp only [valueOf, C13_digits_denote] at h
  split at h
  · cases h
  · split at h
    · cases h
    · rename_i hbig hz
      simp only [Except.ok.injEq, LVal.rat.injEq] at h
      obtain ⟨ha, hb⟩ := h
      have hdpos : 0 < denote 10 d := by
        cases hdd : denote 10 d with
        | zero => simp [hdd] at hz
        | succ k => omega
      have hg : 0 < Nat.gcd (denote 10 n) (denote 10 d) := Nat.gcd_pos_of_pos_right _ hdpos
      have hnotneg : ¬ ((denote 10 d : Int) < 0) := by omega
      simp only [gcdNorm, hnotneg, if_false] at ha hb
      have hgn : (Int.gcd (denote 10 n : Int) (denote 10 d : Int)) = Nat.gcd (denote 10 n) (denote 10 d) := by
        simp [Int.gcd]
      rw [hgn] at ha hb
      have ha' : a = ((denote 10 n / Nat.gcd (denote 10 n) (denote 10 d) : Nat) : Int) := by rw [← ha]; exact (Int.natCast_ediv _ _).symm
      have hb' : b = ((denote 10 d / Nat.gcd (denote 10 n) (denote 10 d) : Nat) : Int) := by rw [← hb]; exact (Int.natCast_ediv _ _).symm
      have hdvn : Nat.gcd (denote 10 n) (denote 10 d) ∣ denote 10 n := Nat.gcd_dvd_left _ _
      have hdvd : Nat.gcd (denote 10 n) (denote 10 d) ∣ denote 10 d := Nat.gcd_dvd_right _ _
      refine ⟨?_, ?_, ?_⟩
      · rw [ha', hb']
        have key : denote 10 n / Nat.gcd (denote 10 n) (denote 10 d) * denote 10 d =
            denote 10 n * (denote 10 d / Nat.gcd (denote 10 n) (denote 10 d)) := by
          obtain ⟨x, hx⟩ := hdvn
          obtain ⟨y, hy⟩ := hdvd
          generalize Nat.gcd (denote 10 n) (denote 10 d) = g at *
          rw [hx, hy, Nat.mul_div_cancel_left _ hg, Nat.mul_div_cancel_left _ hg]
          rw [Nat.mul_comm g y, ← Nat.mul_assoc, Nat.mul_comm (x * y) g, Nat.mul_assoc]
        exact_mod_cast key
      · rw [ha', hb']
        simp only [Int.gcd, Int.natAbs_natCast]
        exact Nat.coprime_div_gcd_div_gcd hg
      · rw [hb']
        have : 0 < denote 10 d / Nat.gcd (denote 10 n) (denote 10 d) :=
          Nat.div_pos (Nat.le_of_dvd hdpos hdvd) hg
        exact_mod_cast this

/-- A suffixed integer that does not fit its kind is clamped into the kind, never an
    unrelated value; one that fits (and is exactly representable) is itself. -/
theorem C13_typed_in_kind (si : SciImpl) (ds : List Nat) (k : IKind) (v : Int)
    (h : valueOf si (.typed ds (.int k)) = .ok (.int k v)) : k.inR v = true := by
  simp only [valueOf, Except.ok.injEq, LVal.int.injEq, true_and] at h
  subst h
  have hlohi : k.lo ≤ 0 ∧ 0 ≤ k.hi := by cases k <;> simp [IKind.lo, IKind.hi, IKind.bits, IKind.signed]
  simp only [IKind.inR, Bool.and_eq_true, decide_eq_true_eq]
  cases decode64 (ratToF64 (digitsVal 10 ds) 1) with
  | nan => exact hlohi
  | posInf => simp only [floatToInt]; exact ⟨by omega, by omega⟩
  | negInf => simp only [floatToInt]; exact ⟨by omega, by omega⟩
  | finite x =>
    simp only [floatToInt]
    split
    · omega
    · split <;> omega

theorem floatToInt_inR (k : IKind) (c : Cls) : k.inR (floatToInt k.lo k.hi c) = true := by
  have hlohi : k.lo ≤ 0 ∧ 0 ≤ k.hi := by cases k <;> simp [IKind.lo, IKind.hi, IKind.bits, IKind.signed]
  simp only [IKind.inR, Bool.and_eq_true, decide_eq_true_eq]
  cases c with
  | nan => exact hlohi
  | posInf => simp only [floatToInt]; exact ⟨by omega, by omega⟩
  | negInf => simp only [floatToInt]; exact ⟨by omega, by omega⟩
  | finite x =>
    simp only [floatToInt]
    split
    · omega
    · split <;> omega

/-- An annotated literal (`x<u8> := 300`, `x<i8> := -129`) always lies in its kind: out of
    range digits are clamped, never wrapped to an unrelated value. -/
theorem C13_annotated_in_kind (si : SciImpl) (k : IKind) (neg : Bool) (s : Spelling) (k' : IKind) (v : Int)
    (h : evalLit si (.annotated (.int k) neg s) = .ok (.int k' v)) : k' = k ∧ k.inR v = true := by
  simp only [evalLit] at h
  cases hv : valueOf si s with
  | error e => rw [hv] at h; cases h
  | ok w =>
    rw [hv] at h
    cases hf : asF64 w with
    | error e => simp only [hf] at h; cases h
    | ok f =>
      simp only [hf, Except.ok.injEq, LVal.int.injEq] at h
      obtain ⟨h1, h2⟩ := h
      subst h1; subst h2
      exact ⟨rfl, floatToInt_inR _ _⟩

/-- A prefix minus on a literal negates exactly: applying it twice is the identity, integer
    and rational values change sign exactly, and an unsigned suffixed literal is rejected. -/
theorem C13_negate_exact (v w : LVal) (h : negate v = .ok w) : negate w = .ok v := by
  cases v with
  | f64 b => simp only [negate, Except.ok.injEq] at h; subst h; simp [negate, UInt64.xor_assoc]
  | f32 b => simp only [negate, Except.ok.injEq] at h; subst h; simp [negate, UInt32.xor_assoc]
  | int k x =>
    simp only [negate] at h
    split at h
    · next hk => simp only [Except.ok.injEq] at h; subst h; simp [negate, hk]
    · cases h
  | rat n d => simp only [negate, Except.ok.injEq] at h; subst h; simp [negate]
  | cplx a b => simp only [negate, Except.ok.injEq] at h; subst h; simp [negate, UInt64.xor_assoc]

theorem C13_negate_int (k : IKind) (x : Int) (hk : k.signed = true) : negate (.int k x) = .ok (.int k (-x)) := by
  simp [negate, hk]

theorem C13_negate_unsigned_rejected (k : IKind) (x : Int) (hk : k.signed = false) :
    negate (.int k x) = .error .kind := by
  simp [negate, hk]

/-- A complex literal `re ± im i` without a prefix minus has exactly the two parts' values. -/
theorem C13_complex_parts (si : SciImpl) (re im : Spelling) (minus : Bool) (a b : UInt64)
    (hre : valueOf si re = .ok (.f64 a)) (him : valueOf si im = .ok (.f64 b)) :
    evalLit si (.complex false (some re) minus im) = .ok (.cplx a (if minus then b ^^^ SIGN64 else b)) := by
  simp [evalLit, hre, him, asF64]

/-- Rounding an integer to p significant bits: exact when it fits, otherwise within half
    a unit of the last place (the decimal→binary conversion of `Model/Lit.lean` and the
    integer→float conversion of `Model/Float.lean` are built on this). -/
theorem C13_roundNat_exact (p n : Nat) (h : bitLen n ≤ p) : roundNat p n = (n, 0) := by
  simp [roundNat, h]

theorem pow_carry (p s : Nat) (hp : 0 < p) : 2 ^ (p - 1) * 2 ^ (s + 1) = 2 ^ p * 2 ^ s := by
  obtain ⟨k, hk⟩ : ∃ k, p = k + 1 := ⟨p - 1, by omega⟩
  subst hk
  simp only [Nat.add_sub_cancel, Nat.pow_succ]
  ac_rfl

theorem C13_roundNat_nearest (p n : Nat) (hp : 0 < p) (h : p < bitLen n) :
    let r := roundNat p n
    2 * (n - r.1 * 2 ^ r.2) ≤ 2 ^ r.2 ∧ 2 * (r.1 * 2 ^ r.2 - n) ≤ 2 ^ r.2 := by
  have hnle : ¬ bitLen n ≤ p := by omega
  simp only [roundNat, hnle, if_false]
  generalize hs : bitLen n - p = s
  have hs1 : 1 ≤ s := by omega
  have hpow : 2 ^ s = 2 * 2 ^ (s - 1) := by
    have : s = (s - 1) + 1 := by omega
    rw [this, Nat.pow_succ, Nat.mul_comm]; simp
  have hdm := Nat.div_add_mod n (2 ^ s)
  have hmod : n % 2 ^ s < 2 ^ s := Nat.mod_lt _ (Nat.two_pow_pos s)
  generalize hq : n / 2 ^ s = q at *
  generalize hr : n % 2 ^ s = r at *
  generalize hh : 2 ^ (s - 1) = half at *
  have hn : n = q * (2 * half) + r := by rw [← hpow, Nat.mul_comm]; omega
  by_cases hup : (r > half || (r == half && q % 2 == 1)) = true
  · simp only [hup, if_true]
    have hr2 : half ≤ r := by
      simp only [Bool.or_eq_true, decide_eq_true_eq, Bool.and_eq_true, beq_iff_eq] at hup
      rcases hup with h1 | ⟨h1, _⟩ <;> omega
    by_cases hc : (q + 1 == 2 ^ p) = true
    · simp only [hc, if_true]
      have hcq : q + 1 = 2 ^ p := by simpa using hc
      have e1 : 2 ^ (p - 1) * 2 ^ (s + 1) = (q + 1) * (2 * half) := by
        rw [hcq, ← hpow]; exact pow_carry p s hp
      have e2 : 2 ^ (s + 1) = 2 * (2 * half) := by rw [Nat.pow_succ, hpow]; omega
      rw [e1, e2]
      have : (q + 1) * (2 * half) = q * (2 * half) + 2 * half := by rw [Nat.add_mul]; simp
      omega
    · simp only [hc, Bool.false_eq_true, if_false]
      rw [hpow]
      have : (q + 1) * (2 * half) = q * (2 * half) + 2 * half := by rw [Nat.add_mul]; simp
      omega
  · simp only [hup]
    have hr2 : r ≤ half := by
      simp only [Bool.or_eq_true, decide_eq_true_eq, Bool.and_eq_true, beq_iff_eq, not_or, not_and] at hup
      omega
    have hq2 : q < 2 ^ p → True := fun _ => trivial
    by_cases hc : (q == 2 ^ p) = true
    · -- q has exactly p bits, so q = 2^p cannot happen; handle it arithmetically anyway
      simp only [hc, if_true, Bool.false_eq_true, if_false]
      have hcq : q = 2 ^ p := by simpa using hc
      have e1 : 2 ^ (p - 1) * 2 ^ (s + 1) = q * (2 * half) := by
        rw [hcq, ← hpow]; exact pow_carry p s hp
      have e2 : 2 ^ (s + 1) = 2 * (2 * half) := by rw [Nat.pow_succ, hpow]; omega
      rw [e1, e2]
      omega
    · simp only [hc, Bool.false_eq_true, if_false]
      rw [hpow]
      omega

/-! ### float literals: the decimal is rounded correctly -/

/-- The rounding step is exact: from the integer quotient q = N / D, one sticky bit and the low part
    of q, `roundHalfEven` finds the integer M nearest to N / (D·K) — |N − M·K·D| ≤ K·D / 2 — and on
    a tie the even one.  This is the whole arithmetic content of "correctly rounded, ties to
    even"; it holds for all N, D > 0 and even K ≥ 2. -/
theorem C13_rounding_step_nearest_even (N D K : Nat) (hD : 0 < D) (hK : 2 ≤ K) (hKe : K % 2 = 0) :
    2 * (roundHalfEven N D K * (K * D)) ≤ 2 * N + K * D ∧ 2 * N ≤ 2 * (roundHalfEven N D K * (K * D)) + K * D ∧
    ((2 * (roundHalfEven N D K * (K * D)) = 2 * N + K * D ∨ 2 * N = 2 * (roundHalfEven N D K * (K * D)) + K * D) →
      roundHalfEven N D K % 2 = 0) :=
  roundHalfEven_nearest N D K hD hK hKe

/-- A positive rational num/den that is neither rounded to infinity nor below the subnormal
    range is rounded on the right grid: with n2 / d2 = (num / den) · 2^shift exactly and
    q = ⌊n2 / d2⌋ of lq ≥ 56 bits,
    * e2 = lq − 1 − shift is the exponent of the leading bit of num / den (2^(lq−1) ≤ q < 2^lq),
    * the precision is p = 53 bits for normal numbers and 53 − (−1022 − e2) below,
    * the mantissa before rounding has exactly p bits, 2^(p−1) ≤ q / K < 2^p with K = 2^(lq − p),
      so the grid step K · 2^(−shift) = 2^(e2 + 1 − p) is the spacing of binary64 at that magnitude,
    * the mantissa M returned is the integer nearest to n2 / (d2 · K), ties to even, and it is
      q / K or q / K + 1 (a carry to 2^p is the next binade's first number).
    For every num, den > 0 — every decimal literal of any length. -/
theorem C13_float_correctly_rounded (num den : Nat) (hn : num ≠ 0) (hd : den ≠ 0) (M : Nat) (e2 : Int) (p : Nat)
    (h : ratRound num den = .fin M e2 p)
    (n2 d2 lq K : Nat) (hn2 : n2 = (scaleRat num den).n2) (hd2 : d2 = (scaleRat num den).d2)
    (hlq : lq = bitLen (n2 / d2)) (hKdef : K = 2 ^ (lq - p)) :
    -- exact scaling
    ((0 ≤ shiftOf num den → n2 = num * 2 ^ (shiftOf num den).toNat ∧ d2 = den) ∧
     (shiftOf num den < 0 → n2 = num ∧ d2 = den * 2 ^ (-(shiftOf num den)).toNat)) ∧
    -- leading bit, precision, grid
    e2 = (lq : Int) - 1 - shiftOf num den ∧ 2 ^ (lq - 1) ≤ n2 / d2 ∧ n2 / d2 < 2 ^ lq ∧
    (e2 ≥ -1022 → p = 53) ∧ (e2 < -1022 → (p : Int) = 53 - (-1022 - e2)) ∧ e2 ≤ 1023 ∧
    e2 + 1 - (p : Int) = ((lq - p : Nat) : Int) - shiftOf num den ∧
    2 ^ (p - 1) ≤ n2 / d2 / K ∧ n2 / d2 / K < 2 ^ p ∧
    -- nearest, ties to even
    (M = n2 / d2 / K ∨ M = n2 / d2 / K + 1) ∧
    2 * (M * (K * d2)) ≤ 2 * n2 + K * d2 ∧ 2 * n2 ≤ 2 * (M * (K * d2)) + K * d2 ∧
    ((2 * (M * (K * d2)) = 2 * n2 + K * d2 ∨ 2 * n2 = 2 * (M * (K * d2)) + K * d2) → M % 2 = 0) := by
  obtain ⟨he2, hp1, hp53, hmax, hnorm, hsub, hM⟩ := ratRound_fin num den M e2 p h
  obtain ⟨hsh, hs1, hs2⟩ := scaleRat_exact num den
  obtain ⟨hdpos, hq55⟩ := scaled_quotient_large num den hn hd
  rw [← hn2] at he2 hM hs1 hs2 hq55
  rw [← hd2] at he2 hM hs1 hs2 hdpos hq55
  rw [← hlq] at he2 hM
  rw [← hKdef] at hM
  obtain ⟨hl56, hm1, hm2⟩ := mantissa_normalised (n2 / d2) p hq55 hp1 hp53
  have hq0 : n2 / d2 ≠ 0 := by
    intro e; rw [e] at hq55; exact absurd hq55 (by decide)
  obtain ⟨b1, b2⟩ := bitLen_bounds (n2 / d2) hq0
  rw [← hlq] at hl56 hm1 hm2 b1 b2
  rw [← hKdef] at hm1 hm2
  have hK2 : 2 ≤ K := by
    have : 2 ^ 1 ≤ 2 ^ (lq - p) := Nat.pow_le_pow_right (by decide) (by omega)
    rw [hKdef]; simpa using this
  have hKe : K % 2 = 0 := by
    have : lq - p = (lq - p - 1) + 1 := by omega
    rw [hKdef, this, Nat.pow_succ]; exact Nat.mul_mod_left _ _
  have hnear := roundHalfEven_nearest n2 d2 K hdpos hK2 hKe
  simp only at hnear
  rw [hsh] at he2
  refine ⟨⟨hs1, hs2⟩, he2, b1, b2, hnorm, hsub, hmax, ?_, hm1, hm2, ?_, ?_⟩
  · have hple : p ≤ lq := by omega
    rw [he2, Int.ofNat_sub hple]; omega
  · rw [hM]; exact roundHalfEven_cases n2 d2 K
  · rw [hM]; exact hnear

/-- The bits written for a literal in the normal range denote exactly the rounded mantissa on its
    grid: decoding `ratToF64 num den` gives M · 2^(e2 − 52) with M, e2 as characterised by
    `C13_float_correctly_rounded` (no carry: M < 2^53). -/
theorem C13_float_bits_denote_rounded (num den : Nat) (hn : num ≠ 0) (hd : den ≠ 0) (M : Nat) (e2 : Int)
    (h : ratRound num den = .fin M e2 53) (hnorm : -1022 ≤ e2) (hM : M < 2 ^ 53) :
    decode64 (ratToF64 num den) = .finite ⟨(M : Int), e2 - 52⟩ := by
  have hz : (num == 0 || den == 0) = false := by
    have h1 : (num == 0) = false := by simpa using hn
    have h2 : (den == 0) = false := by simpa using hd
    rw [h1, h2]; rfl
  unfold ratToF64
  rw [hz]
  simp only [Bool.false_eq_true, if_false, h]
  have hall := C13_float_correctly_rounded num den hn hd M e2 53 h _ _ _ _ rfl rfl rfl rfl
  obtain ⟨_, _, _, _, _, _, hmax, _, hm1, _, hcase, _⟩ := hall
  have hM1 : 2 ^ 52 ≤ M := by
    rcases hcase with e | e <;> (rw [e]; simp only [Nat.add_one_sub_one] at hm1; omega)
  exact decode_encode_normal M e2 53 hM1 hM hnorm hmax

/-- When rounding carries into the next binade (M = 2^53) the bits denote 2^52 · 2^(e2 + 1 − 52),
    the same number. -/
theorem C13_float_bits_carry (e2 : Int) (hnorm : -1022 ≤ e2) (hmax : e2 + 1 ≤ 1023) :
    decode64 (encodeF64 (.fin (2 ^ 53) e2 53)) = .finite ⟨((2 ^ 52 : Nat) : Int), e2 + 1 - 52⟩ := by
  have h := decode_encode_normal (2 ^ 52) (e2 + 1) 53 (Nat.le_refl _) (by decide) (by omega) hmax
  have e : encodeF64 (.fin (2 ^ 53) e2 53) = encodeF64 (.fin (2 ^ 52) (e2 + 1) 53) := by
    unfold encodeF64
    have a1 : ((2 ^ 53 : Nat) == 2 ^ 53) = true := by decide
    have a2 : ((2 ^ 52 : Nat) == 2 ^ 53) = false := by decide
    simp only [ge_iff_le, if_pos hnorm, a1, a2, if_true, Bool.false_eq_true, if_false]
    rw [if_pos (by omega : -1022 ≤ e2 + 1)]
  rw [e]; exact h

/-- The two remaining outcomes are right as well: infinity is returned only when the leading bit
    of the exact value is at 2^1024 or above (beyond every finite binary64), and below the
    subnormal range (leading bit at 2^−1075 or lower) the result is the smallest subnormal exactly
    when the value lies strictly above half of it, 2^−1075 — a tie at exactly half goes to the
    even neighbour, 0 — and 0 otherwise. -/
theorem C13_float_overflow_and_underflow (num den : Nat) (hn : num ≠ 0) (hd : den ≠ 0) :
    (ratRound num den = .inf →
      (bitLen ((scaleRat num den).n2 / (scaleRat num den).d2) : Int) - 1 - (scaleRat num den).shift ≥ 1024) ∧
    (∀ up, ratRound num den = .tiny up →
      (bitLen ((scaleRat num den).n2 / (scaleRat num den).d2) : Int) - 1 - (scaleRat num den).shift ≤ -1075 ∧
      (up = true ↔ ((bitLen ((scaleRat num den).n2 / (scaleRat num den).d2) : Int) - 1 - (scaleRat num den).shift = -1075 ∧
        2 ^ (bitLen ((scaleRat num den).n2 / (scaleRat num den).d2) - 1) * (scaleRat num den).d2 < (scaleRat num den).n2))) :=
  ⟨ratRound_inf num den, fun up h => ratRound_tiny num den hn hd up h⟩

/-- the premise is met: 0.1 = 1/10 is rounded to the mantissa 0x1999999999999a at exponent −4 -/
example : ratRound 1 10 = .fin 0x1999999999999a (-4) 53 := by decide +kernel

/-! ### the grammar's order of alternatives as written in the source (regenerated on every run: `Gen/LitOrder.lean`) -/

/-- The forms `real_number` tries, in the order written in literals.rs, are `realNumberOrder`; every spelling of the model
    (with one of the four base prefixes, if based) has its form among them; and the order tries every form before the
    forms that would succeed on a prefix of its spellings, so the first match is the reading `Spelling` stands for. -/
theorem C13_grammar_order_as_written :
    (formsOf Gen.LitOrder.altFunctions Gen.LitOrder.leaves Gen.LitOrder.realNumberAlts).filterMap id = realNumberOrder ∧
    (∀ s : Spelling, (∀ b, s.form = .based b → b ∈ [16, 10, 8, 2]) →
      s.form ∈ (formsOf Gen.LitOrder.altFunctions Gen.LitOrder.leaves Gen.LitOrder.realNumberAlts).filterMap id) ∧
    respects ((formsOf Gen.LitOrder.altFunctions Gen.LitOrder.leaves Gen.LitOrder.realNumberAlts).filterMap id) = true := by
  have h := Gen.LitOrder.C13_real_number_alternatives_are_model.1
  have hf : (formsOf Gen.LitOrder.altFunctions Gen.LitOrder.leaves Gen.LitOrder.realNumberAlts).filterMap id = realNumberOrder := by
    rw [h]; decide
  refine ⟨hf, ?_, Gen.LitOrder.C13_alternatives_respect_prefixes.1⟩
  intro s hb
  rw [hf]
  cases s with
  | based b ds u =>
    have := hb b rfl
    simp only [List.mem_cons, List.not_mem_nil, or_false] at this
    rcases this with h | h | h | h <;> subst h <;> simp only [Spelling.form] <;> decide
  | _ => simp only [Spelling.form] <;> decide

/-! ### non-vacuity and the spellings of the specification -/
example : denote 16 [15, 15] = 255 := by decide
example : (ratToF64 15 10).toNat = 0x3ff8000000000000 := by decide                 -- 1.5
example : (ratToF64 1 10).toNat = 0x3fb999999999999a := by decide +kernel           -- 0.1
example : roundNat 53 9007199254740993 = (4503599627370496, 1) := by decide +kernel -- ties to even

end MechVerif.Lit
