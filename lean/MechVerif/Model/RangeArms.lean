/-
C15, a tie to the source for the operand forms: when the operands of a range are not all plain values the
`NativeFunctionCompiler::compile` of each of the four range forms (machines/range/src) falls back on a `match` whose
arms recognise operands that are references to variables (`Value::MutableReference`), dereference them and call the
constructor again.  `tools/extract_range_arms.py` reads these arms; this file says when they are right and what that
means: whatever mix of plain and referenced operands a range is written with, the constructor receives the operands'
values in the order written.
-/
namespace MechVerif.RangeArms

/-- one fallback arm: which operands it expects as references, and which operand (1-based), dereferenced or not, it
    hands on in each position -/
structure Arm where
  refs : List Bool
  call : List (Nat × Bool)
deriving DecidableEq, Repr

/-- an operand as it reaches `compile`: a plain value or a reference to a cell holding one -/
inductive Opnd (α : Type) where
  | val (v : α)
  | ref (v : α)
deriving DecidableEq, Repr

def Opnd.isRef {α : Type} : Opnd α → Bool
  | .ref _ => true
  | .val _ => false

def Opnd.value {α : Type} : Opnd α → α
  | .val v => v
  | .ref v => v

/-- a pattern `Value::MutableReference(x)` matches references only, a bare `x` matches anything -/
def Arm.matches {α : Type} (a : Arm) (ops : List (Opnd α)) : Bool :=
  a.refs.length == ops.length && (a.refs.zip ops).all (fun p => !p.1 || p.2.isRef)

/-- what the arm hands to the constructor: `none` where it passes a reference on without dereferencing it (the
    constructor has no arm for a reference and fails) or names an operand that does not exist -/
def Arm.apply {α : Type} (a : Arm) (ops : List (Opnd α)) : Option (List α) :=
  a.call.mapM (fun c => match (ops[c.1 - 1]? : Option (Opnd α)) with
    | some (Opnd.val v) => if c.1 ≥ 1 then some v else none
    | some (Opnd.ref v) => if c.1 ≥ 1 ∧ c.2 then some v else none
    | none => none)

/-- the first arm that matches decides -/
def dispatch {α : Type} (arms : List Arm) (ops : List (Opnd α)) : Option (List α) :=
  match arms.find? (fun a => a.matches ops) with
  | some a => a.apply ops
  | none => none

/-- an arm hands operand k on in position k, dereferenced exactly when it matched it as a reference -/
def armOk (n : Nat) (a : Arm) : Bool :=
  a.refs.length == n && a.call.length == n &&
  (List.range n).all (fun k => a.call[k]? == some (k + 1, a.refs.getD k false))

/-- all reference patterns over `n` operands, except the one without any reference (handled before the fallback) -/
def allMasks : Nat → List (List Bool)
  | 0 => [[]]
  | n + 1 => (allMasks n).flatMap (fun m => [true :: m, false :: m])

def subsetOf (a b : List Bool) : Bool := (a.zip b).all (fun p => !p.1 || p.2)

/-- the arms of one range form: each is right, every non-empty combination of references has its arm, and no arm
    comes after a more general one (which would shadow it) -/
def formOk (f : String × Nat × List Arm) : Bool :=
  let n := f.2.1
  let arms := f.2.2
  arms.all (armOk n) &&
  ((allMasks n).filter (fun m => m.any id)).all (fun m => arms.any (fun a => a.refs == m)) &&
  (List.range arms.length).all (fun i => (List.range i).all (fun j =>
    !(subsetOf ((arms.getD j ⟨[], []⟩).refs) ((arms.getD i ⟨[], []⟩).refs))))

end MechVerif.RangeArms
