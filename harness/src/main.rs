#![allow(warnings)]
mod common;
mod c20;
mod c07;
mod c13;
mod c14;
mod c16;
mod c17;
mod c18;
mod c02;
mod c19;
mod c05;
mod c06;
mod c08;
mod c08s;
mod c09;
mod c10;
mod c12;
mod c11;
mod c04;
mod c03;
mod c01;
mod c15;
mod interp;

use common::*;

fn main() {
  let args: Vec<String> = std::env::args().collect();
  if args.len() < 5 && !(args.len() >= 2 && (args[1] == "eval" || args[1] == "emit" || args[1] == "loadone" || args[1] == "fmtp" || args[1] == "doc" || args[1] == "fsm" || args[1] == "bc" || args[1] == "planp" || args[1] == "sess" || args[1] == "steps")) {
    eprintln!("usage: mvh <prop> <seed> <quick|thorough|replay> <outdir> [replay-file]");
    std::process::exit(2);
  }
  if args.len() >= 2 && args[1] == "emit" {
    let mut text = String::new();
    use std::io::Read;
    std::io::stdin().read_to_string(&mut text).unwrap();
    for l in text.lines() { if let Some(b) = c07::emit(&l.replace("\\n", "\n")) { println!("{}", common::hexb(&b)); } else { println!("-"); } }
    return;
  }
  if args.len() >= 2 && args[1] == "loadone" {
    std::panic::set_hook(Box::new(|_| {}));
    let mut text = String::new();
    use std::io::Read;
    std::io::stdin().read_to_string(&mut text).unwrap();
    println!("{}", c07::load_summary2(&c07::unhex(text.trim()), true));
    return;
  }
  if args.len() >= 2 && args[1] == "fmtp" {
    std::panic::set_hook(Box::new(|_| {}));
    let mut text = String::new();
    use std::io::Read;
    std::io::stdin().read_to_string(&mut text).unwrap();
    for l in text.lines() { if l.trim().is_empty() { continue; } let src = l.replace("\\n", "\n"); let o = c08::run(&src, false);
      let f = o.split('|').next().unwrap_or("").trim_start_matches("F=").to_string();
      println!("{:40} => [{}] {}", l, String::from_utf8(c07::unhex(&f)).unwrap_or_default().replace('\n', "\\n"), o.splitn(2, '|').nth(1).unwrap_or("")); }
    return;
  }
  if args.len() >= 2 && args[1] == "doc" {
    std::panic::set_hook(Box::new(|_| {}));
    let mut text = String::new();
    use std::io::Read;
    std::io::stdin().read_to_string(&mut text).unwrap();
    for l in text.lines() { if l.trim().is_empty() { continue; } let case = format!("doc\t{}", l); println!("{}\n=> {}", c10::source(&case), c10::exec(&case)); }
    return;
  }
  if args.len() >= 2 && args[1] == "bc" {
    if std::env::var("MVH_LOUD").is_err() { std::panic::set_hook(Box::new(|_| {})); }
    let mut text = String::new();
    use std::io::Read;
    std::io::stdin().read_to_string(&mut text).unwrap();
    for l in text.lines() { if l.trim().is_empty() { continue; } let src = l.replace("\\n", "\n"); println!("{:40} => {}", l, c06::run(&src)); }
    return;
  }
  if args.len() >= 2 && args[1] == "planp" {
    // probing aid: each stdin line is a program (literal \\n for newlines); prints every plan step's to_string() and the compiled instruction stream
    std::panic::set_hook(Box::new(|_| {}));
    let mut text = String::new();
    use std::io::Read;
    std::io::stdin().read_to_string(&mut text).unwrap();
    for l in text.lines() { if l.trim().is_empty() { continue; } let src = l.replace("\\n", "\n"); println!("PROGRAM {}\n{}", l, c06::plan_probe(&src)); }
    return;
  }
  if args.len() >= 2 && args[1] == "fsm" {
    std::panic::set_hook(Box::new(|_| {}));
    let mut text = String::new();
    use std::io::Read;
    std::io::stdin().read_to_string(&mut text).unwrap();
    for l in text.lines() {
      if l.trim().is_empty() { continue; }
      let src = l.replace("\\n", "\n");
      let (r, steps) = interp::eval_fsm(&src, 50);
      println!("{} | {:?}", match r { Ok(v) => interp::canon(&v), Err(e) => format!("err:{}", e) }, steps);
    }
    return;
  }
  if args.len() >= 2 && args[1] == "eval" {
    // probing aid: one program per stdin line (literal \n for newlines); prints the canonical observation
    std::panic::set_hook(Box::new(|_| {}));
    let mut text = String::new();
    use std::io::Read;
    std::io::stdin().read_to_string(&mut text).unwrap();
    for l in text.lines() {
      if l.trim().is_empty() { continue; }
      let src = l.replace("\\n", "\n");
      let o = interp::eval_obs(&src);
      let f = interp::eval(&src).map(|v| interp::form(&v)).unwrap_or("-");
      println!("{:50} => {} [{}]", l, o, f);
    }
    return;
  }
  if args.len() >= 2 && args[1] == "steps" {
    // probing aid: each stdin line is a program (literal \\n for newlines); prints symbols after interpret and after step(0,1) x3
    std::panic::set_hook(Box::new(|_| {}));
    let mut text = String::new();
    use std::io::Read;
    std::io::stdin().read_to_string(&mut text).unwrap();
    for l in text.lines() {
      if l.trim().is_empty() { continue; }
      let src = l.replace("\\n", "\n");
      let mut intrp = mech_interpreter::Interpreter::new(0);
      println!("PROGRAM {}", l);
      match interp::parse_code(&src) {
        Err(e) => println!("   harness:{}", e),
        Ok(t) => {
          let r = std::panic::catch_unwind(std::panic::AssertUnwindSafe(|| intrp.interpret(&t)));
          println!("   interp {:5} | {}", match r { Ok(Ok(_)) => "ok", Ok(Err(_)) => "ERR", Err(_) => "PANIC" }, interp::symbols(&intrp).chars().take(200).collect::<String>());
          println!("   plan len {}", intrp.plan().borrow().len());
          for k in 0..3 {
            let r = std::panic::catch_unwind(std::panic::AssertUnwindSafe(|| intrp.step(0, 1)));
            println!("   step{}  {:5} | {}", k + 1, match r { Ok(Ok(_)) => "ok", Ok(Err(_)) => "ERR", Err(_) => "PANIC" }, interp::symbols(&intrp).chars().take(200).collect::<String>());
          }
        }
      }
    }
    return;
  }
  if args.len() >= 2 && args[1] == "sess" {
    // probing aid: stdin lines are sessions, statements separated by " ;; ", interpreted one by one
    std::panic::set_hook(Box::new(|_| {}));
    let mut text = String::new();
    use std::io::Read;
    std::io::stdin().read_to_string(&mut text).unwrap();
    for l in text.lines() {
      if l.trim().is_empty() { continue; }
      let mut intrp = mech_interpreter::Interpreter::new(0);
      println!("SESSION {}", l);
      for stmt in l.split(" ;; ") {
        let r = match interp::parse_code(stmt) {
          Err(e) => format!("harness:{}", e),
          Ok(t) => match std::panic::catch_unwind(std::panic::AssertUnwindSafe(|| intrp.interpret(&t))) {
            Ok(Ok(v)) => format!("ok {}", interp::canon(&v).chars().take(40).collect::<String>()), Ok(Err(e)) => format!("ERR {}", e.kind_name()), Err(_) => "HOSTPANIC".to_string() } };
        println!("   {:28} -> {:40} | {}", stmt, r, interp::symbols(&intrp).chars().take(150).collect::<String>());
      }
    }
    return;
  }
  let prop = args[1].as_str();
  let seed: u64 = args[2].parse().unwrap_or(0);
  let mode = args[3].as_str();
  let thorough = mode == "thorough";
  let outdir = args[4].as_str();
  std::panic::set_hook(Box::new(|_| {}));
  let mut sink = Sink::new();
  let (generate, exec): (fn(u64, bool, &mut Sink) -> Vec<String>, fn(&str) -> String) = match prop {
    "C20" => (c20::generate, c20::exec),
    "C07" => (c07::generate, c07::exec),
    "C13" => (c13::generate, c13::exec),
    "C14" => (c14::generate, c14::exec),
    "C16" => (c16::generate, c16::exec),
    "C06" => (c06::generate, c06::exec),
    "C08" => (c08::generate, c08::exec),
    "C09" => (c09::generate, c09::exec),
    "C10" => (c10::generate, c10::exec),
    "C17" => (c17::generate, c17::exec),
    "C18" => (c18::generate, c18::exec),
    "C02" => (c02::generate, c02::exec),
    "C19" => (c19::generate, c19::exec),
    "C05" => (c05::generate, c05::exec),
    "C12" => (c12::generate, c12::exec),
    "C11" => (c11::generate, c11::exec),
    "C04" => (c04::generate, c04::exec),
    "C03" => (c03::generate, c03::exec),
    "C01" => (c01::generate, c01::exec),
    "C15" => (c15::generate, c15::exec),
    _ => { eprintln!("unknown property {}", prop); std::process::exit(2); }
  };
  let cases: Vec<String> = if mode == "replay" {
    let text = std::fs::read_to_string(&args[5]).expect("replay file");
    text.lines().filter(|l| !l.trim().is_empty()).map(|l| l.split("\t@@\t").next().unwrap().to_string()).collect()
  } else {
    // corpus first (minimised past failures and finding witnesses), then generated cases
    let mut v = vec![];
    for suffix in ["cases", "extra.cases"] {
      let corpus = format!("{}/../corpus/{}.{}", env!("CARGO_MANIFEST_DIR"), prop, suffix);
      if let Ok(text) = std::fs::read_to_string(&corpus) {
        for l in text.lines() { if !l.trim().is_empty() && !l.starts_with('#') { v.push(l.split("\t@@\t").next().unwrap().to_string()); sink.hit("corpus"); } }
      }
    }
    v.extend(generate(seed, thorough, &mut sink));
    v
  };
  let threads = std::thread::available_parallelism().map(|n| n.get()).unwrap_or(4).min(16);
  let trace = std::env::var("MVH_TRACE").is_ok();
  let obs = par_map(&cases[..], threads, |c: &String| {
    if trace { eprintln!("TRACE {}", c); }
    match std::panic::catch_unwind(|| exec(c)) {
      Ok(o) => o,
      Err(_) => "hostpanic".to_string(),
    }
  });
  for (c, o) in cases.into_iter().zip(obs.into_iter()) { if prop == "C06" { c06::tally(&c, &o, &mut sink); } sink.case(c, o); }
  sink.write(outdir);
}
