import MechVerif.Driver.Value
import MechVerif.Model.RunProgram
import MechVerif.Model.Const
import MechVerif.Model.ConstValue
import MechVerif.Model.Compile
namespace MechVerif.Driver.S06
open MechVerif.RunProgram MechVerif.Const MechVerif.Bytecode

def unhexStr (h : String) : Option String := (unhexText h).map String.ofList

def pIns (s : String) : Option Ins :=
  match s.splitOn ":" with
  | ["cl", d, c] => (match d.toNat?, c.toNat? with | some d, some c => some (.constLoad d c) | _, _ => none)
  | "op" :: ar :: known :: dst :: args =>
    let arity := if ar == "v" then none else ar.toNat?
    (match dst.toNat?, args.mapM String.toNat? with
     | some d, some as => some (.op arity (known == "1") d as)
     | _, _ => none)
  | ["ret", s] => s.toNat?.map .ret
  | ["unk", o] => o.toNat?.map .unknown
  | _ => none

def errName : RErr → String
  | .unknownFunction (some 0) => "err:run:UnknownNullaryFunction"
  | .unknownFunction (some 1) => "err:run:UnknownUnaryFunction"
  | .unknownFunction (some 2) => "err:run:UnknownBinaryFunction"
  | .unknownFunction (some 3) => "err:run:UnknownTernaryFunction"
  | .unknownFunction (some _) => "err:run:UnknownQuadFunction"
  | .unknownFunction none => "err:run:UnknownVariadicFunction"
  | .unknownInstruction => "err:run:UnknownInstruction"
  | .badIndex => "panic:run:index"

/-! canonical text of decoded constants -/
def kindOfTag (t : String) : Option (EK × String) :=
  match t with
  | "U8" => some (.uint 1, "u8") | "U16" => some (.uint 2, "u16") | "U32" => some (.uint 4, "u32") | "U64" => some (.uint 8, "u64") | "U128" => some (.uint 16, "u128")
  | "I8" => some (.sint 1, "i8") | "I16" => some (.sint 2, "i16") | "I32" => some (.sint 4, "i32") | "I64" => some (.sint 8, "i64") | "I128" => some (.sint 16, "i128")
  | "F32" => some (.f32, "f32") | "F64" => some (.f64, "f64") | "Bool" => some (.bool, "bool") | "String" => some (.str, "string")
  | "R64" => some (.r64, "r64") | "C64" => some (.c64, "c64")
  | _ => none

def canon64 (b : Nat) : String := hexFixed (if (b % 2 ^ 63) > 0x7ff0000000000000 then 0x7ff8000000000000 else b) 16
def canon32 (b : Nat) : String := hexFixed (if (b % 2 ^ 31) > 0x7f800000 then 0x7fc00000 else b) 8

def cvBody : CV → String
  | .uint _ v => toString v
  | .sint _ v => toString v
  | .f32 b => canon32 b
  | .f64 b => canon64 b
  | .bool b => if b then "true" else "false"
  | .str s => hexOfBytes (ByteArray.mk (s.map (fun x => UInt8.ofNat x.toNat)).toArray)
  | .r64 n d => s!"{n}/{d}"
  | .c64 re im => canon64 re ++ "," ++ canon64 im

def bytesOfHex (h : String) : Option (List Crc.Byte) := (unhexBytes h).map (fun b => b.toList.map (fun x => BitVec.ofNat 8 x.toNat))

section compound
open MechVerif.ConstValue

/-- `Display` of a scalar kind by its tag in the kind codec -/
def kindNameOfTag : Nat → Option String
  | 1 => some "u8" | 2 => some "u16" | 3 => some "u32" | 4 => some "u64" | 5 => some "u128"
  | 6 => some "i8" | 7 => some "i16" | 8 => some "i32" | 9 => some "i64" | 10 => some "i128"
  | 11 => some "f32" | 12 => some "f64" | 13 => some "c64" | 14 => some "r64" | 15 => some "string" | 16 => some "bool"
  | _ => none

def vkName : VK → Option String
  | .simple t => kindNameOfTag t
  | _ => none

def nvText : NV → Option String
  | .empty => some "empty"
  | .scalar v => (kindNameOfTag (tagOfEk v.kind)).map (fun n => n ++ ":" ++ cvBody v)

def sortStr (l : List String) : List String := (l.toArray.qsort (· < ·)).toList

/-- canonical text of a set or table constant as the model decodes its payload; `none` when the payload
    uses something the model does not cover (then the loader's own decoding is taken as observed) -/
def decodeCompound (tag : String) (bs : List Crc.Byte) : Option String :=
  if tag == "Set" then
    match decodeSet bs with
    | none => some "undecodable"
    | some s =>
      (match vkName s.kind, s.elems.mapM nvText with
       | some k, some els => some ("set:" ++ k ++ ":n" ++ toString s.count ++ ":{" ++ "|".intercalate (sortStr els) ++ "}")
       | _, _ => none)
  else if tag == "Table" then
    match decodeTable bs with
    | none => some "undecodable"
    | some t =>
      let cols := t.columns.mapM (fun c =>
        match vkName c.kind, c.data.mapM nvText, String.fromUTF8? (ByteArray.mk (c.name.map (fun x => UInt8.ofNat x.toNat)).toArray) with
        | some k, some vs, some nm => some (nm ++ "<" ++ k ++ ">=" ++ ",".intercalate vs)
        | _, _, _ => none)
      cols.map (fun cs => "table:" ++ toString t.rows ++ "x" ++ toString t.cols ++ ":[" ++ ";".intercalate cs ++ "]")
  else none
end compound

/-- the canonical text the model's decoder gives for a raw constant, when it models the tag -/
def decodeRaw (tag hex : String) : Option String :=
  match bytesOfHex hex with
  | none => none
  | some bs =>
    match kindOfTag tag with
    | some (k, name) => (match decode k bs with | some (v, []) => some (name ++ ":" ++ cvBody v) | _ => some "undecodable")
    | none =>
      if tag.startsWith "Matrix" then
        match kindOfTag (tag.drop 6).toString with
        | some (k, name) =>
          (match decodeMat k bs with
           | some (m, []) =>
             if m.rows == 0 || m.cols == 0 then none else
             some (s!"mat:{name}:{m.rows}x{m.cols}:[" ++ " ".intercalate (m.data.map cvBody) ++ "]")
           | _ => some "undecodable")
        | none => none
      else decodeCompound tag bs

def simpleProgram (src : String) : Bool :=
  let cs := src.toList
  let rec scan : List Char → Bool
    | '<' :: c :: rest => if c.isAlpha || c == '[' || c == '{' then false else scan (c :: rest)
    | d :: 'i' :: rest => if d.isDigit then false else scan ('i' :: rest)
    | d :: 'j' :: rest => if d.isDigit then false else scan ('j' :: rest)
    | d :: '/' :: e :: rest => if d.isDigit && e.isDigit then false else scan ('/' :: e :: rest)
    | d :: 'u' :: e :: rest => if d.isDigit && e.isDigit then false else scan ('u' :: e :: rest)
    | d :: 'f' :: e :: rest => if d.isDigit && e.isDigit then false else scan ('f' :: e :: rest)
    | '|' :: _ => false
    | '{' :: _ => false
    | _ :: rest => scan rest
    | [] => true
  scan cs

def hasSub (s sub : String) : Bool := (s.splitOn sub).length > 1

/-- is the matrix literal defined as `name := [ … ]` stored as a DMatrix (1x1, or more than one row and column)? -/
def mdBody (body : String) : Bool :=
  let rows := body.splitOn ";"
  let r := rows.length
  let c := (((rows.headD "").splitOn " ").filter (· != "")).length
  (r == 1 && c == 1) || (r > 1 && c > 1)

def isMD (src name : String) : Bool :=
  match src.splitOn (name ++ " := [") with
  | _ :: rest :: _ => mdBody ((rest.splitOn "]").headD "")
  | _ => false

/-- the same for an operand of the last line `X op Y`: the variable `a` / `b`, or a matrix literal written in place -/
def operandMD (src : String) (left : Bool) : Bool :=
  let last := ((src.splitOn "\n").getLast?).getD ""
  if left then
    if last.startsWith "[" then mdBody (((last.drop 1).toString.splitOn "]").headD "") else isMD src "a"
  else
    if last.endsWith "]" then mdBody ((((last.dropEnd 1).toString.splitOn "[").getLast?).getD "") else isMD src "b"

def runC06 (fields : List String) (obs : String) : String × String × String :=
  let bad := ("bad-case", "bad-case", "-")
  match fields with
  | [_, cls, hexsrc] =>
    if obs == "skip" then ("skip", "ok", "-") else
    match unhexStr hexsrc, obs.splitOn "|P=" with
    | some src, [ab, phex] =>
      (match ab.splitOn "|B=" with
       | aPart :: bParts =>
         let a := (aPart.drop 2).toString
         let b := "|B=".intercalate bParts
         if phex.isEmpty then
           -- compile or load failed: nothing to run
           let clause2 := cls == "operators" || cls == "indexing" || cls == "assignment" || cls == "ranges" || cls == "matrix-literals" || cls == "literals-and-calls"
           let verdict := if b.startsWith "err:" then (if clause2 then "bad:expected the program to compile" else "ok")
                          else "bad:host panic"
           let region := if verdict == "ok" then "-" else if b.startsWith "panic:compile" then "C06-D2"
                         else if !(simpleProgram src) then "C06-D1" else if cls == "matrix-literals" then "C06-D7" else "-"
           (obs, verdict, region)
         else
         match unhexStr phex with
         | none => bad
         | some dump =>
           let sect (name : String) : String := (((dump.splitOn (name ++ "=")).getD 1 "").splitOn ";").headD ""
           let regs := (sect "regs").toNat!
           let constsRaw := sect "consts"
           let instrs := if (sect "instrs").isEmpty then some [] else ((sect "instrs").splitOn ",").mapM pIns
           let syms := if (sect "syms").isEmpty then [] else ((sect "syms").splitOn ",").filterMap String.toNat?
           let raws := if (sect "raw").isEmpty then [] else (sect "raw").splitOn ","
           (match instrs with
            | none => bad
            | some ins =>
              let hasOp := ins.any (fun i => match i with | .op _ _ _ _ => true | _ => false)
              let predicted : String :=
                if constsRaw.startsWith "!" then (constsRaw.drop 1).toString else
                let consts := if constsRaw.isEmpty then [] else (constsRaw.splitOn ",").map (fun h => (unhexStr h).getD "?")
                -- constants the model decodes itself must agree with what the loader decoded
                let mismatch := (raws.zip consts).any (fun p => match p.1.splitOn ":" with
                  | [tag, hex] => (match decodeRaw tag hex with | some t => t != "undecodable" && t != p.2 | none => false)
                  | _ => false)
                if mismatch then "const-decode-differs" else
                let symOut := syms.getLast?.bind (fun r => consts[r]?)
                match runProgram regs consts symOut ins with
                | .ok v =>
                  -- a registered function's factory may still refuse its arguments: outside the model
                  if b.startsWith "err:run:" && !(hasSub b "Unknown") && hasOp then b
                  else if b.startsWith "panic:run:" && hasOp then b
                  else if !hasOp && !syms.isEmpty then b     -- the result is the constant of the symbol iterated last (hash order)
                  else v
                | .error e =>
                  -- a factory that panics or refuses its arguments before the unregistered function is reached: outside the model
                  if (b.startsWith "panic:run:" || (b.startsWith "err:run:" && !(hasSub b "Unknown"))) && hasOp then b else errName e
              let model := "A=" ++ a ++ "|B=" ++ predicted ++ "|P=" ++ phex
              -- specification
              let clause2 := cls == "operators" || cls == "indexing" || cls == "assignment" || cls == "ranges" || cls == "matrix-literals" || cls == "literals-and-calls" || cls == "statement-sequences"
              -- the last statement is a bare operand (a name, a number, a matrix literal): no plan step produces its value
              let lastBare : Bool :=
                let last := ((src.splitOn "\n").filter (fun l => !l.trimAscii.toString.isEmpty)).getLast?.getD ""
                !(hasSub last "=") && !(hasSub last " + ") && !(hasSub last " - ") && !(hasSub last " * ") && !(hasSub last " / ") && !(hasSub last "(")
              -- the last statement is a call of a function the program itself defines: the call is evaluated by the
              -- interpreter when it is reached and compiles to no instruction either
              let lastCallsDefined : Bool :=
                let lines := (src.splitOn "\n").filter (fun l => !l.trimAscii.toString.isEmpty)
                let last := lines.getLast?.getD ""
                match last.splitOn "(" with
                | fname :: _ :: _ => !fname.isEmpty && !(hasSub last "=") && lines.any (fun l => l.startsWith (fname ++ "(") && hasSub l ") =>")
                | _ => false
              let working := simpleProgram src && cls != "matrix-literals"
              let same := b == a
              let isErr := b.startsWith "err:"
              let verdict :=
                if same then "ok"
                else if b.startsWith "panic:" then "bad:host panic"
                else if !isErr then "bad:different result, expected " ++ a
                else if clause2 then "bad:expected the program to run and give " ++ a
                else "ok"
              let region :=
                if verdict == "ok" then "-"
                else if b.startsWith "panic:run" then "C06-D3"
                else if !isErr then (if !hasOp && b == "empty" then "C06-D4" else if hasOp && lastBare then "C06-D8" else if hasOp && lastCallsDefined then "C06-D9" else "-")
                else if working && cls == "operators" && operandMD src true && operandMD src false then "C06-D5"
                else if working && hasSub src "x = " then "C06-D6"
                else if working then "-"
                else if cls == "matrix-literals" && simpleProgram src then "C06-D7"
                else "C06-D1"
              (model, verdict, region))
       | _ => bad)
    | _, _ => bad
  | _ => bad

/-- C07 `cdec`: every constant the loader decoded is the value the model's decoder reads from the bytes the
    compiler wrote for it (for the kinds the model decodes: the scalar kinds, matrices, sets and tables of them) -/
def runCdec (fields : List String) (obs : String) : String × String × String :=
  match fields with
  | [_, _] =>
    if obs == "skip" then ("skip", "ok", "-") else
    if obs.startsWith "err:" || obs.startsWith "panic:" then
      -- the constant decoder of a file the compiler itself emitted refused or panicked: C07-D6 (kinds without a reader)
      -- (only the two panics of the set / table / matrix readers that the finding names; any other panic is new)
      let slug := ((obs.splitOn "panic:decode:").getD 1 "")
      let known := slug.startsWith "not_implemented" || slug.startsWith "Cannot_create_Matrix"
      (obs, if obs.startsWith "panic:" then "bad:the constant decoder panicked on a file the compiler emitted" else "ok",
       if obs.startsWith "panic:" && known then "C07-D6" else "-")
    else
    let sect (name : String) : String := (((obs.splitOn (name ++ "=")).getD 1 "").splitOn ";").headD ""
    let constsRaw := sect "consts"
    let raws := if (sect "raw").isEmpty then [] else (sect "raw").splitOn ","
    let consts := if constsRaw.isEmpty then [] else (constsRaw.splitOn ",").map (fun h => (unhexStr h).getD "?")
    if raws.length != consts.length then (obs, "bad:" ++ toString consts.length ++ " constants decoded from " ++ toString raws.length ++ " entries", "-") else
    let pairs := raws.zip consts
    -- what the model reads from each entry (the observed text where the model has no reader for the tag)
    let modelled := pairs.map (fun p => match p.1.splitOn ":" with
      | [tag, hex] => (match decodeRaw tag hex with | some t => if t == "undecodable" then p.2 else t | none => p.2)
      | _ => p.2)
    let firstBad := (pairs.zip modelled).find? (fun q => q.1.2 != q.2)
    let hexOf (t : String) : String := String.ofList (t.toUTF8.toList.flatMap (fun b => (hexFixed b.toNat 2).toList))
    let model := "consts=" ++ ",".intercalate (modelled.map hexOf) ++ ";raw=" ++ ",".intercalate raws
    match firstBad with
    | some q => (model, "bad:a constant written as " ++ q.1.1 ++ " was decoded as " ++ q.1.2 ++ ", its bytes say " ++ q.2, "-")
    | none => (model, "ok", "-")
  | _ => ("bad-case", "bad-case", "-")
/-! ### class `plan`: the compiler's register allocation and instruction emission (Model/Compile.lean) -/
section plan
open MechVerif.Compile

def pCls : String → Option OpClass
  | "0" => some .null | "1" => some .un | "2" => some .bin | "3" => some .tern | "4" => some .quad | "v" => some .var
  | _ => none

def clsText : OpClass → String
  | .null => "0" | .un => "1" | .bin => "2" | .tern => "3" | .quad => "4" | .var => "v"

/-- `<class>:<out>:<arg>…` with the function id of the real instruction stream's operation of the same position -/
def pStep (s : String) (fxn : Nat) : Option Step :=
  match s.splitOn ":" with
  | cls :: out :: args =>
    (match pCls cls, out.toNat?, args.mapM String.toNat? with
     | some c, some o, some as => some ⟨c, fxn, o, as⟩
     | _, _, _ => none)
  | _ => none

def hexNat? (s : String) : Option Nat :=
  if s.isEmpty then none else
  s.toList.foldl (fun acc ch => acc.bind (fun n =>
    if ch.isDigit then some (n * 16 + (ch.toNat - 48))
    else if 'a' ≤ ch ∧ ch ≤ 'f' then some (n * 16 + (ch.toNat - 87)) else none)) (some 0)

def hexOfNat (n : Nat) : String := String.ofList (Nat.toDigits 16 n)

/-- the function ids of the operations of the real stream, in order -/
def fxnIds (instrs : List String) : List Nat :=
  instrs.filterMap (fun i => match i.splitOn ":" with
    | "op" :: _ :: f :: _ => hexNat? f
    | _ => none)

def instrText : Compile.Instr → String
  | .constLoad d c => s!"cl:{d}:{c}"
  | .op cls f d args => "op:" ++ clsText cls ++ ":" ++ hexOfNat f ++ ":" ++ toString d ++ String.join (args.map (fun a => ":" ++ toString a))

/-- the model compiles the plan the harness read from the step texts and must reproduce the register count, the constant
    count and the instruction stream of the real compiler; the function ids are those of the real stream, position by position -/
def runPlan (fields : List String) (obs : String) : String × String × String :=
  let bad := ("bad-case", "bad-case", "-")
  match fields with
  | [_, _, _] =>
    if obs.startsWith "skip:" then (obs, "ok", "-") else
    (match obs.splitOn "|" with
     | [sPart, _, iPart] =>
       if !(sPart.startsWith "S=") || !(iPart.startsWith "I=") then bad else
       let stepTexts := (sPart.drop 2).toString.splitOn ";"
       let instrs := if iPart.length == 2 then [] else (iPart.drop 2).toString.splitOn ","
       let ids := fxnIds instrs
       let steps := (stepTexts.zipIdx).mapM (fun (t, k) => pStep t (ids.getD k 0))
       (match steps with
        | none => bad
        | some plan =>
          let c := compilePlan Ctx.empty plan
          let model := sPart ++ "|R=" ++ toString c.nextReg ++ "," ++ toString c.consts.length ++ "|I=" ++ ",".intercalate (c.instrs.map instrText)
          (model, "ok", "-"))
     | _ => bad)
  | _ => bad

end plan

end MechVerif.Driver.S06
