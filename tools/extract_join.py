#!/usr/bin/env python3
"""Regenerates lean/MechVerif/Gen/JoinKernel.lean from src/interpreter/src/stdlib/table_ops.rs: the table-join kernel
`TableJoinFxn::build_joined_table` and the free functions it calls (`rows_match`, `merge_rows`, `lhs_only_row`,
`make_optional_kind`; found through the calls, not by position) are parsed (a small recursive-descent parser for the
subset of Rust they use) and written, statement by statement, as Lean *definitions* over the primitives of
`Model/JoinIR.lean`; `enum JoinMode` becomes an inductive type and the six `compile_table_join(arguments, JoinMode::X)`
wrappers a table (with the `register_descriptor!` names of the wrappers and, from expressions.rs, the wrapper each
`TableOp` compiles).

    let [mut] p [: T] = e;                    let p [: T] := e;
    x.push(e); / x.insert(k, v); / x[i] = e; / x = e;
                                              let x := x ++ [e]; / let x := HashMap.insert x k v (IndexMap.insert by the
                                              declared type of x); / let x := List.set x i e; / let x := e;
    for p in e { body }                       let S := List.foldl (fun S p => body; S) S e;     S = the outer `let mut`
                                              variables the body assigns, in the order of their declaration
    if c { continue; }  (in a loop body)      if c then S else (rest of the body; S)
    if c { a } else { b }  (statement)        let S := if c then (a; S) else (b; S);
    if let Some(p) = e { a } else { b }       let S := match e with | some p => (a; S) | none => (b; S);
    match e { P => { a } … }  (statement)     let S := match e with | P => (a; S) …;
    matches!(e, P | Q)                        (match e with | P | Q => true | _ => false)
    a..=b                                     rangeIncl a b
    |p| e                                     fun p => e
    x.iter()                                  iter x           (the list of the elements / of the (key, value) pairs)
    x.clone() x.cloned() *x &x Box::new(x) Ref::new(x) Matrix::DVector(x) DVector::from_vec(x) Ok(x)
                                              x
    x.map(f)                                  f <$> x          (lists and options alike)
    x.collect()                               HashMap.collect x / HashSet.collect x / x   by the declared target type
    x.get(k) x.contains(k) x.unwrap_or(d) x.unwrap_or_else(|| d) x.is_empty() x.len() x.all(f) x.any(f) x.find(f)
    x.index1d(i) x.to_string()                AList.get x k, HashSet.contains x k, Option.getD x d, List.isEmpty x,
                                              List.length x, List.all x f, List.any x f, List.find? f x, index1d x i,
                                              u64_to_string x
    vec![] / vec![e; n] / Vec::with_capacity(n) / HashMap::new() / IndexMap::new()
                                              [] / List.replicate n e / [] / HashMap.new / IndexMap.new
    v[i]  (read)                              vecGet v i
    T { f: e, g }                             { f := e, g := g }
    a == b, a && b, a || b, !a, a - b, a + b  the same in Lean (Bool, Nat; `==` through the BEq instance of the type)

Nothing is reordered or simplified.  Locals keep their names (primed when they collide with a Lean keyword or a
primitive), so a renamed local gives an alpha-equivalent definition.  Anything outside the subset (another statement
form, an unknown method, `?`, `return`, `while`, a `continue` elsewhere than `if c { continue; }` directly in a loop
body, a `collect()` whose target type is not declared, ...) makes `generate` return (False, reason).
That the generated definitions compute the model's join is proved in `Lemmas/JoinKernel.lean` about the generated
definitions (a changed body makes those proofs fail)."""
import os, re, sys

SRC = "src/interpreter/src/stdlib/table_ops.rs"

class Unrecognised(Exception):
    pass

LEAN_RESERVED = {"at", "from", "fun", "end", "do", "then", "else", "if", "let", "have", "show", "in", "match", "with", "by", "open",
                 "def", "theorem", "instance", "structure", "class", "where", "deriving", "import", "namespace", "section", "variable",
                 "universe", "export", "private", "protected", "return", "for", "unless", "try", "catch", "finally", "mut", "nomatch",
                 "nofun", "this", "Type", "Prop", "Sort", "forall", "exists", "calc", "macro", "syntax", "notation", "infix", "prefix",
                 "postfix", "attribute", "set_option", "example", "abbrev", "inductive", "mutual", "axiom", "opaque", "extends", "using",
                 "termination_by", "decreasing_by", "suffices", "obtain", "rcases", "omit", "include", "local", "scoped", "elab", "rfl",
                 "true", "false", "some", "none", "default", "toString",
                 # names the generated definitions use themselves
                 "HashMap", "HashSet", "IndexMap", "AList", "List", "Option", "Nat", "Bool", "String", "Value", "ValueKind", "MechTable",
                 "Matrix", "JoinMode", "index1d", "vecGet", "iter", "rangeIncl", "u64_to_string", "compilers", "operands", "descriptors", "symbolForms"}

TOK = re.compile(r'"(?:[^"\\]|\\.)*"|[A-Za-z_]\w*|\d+|\.\.=|\.\.|::|=>|->|==|!=|<=|>=|&&|\|\||\+=|-=|\*=|[-+*/%^<>=(){}\[\];,.&!|:#?\'@$]')

def strip_comments(text):
    text = re.sub(r'//[^\n]*', '', text)
    return re.sub(r'/\*.*?\*/', '', text, flags=re.S)

def tokenize(text):
    toks, pos = [], 0
    for m in TOK.finditer(text):
        if text[pos:m.start()].strip(): raise Unrecognised("cannot tokenise %r" % text[pos:m.start()].strip()[:20])
        toks.append(m.group(0)); pos = m.end()
    if text[pos:].strip(): raise Unrecognised("cannot tokenise %r" % text[pos:].strip()[:20])
    return toks

# ---------------------------------------------------------------------------------------------------------------------
# parser: tokens -> tuples

class P:
    def __init__(self, toks): self.t, self.i = toks, 0
    def peek(self, k=0): return self.t[self.i + k] if self.i + k < len(self.t) else None
    def take(self, x=None):
        t = self.peek()
        if t is None or (x is not None and t != x):
            raise Unrecognised("expected %r, found %r (token %d)" % (x, t, self.i))
        self.i += 1; return t
    def at(self, x): return self.peek() == x
    def opt(self, x):
        if self.at(x): self.i += 1; return True
        return False

    # ---- types: ('ty', head, [args]) | ('tytuple', [..]) | ('tyslice', t)
    def ty(self):
        while self.peek() in ('&', '&&', 'mut', "'"):
            if self.take() == "'": self.take()
        if self.opt('('):
            items = []
            while not self.at(')'):
                items.append(self.ty())
                if not self.opt(','): break
            self.take(')'); return ('tytuple', items)
        if self.opt('['):
            t = self.ty(); self.take(']'); return ('tyslice', t)
        if self.at('dyn'): self.take()
        head = self.take()
        if not re.match(r'[A-Za-z_]', head): raise Unrecognised("type expected, found %r" % head)
        while self.opt('::'): head = self.take()
        args = []
        if self.opt('<'):
            while not self.at('>'):
                args.append(self.ty())
                if not self.opt(','): break
            self.take('>')
        return ('ty', head, args)

    # ---- patterns
    def pat(self):
        alts = [self.pat1()]
        while self.at('|') :
            self.take(); alts.append(self.pat1())
        return alts[0] if len(alts) == 1 else ('por', alts)
    def pat1(self):
        while self.peek() in ('&', '&&', 'ref', 'mut'): self.take()
        t = self.peek()
        if t == '_': self.take(); return ('pwild',)
        if t == '(':
            self.take(); items = []
            while not self.at(')'):
                items.append(self.pat())
                if not self.opt(','): break
            self.take(')')
            return items[0] if len(items) == 1 else ('ptuple', items)
        if t is not None and re.match(r'[A-Za-z_]', t):
            segs = [self.take()]
            while self.opt('::'): segs.append(self.take())
            if self.at('('):
                self.take(); subs = []
                while not self.at(')'):
                    subs.append(self.pat())
                    if not self.opt(','): break
                self.take(')')
                return ('ppath', segs, subs)
            if len(segs) > 1 or segs[0][0].isupper(): return ('ppath', segs, None)
            return ('pid', segs[0])
        raise Unrecognised("pattern expected, found %r" % t)

    # ---- expressions
    BIN = [['||'], ['&&'], ['==', '!=', '<', '<=', '>', '>='], ['+', '-'], ['*', '/', '%']]
    def expr(self, nostruct=False):
        lo = self.binop(0, nostruct)
        if self.peek() in ('..', '..='):
            op = self.take(); hi = self.binop(0, nostruct)
            return ('range', lo, hi, op == '..=')
        return lo
    def binop(self, lvl, ns):
        if lvl == len(self.BIN): return self.unary(ns)
        l = self.binop(lvl + 1, ns)
        while self.peek() in self.BIN[lvl]:
            op = self.take(); r = self.binop(lvl + 1, ns)
            l = ('bin', op, l, r)
        return l
    def unary(self, ns):
        t = self.peek()
        if t in ('&', '&&', '*'):
            self.take()
            if self.at('mut'): self.take()
            return self.unary(ns)                       # references and dereferences: the value itself
        if t == '!': self.take(); return ('not', self.unary(ns))
        if t == '-': raise Unrecognised("unary minus")
        return self.postfix(self.primary(ns), ns)
    def args(self, close=')'):
        items = []
        while not self.at(close):
            items.append(self.expr())
            if not self.opt(','): break
        self.take(close); return items
    def postfix(self, e, ns):
        while True:
            t = self.peek()
            if t == '.':
                self.take(); name = self.take()
                if self.at('::'): raise Unrecognised("turbofish")
                if self.at('('):
                    self.take(); e = ('mcall', e, name, self.args())
                else: e = ('field', e, name)
            elif t == '(':
                self.take(); e = ('call', e, self.args())
            elif t == '[':
                self.take(); ix = self.expr(); self.take(']'); e = ('index', e, ix)
            elif t == '?': raise Unrecognised("the `?` operator")
            else: return e
    def closure(self):
        pats = []
        if self.opt('||'): pass
        else:
            self.take('|')
            while not self.at('|'):
                pats.append(self.pat1())
                if self.opt(':'): self.ty()
                if not self.opt(','): break
            self.take('|')
        if self.opt('->'): self.ty()
        return ('closure', pats, self.expr())
    def primary(self, ns):
        t = self.peek()
        if t is None: raise Unrecognised("unexpected end")
        if t in ('|', '||'): return self.closure()
        if t == '(':
            self.take(); items = []; trailing = False
            while not self.at(')'):
                items.append(self.expr()); trailing = False
                if not self.opt(','): break
                trailing = True
            self.take(')')
            if len(items) == 1 and not trailing: return items[0]
            return ('tuple', items)
        if t == '{': return self.block()
        if t == 'if': return self.if_()
        if t == 'match':
            self.take(); scrut = self.expr(nostruct=True); self.take('{'); arms = []
            while not self.at('}'):
                p = self.pat()
                if self.at('if'): raise Unrecognised("match guard")
                self.take('=>')
                body = self.expr()
                if not self.opt(',') and not self.at('}') and body[0] != 'block': raise Unrecognised("match arm")
                arms.append((p, body))
            self.take('}'); return ('match', scrut, arms)
        if t == 'unsafe': self.take(); return self.block()
        if t in ('return', 'while', 'loop', 'break', 'move', 'async', 'await'): raise Unrecognised("`%s`" % t)
        if re.match(r'\d', t): self.take(); return ('num', t)
        if t[0] == '"': raise Unrecognised("string literal")
        if re.match(r'[A-Za-z_]', t):
            segs = [self.take()]
            while self.at('::'):
                self.take()
                if self.at('<'): raise Unrecognised("turbofish")
                segs.append(self.take())
            if self.at('!'):
                self.take(); name = segs[-1]
                if name == 'matches':
                    self.take('('); e = self.expr(); self.take(','); p = self.pat(); self.opt(','); self.take(')')
                    return ('matches', e, p)
                if name == 'vec':
                    self.take('[')
                    if self.opt(']'): return ('vec', [])
                    e = self.expr()
                    if self.opt(';'):
                        n = self.expr(); self.take(']'); return ('vecrep', e, n)
                    items = [e]
                    while self.opt(','):
                        if self.at(']'): break
                        items.append(self.expr())
                    self.take(']'); return ('vec', items)
                raise Unrecognised("macro %s!" % name)
            if self.at('{') and not ns and segs[-1][0].isupper():
                self.take(); fields = []
                while not self.at('}'):
                    f = self.take()
                    if self.opt(':'): fields.append((f, self.expr()))
                    else: fields.append((f, ('path', [f])))
                    if not self.opt(','): break
                self.take('}'); return ('struct', segs, fields)
            return ('path', segs)
        raise Unrecognised("expression expected, found %r" % t)
    def if_(self):
        self.take('if')
        if self.opt('let'):
            p = self.pat(); self.take('='); e = self.expr(nostruct=True); th = self.block(); el = None
            if self.opt('else'): el = self.if_() if self.at('if') else self.block()
            return ('iflet', p, e, th, el)
        c = self.expr(nostruct=True); th = self.block(); el = None
        if self.opt('else'): el = self.if_() if self.at('if') else self.block()
        return ('if', c, th, el)
    def block(self):
        self.take('{'); stmts = []; tail = None
        while not self.at('}'):
            t = self.peek()
            if t == ';': self.take(); continue
            if t == 'let':
                self.take()
                mut = self.opt('mut')
                p = self.pat1(); ty = None
                if self.opt(':'): ty = self.ty()
                self.take('='); e = self.expr()
                if self.at('else'): raise Unrecognised("let-else")
                self.take(';'); stmts.append(('let', p, ty, e, mut)); continue
            if t == 'for':
                self.take(); p = self.pat1(); self.take('in'); it = self.expr(nostruct=True); b = self.block()
                stmts.append(('for', p, it, b)); continue
            if t == 'continue':
                self.take(); self.take(';'); stmts.append(('continue',)); continue
            e = self.expr()
            if self.peek() in ('=', '+=', '-=', '*='):
                op = self.take(); r = self.expr(); self.take(';'); stmts.append(('assign', e, op, r)); continue
            if self.opt(';'): stmts.append(('expr', e)); continue
            if self.at('}'): tail = e; break
            if e[0] in ('if', 'iflet', 'match', 'block'): stmts.append(('expr', e)); continue
            raise Unrecognised("statement: unexpected %r" % self.peek())
        self.take('}')
        return ('block', stmts, tail)

def find_fn(toks, name, body=True):
    """(params [(pattern, type)], return type, body) of `fn name`"""
    for i in range(len(toks) - 1):
        if toks[i] == 'fn' and toks[i + 1] == name:
            p = P(toks); p.i = i + 2
            if p.at('<'): raise Unrecognised("generic function " + name)
            p.take('('); params = []
            while not p.at(')'):
                if p.peek() in ('&', 'self', 'mut') and 'self' in (p.peek(), p.peek(1), p.peek(2)):
                    raise Unrecognised("method with self: " + name)
                pt = p.pat1(); p.take(':'); params.append((pt, p.ty()))
                if not p.opt(','): break
            p.take(')')
            ret = None
            if p.opt('->'): ret = p.ty()
            if p.at('where'): raise Unrecognised("where clause")
            return params, ret, (p.block() if body else None)
    raise Unrecognised("fn %s not found" % name)

# ---------------------------------------------------------------------------------------------------------------------
# translation

IDENT_WRAPPERS = {('Box', 'new'), ('Ref', 'new'), ('Matrix', 'DVector'), ('DVector', 'from_vec'), ('Ok',), ('Rc', 'new')}
ID_METHODS = {'clone', 'cloned', 'copied', 'borrow', 'as_ref'}
PRIM_TYPES = {'u64': 'Nat', 'usize': 'Nat', 'bool': 'Bool', 'String': 'String', 'Value': 'Value', 'ValueKind': 'ValueKind',
              'MechTable': 'MechTable', 'JoinMode': 'JoinMode'}

def lean_name(n):
    return n + "'" if n in LEAN_RESERVED else n

def lean_type(t):
    if t is None: raise Unrecognised("missing type")
    if t[0] == 'tytuple': return "(" + " × ".join(lean_type(x) for x in t[1]) + ")"
    if t[0] == 'tyslice': return "(List %s)" % lean_type(t[1])
    _, head, args = t
    if head in PRIM_TYPES and not args: return PRIM_TYPES[head]
    if head == 'Vec' and len(args) == 1: return "(List %s)" % lean_type(args[0])
    if head in ('HashMap', 'IndexMap') and len(args) == 2: return "(%s %s %s)" % (head, lean_type(args[0]), lean_type(args[1]))
    if head == 'HashSet' and len(args) == 1: return "(HashSet %s)" % lean_type(args[0])
    if head == 'Matrix' and len(args) == 1: return "(Matrix %s)" % lean_type(args[0])
    if head == 'MResult' and len(args) == 1: return lean_type(args[0])
    if head == 'Option' and len(args) == 1: return "(Option %s)" % lean_type(args[0])
    raise Unrecognised("type %s" % head)

def ty_head(t):
    if t is None: return None
    if t[0] == 'ty': return t[1] if t[1] != 'MResult' else ty_head(t[2][0])
    return 'Vec' if t[0] == 'tyslice' else 'tuple'

def pat_vars(p):
    if p[0] == 'pid': return [p[1]]
    if p[0] == 'pwild': return []
    if p[0] == 'ptuple': return [v for x in p[1] for v in pat_vars(x)]
    if p[0] == 'ppath': return [v for x in (p[2] or []) for v in pat_vars(x)]
    if p[0] == 'por': return pat_vars(p[1][0])
    raise Unrecognised("pattern")

class Tr:
    def __init__(self, enums, fns):
        self.enums, self.fns = enums, fns          # enum name -> variants ; names of the free functions of the file
        self.called = []

    def pat(self, p):
        if p[0] == 'pid': return lean_name(p[1])
        if p[0] == 'pwild': return "_"
        if p[0] == 'ptuple': return "(" + ", ".join(self.pat(x) for x in p[1]) + ")"
        if p[0] == 'por': return " | ".join(self.pat(x) for x in p[1])
        if p[0] == 'ppath':
            segs, subs = p[1], p[2]
            if segs == ['Some'] and subs and len(subs) == 1: return "some " + self.pat_atom(subs[0])
            if segs == ['None'] and subs is None: return "none"
            if len(segs) == 2 and segs[0] in self.enums and segs[1] in self.enums[segs[0]]:
                return "." + segs[1] + "".join(" " + self.pat_atom(s) for s in (subs or []))
            if segs == ['ValueKind', 'Option'] and subs and len(subs) == 1: return ".Option " + self.pat_atom(subs[0])
        raise Unrecognised("pattern %r" % (p,))
    def pat_atom(self, p):
        s = self.pat(p)
        return s if p[0] in ('pid', 'pwild', 'ptuple') or ' ' not in s else "(" + s + ")"

    def mutated(self, stmts):
        """names assigned by the statements (recursively), minus the ones declared at this level"""
        out, declared = [], set()
        def add(n):
            if n not in declared and n not in out: out.append(n)
        def root(e):
            while e[0] in ('index', 'field'): e = e[1]
            if e[0] == 'path' and len(e[1]) == 1: return e[1][0]
            raise Unrecognised("assignment target")
        def walk_expr(e):
            if e is None: return
            if e[0] == 'block':
                for n in self.mutated(e[1]): add(n)
                if e[2] is not None: walk_expr(e[2])
            elif e[0] == 'if':
                walk_expr(e[2]);
                if e[3] is not None: walk_expr(e[3])
            elif e[0] == 'iflet':
                inner = self.mutated_of_expr(e[3]); bound = set(pat_vars(e[1]))
                for n in inner:
                    if n not in bound: add(n)
                if e[4] is not None: walk_expr(e[4])
            elif e[0] == 'match':
                for p, b in e[2]:
                    bound = set(pat_vars(p))
                    for n in self.mutated_of_expr(b):
                        if n not in bound: add(n)
            elif e[0] == 'mcall' and e[2] in ('push', 'insert', 'extend', 'remove', 'clear', 'pop', 'sort', 'retain', 'truncate'):
                add(root(e[1]))
        for s in stmts:
            if s[0] == 'let':
                walk_expr(s[3]) if s[3][0] in ('block', 'if', 'iflet', 'match') else None
                for v in pat_vars(s[1]): declared.add(v)
            elif s[0] == 'assign': add(root(s[1]))
            elif s[0] == 'for':
                bound = set(pat_vars(s[1]))
                for n in self.mutated(s[3][1]):
                    if n not in bound: add(n)
            elif s[0] == 'expr': walk_expr(s[1])
        return out
    def mutated_of_expr(self, e):
        if e[0] == 'block': return self.mutated(e[1])
        return self.mutated([('expr', e)])

    # -- expressions.  env: name -> (mutable?, type head)
    def expr(self, e, env, want=None):
        k = e[0]
        if k == 'num': return e[1]
        if k == 'path':
            segs = e[1]
            if len(segs) == 1:
                if segs[0] in ('true', 'false'): return segs[0]
                if segs[0] == 'None': return "none"
                if segs[0] not in env: raise Unrecognised("unbound name %s" % segs[0])
                return lean_name(segs[0])
            if len(segs) == 2 and segs[0] in self.enums and segs[1] in self.enums[segs[0]]: return "%s.%s" % tuple(segs)
            if segs == ['Value', 'Empty']: return "Value.Empty"
            raise Unrecognised("path %s" % "::".join(segs))
        if k == 'tuple': return "(" + ", ".join(self.expr(x, env) for x in e[1]) + ")"
        if k == 'not': return "(!" + self.expr(e[1], env) + ")"
        if k == 'bin':
            op = e[1]
            if op not in ('==', '!=', '&&', '||', '+', '-', '*', '<', '<=', '>', '>='): raise Unrecognised("operator " + op)
            l, r = self.expr(e[2], env), self.expr(e[3], env)
            if op in ('<', '<=', '>', '>='): return "(decide (%s %s %s))" % (l, op, r)
            return "(%s %s %s)" % (l, op, r)
        if k == 'range':
            if not e[3]: raise Unrecognised("half-open range")
            return "(rangeIncl %s %s)" % (self.expr(e[1], env), self.expr(e[2], env))
        if k == 'field':
            if e[2] in ('rows', 'cols', 'data', 'col_names'): return "%s.%s" % (self.atom(e[1], env), e[2])
            raise Unrecognised("field ." + e[2])
        if k == 'index': return "(vecGet %s %s)" % (self.atom(e[1], env), self.atom(e[2], env))
        if k == 'vec':
            return "[" + ", ".join(self.expr(x, env) for x in e[1]) + "]"
        if k == 'vecrep': return "(List.replicate %s %s)" % (self.atom(e[2], env), self.atom(e[1], env))
        if k == 'matches':
            return "(match %s with | %s => true | _ => false)" % (self.expr(e[1], env), self.pat(e[2]))
        if k == 'closure':
            env2 = dict(env)
            for p in e[1]:
                for v in pat_vars(p): env2[v] = (False, None)
            if not e[1]: raise Unrecognised("closure without parameters here")
            return "(fun %s => %s)" % (" ".join(self.pat_atom(p) for p in e[1]), self.expr(e[2], env2))
        if k == 'block':
            return "(" + self.stmts(e[1], env, lambda env2: self.expr(e[2], env2, want) if e[2] is not None else self.unit(), False) + ")"
        if k == 'if':
            if e[3] is None: raise Unrecognised("`if` without `else` as a value")
            return "(if %s then %s else %s)" % (self.expr(e[1], env), self.expr(e[2], env, want), self.expr(e[3], env, want))
        if k == 'match':
            arms = []
            for p, b in e[2]:
                env2 = dict(env)
                for v in pat_vars(p): env2[v] = (False, None)
                arms.append("| %s => %s" % (self.pat(p), self.expr(b, env2, want)))
            return "(match %s with %s)" % (self.expr(e[1], env), " ".join(arms))
        if k == 'struct':
            if e[1] != ['MechTable']: raise Unrecognised("struct " + "::".join(e[1]))
            return "({ " + ", ".join("%s := %s" % (f, self.expr(x, env)) for f, x in e[2]) + " } : MechTable)"
        if k == 'call':
            f, args = e[1], e[2]
            if f[0] != 'path': raise Unrecognised("call of a computed function")
            segs = tuple(f[1])
            if segs in IDENT_WRAPPERS and len(args) == 1: return self.expr(args[0], env, want)
            if segs == ('Some',) and len(args) == 1: return "(some %s)" % self.atom(args[0], env)
            if segs == ('ValueKind', 'Option') and len(args) == 1: return "(ValueKind.Option %s)" % self.atom(args[0], env)
            if segs in (('HashMap', 'new'), ('IndexMap', 'new'), ('HashSet', 'new')) and not args: return "%s.new" % segs[0]
            if segs in (('Vec', 'new'),) and not args: return "[]"
            if segs == ('Vec', 'with_capacity') and len(args) == 1: return "[]"
            if len(segs) == 1 and segs[0] in self.fns and segs[0] not in env:
                if segs[0] not in self.called: self.called.append(segs[0])
                return "(%s %s)" % (lean_name(segs[0]), " ".join(self.atom(a, env) for a in args))
            raise Unrecognised("call of %s" % "::".join(segs))
        if k == 'mcall':
            recv, name, args = e[1], e[2], e[3]
            if name in ID_METHODS and not args: return self.expr(recv, env)
            r = lambda: self.atom(recv, env)
            if name in ('iter', 'into_iter') and not args: return "(iter %s)" % r()
            if name == 'map' and len(args) == 1: return "(%s <$> %s)" % (self.atom(args[0], env), r())
            if name == 'collect' and not args:
                if want == 'HashMap': return "(HashMap.collect %s)" % r()
                if want == 'HashSet': return "(HashSet.collect %s)" % r()
                if want == 'Vec': return self.expr(recv, env)
                raise Unrecognised("collect() into an undeclared type")
            if name == 'get' and len(args) == 1: return "(AList.get %s %s)" % (r(), self.atom(args[0], env))
            if name == 'contains' and len(args) == 1: return "(HashSet.contains %s %s)" % (r(), self.atom(args[0], env))
            if name == 'unwrap_or' and len(args) == 1: return "(Option.getD %s %s)" % (r(), self.atom(args[0], env))
            if name == 'unwrap_or_else' and len(args) == 1 and args[0][0] == 'closure' and not args[0][1]:
                return "(Option.getD %s %s)" % (r(), self.atom(args[0][2], env))
            if name == 'is_empty' and not args: return "(List.isEmpty %s)" % r()
            if name == 'len' and not args: return "(List.length %s)" % r()
            if name in ('all', 'any') and len(args) == 1: return "(List.%s %s %s)" % (name, r(), self.atom(args[0], env))
            if name == 'find' and len(args) == 1: return "(List.find? %s %s)" % (self.atom(args[0], env), r())
            if name == 'index1d' and len(args) == 1: return "(index1d %s %s)" % (r(), self.atom(args[0], env))
            if name == 'to_string' and not args: return "(u64_to_string %s)" % r()
            raise Unrecognised("method .%s/%d" % (name, len(args)))
        if k == 'iflet':
            raise Unrecognised("`if let` as a value")
        raise Unrecognised("expression %s" % k)
    def atom(self, e, env):
        s = self.expr(e, env)
        return s if re.match(r"^[\w.']+$", s) or (s[0] in '([' and self.closed(s)) else "(" + s + ")"
    @staticmethod
    def closed(s):
        d = 0
        for i, c in enumerate(s):
            d += (c in '([') - (c in ')]')
            if d == 0 and i < len(s) - 1: return False
        return True
    def unit(self): raise Unrecognised("a block without a value")

    # -- statements.  `k(env)` gives the text of what follows (the block's value / the state of the enclosing loop)
    def state(self, names):
        if not names: raise Unrecognised("a statement without effect on any variable")
        names = [lean_name(n) for n in names]
        return names[0] if len(names) == 1 else "(" + ", ".join(names) + ")"
    def outer_mutated(self, stmts, env):
        ms = [n for n in self.mutated(stmts)]
        for n in ms:
            if n not in env: raise Unrecognised("assignment to the unbound name %s" % n)
            if not env[n][0]: raise Unrecognised("assignment to %s, which is not `let mut`" % n)
        return sorted(ms, key=lambda n: env[n][2])
    def stmts(self, ss, env, k, loop_body):
        env = dict(env)
        if not ss: return k(env)
        s, rest = ss[0], ss[1:]
        cont = lambda env2: self.stmts(rest, env2, k, loop_body)
        if s[0] == 'let':
            _, p, ty, e, mut = s
            val = self.expr(e, env, ty_head(ty))
            for v in pat_vars(p): env[v] = (mut, ty_head(ty), len(env))
            asc = " : " + lean_type(ty) if ty is not None else ""
            return "let %s%s := %s;\n%s" % (self.pat(p), asc, val, cont(env))
        if s[0] == 'assign':
            _, lhs, op, rhs = s
            if lhs[0] == 'path' and len(lhs[1]) == 1:
                n = lhs[1][0]
                if n not in env or not env[n][0]: raise Unrecognised("assignment to %s" % n)
                if op == '=': return "let %s := %s;\n%s" % (lean_name(n), self.expr(rhs, env, env[n][1]), cont(env))
                if op in ('+=', '-=', '*='):
                    return "let %s := %s %s %s;\n%s" % (lean_name(n), lean_name(n), op[0], self.atom(rhs, env), cont(env))
            if lhs[0] == 'index' and lhs[1][0] == 'path' and len(lhs[1][1]) == 1 and op == '=':
                n = lhs[1][1][0]
                if n not in env or not env[n][0]: raise Unrecognised("assignment to %s" % n)
                return "let %s := List.set %s %s %s;\n%s" % (lean_name(n), lean_name(n), self.atom(lhs[2], env), self.atom(rhs, env), cont(env))
            raise Unrecognised("assignment form")
        if s[0] == 'continue': raise Unrecognised("`continue` outside `if c { continue; }` at the top of a loop body")
        if s[0] == 'for':
            _, p, it, body = s
            body = as_stmts(body)
            if body[2] is not None: raise Unrecognised("loop body with a value")
            st = self.outer_mutated(body[1], env)
            env2 = dict(env)
            for v in pat_vars(p): env2[v] = (False, None, len(env2))
            S = self.state(st)
            inner = self.stmts(body[1], env2, lambda _e: S, True)
            return "let %s := List.foldl (fun %s %s =>\n%s) %s %s;\n%s" % (S, S, self.pat_atom(p), indent(inner), S, self.atom(it, env), cont(env))
        if s[0] == 'expr':
            e = s[1]
            if e[0] == 'mcall' and e[2] in ('push', 'insert'):
                recv = e[1]
                if recv[0] != 'path' or len(recv[1]) != 1: raise Unrecognised("mutation of a place that is not a variable")
                n = recv[1][0]
                if n not in env or not env[n][0]: raise Unrecognised("mutation of %s, which is not `let mut`" % n)
                if e[2] == 'push' and len(e[3]) == 1:
                    return "let %s := %s ++ [%s];\n%s" % (lean_name(n), lean_name(n), self.expr(e[3][0], env), cont(env))
                if e[2] == 'insert' and len(e[3]) == 2:
                    kind = env[n][1]
                    if kind is None: kind = self.infer_new(n, env)
                    if kind not in ('HashMap', 'IndexMap'): raise Unrecognised("insert into %s of undeclared type" % n)
                    return "let %s := %s.insert %s %s %s;\n%s" % (lean_name(n), kind, lean_name(n), self.atom(e[3][0], env), self.atom(e[3][1], env), cont(env))
                raise Unrecognised("mutation .%s" % e[2])
            if e[0] == 'if':
                c, th, el = e[1], as_stmts(e[2]), as_stmts(e[3])
                if loop_body and el is None and th[1] == [('continue',)] and th[2] is None:
                    return "if %s then %s else (\n%s)" % (self.expr(c, env), k(env), indent(cont(env)))
                if th[2] is not None or (el is not None and el[0] == 'block' and el[2] is not None): raise Unrecognised("if statement with a value")
                branches = list(th[1]) + (list(el[1]) if el is not None and el[0] == 'block' else [('expr', el)] if el is not None else [])
                st = self.outer_mutated(branches, env); S = self.state(st)
                tb = self.stmts(th[1], env, lambda _e: S, False)
                if el is None: eb = S
                elif el[0] == 'block': eb = self.stmts(el[1], env, lambda _e: S, False)
                else: eb = self.stmts([('expr', el)], env, lambda _e: S, False)
                return "let %s := (if %s then (\n%s) else (\n%s));\n%s" % (S, self.expr(c, env), indent(tb), indent(eb), cont(env))
            if e[0] == 'iflet':
                p, x, th, el = e[1], e[2], as_stmts(e[3]), as_stmts(e[4])
                if not (p[0] == 'ppath' and p[1] == ['Some'] and p[2] and len(p[2]) == 1): raise Unrecognised("if let with a pattern other than Some(..)")
                if th[2] is not None or (el is not None and (el[0] != 'block' or el[2] is not None)): raise Unrecognised("if let with a value")
                st = self.outer_mutated(list(th[1]) + (list(el[1]) if el else []), env); S = self.state(st)
                env2 = dict(env)
                for v in pat_vars(p): env2[v] = (False, None, len(env2))
                tb = self.stmts(th[1], env2, lambda _e: S, False)
                eb = self.stmts(el[1], env, lambda _e: S, False) if el else S
                return "let %s := (match %s with\n  | %s => (\n%s)\n  | none => (\n%s));\n%s" % (S, self.expr(x, env), self.pat(p), indent(tb, 4), indent(eb, 4), cont(env))
            if e[0] == 'match':
                allst = []
                e = (e[0], e[1], [(p, as_stmts(b)) for p, b in e[2]])
                for p, b in e[2]:
                    if b[0] != 'block' or b[2] is not None: raise Unrecognised("match statement whose arm is not a block")
                    allst += list(b[1])
                st = self.outer_mutated(allst, env); S = self.state(st)
                arms = []
                for p, b in e[2]:
                    env2 = dict(env)
                    for v in pat_vars(p): env2[v] = (False, None, len(env2))
                    arms.append("  | %s => (\n%s)" % (self.pat(p), indent(self.stmts(b[1], env2, lambda _e: S, False), 4)))
                return "let %s := (match %s with\n%s);\n%s" % (S, self.expr(e[1], env), "\n".join(arms), cont(env))
            if e[0] == 'block' and as_stmts(e)[2] is None:
                e = as_stmts(e)
                st = self.outer_mutated(e[1], env); S = self.state(st)
                return "let %s := (\n%s);\n%s" % (S, indent(self.stmts(e[1], env, lambda _e: S, False)), cont(env))
            raise Unrecognised("expression statement %s" % e[0])
        raise Unrecognised("statement %s" % s[0])
    def infer_new(self, n, env):
        return self.newkinds.get(n)

def as_stmts(b):
    """a block in statement position: a last `if` / `match` / block without `;` is a statement, not a value"""
    if b is not None and b[0] == 'block' and b[2] is not None and b[2][0] in ('if', 'iflet', 'match', 'block'):
        return ('block', list(b[1]) + [('expr', b[2])], None)
    return b

def indent(text, n=2):
    return "\n".join(" " * n + l for l in text.split("\n"))

def note_new_kinds(tr, block):
    """`let mut x = HashMap::new()` without a type annotation: the constructor names the kind of map"""
    tr.newkinds = {}
    def walk(e):
        if isinstance(e, tuple):
            if e and e[0] == 'let' and e[2] is None and e[3][0] == 'call' and e[3][1][0] == 'path' and len(e[3][1][1]) == 2 \
                    and e[3][1][1][1] == 'new' and e[3][1][1][0] in ('HashMap', 'IndexMap') and e[1][0] == 'pid':
                if tr.newkinds.get(e[1][1], e[3][1][1][0]) != e[3][1][1][0]: raise Unrecognised("two maps named " + e[1][1])
                tr.newkinds[e[1][1]] = e[3][1][1][0]
            for x in e: walk(x)
        elif isinstance(e, list):
            for x in e: walk(x)
    walk(block)

def translate_fn(tr, toks, name):
    params, ret, body = find_fn(toks, name)
    note_new_kinds(tr, body)
    env, sig = {}, []
    for p, t in params:
        if p[0] != 'pid': raise Unrecognised("parameter pattern of " + name)
        env[p[1]] = (False, ty_head(t), len(env))
        sig.append("(%s : %s)" % (lean_name(p[1]), lean_type(t)))
    want = ty_head(ret)
    if body[2] is None: raise Unrecognised(name + " has no value")
    text = tr.stmts(body[1], env, lambda env2: tr.expr(body[2], env2, want), False)
    return "def %s %s : %s :=\n%s" % (lean_name(name), " ".join(sig), lean_type(ret), indent(text))

def read_enum(text, name):
    m = re.search(r'\benum\s+%s\s*\{([^}]*)\}' % name, text)
    if not m: raise Unrecognised("enum %s not found" % name)
    vs = [v.strip() for v in m.group(1).split(',') if v.strip()]
    for v in vs:
        if not re.match(r'^[A-Z]\w*$', v): raise Unrecognised("enum variant %r" % v)
    return vs

def read_compilers(text, modes):
    """the NativeFunctionCompiler wrappers: struct name -> the mode handed to compile_table_join"""
    out = []
    for m in re.finditer(r'impl\s+NativeFunctionCompiler\s+for\s+(\w+)\s*\{', text):
        end = m.end(); d = 1
        while d and end < len(text):
            d += (text[end] == '{') - (text[end] == '}'); end += 1
        body = text[m.end():end]
        calls = re.findall(r'compile_table_join\s*\(\s*(\w+)\s*,\s*JoinMode\s*::\s*(\w+)\s*,?\s*\)', body)
        if not calls: continue
        if len(calls) != 1 or calls[0][1] not in modes: raise Unrecognised("compile of " + m.group(1))
        sig = re.search(r'fn\s+compile\s*\(\s*&\s*self\s*,\s*(\w+)\s*:', body)
        if not sig or sig.group(1) != calls[0][0]: raise Unrecognised("compile of %s does not hand its arguments on" % m.group(1))
        out.append((m.group(1), calls[0][1]))
    if not out: raise Unrecognised("no compile_table_join wrappers found")
    return out

EXPR_RS = "src/interpreter/src/expressions.rs"

def read_descriptors(text, structs):
    """register_descriptor! { FunctionCompilerDescriptor { name: "table/…", ptr: &Struct{} } } for the join wrappers"""
    out = []
    for m in re.finditer(r'register_descriptor!\s*\{\s*FunctionCompilerDescriptor\s*\{\s*name\s*:\s*"([^"]*)"\s*,\s*ptr\s*:\s*&\s*(\w+)\s*\{\s*\}\s*,?\s*\}\s*\}', text):
        if m.group(2) in structs: out.append((m.group(1), m.group(2)))
    if sorted(s for _, s in out) != sorted(structs): raise Unrecognised("the descriptors of the join wrappers")
    return out

def read_symbol_forms(repo, structs):
    """expressions.rs: `FormulaOperator::Table(TableOp::X) => Struct {}.compile(&vec![lhs, rhs])?` — variant, struct, and
    whether the operands are handed on as (lhs, rhs) where `lhs`, `rhs` are the first and second operand of the arm's match"""
    text = strip_comments(open(os.path.join(repo, EXPR_RS), newline='').read().replace('\r\n', '\n'))
    out = []
    for m in re.finditer(r'FormulaOperator\s*::\s*Table\s*\(\s*TableOp\s*::\s*(\w+)\s*\)\s*=>\s*(\w+)\s*\{\s*\}\s*\.\s*compile\s*\(\s*&\s*vec!\s*\[\s*(\w+)\s*,\s*(\w+)\s*\]\s*\)', text):
        if m.group(2) not in structs: raise Unrecognised("TableOp::%s compiles %s" % (m.group(1), m.group(2)))
        out.append((m.group(1), m.group(2), m.group(3), m.group(4)))
    if not out: raise Unrecognised("no TableOp arms found in expressions.rs")
    a, b = out[0][2], out[0][3]
    if a == b or any((x[2], x[3]) not in ((a, b), (b, a)) for x in out): raise Unrecognised("TableOp arms: operands")
    return [(v, s, (x, y) == (a, b)) for v, s, x, y in out]

ORDER = ['make_optional_kind', 'rows_match', 'merge_rows', 'lhs_only_row']

def extract(repo="/repo"):
    raw = open(os.path.join(repo, SRC), newline='').read().replace('\r\n', '\n').replace('\r', '\n')
    text = strip_comments(raw)
    modes = read_enum(text, 'JoinMode')
    toks = tokenize(text)
    fns = set(toks[i + 1] for i in range(len(toks) - 1) if toks[i] == 'fn')
    tr = Tr({'JoinMode': modes}, fns)
    defs = {}
    # build_joined_table is an associated function of TableJoinFxn (no self)
    main = translate_fn(tr, toks, 'build_joined_table')
    todo = list(tr.called)
    while todo:
        f = todo.pop(0)
        if f in defs: continue
        before = list(tr.called)
        defs[f] = translate_fn(tr, toks, f)
        todo += [g for g in tr.called if g not in before]
    # callees before callers
    order, seen = [], set()
    def deps(f): return [g for g in defs if g != f and re.search(r"\(%s[ )]" % re.escape(lean_name(g)), defs[f])]
    def visit(f):
        if f in seen: return
        seen.add(f)
        for g in sorted(deps(f)): visit(g)
        order.append(f)
    for f in sorted(defs, key=lambda f: (ORDER.index(f) if f in ORDER else len(ORDER), f)): visit(f)
    # the callers of build_joined_table: the mode and the operands are handed through
    m = re.search(r'build_joined_table\s*\(\s*&\s*(\w+)\s*\.\s*borrow\s*\(\s*\)\s*,\s*&\s*(\w+)\s*\.\s*borrow\s*\(\s*\)\s*,\s*(\w+)\s*,?\s*\)', text)
    if not m: raise Unrecognised("the call of build_joined_table in compile_table_join")
    cparams, _, _ = find_fn(toks, 'compile_table_join', body=False)
    if len(cparams) != 2 or cparams[1][0] != ('pid', m.group(3)) or ty_head(cparams[1][1]) != 'JoinMode':
        raise Unrecognised("compile_table_join does not hand its mode to build_joined_table")
    a = re.search(r'let\s+%s\s*=\s*(\w+)\s*\(\s*&\s*%s\s*\[\s*(\d+)\s*\]\s*\)' % (m.group(1), cparams[0][0][1]), text)
    b = re.search(r'let\s+%s\s*=\s*(\w+)\s*\(\s*&\s*%s\s*\[\s*(\d+)\s*\]\s*\)' % (m.group(2), cparams[0][0][1]), text)
    if not a or not b or a.group(1) != b.group(1): raise Unrecognised("compile_table_join: the operands are not taken from the argument list by one resolver")
    operands = (int(a.group(2)), int(b.group(2)))
    compilers = read_compilers(text, modes)
    structs = [c[0] for c in compilers]
    return modes, [defs[f] for f in order] + [main], compilers, operands, read_descriptors(text, structs), read_symbol_forms(repo, structs)

HEADER = ["/- GENERATED by tools/extract_join.py from src/interpreter/src/stdlib/table_ops.rs (`build_joined_table` and the",
          "   functions it calls, `enum JoinMode`, the `compile_table_join` wrappers) — do not edit. -/",
          "import MechVerif.Model.JoinIR", "namespace MechVerif.Gen.JoinKernel", "open MechVerif.JoinIR",
          "set_option linter.unusedVariables false", ""]

def render(modes, defs, compilers, operands, descriptors, symbols):
    L = list(HEADER)
    L += ["inductive JoinMode where", "  " + " ".join("| " + v for v in modes), "deriving DecidableEq, Repr", ""]
    for d in defs: L += [d, ""]
    L += ["/-- `compile_table_join(arguments, mode)` calls `build_joined_table(arguments[i], arguments[j], mode)` -/",
          "def operands : Nat × Nat := (%d, %d)" % operands, "",
          "/-- the `NativeFunctionCompiler` wrappers and the mode each hands to `compile_table_join` -/",
          "def compilers : List (String × JoinMode) :=",
          "  [" + ", ".join('("%s", .%s)' % c for c in compilers) + "]", "",
          "/-- `register_descriptor!`: the word form of each wrapper -/",
          "def descriptors : List (String × String) :=",
          "  [" + ", ".join('("%s", "%s")' % d for d in descriptors) + "]", "",
          "/-- expressions.rs: the wrapper each `TableOp` compiles, and whether it receives the operands in the order of the",
          "    first arm (`vec![lhs, rhs]`) -/",
          "def symbolForms : List (String × String × Bool) :=",
          "  [" + ", ".join('("%s", "%s", %s)' % (v, st, "true" if o else "false") for v, st, o in symbols) + "]", "",
          "end MechVerif.Gen.JoinKernel", ""]
    return "\n".join(L)

def generate(root, repo="/repo"):
    try: ex = extract(repo)
    except (Unrecognised, OSError, IndexError, KeyError, TypeError) as e:
        return False, "C18 join-kernel extraction failed: %s" % e
    modes, defs, compilers = ex[0], ex[1], ex[2]
    text = render(*ex)
    out = os.path.join(root, 'lean', 'MechVerif', 'Gen', 'JoinKernel.lean')
    old = open(out).read() if os.path.exists(out) else None
    if old != text: open(out, 'w').write(text)
    return True, "C18 join kernel extracted: %d functions, %d modes, %d wrappers" % (len(defs), len(modes), len(compilers))

if __name__ == '__main__':
    root = os.path.dirname(os.path.dirname(os.path.abspath(__file__)))
    if len(sys.argv) > 1 and sys.argv[1] == '--show':
        print(render(*extract(sys.argv[2] if len(sys.argv) > 2 else "/repo")))
    else:
        repo, outroot = "/repo", root
        for a in sys.argv[1:]:
            if a.startswith("repo="): repo = a[5:]
            if a.startswith("root="): outroot = a[5:]
        print(generate(outroot, repo))
