#!/usr/bin/env python3
"""Regenerates lean/MechVerif/Gen/FsmSkeleton.lean from src/interpreter/src/state_machines.rs:

* `execute_fsm_pipe_impl`: the control skeleton, statement by statement, as a value of `MechVerif.FsmIR.Stmt`
  (the step loop and its bound, the loop over the arms and the `match arm`, per arm the clone of the environment, the
  clearing and the pattern match and on which environment they work, the guard loop with the `match` that evaluates a
  guard, `apply_transitions`, `if`s over the boolean locals, `break` / `continue` / `return`, assignments to the flag
  and to an environment, the value of the function);
* `validate_fsm_state_coverage` and `validate_transition_target_state`: which arm kinds give `state_names`, the early
  `Ok` for no names, and the checks in order (declared states, start state, transition targets: of which arms, of which
  guards, of which transitions, of which transition kinds) as a value of `MechVerif.FsmIR.Validator`.

The source is tokenised (comments dropped, CRLF accepted, layout irrelevant) and parsed into statements (`let`, `if`,
`if let`, `for`, `match`, `return`, `break`, `continue`, assignments, calls, macros).  Names are resolved by binding:
the parameters by their types, every local by the expression it is bound to (`<env>.clone()` is the arm's
environment, `pattern_matches_value(..)?` the match flag, `apply_transitions(..)?` the output, …), so renaming does not
change the result.  `trace_println!(..)` and `let x = f(..)` with `f` imported from `crate::tracing` (and no `&mut`
argument) are tracing and are dropped.  Anything else the reader does not know makes `generate` return
(False, reason) — it never guesses.  A recognised skeleton that differs from the one the model stands for is written
out as it is; then `C17_runner_as_written` / `C17_validator_as_written` (`decide`) fail.

Not read (hand model, tied by the correspondence runs): `execute_fsm_pipe` (lookup, arity and kind check, binding of
the inputs, start state, the call of the validator and of the runner, the output kind check), `apply_transitions`,
`clear_pattern_bindings` / `collect_pattern_variable_ids`, `pattern_matches_value`, `pattern_to_value`,
`state_name_from_pattern`."""
import os, re, sys

SRC = "src/interpreter/src/state_machines.rs"

class Unrecognised(Exception):
    pass

# ---- tokens ---------------------------------------------------------------------------------------------------------

PUNCT = ["..=", "...", "<<=", ">>=", "::", "->", "=>", "==", "!=", "<=", ">=", "&&", "||", "+=", "-=", "*=", "/=", "%=",
         "^=", "&=", "|=", ".."]

def tokenize(text):
    text = text.replace('\r\n', '\n').replace('\r', '\n')
    toks, i, n = [], 0, len(text)
    while i < n:
        c = text[i]
        if c.isspace(): i += 1; continue
        if text.startswith('//', i):
            while i < n and text[i] != '\n': i += 1
            continue
        if text.startswith('/*', i):
            d, i = 1, i + 2
            while i < n and d:
                if text.startswith('/*', i): d += 1; i += 2
                elif text.startswith('*/', i): d -= 1; i += 2
                else: i += 1
            continue
        m = re.match(r'b?r(#*)"', text[i:])
        if m:
            end = text.find('"' + m.group(1), i + len(m.group(0)))
            if end < 0: raise Unrecognised("unterminated raw string")
            toks.append('"' + text[i + len(m.group(0)):end] + '"'); i = end + 1 + len(m.group(1)); continue
        if c == '"' or (c == 'b' and text.startswith('b"', i)):
            j = i + (2 if c == 'b' else 1)
            while j < n and text[j] != '"':
                j += 2 if text[j] == '\\' else 1
            if j >= n: raise Unrecognised("unterminated string")
            toks.append('"' + text[i + 1:j] + '"'); i = j + 1; continue
        if c == "'":
            m = re.match(r"'(\\.[^']*|[^\\'])'", text[i:])
            if m: toks.append(m.group(0)); i += len(m.group(0)); continue
            m = re.match(r"'[A-Za-z_]\w*", text[i:])
            if m: toks.append(m.group(0)); i += len(m.group(0)); continue
            raise Unrecognised("stray quote")
        m = re.match(r'[A-Za-z_]\w*', text[i:])
        if m: toks.append(m.group(0)); i += len(m.group(0)); continue
        m = re.match(r'\d\w*(\.\d\w*)?', text[i:])
        if m: toks.append(m.group(0)); i += len(m.group(0)); continue
        for p in PUNCT:
            if text.startswith(p, i): toks.append(p); i += len(p); break
        else:
            toks.append(c); i += 1
    return toks

OPEN = {'(': ')', '[': ']', '{': '}'}
CLOSE = {')', ']', '}'}

def is_ident(t):
    return re.match(r'^[A-Za-z_]\w*$', t) is not None and t not in KEYWORDS

KEYWORDS = {'let', 'mut', 'if', 'else', 'for', 'in', 'match', 'return', 'break', 'continue', 'while', 'loop', 'fn', 'ref',
            'true', 'false', 'as', 'move', 'unsafe', 'pub', 'use', 'struct', 'impl', 'enum'}

def close_of(t, i):
    """index of the bracket closing the one at i"""
    want, d, j = [OPEN[t[i]]], 0, i + 1
    while j < len(t):
        if t[j] in OPEN: want.append(OPEN[t[j]])
        elif t[j] in CLOSE:
            if t[j] != want[-1]: raise Unrecognised("unbalanced brackets")
            want.pop()
            if not want: return j
        j += 1
    raise Unrecognised("unbalanced brackets")

def find0(t, i, stops, braces=True):
    """first index >= i of a token in `stops` outside all brackets (with braces=False a `{` is itself a candidate)"""
    j = i
    while j < len(t):
        if t[j] in stops: return j
        if t[j] in OPEN: j = close_of(t, j) + 1; continue
        if t[j] in CLOSE: raise Unrecognised("unbalanced brackets")
        j += 1
    return len(t)

def split0(t, sep):
    out, cur, j = [], [], 0
    while j < len(t):
        if t[j] in OPEN:
            k = close_of(t, j); cur += t[j:k + 1]; j = k + 1; continue
        if t[j] == sep: out.append(cur); cur = []
        else: cur.append(t[j])
        j += 1
    if cur or out: out.append(cur)
    return out

def show(t, n=14):
    return ' '.join(t[:n]) + (' …' if len(t) > n else '')

# ---- statements -----------------------------------------------------------------------------------------------------
# ('let', pattern tokens, expr) ('if', cond tokens, block, block|None) ('for', pattern tokens, iterator tokens, block)
# ('match', scrutinee tokens, [(pattern tokens, expr)]) ('return', expr|None) ('break',) ('continue',)
# ('assign', lhs tokens, op, rhs tokens) ('macro', name, tokens) ('block', [stmt]) ('leaf', tokens, ended by `;`?)

ASSIGN = {'=', '+=', '-=', '*=', '/=', '%=', '^=', '&=', '|='}

def parse_block(t):
    out, i = [], 0
    while i < len(t):
        if t[i] == ';': i += 1; continue
        node, i = parse_stmt(t, i)
        out.append(node)
    return out

def header(t, i):
    """tokens of a condition / iterator / scrutinee: up to the `{` that opens the block"""
    j = i
    while j < len(t) and t[j] != '{':
        if t[j] in ('(', '['): j = close_of(t, j) + 1
        elif t[j] in CLOSE or t[j] == ';': raise Unrecognised("no block after `%s`" % show(t[i:]))
        else: j += 1
    if j >= len(t): raise Unrecognised("no block after `%s`" % show(t[i:]))
    k = close_of(t, j)
    return t[i:j], t[j + 1:k], k + 1

def parse_if(t, i):
    cond, blk, j = header(t, i + 1)
    els = None
    if j < len(t) and t[j] == 'else':
        if j + 1 < len(t) and t[j + 1] == 'if':
            node, j = parse_if(t, j + 1); els = [node]
        elif j + 1 < len(t) and t[j + 1] == '{':
            k = close_of(t, j + 1); els = parse_block(t[j + 2:k]); j = k + 1
        else: raise Unrecognised("`else` without block")
    return ('if', cond, parse_block(blk), els), j

def parse_match(t, i):
    scrut, body, j = header(t, i + 1)
    arms, k = [], 0
    while k < len(body):
        a = find0(body, k, {'=>'})
        if a >= len(body): raise Unrecognised("match arm without `=>`: " + show(body[k:]))
        pat = body[k:a]
        e, k = parse_expr(body, a + 1, ALLSTOP if a + 1 < len(body) and body[a + 1] in ('{', 'if', 'match') else {','})
        if k < len(body) and body[k] == ',': k += 1
        arms.append((pat, e))
    return ('match', scrut, arms), j

def parse_expr(t, i, stops):
    """an expression that starts at i and ends before a token of `stops` (outside brackets) or at the end"""
    if i >= len(t): raise Unrecognised("missing expression")
    h = t[i]
    node = None
    if h == 'match': node, j = parse_match(t, i)
    elif h == 'if': node, j = parse_if(t, i)
    elif h == '{':
        k = close_of(t, i); node, j = ('block', parse_block(t[i + 1:k])), k + 1
    elif h == 'return':
        if i + 1 >= len(t) or t[i + 1] in stops: return ('return', None), i + 1
        e, j = parse_expr(t, i + 1, stops); return ('return', e), j
    elif h in ('break', 'continue'):
        if i + 1 < len(t) and t[i + 1] not in stops: raise Unrecognised("`%s` with a label or value" % h)
        return (h,), i + 1
    elif h in ('while', 'loop', 'unsafe', 'for'):
        raise Unrecognised("`%s` in expression position" % h)
    if node is not None:
        if j < len(t) and t[j] not in stops: raise Unrecognised("tokens after a block expression: " + show(t[j:]))
        return node, j
    j = find0(t, i, stops)
    return ('leaf', t[i:j]), j

def parse_stmt(t, i):
    h = t[i]
    if h == '#': raise Unrecognised("attribute inside a function body")
    if h == 'let':
        e = find0(t, i, {'=', ';'})
        if e >= len(t) or t[e] != '=': raise Unrecognised("`let` without initialiser: " + show(t[i:]))
        pat = t[i + 1:e]
        c = find0(pat, 0, {':'})
        pat = pat[:c]                                   # the type annotation is not read
        rhs, j = parse_expr(t, e + 1, {';'})
        if j < len(t) and t[j] == 'else': raise Unrecognised("`let … else`")
        return ('let', pat, rhs), j
    if h == 'for':
        k = find0(t, i + 1, {'in'})
        pat = t[i + 1:k]
        it, blk, j = header(t, k + 1)
        return ('for', pat, it, parse_block(blk)), j
    if h in ('while', 'loop', 'unsafe', 'fn', 'use', 'struct', 'impl', 'enum'): raise Unrecognised("`%s` statement" % h)
    if is_ident(h) and i + 2 < len(t) and t[i + 1] == '!' and t[i + 2] in OPEN:
        k = close_of(t, i + 2)
        return ('macro', h, t[i + 3:k]), k + 1
    if h in ('if', 'match', '{'):
        node, j = parse_expr(t, i, ALLSTOP)
        return node, j
    e = find0(t, i, {';'})
    toks = t[i:e]
    a = find0(toks, 0, ASSIGN)
    if a < len(toks) and toks[0] not in ('return', 'break', 'continue'):
        return ('assign', toks[:a], toks[a], toks[a + 1:]), e
    node, j = parse_expr(t, i, {';'})
    if node[0] == 'leaf': node = ('leaf', node[1], j < len(t))
    return node, j

class _All:
    def __contains__(self, x): return True
ALLSTOP = _All()      # a block-like statement ends at its closing brace whatever follows

def functions(toks):
    """top-level `fn name(params) [-> T] { body }`: name -> ([(param name, type tokens)], body tokens)"""
    out, i = {}, 0
    while i < len(toks):
        if toks[i] in OPEN:
            i = close_of(toks, i) + 1; continue
        if toks[i] == 'fn' and i + 2 < len(toks) and toks[i + 2] == '(':
            name = toks[i + 1]; pe = close_of(toks, i + 2)
            params = []
            for p in split_params(toks[i + 3:pe]):
                if not p: continue
                if p[0] == 'mut': p = p[1:]
                if len(p) < 3 or p[1] != ':' or not is_ident(p[0]): raise Unrecognised("parameter of %s: %s" % (name, show(p)))
                params.append((p[0], p[2:]))
            b = pe + 1
            while b < len(toks) and toks[b] not in ('{', ';'): b += 1
            if b >= len(toks) or toks[b] != '{': raise Unrecognised("fn %s has no body" % name)
            be = close_of(toks, b)
            if name in out: raise Unrecognised("two functions named " + name)
            out[name] = (params, toks[b + 1:be]); i = be + 1; continue
        i += 1
    return out

def split_params(t):
    out, cur, d = [], [], 0
    for x in t:
        if x in OPEN or x == '<': d += 1
        elif x in CLOSE or x == '>': d -= 1
        if x == ',' and d == 0: out.append(cur); cur = []
        else: cur.append(x)
    if cur: out.append(cur)
    return out

def tracing_imports(toks):
    """the names imported by `use crate::tracing::{…}` / `use crate::tracing::name`"""
    names, i = set(), 0
    while i + 4 < len(toks):
        if toks[i:i + 5] == ['use', 'crate', '::', 'tracing', '::']:
            j = i + 5
            if toks[j] == '{':
                k = close_of(toks, j); names |= {x for x in toks[j + 1:k] if is_ident(x)}; i = k
            elif is_ident(toks[j]): names.add(toks[j])
        i += 1
    return names

# ---- small readers ----------------------------------------------------------------------------------------------------

def strip_ref(t):
    """(`&mut` | `&` | `*` | ``, rest)"""
    if t[:2] == ['&', 'mut']: return '&mut', t[2:]
    if t[:1] == ['&']: return '&', t[1:]
    if t[:1] == ['*']: return '*', t[1:]
    return '', t

def call_of(t):
    """`f(a, b, …)` with an optional trailing `?`: (f, [args], has `?`), else None"""
    q = t[-1:] == ['?']
    if q: t = t[:-1]
    if len(t) >= 3 and is_ident(t[0]) and t[1] == '(' and close_of(t, 1) == len(t) - 1:
        return t[0], [a for a in split0(t[2:-1], ',') if a], q
    return None

def the_ident(t, what):
    if len(t) == 1 and (is_ident(t[0]) or t[0] == '_'): return t[0]
    raise Unrecognised("%s: expected a name, found `%s`" % (what, show(t)))

def let_name(pat):
    p = pat[1:] if pat[:1] == ['mut'] else pat
    return the_ident(p, "let pattern"), pat[:1] == ['mut']

def quant_of(it, scope_lookup):
    """an iterator over a collection: (`all` | `first`, tokens of the collection)"""
    _, c = strip_ref(it)
    q = 'all'
    if len(c) >= 5 and c[-5:] == ['.', 'take', '(', '1', ')']: q, c = 'first', c[:-5]
    if len(c) >= 4 and c[-4:] == ['.', 'iter', '(', ')']: c = c[:-4]
    elif q == 'first': raise Unrecognised("`.take(1)` not on `.iter()`: " + show(it))
    _, c = strip_ref(c)
    if not c or not all(is_ident(x) or x == '.' for x in c): raise Unrecognised("iterator `%s`" % show(it))
    return q, c

def is_err_return(node, err):
    """`return Err(MechError::new(<err> { … } …))`"""
    if node[0] == 'block' and len(node[1]) == 1: node = node[1][0]
    if node[0] != 'return' or node[1] is None or node[1][0] != 'leaf': return False
    t = node[1][1]
    errs = [x for x in t if re.match(r'^Fsm\w*Error$', x) or x.endswith('Error') and x != 'MechError']
    return t[:2] == ['Err', '('] and errs == [err]

def is_ok_unit(node):
    return node[0] == 'leaf' and node[1] == ['Ok', '(', '(', ')', ')']

# ---- the runner -------------------------------------------------------------------------------------------------------

PARAM_TYPES = {'FsmImplementation': 'fsm', 'Value': 'state', 'Environment': 'callEnv', 'Interpreter': 'interp',
               'FsmSpecification': 'spec', 'FsmPipe': 'pipe', 'Transition': 'transition', 'HashSet': 'names'}

def bind_params(fname, params, want):
    scope = {}
    for name, ty in params:
        kinds = [PARAM_TYPES[x] for x in ty if x in PARAM_TYPES]
        if len(kinds) != 1: raise Unrecognised("%s: parameter %s of type `%s`" % (fname, name, show(ty)))
        if kinds[0] in [v[0] for v in scope.values()]: raise Unrecognised("%s: two parameters of one type" % fname)
        scope[name] = (kinds[0],)
    if sorted(v[0] for v in scope.values()) != sorted(want): raise Unrecognised("%s: parameters %s" % (fname, sorted(v[0] for v in scope.values())))
    return scope

class Runner:
    def __init__(self, tracing): self.tracing = tracing

    def look(self, scope, name, what):
        if name not in scope: raise Unrecognised("%s: `%s` is not bound" % (what, name))
        return scope[name]

    def kind(self, scope, toks, kind, what, refs=('', '&', '&mut', '*')):
        r, c = strip_ref(toks)
        b = self.look(scope, the_ident(c, what), what)
        if r not in refs or b[0] != kind: raise Unrecognised("%s: `%s` is not the %s" % (what, show(toks), kind))
        return b

    def env(self, scope, toks, what, refs):
        r, c = strip_ref(toks)
        b = self.look(scope, the_ident(c, what), what)
        if b[0] == 'callEnv' and r in refs + ('',): return '.call'      # `call_env` is itself a `&mut Environment`
        if b[0] == 'armEnv' and r in refs: return '.arm'
        raise Unrecognised("%s: `%s` is not an environment" % (what, show(toks)))

    def seq(self, items):
        items = [x for x in items if x is not None]
        if not items: return ('skip',)
        r = items[-1]
        for x in reversed(items[:-1]): r = ('seq', x, r)
        return r

    def block(self, stmts, scope, top=False):
        scope = dict(scope)
        out = []
        for n, s in enumerate(stmts):
            out.append(self.stmt(s, scope, top and n == len(stmts) - 1))
        return self.seq(out)

    def body_of(self, e, scope):
        """an arm body / branch: a block or one expression"""
        if e[0] == 'block': return self.block(e[1], scope)
        return self.block([e], scope)

    def bexp(self, cond, scope):
        neg = cond[:1] == ['!']
        b = self.look(scope, the_ident(cond[1:] if neg else cond, "condition"), "condition")
        if b[0] != 'bool': raise Unrecognised("condition `%s` is not a boolean local" % show(cond))
        v = ('var', b[1])
        return ('not', v) if neg else v

    def stmt(self, s, scope, last):
        k = s[0]
        if k == 'macro':
            if s[1] == 'trace_println': return None
            raise Unrecognised("macro %s!" % s[1])
        if k == 'break': return ('brk',)
        if k == 'continue': return ('cont',)
        if k == 'for': return self.loop(s, scope)
        if k == 'let': return self.let(s, scope)
        if k == 'if': return self.cond(s, scope)
        if k == 'assign':
            _, lhs, op, rhs = s
            if op != '=': raise Unrecognised("assignment `%s`" % show(lhs + [op] + rhs))
            r, c = strip_ref(lhs)
            b = self.look(scope, the_ident(c, "assignment"), "assignment")
            if b[0] == 'bool' and b[1] == '.transitioned' and r == '' and rhs in (['true'], ['false']):
                return ('setB', '.transitioned', rhs[0])
            if b[0] in ('callEnv', 'armEnv') and (r == '*') == (b[0] == 'callEnv'):
                cloned = rhs[-4:] == ['.', 'clone', '(', ')']
                r2, c2 = strip_ref(rhs[:-4] if cloned else rhs)
                b2 = self.look(scope, the_ident(c2, "assignment"), "assignment")
                if b2[0] == 'armEnv' and r2 == '': src = '.arm'                      # moved or cloned
                elif b2[0] == 'callEnv' and (r2 == '*' or (cloned and r2 == '')): src = '.call'
                else: raise Unrecognised("assignment `%s`" % show(lhs + [op] + rhs))
                return ('assign', '.call' if b[0] == 'callEnv' else '.arm', src)
            raise Unrecognised("assignment `%s`" % show(lhs + [op] + rhs))
        if k == 'return':
            e = s[1]
            if e is not None and e[0] == 'leaf' and e[1][:2] == ['Ok', '('] and e[1][-5:] == ['.', 'clone', '(', ')', ')']:
                self.kind(scope, e[1][2:-5], 'state', "returned value")
                return ('returnState',)
            raise Unrecognised("return `%s`" % (show(e[1]) if e and e[0] == 'leaf' else e))
        if k == 'leaf':
            t = s[1]
            if last and not (len(s) > 2 and s[2]) and t[:2] == ['Err', '('] and \
               [x for x in t if x.endswith('Error') and x != 'MechError'] == ['FsmExceededTransitionLimitError']:
                return ('failLimit',)
            c = call_of(t)
            if c and c[0] == 'clear_pattern_bindings' and len(c[1]) == 2 and not c[2]:
                self.kind(scope, c[1][0], 'pat', "clear_pattern_bindings", ('', '&'))
                return ('clear', self.env(scope, c[1][1], "clear_pattern_bindings", ('&mut',)))
            raise Unrecognised("statement `%s`" % show(t))
        raise Unrecognised("statement of kind %s" % k)

    def loop(self, s, scope):
        _, pat, it, body = s
        # for step in 0..p.max_steps
        if it[:1] == ['0'] and len(it) == 5 and it[1] in ('..', '..=') and it[3:] == ['.', 'max_steps']:
            self.kind(scope, [it[2]], 'interp', "step loop")
            inner = dict(scope); inner[the_ident(pat, "step loop")] = ('stepvar',)
            return ('forSteps', '.exclusive' if it[1] == '..' else '.inclusive', self.block(body, inner))
        enum = it[-4:] == ['.', 'enumerate', '(', ')']
        q, c = quant_of(it[:-4] if enum else it, scope)
        if q != 'all': raise Unrecognised("loop over `%s`" % show(it))
        if enum:
            if not (len(pat) == 5 and pat[0] == '(' and pat[2] == ',' and pat[4] == ')'): raise Unrecognised("loop pattern `%s`" % show(pat))
            idx, var = pat[1], pat[3]
        else: idx, var = None, the_ident(pat, "loop pattern")
        inner = dict(scope)
        if idx and idx != '_': inner[idx] = ('index',)
        if len(c) == 3 and c[1:] == ['.', 'arms'] and self.look(scope, c[0], "arm loop")[0] == 'fsm':
            if len(body) != 1 or body[0][0] != 'match' or body[0][1] != [var]:
                raise Unrecognised("the body of the arm loop is not one `match` on the arm")
            arms = {}
            for p, e in body[0][2]:
                if p[:2] == ['FsmArm', '::'] and len(p) >= 5 and p[3] == '(' and p[-1] == ')' and 'if' not in p and '|' not in p:
                    fields = split0(p[4:-1], ',')
                    a = dict(inner)
                    if p[2] == 'Comment' and len(fields) == 1: pass
                    elif p[2] == 'Transition' and len(fields) == 2:
                        a[the_ident(fields[0], "arm pattern")] = ('pat',); a[the_ident(fields[1], "arm pattern")] = ('trans',)
                    elif p[2] == 'Guard' and len(fields) == 2:
                        a[the_ident(fields[0], "arm pattern")] = ('pat',); a[the_ident(fields[1], "arm pattern")] = ('guards',)
                    else: raise Unrecognised("arm pattern `%s`" % show(p))
                    a.pop('_', None)
                    if p[2] in arms: raise Unrecognised("two arms for FsmArm::" + p[2])
                    arms[p[2]] = self.body_of(e, a)
                else: raise Unrecognised("arm pattern `%s`" % show(p))
            if sorted(arms) != ['Comment', 'Guard', 'Transition']: raise Unrecognised("`match arm` has arms " + ", ".join(sorted(arms)))
            return ('forArms', arms['Comment'], arms['Transition'], arms['Guard'])
        if len(c) == 1 and self.look(scope, c[0], "guard loop")[0] == 'guards':
            if var != '_': inner[var] = ('guard',)
            return ('forGuards', self.block(body, inner))
        raise Unrecognised("loop over `%s`" % show(it))

    def fresh(self, scope, kind, what):
        if any(v[:len(kind)] == kind for v in scope.values()): raise Unrecognised("a second %s is in scope" % what)

    def let(self, s, scope):
        _, pat, rhs = s
        name, mut = let_name(pat)
        if rhs[0] == 'leaf':
            t = rhs[1]
            if t in (['true'], ['false']):
                self.fresh(scope, ('bool', '.transitioned'), "flag")
                scope[name] = ('bool', '.transitioned')
                return ('setB', '.transitioned', t[0])
            if t[-4:] == ['.', 'clone', '(', ')']:
                src = self.env(scope, t[:-4], "clone", ())
                self.fresh(scope, ('armEnv',), "cloned environment")
                scope[name] = ('armEnv',)
                return ('clone', src)
            c = call_of(t)
            if c and c[0] == 'pattern_matches_value' and len(c[1]) == 4 and c[2]:
                self.kind(scope, c[1][0], 'pat', c[0], ('', '&')); self.kind(scope, c[1][1], 'state', c[0], ('', '&'))
                self.kind(scope, c[1][3], 'interp', c[0], ('', '&'))
                e = self.env(scope, c[1][2], c[0], ('&mut',))
                self.fresh(scope, ('bool', '.matched'), "match result")
                scope[name] = ('bool', '.matched')
                return ('matchPat', e)
            if c and c[0] == 'apply_transitions' and len(c[1]) == 4 and c[2]:
                r, a = strip_ref(c[1][0])
                if len(a) == 1 and self.look(scope, a[0], c[0])[0] == 'trans' and r in ('', '&'): tr = '.arm'
                elif len(a) == 3 and a[1:] == ['.', 'transitions'] and self.look(scope, a[0], c[0])[0] == 'guard' and r == '&': tr = '.guard'
                else: raise Unrecognised("apply_transitions on `%s`" % show(c[1][0]))
                self.kind(scope, c[1][1], 'state', c[0], ('', '&mut')); self.kind(scope, c[1][3], 'interp', c[0], ('', '&'))
                e = self.env(scope, c[1][2], c[0], ('&mut',))
                self.fresh(scope, ('out',), "output")
                scope[name] = ('out',)
                return ('apply', tr, e)
            if c and c[0] in self.tracing and not c[2] and not any(a[:2] == ['&', 'mut'] for a in c[1]):
                scope[name] = ('trace',)
                return None
            raise Unrecognised("let %s = `%s`" % (name, show(t)))
        if rhs[0] == 'match':
            r = self.guard_cond(rhs, scope)
            self.fresh(scope, ('bool', '.passes'), "guard result")
            scope[name] = ('bool', '.passes')
            return r
        raise Unrecognised("let %s = <%s>" % (name, rhs[0]))

    def guard_cond(self, m, scope):
        _, scrut, arms = m
        def is_cond(t):
            r, c = strip_ref(t)
            return r == '&' and len(c) == 3 and c[1:] == ['.', 'condition'] and self.look(scope, c[0], "guard condition")[0] == 'guard'
        if not is_cond(scrut) or len(arms) != 2: raise Unrecognised("match on `%s`" % show(scrut))
        (p1, e1), (p2, e2) = arms
        if p1 != ['Pattern', '::', 'Wildcard'] or p2 != ['_']: raise Unrecognised("guard match arms `%s`, `%s`" % (show(p1), show(p2)))
        if e1[0] != 'leaf' or e1[1] not in (['true'], ['false']): raise Unrecognised("wildcard guard")
        if e2[0] != 'block' or len(e2[1]) != 2 or e2[1][0][0] != 'let' or e2[1][1][0] != 'match': raise Unrecognised("guard evaluation")
        _, pat, rhs = e2[1][0]
        cname, _ = let_name(pat)
        c = call_of(rhs[1]) if rhs[0] == 'leaf' else None
        if not (c and c[0] == 'pattern_to_value' and len(c[1]) == 3 and c[2] and is_cond(c[1][0])): raise Unrecognised("guard evaluation")
        self.kind(scope, c[1][2], 'interp', c[0], ('', '&'))
        env = self.env(scope, c[1][1], c[0], ('&',))
        _, sc, inner = e2[1][1]
        if sc != [cname] or len(inner) != 2: raise Unrecognised("match on the guard's value")
        (q1, f1), (q2, f2) = inner
        if not (q1[:4] == ['Value', '::', 'Bool', '('] and len(q1) == 6 and f1[0] == 'leaf'
                and f1[1] == ['*', q1[4], '.', 'borrow', '(', ')']): raise Unrecognised("bool arm of the guard's value")
        if not (len(q2) == 1 and (is_ident(q2[0]) or q2[0] == '_')): raise Unrecognised("other arm of the guard's value")
        if is_err_return(f2, 'FsmGuardConditionKindMismatchError'): nb = '.error'
        elif f2[0] == 'leaf' and f2[1] in (['true'], ['false']): nb = '(.const %s)' % f2[1][0]
        else: raise Unrecognised("other arm of the guard's value")
        return ('guardCond', e1[1][0], env, nb)

    def cond(self, s, scope):
        _, cond, then, els = s
        if cond[:1] == ['let']:
            then = [x for x in then if not (x[0] == 'macro' and x[1] == 'trace_println')]
            if (len(cond) == 7 and cond[1:3] == ['Some', '('] and cond[4:6] == [')', '='] and els is None
                    and self.look(scope, cond[6], "if let")[0] == 'out' and len(then) == 1 and then[0][0] == 'return'
                    and then[0][1] == ('leaf', ['Ok', '(', cond[3], ')'])):
                return ('returnIfOut',)
            raise Unrecognised("if `%s`" % show(cond))
        c = self.bexp(cond, scope)
        return ('ite', c, self.block(then, scope), self.block(els, scope) if els is not None else ('skip',))

def lean_stmt(x, ind=2):
    k, pad = x[0], ' ' * ind
    def bexp(b): return "(.var %s)" % b[1] if b[0] == 'var' else "(.not %s)" % bexp(b[1])
    if k in ('skip', 'brk', 'cont', 'returnIfOut', 'returnState', 'failLimit'): return pad + '.' + k
    if k == 'seq': return pad + "(.seq\n%s\n%s)" % (lean_stmt(x[1], ind + 1), lean_stmt(x[2], ind + 1))
    if k == 'setB': return pad + "(.setB %s %s)" % (x[1], x[2])
    if k in ('clone', 'clear', 'matchPat'): return pad + "(.%s %s)" % (k, x[1])
    if k in ('assign', 'apply'): return pad + "(.%s %s %s)" % (k, x[1], x[2])
    if k == 'guardCond': return pad + "(.guardCond %s %s %s)" % (x[1], x[2], x[3])
    if k == 'ite': return pad + "(.ite %s\n%s\n%s)" % (bexp(x[1]), lean_stmt(x[2], ind + 1), lean_stmt(x[3], ind + 1))
    if k == 'forGuards': return pad + "(.forGuards\n%s)" % lean_stmt(x[1], ind + 1)
    if k == 'forArms': return pad + "(.forArms\n%s\n%s\n%s)" % tuple(lean_stmt(y, ind + 1) for y in x[1:])
    if k == 'forSteps': return pad + "(.forSteps %s\n%s)" % (x[1], lean_stmt(x[2], ind + 1))
    raise Unrecognised("internal: " + k)

def read_runner(fns, tracing):
    if 'execute_fsm_pipe_impl' not in fns: raise Unrecognised("fn execute_fsm_pipe_impl not found")
    params, body = fns['execute_fsm_pipe_impl']
    scope = bind_params('execute_fsm_pipe_impl', params, ['fsm', 'state', 'callEnv', 'interp'])
    return Runner(tracing).block(parse_block(body), scope, top=True)

# ---- the validators ---------------------------------------------------------------------------------------------------

def contains_check(node, names, var):
    """`if !NAMES.contains(&VAR) { return Err(undefined) }`"""
    return (node[0] == 'if' and node[3] is None and node[1] == ['!', names, '.', 'contains', '(', '&', var, ')']
            and len(node[2]) == 1 and is_err_return(node[2][0], 'FsmUndefinedStateError'))

def read_validators(fns):
    for f in ('validate_fsm_state_coverage', 'validate_transition_target_state'):
        if f not in fns: raise Unrecognised("fn %s not found" % f)
    params, body = fns['validate_fsm_state_coverage']
    sc = bind_params('validate_fsm_state_coverage', params, ['fsm', 'spec', 'pipe'])
    P = {v[0]: k for k, v in sc.items()}
    fsm, spec, pipe = P['fsm'], P['spec'], P['pipe']
    st = parse_block(body)
    if not st or st[0][0] != 'let' or st[0][2][0] != 'leaf': raise Unrecognised("validator: first statement")
    names, _ = let_name(st[0][1])
    t = st[0][2][1]
    head = [fsm, '.', 'arms', '.', 'iter', '(', ')', '.', 'filter_map', '(']
    if t[:len(head)] != head or t[-5:] != [')', '.', 'collect', '(', ')'] or close_of(t, len(head) - 1) != len(t) - 5:
        raise Unrecognised("validator: state_names is `%s`" % show(t))
    clo = t[len(head):-5]
    if not (len(clo) >= 5 and clo[0] == '|' and is_ident(clo[1]) and clo[2] == '|' and clo[3] == '{' and close_of(clo, 3) == len(clo) - 1):
        raise Unrecognised("validator: closure of filter_map")
    arm = clo[1]
    cb = parse_block(clo[4:-1])
    if not (len(cb) == 2 and cb[0][0] == 'let' and cb[0][2][0] == 'match' and cb[0][2][1] == [arm] and cb[1][0] == 'leaf'
            and not (len(cb[1]) > 2 and cb[1][2])):
        raise Unrecognised("validator: body of the filter_map closure")
    pv, _ = let_name(cb[0][1])
    if cb[1][1] != ['state_name_from_pattern', '(', pv, ')']: raise Unrecognised("validator: the closure returns `%s`" % show(cb[1][1]))
    names_from, seen = [], set()
    for p, e in cb[0][2][2]:
        for alt in split0(p, '|'):
            if not (alt[:2] == ['FsmArm', '::'] and len(alt) >= 5 and alt[3] == '(' and alt[-1] == ')' and alt[2] in ('Comment', 'Transition', 'Guard')):
                raise Unrecognised("validator: arm pattern `%s`" % show(alt))
            fields = split0(alt[4:-1], ',')
            if alt[2] in seen: raise Unrecognised("validator: FsmArm::%s twice" % alt[2])
            seen.add(alt[2])
            if e == ('return', ('leaf', ['None'])): continue
            if alt[2] != 'Comment' and len(fields) == 2 and e[0] == 'leaf' and len(e[1]) == 1 and fields[0] == e[1] and is_ident(e[1][0]):
                names_from.append('.' + alt[2].lower()); continue
            raise Unrecognised("validator: what FsmArm::%s contributes" % alt[2])
    if seen != {'Comment', 'Transition', 'Guard'}: raise Unrecognised("validator: arm kinds " + ", ".join(sorted(seen)))
    i, empty_ok = 1, False
    if (i < len(st) and st[i][0] == 'if' and st[i][1] == [names, '.', 'is_empty', '(', ')'] and st[i][3] is None
            and len(st[i][2]) == 1 and st[i][2][0] == ('return', ('leaf', ['Ok', '(', '(', ')', ')']))):
        empty_ok, i = True, i + 1
    checks = []
    def quant(it, coll):
        q, c = quant_of(it, None)
        if c != coll: raise Unrecognised("validator: loop over `%s`" % show(it))
        return q
    def target_call(node, var):
        return (node[0] == 'leaf' and len(node) > 2 and node[2] and
                node[1] == ['validate_transition_target_state', '(', var, ',', fsm, ',', '&', names, ',', pipe, ')', '?'])
    def trans_loop(node, coll):
        """`for t in <coll> { validate_transition_target_state(t, …)?; }`: the quantifier"""
        if node[0] != 'for' or len(node[3]) != 1: raise Unrecognised("validator: loop over transitions")
        v = the_ident(node[1], "loop pattern")
        if not target_call(node[3][0], v): raise Unrecognised("validator: body of the loop over `%s`" % show(node[2]))
        return quant(node[2], coll)
    while i < len(st):
        s = st[i]
        if i == len(st) - 1:
            if not (is_ok_unit(s) and not (len(s) > 2 and s[2])): raise Unrecognised("validator: the function ends in `%s`" % str(s)[:80])
            break
        if s[0] == 'if' and s[1][:1] == ['let']:
            c = s[1]
            if not (len(c) == 7 and c[1:3] == ['Some', '('] and c[4:] == [')', '=', spec] and s[3] is None and len(s[2]) == 1 and s[2][0][0] == 'for'):
                raise Unrecognised("validator: `if %s`" % show(c))
            f = s[2][0]
            d = the_ident(f[1], "loop pattern")
            q = quant(f[2], [c[3], '.', 'states'])
            b = f[3]
            if len(b) == 2 and b[0][0] == 'let' and b[0][2] == ('leaf', [d, '.', 'name', '.', 'to_string', '(', ')']) and \
               contains_check(b[1], names, let_name(b[0][1])[0]): pass
            else: raise Unrecognised("validator: body of the loop over the declared states")
            checks.append("(.declared .%s)" % q); i += 1; continue
        if s[0] == 'let' and s[2][0] == 'leaf' and s[2][1][:7] == ['state_name_from_pattern', '(', '&', fsm, '.', 'start', ')']:
            t = s[2][1][7:]
            if not (t[:3] == ['.', 'ok_or_else', '('] and t[-1] == '?' and close_of(t, 2) == len(t) - 2 and 'FsmUndefinedStateError' in t):
                raise Unrecognised("validator: a start pattern without a state name")
            v, _ = let_name(s[1])
            if i + 1 >= len(st) or not contains_check(st[i + 1], names, v): raise Unrecognised("validator: the start state is not looked up")
            checks.append(".start"); i += 2; continue
        if s[0] == 'for':
            a = the_ident(s[1], "loop pattern")
            if quant(s[2], [fsm, '.', 'arms']) != 'all' or len(s[3]) != 2 or s[3][0][0] != 'let' or s[3][0][2][0] != 'match' or s[3][0][2][1] != [a]:
                raise Unrecognised("validator: the loop over the arms")
            ts, _ = let_name(s[3][0][1])
            direct = trans_loop(s[3][1], [ts])
            got = {}
            for p, e in s[3][0][2][2]:
                if not (p[:2] == ['FsmArm', '::'] and len(p) >= 5 and p[3] == '(' and p[-1] == ')'): raise Unrecognised("validator: arm pattern `%s`" % show(p))
                fields = split0(p[4:-1], ',')
                if p[2] in got: raise Unrecognised("validator: FsmArm::%s twice" % p[2])
                if p[2] == 'Comment' and e == ('continue',): got['Comment'] = True
                elif p[2] == 'Transition' and len(fields) == 2 and fields[0] == ['_'] and e[0] == 'leaf' and \
                        e[1] in ([fields[1][0], '.', 'as_slice', '(', ')'], fields[1], ['&', fields[1][0], '[', '..', ']']):
                    got['Transition'] = True
                elif p[2] == 'Guard' and len(fields) == 2 and fields[0] == ['_'] and e[0] == 'block' and len(e[1]) == 2 and \
                        e[1][1][0] == 'leaf' and e[1][1][1] == ['&', '[', ']'] and not (len(e[1][1]) > 2 and e[1][1][2]):
                    gs, g = fields[1][0], e[1][0]
                    if g[0] == 'for' and len(g[3]) == 1:
                        gv = the_ident(g[1], "loop pattern")
                        got['Guard'] = (quant(g[2], [gs]), trans_loop(g[3][0], [gv, '.', 'transitions']))
                    elif g[0] == 'if' and g[3] is None and len(g[1]) == 11 and g[1][:3] == ['let', 'Some', '('] and \
                            g[1][4:] == [')', '=', gs, '.', 'first', '(', ')'] and len(g[2]) == 1:
                        got['Guard'] = ('first', trans_loop(g[2][0], [g[1][3], '.', 'transitions']))
                    else: raise Unrecognised("validator: how the guards of an arm are visited")
                else: raise Unrecognised("validator: arm `%s` of the target loop" % show(p))
            if sorted(got) != ['Comment', 'Guard', 'Transition']: raise Unrecognised("validator: arms of the target loop")
            checks.append("(.targets .%s .%s .%s)" % (direct, got['Guard'][0], got['Guard'][1])); i += 1; continue
        raise Unrecognised("validator: statement `%s`" % str(s)[:100])
    # validate_transition_target_state
    params, body = fns['validate_transition_target_state']
    sc = bind_params('validate_transition_target_state', params, ['transition', 'fsm', 'names', 'pipe'])
    P = {v[0]: k for k, v in sc.items()}
    st = parse_block(body)
    if not (len(st) == 3 and st[0][0] == 'let' and st[0][2][0] == 'match' and st[0][2][1] == [P['transition']] and st[1][0] == 'if'
            and is_ok_unit(st[2]) and not (len(st[2]) > 2 and st[2][2])):
        raise Unrecognised("validate_transition_target_state: shape")
    tv, _ = let_name(st[0][1])
    kinds = []
    for p, e in st[0][2][2]:
        if p == ['_']:
            if e != ('leaf', ['None']): raise Unrecognised("validate_transition_target_state: `_` arm")
            continue
        for alt in split0(p, '|'):
            if not (alt[:2] == ['Transition', '::'] and len(alt) == 6 and alt[3] == '(' and alt[5] == ')' and
                    alt[2] in ('Next', 'Async', 'Output', 'Statement', 'CodeBlock')):
                raise Unrecognised("validate_transition_target_state: pattern `%s`" % show(alt))
            if e == ('leaf', ['None']): continue
            if e == ('leaf', ['state_name_from_pattern', '(', alt[4], ')']) and is_ident(alt[4]):
                kinds.append('.' + alt[2][0].lower() + alt[2][1:]); continue
            raise Unrecognised("validate_transition_target_state: arm of `%s`" % show(alt))
    c = st[1]
    if not (len(c[1]) == 7 and c[1][:3] == ['let', 'Some', '('] and c[1][4:] == [')', '=', tv] and c[3] is None and len(c[2]) == 1
            and contains_check(c[2][0], P['names'], c[1][3])):
        raise Unrecognised("validate_transition_target_state: the lookup")
    return names_from, empty_ok, checks, kinds

# ---- output -----------------------------------------------------------------------------------------------------------

def extract(repo="/repo"):
    text = open(os.path.join(repo, SRC), newline='').read()
    toks = tokenize(text)
    fns = functions(toks)
    return read_runner(fns, tracing_imports(toks)), read_validators(fns)

def generate(root, repo="/repo"):
    try:
        runner, (names_from, empty_ok, checks, kinds) = extract(repo)
        rtext = lean_stmt(runner)
    except (Unrecognised, OSError, IndexError) as e:
        return False, "C17 runner-skeleton extraction failed: %s" % (e if str(e) else type(e).__name__)
    L = ["/- GENERATED by tools/extract_fsm.py from src/interpreter/src/state_machines.rs — do not edit. -/",
         "import MechVerif.Model.FsmIR", "namespace MechVerif.Gen.FsmSkeleton", "open MechVerif.FsmIR", "",
         "/-- `execute_fsm_pipe_impl`, statement by statement (tracing dropped, locals resolved to what they are bound to) -/",
         "def runner : Stmt :=", rtext, "",
         "/-- `validate_fsm_state_coverage` / `validate_transition_target_state`: what is collected and what is looked up -/",
         "def validator : Validator :=",
         "  { namesFrom := [%s], emptyOk := %s," % (", ".join(names_from), "true" if empty_ok else "false"),
         "    checks := [%s]," % ", ".join(checks),
         "    targetKinds := [%s] }" % ", ".join(kinds), "",
         "/-- the runner as written is the skeleton Model/Fsm.lean's `run` / `stepArms` are proved to be (Lemmas/FsmSkeleton.lean) -/",
         "theorem C17_runner_as_written : runner = expectedRunner := by decide", "",
         "/-- the validation pass as written compares the collections Model/Fsm.lean's `validate` compares -/",
         "theorem C17_validator_as_written : validator = expectedValidator := by decide", "",
         "end MechVerif.Gen.FsmSkeleton", ""]
    text = "\n".join(L)
    out = os.path.join(root, 'lean', 'MechVerif', 'Gen', 'FsmSkeleton.lean')
    old = open(out).read() if os.path.exists(out) else None
    if old != text: open(out, 'w').write(text)
    return True, "C17 runner skeleton extracted: %d statements, %d validator checks" % (rtext.count('\n') + 1, len(checks))

if __name__ == '__main__':
    root = os.path.dirname(os.path.dirname(os.path.abspath(__file__)))
    args = dict(a.split('=', 1) for a in sys.argv[1:] if '=' in a)
    if '--show' in sys.argv:
        try:
            r, v = extract(args.get('repo', '/repo')); print(lean_stmt(r)); print(v)
        except Unrecognised as e: print((False, str(e)))
    else: print(generate(args.get('root', root), args.get('repo', '/repo')))
