//! C05: binding isolation over statement histories. Case: `session <stmt>;;<stmt>…`
//!  D:<mut 0|1>:<name>:<expr>   A:<name>:<expr>   I:<name>:<i,j>:<v>   P:<name>:<expr>   T:<a,b>:<t>
//!  expr: n<int> | m<r>x<c>/<e,…> | b<id> | t<e,…> | v<name> | c<name> | x
use crate::common::*;
use crate::interp::*;
use mech_interpreter::*;

const BLOBS: &[&str] = &["{1,2,3}", "\"hello\"", "true", "{4,5}"];

fn expr_src(e: &str) -> String {
  if e == "x" { return "[1 2] + [1 2 3]".to_string(); }
  let (tag, rest) = e.split_at(1);
  match tag {
    "n" => { if rest.starts_with('-') { format!("({})", rest) } else { rest.to_string() } }
    "b" => BLOBS[rest.parse::<usize>().unwrap()].to_string(),
    "t" => format!("({})", rest),
    "v" => rest.to_string(),
    "c" => format!("{} + 0", rest),
    "m" => {
      let (shape, body) = rest.split_once('/').unwrap();
      let (r, c) = shape.split_once('x').unwrap();
      let (r, c): (usize, usize) = (r.parse().unwrap(), c.parse().unwrap());
      let els: Vec<&str> = body.split(',').collect();
      let mut lit = String::from("[");
      for i in 0..r { if i > 0 { lit.push_str("; "); } for j in 0..c { if j > 0 { lit.push(' '); } lit.push_str(els[j * r + i]); } }
      lit.push(']');
      lit
    }
    _ => panic!("bad expr {}", e),
  }
}

pub fn stmt_src(s: &str) -> String {
  let p: Vec<&str> = s.split(':').collect();
  match p[0] {
    "D" => format!("{}{} := {}", if p[1] == "1" { "~" } else { "" }, p[2], expr_src(p[3])),
    "A" => format!("{} = {}", p[1], expr_src(p[2])),
    "I" => { let ix: Vec<&str> = p[2].split(',').collect(); if ix.len() == 1 { format!("{}[{}] = {}", p[1], ix[0], p[3]) } else { format!("{}[[{}]] = {}", p[1], ix.join(" "), p[3]) } }
    "P" => format!("{} += {}", p[1], expr_src(p[2])),
    "T" => format!("({}) := {}", p[1], p[2]),
    _ => panic!("bad stmt {}", s),
  }
}

fn snapshot(intrp: &Interpreter) -> String {
  let st = intrp.symbols();
  let st = st.borrow();
  let d = st.dictionary.borrow();
  let mut v: Vec<String> = st.symbols.iter().filter_map(|(k, val)| {
    let name = d.get(k).cloned().unwrap_or("?".into());
    if name == "ans" { None } else { Some(format!("{}={}", name, canon(&val.borrow()))) } }).collect();
  v.sort();
  v.join(";")
}

pub fn exec(case: &str) -> String {
  let f: Vec<&str> = case.split('\t').collect();
  let mut intrp = Interpreter::new(0);
  let mut out = vec![];
  for s in f[1].split(";;") {
    let src = stmt_src(s);
    let tree = match parse_code(&src) { Ok(t) => t, Err(e) => return format!("harness:{}:{}", e, hexs(&src)) };
    let status = match std::panic::catch_unwind(std::panic::AssertUnwindSafe(|| intrp.interpret(&tree))) {
      Ok(Ok(_)) => "ok", Ok(Err(_)) => "err", Err(_) => return "hostpanic".to_string() };
    out.push(format!("{}#{}", status, snapshot(&intrp)));
  }
  out.join("@")
}

fn gen_value_expr(rng: &mut Rng) -> String {
  match rng.below(10) {
    0 | 1 | 2 => format!("n{}", rng.range(-9, 20)),
    3 | 4 => { let n = 2 + rng.below(3) as usize; format!("m1x{}/{}", n, (0..n).map(|_| rng.range(0, 9).to_string()).collect::<Vec<_>>().join(",")) }
    5 => format!("m2x2/{}", (0..4).map(|_| rng.range(0, 9).to_string()).collect::<Vec<_>>().join(",")),
    6 => format!("b{}", rng.below(4)),
    7 => format!("t{},{}", rng.range(1, 9), rng.range(1, 9)),
    _ => format!("n{}", rng.range(0, 5)),
  }
}

pub fn generate(seed: u64, thorough: bool, sink: &mut Sink) -> Vec<String> {
  let mut rng = Rng::new(seed);
  let mut cases = vec![];
  let names = ["a", "b", "c", "d"];
  let n = if thorough { 60000 } else { 4000 };
  for it in 0..n {
    // alias-free histories (where the isolation theorems apply) and free-form ones, half and half
    let alias_free = it % 2 == 0;
    let len = 2 + rng.below(if thorough { 7 } else { 5 }) as usize;
    let mut stmts: Vec<String> = vec![];
    // the generator tracks which names are probably defined / mutable so that most statements are valid
    let mut defined: Vec<(&str, bool)> = vec![];
    for _ in 0..len {
      let valid = rng.chance(3, 4);
      let fresh: Vec<&str> = names.iter().copied().filter(|n| !defined.iter().any(|(d, _)| d == n)).collect();
      let pick_defined = |rng: &mut Rng, defined: &Vec<(&str, bool)>, want_mut: bool| -> Option<&'static str> {
        let pool: Vec<&str> = defined.iter().filter(|(_, m)| !want_mut || *m).map(|(d, _)| *d).collect();
        if pool.is_empty() { None } else { let x = *rng.pick(&pool); names.iter().copied().find(|n| *n == x) } };
      let other = if valid { pick_defined(&mut rng, &defined, false).unwrap_or("a") } else { *rng.pick(&names) };
      let expr = |rng: &mut Rng| -> String {
        match rng.below(10) {
          0 | 1 | 2 => if alias_free { format!("c{}", other) } else { format!("v{}", other) },
          3 => format!("c{}", other),
          4 => if valid { gen_value_expr(rng) } else { "x".to_string() },
          _ => gen_value_expr(rng),
        }
      };
      let kind = rng.below(12);
      let s = if kind <= 3 || defined.is_empty() {
        let nm = if valid && !fresh.is_empty() { *rng.pick(&fresh) } else { *rng.pick(&names) };
        let m = rng.below(2);
        if !defined.iter().any(|(d, _)| *d == nm) { defined.push((nm, m == 1)); }
        format!("D:{}:{}:{}", m, nm, expr(&mut rng))
      } else {
        let nm = if valid { pick_defined(&mut rng, &defined, true).unwrap_or(*rng.pick(&names)) } else { *rng.pick(&names) };
        match kind {
          4 | 5 | 6 => format!("A:{}:{}", nm, expr(&mut rng)),
          7 => format!("I:{}:{}:{}", nm, rng.range(0, 5), rng.range(0, 9)),
          8 => format!("I:{}:{},{}:{}", nm, rng.range(1, 3), rng.range(1, 7), rng.range(0, 9)),
          9 | 10 => format!("P:{}:{}", nm, expr(&mut rng)),
          _ => if alias_free { format!("A:{}:n{}", nm, rng.range(0, 9)) } else {
            let (x, y) = if valid && fresh.len() >= 2 { (fresh[0], fresh[1]) } else { (*rng.pick(&names), *rng.pick(&names)) };
            if !defined.iter().any(|(d, _)| *d == x) { defined.push((x, true)); }
            if !defined.iter().any(|(d, _)| *d == y) { defined.push((y, true)); }
            format!("T:{},{}:{}", x, y, other) },
        }
      };
      sink.hit(&format!("stmt:{}", &s[..1]));
      stmts.push(s);
    }
    cases.push(format!("session\t{}", stmts.join(";;")));
    sink.hit(if alias_free { "history:alias-free" } else { "history:free" });
    if it < 4 { sink.sample(cases[cases.len() - 1].clone()); }
  }
  // the documented sharing patterns, with varying values
  for k in 0..(if thorough { 200 } else { 40 }) {
    let v = 10 + k as i64;
    cases.push(format!("session\tD:1:a:n5;;D:0:b:va;;A:a:n{};;D:0:c:cb;;A:a:n{}", v, v + 1));
    cases.push(format!("session\tD:0:a:n5;;D:1:b:va;;A:b:n{};;P:b:n1", v));
    cases.push(format!("session\tD:1:a:m1x3/1,2,3;;D:0:b:va;;I:a:2:{};;A:a:m1x3/7,8,9;;P:a:n1", v));
    cases.push(format!("session\tD:1:a:t1,2;;T:b,c:a;;A:b:n{};;T:d,b:a", v));
    cases.push(format!("session\tD:1:a:m1x3/1,2,3;;I:a:1,7:{};;D:0:b:ca", v));
    sink.hit("pattern:sharing");
  }
  cases
}
