/-
C02 — Formulas evaluate according to the documented precedence and left associativity.
Model: `Model/Prec.lean` (level-by-level recursive descent + left fold), spec:
`Spec/Prec.lean` (`WellGrouped`).  The level table of the real grammar is regenerated
from src/syntax/src/expressions.rs on every run (`Gen/PrecLevels.lean`).
-/
import MechVerif.Lemmas.Prec
import MechVerif.Gen.PrecLevels
namespace MechVerif.Prec

variable {α β : Type}

/-- every operator of the flat formula belongs to one of the grammar levels 1 … N -/
def OpsIn (N : Nat) (rest : Rest α) : Prop := ∀ x ∈ rest, 1 ≤ x.1.lvl ∧ x.1.lvl ≤ N

/-- The parse tree is faithful to the text: its in-order traversal is the flat formula
    (first operand, then the operator/operand pairs it consumed). -/
theorem C02_parse_inorder (N : Nat) (a : α) (rest : Rest α) (h : OpsIn N rest) :
    (parseFormula N a rest).1.first = a ∧ rest = (parseFormula N a rest).1.tail ++ (parseFormula N a rest).2 := by
  have := parseLevel_ok N 1 a rest (fun e he => by have := h e he; omega)
  exact ⟨this.first, this.split⟩

/-- … and it accounts for the whole formula. -/
theorem C02_parse_consumes_all (N : Nat) (a : α) (rest : Rest α) (h : OpsIn N rest) :
    (parseFormula N a rest).2 = [] ∧ (parseFormula N a rest).1.tail = rest := by
  have hk := parseLevel_ok N 1 a rest (fun e he => by have := h e he; omega)
  have hnil : (parseFormula N a rest).2 = [] := by
    cases hr : (parseFormula N a rest).2 with
    | nil => rfl
    | cons x r' =>
      obtain ⟨o, b⟩ := x
      have hlt := hk.below o b r' hr
      have hmem : (o, b) ∈ rest := by
        rw [hk.split]; exact List.mem_append_right _ (by unfold parseFormula at hr; rw [hr]; exact List.mem_cons_self)
      have h1 : 1 ≤ o.lvl := (h (o, b) hmem).1
      omega
  refine ⟨hnil, ?_⟩
  have := hk.split
  unfold parseFormula at hnil
  rw [hnil, List.append_nil] at this
  exact this.symm

/-- The parse tree is the documented grouping: tighter levels sit below looser ones and
    operators of one level (including `^`) group from the left. -/
theorem C02_parse_wellgrouped (N : Nat) (a : α) (rest : Rest α) (h : OpsIn N rest) :
    WellGrouped (parseFormula N a rest).1 :=
  (parseLevel_ok N 1 a rest (fun e he => by have := h e he; omega)).wg

/-- The documented grouping is unique, so the parser computes *the* grouping: any
    well-grouped tree with the same in-order sequence is the parse tree. -/
theorem C02_grouping_unique (N : Nat) (a : α) (rest : Rest α) (h : OpsIn N rest) (t : Tree α)
    (hwg : WellGrouped t) (hf : t.first = a) (ht : t.tail = rest) : (parseFormula N a rest).1 = t := by
  apply wellgrouped_unique _ t (C02_parse_wellgrouped N a rest h) hwg
  · rw [(C02_parse_inorder N a rest h).1, hf]
  · rw [(C02_parse_consumes_all N a rest h).2, ht]

/-- An unparenthesised formula evaluates to the value of its documented grouping, for
    every operand evaluation and every operator semantics. -/
theorem C02_eval_unparen_eq_paren (N : Nat) (a : α) (rest : Rest α) (h : OpsIn N rest) (t : Tree α)
    (hwg : WellGrouped t) (hf : t.first = a) (ht : t.tail = rest) (atom : α → β) (ap : Op → β → β → β) :
    (parseFormula N a rest).1.eval atom ap = t.eval atom ap := by
  rw [C02_grouping_unique N a rest h t hwg hf ht]

/-- left-nested term of a chain -/
def leftNest (acc : Tree α) : Rest α → Tree α
  | [] => acc
  | (o, b) :: r => leftNest (.node acc o (.leaf b)) r

theorem leftNest_props (k : Nat) : ∀ (r : Rest α) (acc : Tree α), WellGrouped acc → (∀ x ∈ acc.ops, k ≤ x.lvl) →
    (∀ x ∈ r, x.1.lvl = k) →
    WellGrouped (leftNest acc r) ∧ (leftNest acc r).first = acc.first ∧ (leftNest acc r).tail = acc.tail ++ r := by
  intro r
  induction r with
  | nil => intro acc hwg _ _; exact ⟨hwg, rfl, by simp [leftNest]⟩
  | cons x r ih =>
    intro acc hwg hge hk
    obtain ⟨o, b⟩ := x
    have hok : o.lvl = k := hk (o, b) List.mem_cons_self
    have hwg' : WellGrouped (Tree.node acc o (Tree.leaf b)) :=
      ⟨fun x hx => by rw [hok]; exact hge x hx, fun x hx => by simp [Tree.ops, Tree.tail] at hx, hwg, trivial⟩
    have hge' : ∀ x ∈ (Tree.node acc o (Tree.leaf b)).ops, k ≤ x.lvl := by
      intro x hx
      rw [ops_node] at hx
      cases List.mem_append.mp hx with
      | inl h => exact hge x h
      | inr h => simp [Tree.ops, Tree.tail] at h; subst h; omega
    obtain ⟨h1, h2, h3⟩ := ih (Tree.node acc o (Tree.leaf b)) hwg' hge' (fun x hx => hk x (List.mem_cons_of_mem _ hx))
    refine ⟨h1, by simpa [leftNest, Tree.first] using h2, ?_⟩
    simp only [leftNest]
    rw [h3]
    simp [Tree.tail, Tree.first]

/-- Operators of one level group left to right: `a o1 b o2 c …` is `((a o1 b) o2 c) …`. -/
theorem C02_same_level_left_assoc (N k : Nat) (hk : 1 ≤ k ∧ k ≤ N) (a : α) (rest : Rest α)
    (h : ∀ x ∈ rest, x.1.lvl = k) : (parseFormula N a rest).1 = leftNest (.leaf a) rest := by
  obtain ⟨h1, h2, h3⟩ := leftNest_props k rest (.leaf a) trivial (fun x hx => by simp [Tree.ops, Tree.tail] at hx) h
  apply C02_grouping_unique N a rest (fun x hx => by rw [h x hx]; exact hk) _ h1
  · simpa [Tree.first] using h2
  · simpa [Tree.tail] using h3

/-- The levels of the real grammar, as extracted from the source on this run, are the
    documented ones. -/
theorem C02_levels_match : generatedLevels = specLevels ∧ generatedFoldsLeft = true := by decide

/-! ### non-vacuity -/
def plus : Op := ⟨0, 3⟩
def times : Op := ⟨1, 4⟩
def pow : Op := ⟨2, 5⟩
def gt : Op := ⟨3, 2⟩
example : (parseFormula 7 1 [(plus, 2), (times, 3), (pow, 4), (pow, 5), (gt, 6)]).1 =
    .node (.node (.leaf 1) plus (.node (.leaf 2) times (.node (.node (.leaf 3) pow (.leaf 4)) pow (.leaf 5)))) gt (.leaf 6) := by decide
example : OpsIn 7 [(plus, (2 : Nat)), (times, 3), (pow, 4), (pow, 5), (gt, 6)] := by
  intro x hx; simp at hx; rcases hx with h | h | h | h | h <;> subst h <;> decide

end MechVerif.Prec
