/-
C12 — Kind annotations convert values faithfully and reshape in column-major order.
Model: `Model/Convert.lean`, exact float views in `Model/Float.lean`.
-/
import MechVerif.Model.Convert
import MechVerif.Lemmas.Broadcast
import MechVerif.Gen.ConvertTables
namespace MechVerif.Convert
open MechVerif.Num MechVerif.Scalar MechVerif.Mat MechVerif.FloatX

/-- Converting an integer to an integer kind that can represent it yields exactly
    that integer (all 10 × 10 pairs of integer kinds). -/
theorem C12_int_convert_exact (ci : ConvImpl) (a b : IKind) (x : Int) (h : b.inR x = true) :
    convertScalar ci (.int a) (.int b) (.int x) = .ok (.int x) := by
  simp only [convertScalar, Except.ok.injEq, Val.int.injEq]
  unfold wrapTo
  simp only [IKind.inR, Bool.and_eq_true, decide_eq_true_eq] at h
  cases b <;> simp [IKind.lo, IKind.hi, IKind.bits, IKind.signed] at * <;> omega

/-- Widening and then narrowing back is the identity (also between signed and
    unsigned kinds of the same width, where the intermediate value wraps). -/
theorem C12_widen_narrow_id (a b : IKind) (x : Int) (ha : a.inR x = true) (hb : a.bits ≤ b.bits) :
    wrapTo a (wrapTo b x) = x := by
  unfold wrapTo
  simp only [IKind.inR, Bool.and_eq_true, decide_eq_true_eq] at ha
  cases a <;> cases b <;> simp [IKind.lo, IKind.hi, IKind.bits, IKind.signed] at * <;> omega

/-- Float to integer: truncation toward zero of the exact value, clamped to the target
    range, NaN to 0 — the result always lies in the target kind. -/
theorem C12_float_to_int_trunc_clamp (ci : ConvImpl) (b : IKind) (x : UInt64) :
    convertScalar ci .f64 (.int b) (.f64 x) = .ok (.int (floatToInt b.lo b.hi (decode64 x))) ∧
    b.inR (floatToInt b.lo b.hi (decode64 x)) = true ∧
    (∀ v, decode64 x = .finite v → b.inR v.trunc = true → floatToInt b.lo b.hi (decode64 x) = v.trunc) ∧
    (decode64 x = .nan → floatToInt b.lo b.hi (decode64 x) = 0) := by
  have hlohi : b.lo ≤ 0 ∧ 0 ≤ b.hi := by cases b <;> simp [IKind.lo, IKind.hi, IKind.bits, IKind.signed]
  refine ⟨rfl, ?_, ?_, ?_⟩
  · simp only [IKind.inR, Bool.and_eq_true, decide_eq_true_eq]
    cases decode64 x with
    | nan => exact hlohi
    | posInf => simp only [floatToInt]; exact ⟨by omega, by omega⟩
    | negInf => simp only [floatToInt]; exact ⟨by omega, by omega⟩
    | finite v =>
      simp only [floatToInt]
      split
      · omega
      · split <;> omega
  · intro v hv hr
    simp only [IKind.inR, Bool.and_eq_true, decide_eq_true_eq] at hr
    rw [hv]
    simp only [floatToInt]
    have h1 : ¬ v.trunc < b.lo := by omega
    have h2 : ¬ v.trunc > b.hi := by omega
    simp [h1, h2]
  · intro hn; rw [hn]; rfl

/-- truncation is toward zero: exact when the exponent is non-negative, the truncated
    quotient otherwise -/
theorem C12_trunc_def (v : Dy) :
    (0 ≤ v.e → v.trunc = v.m * (2 ^ v.e.toNat : Int)) ∧
    (v.e < 0 → v.trunc = Int.tdiv v.m (2 ^ (-v.e).toNat : Int)) := by
  unfold Dy.trunc
  constructor
  · intro h; simp [h]
  · intro h; have : ¬ v.e ≥ 0 := by omega
    simp [this]

/-- Converting a matrix converts every element by the scalar rule and keeps its shape. -/
theorem C12_convert_mat_elementwise_shape (ci : ConvImpl) (k1 k2 : Kind) (m r : Mat Val)
    (h : convertMat ci k1 k2 m = .ok r) :
    r.rows = m.rows ∧ r.cols = m.cols ∧ r.data.length = m.rows * m.cols ∧
    ∀ k, k < m.rows * m.cols → ∃ x y, m.data[k]? = some x ∧ convertScalar ci k1 k2 x = .ok y ∧ r.data[k]? = some y := by
  simp only [convertMat] at h
  obtain ⟨d, hd, hr⟩ := mapE_ok.mp h
  subst hr
  obtain ⟨hl, hk⟩ := tab_sound _ _ 0 d hd
  refine ⟨rfl, rfl, hl, ?_⟩
  intro k hklt
  obtain ⟨y, hy, hdy⟩ := hk k hklt
  simp only [Nat.zero_add] at hy
  obtain ⟨x, hx, hxy⟩ := bindE_ok.mp hy
  exact ⟨x, y, getE_ok.mp hx, hxy, hdy⟩

/-- A shape annotation of equal element count rearranges the elements in column-major
    order: the element at linear position k stays at linear position k. -/
theorem C12_reshape_colmajor {α : Type} (m m' : Mat α) (r c : Nat) (h : reshape m r c = .ok m')
    (hrows : 0 < m.rows) (i j : Nat) (hi : i < r) (hj : j < c) :
    m'.rows = r ∧ m'.cols = c ∧
    m'.get? i j = m.get? ((j * r + i) % m.rows) ((j * r + i) / m.rows) := by
  unfold reshape at h
  split at h
  · rename_i he
    simp only [Except.ok.injEq] at h; subst h
    refine ⟨rfl, rfl, ?_⟩
    have hk : j * r + i < m.rows * m.cols := by rw [← he]; exact lin_lt i j r c hi hj
    have h1 : (j * r + i) % m.rows < m.rows := Nat.mod_lt _ hrows
    have h2 : (j * r + i) / m.rows < m.cols := (Nat.div_lt_iff_lt_mul hrows).mpr (by rw [Nat.mul_comm m.cols m.rows]; exact hk)
    simp only [Mat.get?, hi, hj, h1, h2, and_self, if_true]
    congr 1
    have := Nat.div_add_mod (j * r + i) m.rows
    rw [Nat.mul_comm] at this
    omega
  · cases h

/-- A shape of different element count is an error. -/
theorem C12_reshape_rejects_count {α : Type} (m : Mat α) (r c : Nat) (h : r * c ≠ m.rows * m.cols) :
    reshape m r c = .error .kind := by
  simp [reshape, h]

/-- Kinds with no conversion are errors (string → number, bool → number, number → bool,
    complex → real, rational → integer, integer → rational). -/
theorem C12_convert_rejects (ci : ConvImpl) (b : IKind) (v : Val) :
    convertScalar ci .string (.int b) v = .error .kind ∧
    convertScalar ci .string .f64 v = .error .kind ∧
    convertScalar ci .bool (.int b) v = .error .kind ∧
    convertScalar ci (.int b) .bool v = .error .kind ∧
    convertScalar ci .c64 .f64 v = .error .kind ∧
    convertScalar ci .r64 (.int b) v = .error .kind ∧
    convertScalar ci (.int b) .r64 v = .error .kind := by
  refine ⟨?_, ?_, ?_, ?_, ?_, ?_, ?_⟩ <;> cases v <;> rfl

theorem dedup_spec {α : Type} [DecidableEq α] (l : List α) :
    (dedup l).Nodup ∧ ∀ x, x ∈ dedup l ↔ x ∈ l := by
  induction l with
  | nil => simp [dedup]
  | cons a as ih =>
    simp only [dedup]
    by_cases h : a ∈ dedup as
    · simp only [h, if_true]
      refine ⟨ih.1, ?_⟩
      intro x
      rw [ih.2 x]
      constructor
      · intro hx; exact List.mem_cons_of_mem _ hx
      · intro hx
        cases List.mem_cons.mp hx with
        | inl e => subst e; exact (ih.2 x).mp h
        | inr hm => exact hm
    · simp only [h, if_false]
      refine ⟨List.nodup_cons.mpr ⟨h, ih.1⟩, ?_⟩
      intro x
      simp only [List.mem_cons, ih.2 x]

/-- Converting a matrix to a set keeps exactly its distinct elements. -/
theorem C12_mat_to_set_distinct {α : Type} [DecidableEq α] (m : Mat α) :
    (toSetList m).Nodup ∧ ∀ x, x ∈ toSetList m ↔ x ∈ m.data := by
  unfold toSetList
  obtain ⟨h1, h2⟩ := dedup_spec m.data.reverse
  refine ⟨((List.reverse_perm _).nodup_iff).mpr h1, ?_⟩
  intro x
  rw [List.mem_reverse, h2 x, List.mem_reverse]

/-! ### the acceptance tables as written in the source (regenerated on every run: `Gen/ConvertTables.lean`) -/
section written
open MechVerif.Gen.ConvertTables

/-- The kind annotation of a scalar answers `UnsupportedConversion` exactly for the (source, target) pairs that have
    neither a row in `impl_conversion_match_arms!` nor an arm of their own in scalar.rs, as read from the source. -/
theorem C12_scalar_annotation_refuses_outside_written_table (ci : ConvImpl) (k1 k2 : Kind) (v : Val)
    (hv : valOfKind k1 v = true) :
    convertScalarImpl ci k1 k2 v = .error .kind ↔
      (scalarRows.contains (k1.rustType, k2.rustType) || scalarExplicit.contains (k1.variantName, k2.variantName)) = false := by
  rw [convertScalarImpl_kind_error_iff ci k1 k2 v hv, (tableAgrees_iff _ _).mp C12_scalar_table_is_model k1 k2]

/-- The same for the matrix annotation and the rows of `impl_conversion_mat_to_mat_fxn!` (a matrix of the target's
    element kind is passed through; complex → string is in the source's table and not in the model). -/
theorem C12_matrix_annotation_refuses_outside_written_table (ci : ConvImpl) (k1 k2 : Kind) (v : Val)
    (hv : valOfKind k1 v = true) :
    convertElemImpl ci k1 k2 v = .error .kind ↔
      ((matRows.contains (k1.rustType, k2.rustType) || (matPassthroughSameKind && k1 == k2)) && !matNotModelled k1 k2) = false := by
  rw [convertElemImpl_kind_error_iff ci k1 k2 v hv, (tableAgrees_iff _ _).mp C12_mat_table_is_model k1 k2]

/-- `is_convertible_to` as written is `implicitlyConvertible` on every pair of kinds, and what it lets through (a kind
    onto itself aside) the kind annotation accepts too. -/
theorem C12_is_convertible_as_written (k1 k2 : Kind) :
    (convertiblePairs.contains (k1.variantName, k2.variantName) || (convertibleDefaultIsEquality && k1 == k2)) =
      implicitlyConvertible k1 k2 ∧
    (implicitlyConvertible k1 k2 = true → k1 ≠ k2 → scalarAccepts k1 k2 = true) :=
  ⟨(tableAgrees_iff _ _).mp C12_is_convertible_table_is_model k1 k2, implicit_within_annotation k1 k2⟩

/-- Where `Value::convert_to` converts — a pair `is_convertible_to` lists as written, which is how a function's parameter
    and result kinds and an option target take a value — the rule of the property gives a value, of the target kind:
    what the check demands there (`convarg`, `convres`) is never an error of the rule itself. -/
theorem C12_written_convertible_pairs_have_a_value (ci : ConvImpl) (k1 k2 : Kind) (v : Val)
    (h : (convertiblePairs.contains (k1.variantName, k2.variantName) || (convertibleDefaultIsEquality && k1 == k2)) = true)
    (hv : valOfKind k1 v = true) :
    ∃ y, convertScalar ci k1 k2 v = .ok y ∧ valOfKind k2 y = true := by
  rw [(C12_is_convertible_as_written k1 k2).1] at h
  cases k1 <;> cases k2 <;> cases v <;> simp_all [valOfKind, convertScalar, implicitlyConvertible]

end written

/-! ### non-vacuity -/
example : wrapTo .u8 300 = 44 ∧ wrapTo .i8 200 = -56 ∧ wrapTo .u64 (-1) = 18446744073709551615 := by decide
example : floatToInt 0 255 (decode64 0x4072c80000000000) = 255 := by decide   -- 300.5
example : floatToInt (-128) 127 (decode64 0xc00feb851eb851ec) = -3 := by decide   -- -3.99
example : reshape (⟨2, 3, [1, 4, 2, 5, 3, 6]⟩ : Mat Nat) 3 2 = .ok ⟨3, 2, [1, 4, 2, 5, 3, 6]⟩ := by decide
example : toSetList (⟨1, 5, [1, 2, 2, 3, 1]⟩ : Mat Nat) = [1, 2, 3] := by decide
example : implicitlyConvertible (.int .u8) (.int .i16) = true ∧ implicitlyConvertible (.int .u8) (.int .i8) = false ∧
    scalarAccepts (.int .u8) (.int .i8) = true ∧ scalarAccepts .r64 .r64 = false ∧ matAccepts .bool (.int .u8) = true := by decide

end MechVerif.Convert
