/-
Round trip of the token-level formula grammar (Model/Formula.lean): the rendering of a
canonical tree is read back as that tree.  Builds on the grouping lemmas of Lemmas/Prec.lean.
-/
import MechVerif.Model.Formula
import MechVerif.Lemmas.Prec
namespace MechVerif.Formula
open MechVerif.Prec

def Fac.isBase : Fac → Bool
  | .atom _ => true
  | .paren _ => true
  | _ => false

mutual
/-- the factors the parser can produce from a rendering: inside parentheses the documented grouping
    with operators of the grammar's levels; a transposed factor is an atom or a parenthesised
    formula (`-a'` is the negation of `a'`) -/
def okF (g : Gram) : Fac → Prop
  | .atom _ => True
  | .paren t => WellGrouped t ∧ OpsIn g.N t.tail ∧ okL g t
  | .neg f => okF g f
  | .not f => okF g f
  | .tr f => f.isBase = true ∧ okF g f
/-- every operand of a term is such a factor -/
def okL (g : Gram) : Trm → Prop
  | .leaf f => okF g f
  | .node l _ r => okL g l ∧ okL g r
end

/-- a canonical term: the documented grouping, operators of the grammar's levels, canonical operands -/
def okT (g : Gram) (t : Trm) : Prop := WellGrouped t ∧ OpsIn g.N t.tail ∧ okL g t

/-- what may follow a formula: nothing, or a token that continues neither an operand nor the chain -/
def NoCont (g : Gram) (rest : List Tok) : Prop := ∀ t r, rest = t :: r → g.binOp? t = none ∧ t ≠ .quote

def costR : Rest Fac → Nat
  | [] => 0
  | (_, f) :: ps => 1 + costF f + costR ps

theorem costR_append (a b : Rest Fac) : costR (a ++ b) = costR a + costR b := by
  induction a with
  | nil => simp [costR]
  | cons x a ih => obtain ⟨o, f⟩ := x; simp only [List.cons_append, costR, ih]; omega

theorem cost_first_tail : ∀ t : Trm, costF t.first + costR t.tail ≤ costT t
  | .leaf f => by simp [Tree.first, Tree.tail, costR, costT]
  | .node l o r => by
    have hl := cost_first_tail l
    have hr := cost_first_tail r
    simp only [Tree.first, Tree.tail, costR_append, costR, costT]
    omega

theorem rRest_append (g : Gram) (a b : Rest Fac) : rRest g (a ++ b) = rRest g a ++ rRest g b := by
  induction a with
  | nil => simp [rRest]
  | cons x a ih => obtain ⟨o, f⟩ := x; simp [rRest, ih]

/-- the rendering of a term is its first operand followed by the operator/operand pairs in order -/
theorem rTrm_flat (g : Gram) : ∀ t : Trm, rTrm g t = rFac g t.first ++ rRest g t.tail
  | .leaf f => by simp [rTrm, Tree.first, Tree.tail, rRest]
  | .node l o r => by
    have hl := rTrm_flat g l
    have hr := rTrm_flat g r
    simp only [rTrm, Tree.first, Tree.tail, rRest_append, rRest, hl, hr, List.append_assoc, List.cons_append]

theorem okL_parts (g : Gram) : ∀ t : Trm, okL g t → okF g t.first ∧ ∀ p ∈ t.tail, okF g p.2
  | .leaf f, h => by
    refine ⟨by simpa [okL, Tree.first] using h, ?_⟩
    intro p hp; simp [Tree.tail] at hp
  | .node l o r, h => by
    simp only [okL] at h
    have hl := okL_parts g l h.1
    have hr := okL_parts g r h.2
    refine ⟨hl.1, ?_⟩
    intro p hp
    simp only [Tree.tail, List.mem_append, List.mem_cons] at hp
    rcases hp with hp | hp | hp
    · exact hl.2 p hp
    · subst hp; exact hr.1
    · exact hr.2 p hp

theorem binOp_opTok (g : Gram) (o : Op) (ho : 1 ≤ o.lvl ∧ o.lvl ≤ g.N) : g.binOp? (g.opTok o) = some o := by
  have hl : g.lvlOk o = true := by simp [Gram.lvlOk, ho.1, ho.2]
  unfold Gram.opTok
  split
  · next h => subst h; simp [Gram.binOp?, hl]
  · next h => simp [Gram.binOp?, hl, h]

theorem opTok_ne_quote (g : Gram) (o : Op) : g.opTok o ≠ .quote := by
  unfold Gram.opTok; split <;> simp

/-- what follows an operand inside a rendering is never a transpose mark -/
theorem head_rRest (g : Gram) (ps : Rest Fac) (rest : List Tok) (h : NoCont g rest) :
    ∀ t r, rRest g ps ++ rest = t :: r → t ≠ .quote := by
  intro t r e
  cases ps with
  | nil => simp only [rRest, List.nil_append] at e; exact (h t r e).2
  | cons x ps =>
    obtain ⟨o, f⟩ := x
    simp only [rRest, List.cons_append] at e
    have : t = g.opTok o := (List.cons.inj e).1.symm
    rw [this]; exact opTok_ne_quote g o

theorem post_noquote (f : Fac) (rest : List Tok) (h : ∀ t r, rest = t :: r → t ≠ .quote) : post f rest = (f, rest) := by
  cases rest with
  | nil => rfl
  | cons t r =>
    cases t <;> first | rfl | exact absurd rfl (h _ _ rfl)

/-- the three claims for fuel `n` -/
def RT (g : Gram) (n : Nat) : Prop :=
  (∀ f, costF f ≤ n → okF g f → ∀ rest, (∀ t r, rest = t :: r → t ≠ .quote) →
      pFac g n (rFac g f ++ rest) = some (f, rest)) ∧
  (∀ ps, costR ps + 1 ≤ n → OpsIn g.N ps → (∀ p ∈ ps, okF g p.2) → ∀ rest, NoCont g rest →
      pChain g n (rRest g ps ++ rest) = some (ps, rest)) ∧
  (∀ t, costT t + 2 ≤ n → okT g t → ∀ rest, NoCont g rest →
      pForm g n (rTrm g t ++ rest) = some (t, rest))

theorem noCont_rp (g : Gram) (rest : List Tok) : NoCont g (.rp :: rest) := by
  intro t r e
  have : t = .rp := (List.cons.inj e).1.symm
  subst this
  exact ⟨rfl, by simp⟩

theorem rt_step (g : Gram) (n : Nat) (ih : RT g n) : RT g (n + 1) := by
  obtain ⟨ihF, ihC, ihT⟩ := ih
  refine ⟨?_, ?_, ?_⟩
  · -- factors
    intro f hc hok rest hq
    cases f with
    | atom a =>
      simp only [rFac, List.cons_append, List.nil_append, pFac]
      rw [post_noquote _ _ hq]
    | paren t =>
      simp only [costF] at hc
      simp only [okF] at hok
      have := ihT t (by omega) hok (.rp :: rest) (noCont_rp g rest)
      simp only [rFac, List.cons_append, List.append_assoc, List.nil_append, pFac, this]
      rw [post_noquote _ _ hq]
    | neg f =>
      simp only [costF] at hc
      simp only [okF] at hok
      have := ihF f (by omega) hok rest hq
      simp only [rFac, List.cons_append, pFac, this]
      rw [post_noquote _ _ hq]
    | not f =>
      simp only [costF] at hc
      simp only [okF] at hok
      have := ihF f (by omega) hok rest hq
      simp only [rFac, List.cons_append, pFac, this]
      rw [post_noquote _ _ hq]
    | tr f =>
      simp only [costF] at hc
      simp only [okF] at hok
      obtain ⟨hb, hokf⟩ := hok
      cases f with
      | atom a =>
        simp only [rFac, List.cons_append, List.nil_append, pFac, post]
      | paren t =>
        simp only [costF] at hc
        simp only [okF] at hokf
        have := ihT t (by omega) hokf (.rp :: .quote :: rest) (noCont_rp g _)
        simp only [rFac, List.cons_append, List.append_assoc, List.nil_append, pFac, this, post]
      | neg f => simp [Fac.isBase] at hb
      | not f => simp [Fac.isBase] at hb
      | tr f => simp [Fac.isBase] at hb
  · -- chains
    intro ps hc hops hok rest hnc
    cases ps with
    | nil =>
      simp only [rRest, List.nil_append]
      cases rest with
      | nil => simp [pChain]
      | cons t r =>
        have := (hnc t r rfl).1
        simp [pChain, this]
    | cons x ps =>
      obtain ⟨o, f⟩ := x
      simp only [costR] at hc
      have hf : okF g f := hok (o, f) List.mem_cons_self
      have hps : ∀ p ∈ ps, okF g p.2 := fun p hp => hok p (List.mem_cons_of_mem _ hp)
      have h1 := ihF f (by omega) hf (rRest g ps ++ rest) (head_rRest g ps rest hnc)
      have h2 := ihC ps (by omega) (fun x hx => hops x (List.mem_cons_of_mem _ hx)) hps rest hnc
      simp only [rRest, List.cons_append, List.append_assoc, pChain, binOp_opTok g o (hops (o, f) List.mem_cons_self), h1, h2]
  · -- formulas
    intro t hc hok rest hnc
    obtain ⟨hwg, hops, hl⟩ := hok
    have hparts := okL_parts g t hl
    have hcost := cost_first_tail t
    have h1 := ihF t.first (by omega) hparts.1 (rRest g t.tail ++ rest) (head_rRest g t.tail rest hnc)
    have h2 := ihC t.tail (by omega) hops hparts.2 rest hnc
    have h3 : parseFormula g.N t.first t.tail = (t, []) := by
      have ha := grouping_unique g.N t.first t.tail hops t hwg rfl rfl
      have hb := (parse_consumes_all g.N t.first t.tail hops).1
      exact Prod.ext ha hb
    simp only [rTrm_flat, List.append_assoc, pForm, h1, h2, h3, List.isEmpty_nil, if_true]

theorem rt_all (g : Gram) : ∀ n, RT g n
  | 0 => by
    refine ⟨?_, ?_, ?_⟩
    · intro f hc; cases f <;> simp [costF] at hc
    · intro ps hc; omega
    · intro t hc; omega
  | n + 1 => rt_step g n (rt_all g n)

/-- parentheses around every operation make any grouping canonical -/
theorem okF_parenAll (g : Gram) : ∀ t : Trm, okL g t → OpsIn g.N t.tail → okF g (parenAll t)
  | .leaf f, h, _ => by simpa [parenAll, okL] using h
  | .node l o r, h, hops => by
    simp only [okL] at h
    have hl : OpsIn g.N l.tail := fun x hx => hops x (by simp [Tree.tail, hx])
    have hr : OpsIn g.N r.tail := fun x hx => hops x (by simp [Tree.tail, hx])
    have ho := hops (o, r.first) (by simp [Tree.tail])
    have il := okF_parenAll g l h.1 hl
    have ir := okF_parenAll g r h.2 hr
    simp only [parenAll, okF, WellGrouped, Tree.ops, Tree.tail, okL, List.nil_append, List.map_nil, List.not_mem_nil,
      false_imp_iff, implies_true, true_and, and_true]
    refine ⟨?_, il, ir⟩
    intro x hx
    simp only [Tree.first, List.mem_cons, List.not_mem_nil, or_false] at hx
    subst hx; exact ho

/-- … and do not change the value -/
theorem eval_parenAll {β : Type} (atom : Nat → β) (neg not tr : β → β) (ap : Op → β → β → β) :
    ∀ t : Trm, evalFac atom neg not tr ap (parenAll t) = evalTrm atom neg not tr ap t
  | .leaf f => by simp [parenAll, evalTrm]
  | .node l o r => by
    simp only [parenAll, evalFac, evalTrm, eval_parenAll atom neg not tr ap l, eval_parenAll atom neg not tr ap r]

/-! ### the other direction: what the parser accepts is the rendering of what it returns -/

theorem post_render (g : Gram) (f0 f : Fac) (r0 r : List Tok) (h : post f0 r0 = (f, r)) :
    rFac g f0 ++ r0 = rFac g f ++ r := by
  cases r0 with
  | nil => simp only [post] at h; obtain ⟨h1, h2⟩ := Prod.mk.inj h; subst h1; subst h2; rfl
  | cons t r1 =>
    cases t <;> simp only [post] at h <;> obtain ⟨h1, h2⟩ := Prod.mk.inj h <;> subst h1 <;> subst h2 <;>
      simp [rFac]

theorem binOp_some (g : Gram) (t : Tok) (o : Op) (h : g.binOp? t = some o) :
    t = g.opTok o ∧ 1 ≤ o.lvl ∧ o.lvl ≤ g.N := by
  cases t with
  | op o' =>
    simp only [Gram.binOp?] at h
    split at h
    · next hc =>
      simp only [Bool.and_eq_true, decide_eq_true_eq, Gram.lvlOk] at hc
      have : o' = o := Option.some.inj h
      subst this
      refine ⟨by simp [Gram.opTok, hc.2], hc.1.1, hc.1.2⟩
    · cases h
  | dash =>
    simp only [Gram.binOp?] at h
    split at h
    · next hc =>
      simp only [Bool.and_eq_true, decide_eq_true_eq, Gram.lvlOk] at hc
      have : g.sub = o := Option.some.inj h
      subst this
      refine ⟨by simp [Gram.opTok], hc.1, hc.2⟩
    · cases h
  | atom _ => simp [Gram.binOp?] at h
  | lp => simp [Gram.binOp?] at h
  | rp => simp [Gram.binOp?] at h
  | bang => simp [Gram.binOp?] at h
  | quote => simp [Gram.binOp?] at h

/-- the three claims for fuel `n` -/
def PR (g : Gram) (n : Nat) : Prop :=
  (∀ ts f r, pFac g n ts = some (f, r) → ts = rFac g f ++ r) ∧
  (∀ ts ps r, pChain g n ts = some (ps, r) → ts = rRest g ps ++ r ∧ OpsIn g.N ps) ∧
  (∀ ts t r, pForm g n ts = some (t, r) → ts = rTrm g t ++ r)

theorem pr_step (g : Gram) (n : Nat) (ih : PR g n) : PR g (n + 1) := by
  obtain ⟨ihF, ihC, ihT⟩ := ih
  refine ⟨?_, ?_, ?_⟩
  · intro ts f r h
    simp only [pFac] at h
    split at h
    · next a r0 =>
      have := post_render g _ _ _ _ (Prod.mk.inj (Option.some.inj h) |> fun p => Prod.ext p.1 p.2)
      simpa [rFac] using this
    · next r0 =>
      split at h
      · next t r' hp =>
        have e1 := ihT _ _ _ hp
        have := post_render g _ _ _ _ (Prod.mk.inj (Option.some.inj h) |> fun p => Prod.ext p.1 p.2)
        rw [e1]
        simpa [rFac] using this
      · cases h
    · next r0 =>
      split at h
      · next f0 r' hp =>
        have e1 := ihF _ _ _ hp
        have := post_render g _ _ _ _ (Prod.mk.inj (Option.some.inj h) |> fun p => Prod.ext p.1 p.2)
        rw [e1]
        simpa [rFac] using this
      · cases h
    · next r0 =>
      split at h
      · next f0 r' hp =>
        have e1 := ihF _ _ _ hp
        have := post_render g _ _ _ _ (Prod.mk.inj (Option.some.inj h) |> fun p => Prod.ext p.1 p.2)
        rw [e1]
        simpa [rFac] using this
      · cases h
    · cases h
  · intro ts ps r h
    simp only [pChain] at h
    split at h
    · obtain ⟨h1, h2⟩ := Prod.mk.inj (Option.some.inj h); subst h1; subst h2
      exact ⟨rfl, fun x hx => by cases hx⟩
    · next t r0 =>
      split at h
      · obtain ⟨h1, h2⟩ := Prod.mk.inj (Option.some.inj h); subst h1; subst h2
        exact ⟨rfl, fun x hx => by cases hx⟩
      · next o hb =>
        split at h
        · cases h
        · next f r1 hp =>
          split at h
          · cases h
          · next ps' r2 hc =>
            obtain ⟨h1, h2⟩ := Prod.mk.inj (Option.some.inj h); subst h1; subst h2
            have e1 := ihF _ _ _ hp
            have e2 := ihC _ _ _ hc
            have e3 := binOp_some g t o hb
            refine ⟨?_, ?_⟩
            · rw [e1, e2.1, e3.1]; simp [rRest]
            · intro x hx
              cases hx with
              | head => exact e3.2
              | tail _ hx => exact e2.2 x hx
  · intro ts t r h
    simp only [pForm] at h
    split at h
    · cases h
    · next a r0 hp =>
      split at h
      · cases h
      · next ps r' hc =>
        split at h
        · next he =>
          obtain ⟨h1, h2⟩ := Prod.mk.inj (Option.some.inj h); subst h1; subst h2
          have e1 := ihF _ _ _ hp
          have e2 := ihC _ _ _ hc
          have hin := parse_inorder g.N a ps e2.2
          have hnil : (parseFormula g.N a ps).2 = [] := List.isEmpty_iff.mp he
          have htail : (parseFormula g.N a ps).1.tail = ps := by
            have := hin.2; rw [hnil, List.append_nil] at this; exact this.symm
          rw [rTrm_flat, hin.1, htail, e1, e2.1, List.append_assoc]
        · cases h

theorem pr_all (g : Gram) : ∀ n, PR g n
  | 0 => ⟨fun _ _ _ h => by simp [pFac] at h, fun _ _ _ h => by simp [pChain] at h, fun _ _ _ h => by simp [pForm] at h⟩
  | n + 1 => pr_step g n (pr_all g n)

end MechVerif.Formula
